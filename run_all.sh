#!/bin/bash
# convenience: run every check's quick (or $1) tier, print one line each
tier=${1:-quick}
for i in $(seq -w 1 20); do
  out=$(./check C$i --tier $tier 2>&1); rc=$?
  echo "C$i rc=$rc $(echo "$out" | tail -1 | cut -c1-220)"
done
