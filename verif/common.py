"""Helpers shared by the property slices: run impl and model on the same inputs, compare projections."""
from __future__ import annotations

import os
from concurrent.futures import ProcessPoolExecutor

from . import driver, gen, impl
from . import framework as fw


def run_charts(cases):
    """cases: list of (text, want). Returns (impl dumps, model dumps)."""
    a = [impl.run_chart(t, w) for t, w in cases]
    b = driver.run_parallel([f"chart {driver.cps(t)} {driver.want_tok(w)}" for t, w in cases])
    return a, b


def status(d: dict) -> str:
    return "OK" if d["err"] is None else d["err"]


def three(d: dict) -> str:
    """returned / documented error / anything else"""
    if d["err"] is None:
        return "OK"
    return "documented" if d["err"] in ("E ValueError", "E RegexNotMatchError", "E MissingRequiredField") else d["err"]


def all_events(d: dict):
    """(kind, tick, ts, idx) of every event that carries a tempo-map timestamp"""
    out = []
    for i, (t, _, ts) in enumerate(d.get("bpm", [])):
        out.append(("B", t, ts, i))
    for t, u, l, ts, idx in d.get("ts", []):
        out.append(("TS", t, ts, idx))
    for k in ("TX", "SE", "LY"):
        for t, ts, idx, _ in d.get(k, []):
            out.append((k, t, ts, idx))
    for key, tr in sorted(d["tracks"].items()):
        for n in tr.get("notes", []):
            out.append(("N", n["tick"], n["ts"], n["idx"]))
        for t, ln, ts, idx in tr.get("sps", []):
            out.append(("SP", t, ts, idx))
        for t, ts, idx, _ in tr.get("tes", []):
            out.append(("TE", t, ts, idx))
    return out


def framing_proj(dump: str):
    """what framing / routing / dispatch decide — no timestamps, tempo indices, sustain shapes, HOPO or star-power values:
    those are other properties' observables and must not raise an alarm here"""
    d = gen.parse_dump(dump)
    if d["err"] is not None:
        return d["err"]
    tr = {}
    for k, v in sorted(d["tracks"].items()):
        tr[k] = (v["label"], [(n["tick"], n["lanes"]) for n in v.get("notes", [])], [(a, b) for a, b, *_ in v.get("sps", [])],
                 [(e[0], e[3]) for e in v.get("tes", [])])
    return ("OK", d.get("meta"), [(t, r) for t, r, _ in d.get("bpm", [])], [e[:3] for e in d.get("ts", [])], d.get("anchor"),
            [(e[0], e[3]) for e in d.get("TX", [])], [(e[0], e[3]) for e in d.get("SE", [])], [(e[0], e[3]) for e in d.get("LY", [])],
            tr, d.get("unparsable"), d.get("unhandled"))


def parallel(ctx: fw.Ctx, fn, chunks):
    """run fn(ctx-like args) over chunks in worker processes (thorough tier); sequential in quick tier"""
    if ctx.tier == "quick" or len(chunks) <= 1:
        return [fn(c) for c in chunks]
    with ProcessPoolExecutor(min(ctx.jobs, len(chunks))) as ex:
        return list(ex.map(fn, chunks))


def chart_replay(text: str, want=None) -> dict:
    return {"op": "chart", "text": text, "want": want}


def short(s: str, n=300) -> str:
    return s if len(s) <= n else s[:n] + "…"
