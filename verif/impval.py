"""The imperative embedding (`lean/Chartparse/Model/Imp.lean`) against CPython, on the functions the translator dumped.

For every translated loop / glue function the real function of /repo is called on generated arguments while recorders around the
functions *it* calls log (name, arguments, result or exception). The same arguments and the log go to the Lean driver (`imp <name> …`),
where `Imp.exec` runs the dumped term with the log as the meaning of external calls. Results must agree: same value (objects
compared through their fields, enum members through name and value) or same exception class.

This validates, on every run of a property that relies on such a tie, what the tie theorems trust: the translator's reading of the
syntax and the evaluator's reading of Python — argument order, truthiness, negative indexing, slices, `for`/`break`/`else`,
`while`, leaking loop variables, `UnboundLocalError`, `try`/`except`. A disagreement is a correspondence mismatch of the property.
"""
from __future__ import annotations

import contextlib
import dataclasses
import enum
import random
from datetime import timedelta
from fractions import Fraction

from . import driver
from . import framework as fw

US = timedelta(microseconds=1)


class Unserialisable(Exception):
    pass


def cps(s: str) -> str:
    return ",".join(str(ord(c)) for c in s) if s else "-"


def ser(v, depth=0) -> str:
    if depth > 12:
        raise Unserialisable("depth")
    if isinstance(v, bool):
        return f"B {int(v)}"
    if isinstance(v, enum.Enum):
        return f"O {type(v).__name__} 2 name S {cps(v.name)} value {ser(v.value, depth + 1)}"
    if isinstance(v, int):
        return f"I {v}"
    if v is None:
        return "N"
    if isinstance(v, str):
        return f"S {cps(v)}"
    if isinstance(v, timedelta):
        return f"T {v // US}"
    if isinstance(v, float):
        f = Fraction(v)
        return f"O float 2 num I {f.numerator} den I {f.denominator}"
    if isinstance(v, list):
        return f"L {len(v)}" + "".join(" " + ser(x, depth + 1) for x in v)
    if isinstance(v, tuple):
        return f"U {len(v)}" + "".join(" " + ser(x, depth + 1) for x in v)
    if isinstance(v, dict):
        return f"D {len(v)}" + "".join(" " + ser(k, depth + 1) + " " + ser(x, depth + 1) for k, x in v.items())
    if isinstance(v, type):
        return f"O type:{v.__qualname__} 0"
    import io as _io
    if isinstance(v, _io.StringIO):
        return f"O StringIO 1 value S {cps(v.getvalue())}"
    if dataclasses.is_dataclass(v):
        import re
        fs = [f for f in dataclasses.fields(v) if not isinstance(getattr(v, f.name), re.Pattern)]  # compiled patterns are class furniture, not data
        sized = hasattr(type(v), "__len__") or hasattr(type(v), "__bool__")
        name = ("sized:" if sized else "") + type(v).__name__
        items = [(f.name, getattr(v, f.name)) for f in fs]
        import functools
        for k, a in vars(type(v)).items():   # derived attributes that are read like fields (`track.last_note_end_timestamp`)
            if isinstance(a, functools.cached_property):
                try:
                    items.append((k, getattr(v, k)))
                except Exception:  # noqa: BLE001
                    pass
        return f"O {name} {len(items)}" + "".join(f" {k} {ser(x, depth + 1)}" for k, x in items)
    if type(v).__name__ == "ParsedDataMap" and type(v).__module__.startswith("chartparse"):
        # the map of lists as the embedding holds it: (key, list) pairs in insertion order; an entry with an empty list is an absent key
        # (reading a missing key through `__getitem__` leaves such an entry behind — the embedding's values do not change when read)
        return ser([(k, list(x)) for k, x in v._dict.items() if len(x)], depth)
    if hasattr(v, "__dict__") and type(v).__module__.startswith("chartparse"):
        items = [(k, x) for k, x in vars(v).items() if not k.startswith("__")]
        return f"O {type(v).__name__} {len(items)}" + "".join(f" {k} {ser(x, depth + 1)}" for k, x in items)
    raise Unserialisable(type(v).__name__)


def err_tok(ex: BaseException) -> str:
    n = type(ex).__name__
    return n if n in ("ValueError", "RegexNotMatchError", "MissingRequiredField") else "internal:" + n


def show_result(fn, *a, **kw) -> str:
    try:
        return "R " + ser(fn(*a, **kw))
    except Unserialisable:
        raise
    except Exception as ex:  # noqa: BLE001
        t = err_tok(ex)
        return "E " + t


class Recorder:
    """wraps attributes of classes / modules; logs `(ext name, args, outcome)` for each call made while active"""

    def __init__(self):
        self.log = []
        self.ok = True

    @contextlib.contextmanager
    def patch(self, owner, attr, name, pick):
        """`pick(args, kwargs) -> list of argument values` in the order the dumped call passes them"""
        import inspect
        own = attr in owner.__dict__
        raw = inspect.getattr_static(owner, attr)
        fn = raw.__func__ if isinstance(raw, (classmethod, staticmethod)) else raw
        rec = self

        def wrapper(*a, **kw):
            try:
                args = [ser(x) for x in pick(a, kw)]
            except Exception:  # noqa: BLE001  unserialisable, or the callee is no longer called in the form the picker expects: no record,
                rec.ok = False     # and above all no exception of the recorder's own inside the code under test
                return fn(*a, **kw)
            try:
                r = fn(*a, **kw)
            except Exception as ex:  # noqa: BLE001
                rec.log.append(f"{name} {len(args)} " + " ".join(args) + f" E {err_tok(ex)}")
                raise
            try:
                rec.log.append(f"{name} {len(args)} " + " ".join(args) + f" R {ser(r)}")
            except Unserialisable:
                rec.ok = False
            return r
        new = classmethod(wrapper) if isinstance(raw, classmethod) else staticmethod(wrapper) if isinstance(raw, staticmethod) else wrapper
        setattr(owner, attr, new)
        try:
            yield
        finally:
            if own:
                setattr(owner, attr, raw)
            else:
                delattr(owner, attr)


def request(name: str, args: list, log: list, fuel: int = 10**7) -> str:
    seen, table = set(), []
    for e in log:  # one entry per (name, args): the callees are functions of their arguments
        key = e.rsplit(" R ", 1)[0] if " R " in e else e.rsplit(" E ", 1)[0]
        if key not in seen:
            seen.add(key)
            table.append(e)
    return f"imp {name} {fuel} {len(args)} " + " ".join(ser(a) for a in args) + f" {len(table)}" + ("".join(" " + e for e in table))


# ------------------------------------------------------------------------------------------------ case generators
def _bpm_events(rng):
    from .props import C01
    while True:
        res, tempo = C01.rand_map(rng, rng.choice([1, 2, 4]))
        try:
            return C01.build_bpm_events(res, tempo), res, tempo
        except Exception:  # noqa: BLE001
            continue


def cases_star_power(rng, n):
    from chartparse.instrument import NoteEvent, SpecialEvent, StarPowerEvent
    out = []
    for _ in range(n):
        k = rng.choice([0, 0, 1, 2, 3, 5])
        sps, t = [], 0
        for _ in range(k):
            t += rng.choice([0, 1, 5, 50])
            sps.append(StarPowerEvent(tick=t, timestamp=timedelta(microseconds=t * 10), sustain=rng.choice([0, 1, 5, 60]), _proximal_bpm_event_index=0))
        tick = rng.choice([0, 1, 5, 6, 10, 55, 56, 110, rng.randint(0, 200)])
        start = rng.choice([0, 0, 0, 1, 2, k, k + 1, -1, max(0, k - 1)])
        rec = Recorder()
        with rec.patch(SpecialEvent, "tick_is_after_event", ".tick_is_after_event", lambda a, kw: [a[0], a[1] if len(a) > 1 else kw["tick"]]), \
                rec.patch(SpecialEvent, "tick_is_during_event", ".tick_is_during_event", lambda a, kw: [a[0], a[1] if len(a) > 1 else kw["tick"]]):
            real = show_result(NoteEvent._compute_star_power_data, tick, sps, proximal_star_power_event_index=start)
        if rec.ok:
            out.append((request("computeStarPowerData", [tick, sps, start], rec.log), real, "computeStarPowerData"))
    return out


def cases_build_notes(rng, n):
    from chartparse.instrument import InstrumentTrack, NoteEvent, StarPowerEvent
    out = []
    for _ in range(n):
        be, res, tempo = _bpm_events(rng)
        lines, t = [], 0
        for _ in range(rng.choice([0, 1, 2, 4, 7])):
            t += rng.choice([0, 0, 1, res, rng.randint(1, 300)])
            for _ in range(rng.choice([1, 1, 2, 3])):
                lines.append(f"  {t} = N {rng.choice([0, 1, 2, 3, 4, 4, 5, 6, 7])} {rng.choice([0, 0, 10, 96])}")
        if rng.random() < 0.15 and lines:
            rng.shuffle(lines)  # ticks out of order: blocks are runs of *adjacent* equal ticks
        datas = [NoteEvent.ParsedData.from_chart_line(l) for l in lines]
        sps = [StarPowerEvent(tick=x, timestamp=timedelta(0), sustain=rng.choice([0, 10, 500]), _proximal_bpm_event_index=0)
               for x in sorted(rng.sample(range(0, 600), rng.choice([0, 0, 1, 2])))]
        rec = Recorder()

        def pick(a, kw):
            # (cls, datas, prev_event, star_power_events, bpm_events, proximal_bpm_event_index, star_power_event_index)
            names = ["datas", "prev_event", "star_power_events", "bpm_events", "proximal_bpm_event_index", "star_power_event_index"]
            vals = dict(zip(names, a[1:]))
            vals.update(kw)
            return [vals[k] for k in names]
        with rec.patch(NoteEvent, "from_parsed_data", "NoteEvent.from_parsed_data(proximal_bpm_event_index=,star_power_event_index=)", pick):
            real = show_result(InstrumentTrack._build_note_events_from_data, datas, sps, be)
        if rec.ok:
            out.append((request("buildNoteEvents", [InstrumentTrack, datas, sps, be], rec.log), real, "buildNoteEvents"))
    return out


def cases_data_to_events(rng, n):
    import chartparse.track
    from chartparse.globalevents import LyricEvent, SectionEvent, TextEvent
    from chartparse.instrument import StarPowerEvent, TrackEvent
    from chartparse.sync import TimeSignatureEvent
    out = []
    for _ in range(n):
        be, res, tempo = _bpm_events(rng)
        ty = rng.choice([TextEvent, SectionEvent, LyricEvent, StarPowerEvent, TrackEvent, TimeSignatureEvent])
        lines, t = [], 0
        for _ in range(rng.choice([0, 1, 2, 5])):
            t += rng.choice([0, 1, res, rng.randint(1, 300)])
            tk = t if rng.random() < 0.9 else max(0, t - rng.randint(1, 400))  # sometimes out of order (a hint that must be refused)
            if ty is TextEvent:
                lines.append(f'  {tk} = E "x{tk}"')
            elif ty is SectionEvent:
                lines.append(f'  {tk} = E "section s{tk}"')
            elif ty is LyricEvent:
                lines.append(f'  {tk} = E "lyric l{tk}"')
            elif ty is StarPowerEvent:
                lines.append(f"  {tk} = S 2 {rng.choice([0, 5, 100])}")
            elif ty is TrackEvent:
                lines.append(f"  {tk} = E solo")
            else:
                lines.append(f"  {tk} = TS {rng.choice([3, 4, 6])}" + rng.choice(["", " 3"]))
        datas = [ty.ParsedData.from_chart_line(l) for l in lines]
        rec = Recorder()
        with rec.patch(ty, "from_parsed_data", ".from_parsed_data", lambda a, kw: [a[0], a[1], a[2], a[3]]):
            real = show_result(chartparse.track.build_events_from_data, ty, datas, be)
        if rec.ok:
            out.append((request("dataToEvents", [ty, datas, be], rec.log), real, "dataToEvents"))
    return out


def cases_post_init(rng, n):
    """the two validators, on objects built without validation (`object.__new__` + field assignment) so that every branch is met"""
    from chartparse.sync import BPMEvent, BPMEvents, SyncTrack, TimeSignatureEvent
    out = []
    for _ in range(n):
        evs = [BPMEvent(tick=t, timestamp=timedelta(0), bpm=120.0, _proximal_bpm_event_index=i) for i, t in
               enumerate(sorted(rng.sample(range(0, 50), rng.choice([0, 1, 2]))) if rng.random() < 0.7 else [0, 5])]
        be = object.__new__(BPMEvents)
        object.__setattr__(be, "events", evs)
        object.__setattr__(be, "resolution", rng.choice([0, -1, 1, 192]))
        try:
            out.append((request("bpmEventsPostInit", [be], []), show_result(BPMEvents.__post_init__, be), "bpmEventsPostInit"))
        except Unserialisable:
            pass
        tss = [TimeSignatureEvent(tick=t, timestamp=timedelta(0), upper_numeral=4, lower_numeral=4, _proximal_bpm_event_index=0)
               for t in (sorted(rng.sample(range(0, 9), rng.choice([0, 1, 2]))) if rng.random() < 0.7 else [0, 3])]
        st = object.__new__(SyncTrack)
        object.__setattr__(st, "time_signature_events", tss)
        object.__setattr__(st, "bpm_events", None)
        object.__setattr__(st, "anchor_events", [])
        try:
            out.append((request("syncPostInit", [st], []), show_result(SyncTrack.__post_init__, st), "syncPostInit"))
        except Unserialisable:
            pass
    return out


def _note_lines(rng, res, k=None):
    lines, t = [], 0
    for _ in range(k if k is not None else rng.choice([1, 1, 2, 4])):
        t += rng.choice([0, 1, res, rng.randint(1, 300)])
        for _ in range(rng.choice([1, 1, 2, 3])):
            lines.append(f"  {t} = N {rng.choice([0, 1, 2, 3, 4, 4, 5, 6, 7])} {rng.choice([0, 0, 10, 96])}")
    return lines


def cases_note_lanes(rng, n):
    """`Note.from_parsed_datas`; the enum look-up `cls(tuple)` is answered from a table of all 32 members (and refused otherwise)"""
    import itertools
    from chartparse.instrument import Note, NoteEvent
    table = [f"() 2 {ser(Note)} {ser(t)} R {ser(Note(t))}" for t in itertools.product((0, 1), repeat=5)]
    out = []
    for _ in range(n):
        datas = [NoteEvent.ParsedData.from_chart_line(l) for l in _note_lines(rng, 192, 1)]
        if rng.random() < 0.1:
            datas = []
        out.append((request("noteFromParsedDatas", [Note, datas], table), show_result(Note.from_parsed_datas, datas), "noteFromParsedDatas"))
    return out


def cases_sustain(rng, n):
    import chartparse.instrument as inst
    from chartparse.instrument import NoteEvent, NoteTrackIndex
    out = []
    five = [f".is_5_note 1 {ser(m)} R {ser(m.is_5_note())}" for m in NoteTrackIndex if isinstance(m.value, int)]
    for _ in range(n):
        # _longest_sustain / _refined_sustain_tuple on ints and 5-tuples of optional lengths
        tup = tuple(rng.choice([None, None, 0, 5, 5, 96, rng.randint(0, 10**6)]) for _ in range(5))
        sus = rng.choice([tup, tup, rng.randint(0, 10**6), 0, True])
        out.append((request("longestSustain", [sus], []), show_result(NoteEvent._longest_sustain, sus), "longestSustain"))
        fn = getattr(inst._refined_sustain_tuple, "__wrapped__", inst._refined_sustain_tuple)
        out.append((request("refinedSustainTuple", [tup], []), show_result(fn, tup), "refinedSustainTuple"))
        # complex_sustain_from_parsed_datas: the refinement is an external call (recorded)
        datas = [NoteEvent.ParsedData.from_chart_line(l) for l in _note_lines(rng, 192, 1)]
        if rng.random() < 0.08:
            datas = []
        rec = Recorder()
        raw = inst._refined_sustain_tuple

        def wrapped(t, _raw=raw, _rec=rec):
            r = _raw(t)
            _rec.log.append(f"_refined_sustain_tuple 1 {ser(t)} R {ser(r)}")
            return r
        inst._refined_sustain_tuple = wrapped
        try:
            real = show_result(inst.complex_sustain_from_parsed_datas, datas)
        finally:
            inst._refined_sustain_tuple = raw
        out.append((request("complexSustain", [datas], five + rec.log), real, "complexSustain"))
    return out


def cases_dispatch(rng, n):
    import chartparse.track
    from chartparse.instrument import NoteEvent, StarPowerEvent, TrackEvent
    from chartparse.sync import AnchorEvent, BPMEvent, TimeSignatureEvent
    out = []
    pools = [(NoteEvent.ParsedData, StarPowerEvent.ParsedData, TrackEvent.ParsedData), (BPMEvent.ParsedData, TimeSignatureEvent.ParsedData, AnchorEvent.ParsedData)]
    lines_pool = ["  0 = N 0 0", "  5 = N 7 10", "  5 = S 2 9", "  7 = E solo", "garbage", "  0 = B 120000", "  0 = TS 4", "  3 = TS 6 3", "  9 = A 55", "",
                  "  8 = S 64 1", "  1 = N 8 0", "  2 = E a b"]
    for _ in range(n):
        types = list(rng.choice(pools))
        if rng.random() < 0.3:
            rng.shuffle(types)
        if rng.random() < 0.1:
            types = types[: rng.randint(0, 2)]
        lines = [rng.choice(lines_pool) for _ in range(rng.choice([0, 1, 3, 6]))]
        rec = Recorder()
        with contextlib.ExitStack() as st:
            for t in set(types):
                st.enter_context(rec.patch(t, "from_chart_line", ".from_chart_line", lambda a, kw: [a[0], a[1]]))

            def real_call():
                m = chartparse.track.parse_data_from_chart_lines(tuple(types), list(lines))
                return [(k, list(v)) for k, v in m._dict.items()]
            real = show_result(real_call)
        if rec.ok:
            out.append((request("parseDataFromChartLines", [tuple(types), lines], rec.log), real, "parseDataFromChartLines"))
    return out


def cases_note_event(rng, n):
    """`NoteEvent.from_parsed_data`: everything it calls is recorded; the dataclass constructor's entry is read off the built event"""
    import chartparse.instrument as inst
    from chartparse.instrument import Note, NoteEvent, StarPowerEvent
    from chartparse.sync import BPMEvents
    out = []
    for _ in range(n):
        be, res, tempo = _bpm_events(rng)
        datas = [NoteEvent.ParsedData.from_chart_line(l) for l in _note_lines(rng, res, 1)]
        sps = [StarPowerEvent(tick=x, timestamp=timedelta(0), sustain=rng.choice([0, 10, 500]), _proximal_bpm_event_index=0)
               for x in sorted(rng.sample(range(0, 600), rng.choice([0, 0, 1, 2])))]
        prev = None
        if rng.random() < 0.6:
            try:
                prev = NoteEvent.from_parsed_data([NoteEvent.ParsedData.from_chart_line(f"  0 = N {rng.randint(0, 4)} 0")], None, sps, be)[0]
            except Exception:  # noqa: BLE001
                prev = None
        pbi, spi = rng.choice([0, 0, 0, 1, len(be.events)]), rng.choice([0, 0, 1, len(sps)])
        rec = Recorder()
        raw_cs = inst.complex_sustain_from_parsed_datas

        def cs(d, _raw=raw_cs, _rec=rec):
            try:
                r = _raw(d)
            except Exception as ex:  # noqa: BLE001
                _rec.log.append(f"complex_sustain_from_parsed_datas 1 {ser(d)} E {err_tok(ex)}")
                raise
            _rec.log.append(f"complex_sustain_from_parsed_datas 1 {ser(d)} R {ser(r)}")
            return r
        inst.complex_sustain_from_parsed_datas = cs
        try:
            with rec.patch(Note, "from_parsed_datas", "Note.from_parsed_datas", lambda a, kw: [a[1]]), \
                    rec.patch(BPMEvents, "timestamp_at_tick", ".timestamp_at_tick(start_iteration_index=)", lambda a, kw: [a[0], a[1], kw["start_iteration_index"]]), \
                    rec.patch(NoteEvent, "_compute_hopo_state", "NoteEvent._compute_hopo_state", lambda a, kw: list(a)), \
                    rec.patch(NoteEvent, "_compute_star_power_data", "NoteEvent._compute_star_power_data(proximal_star_power_event_index=)",
                              lambda a, kw: [a[0], a[1], kw["proximal_star_power_event_index"]]), \
                    rec.patch(NoteEvent, "_longest_sustain", "._longest_sustain", lambda a, kw: [NoteEvent, a[0]]), \
                    rec.patch(NoteEvent, "_end_tick", "._end_tick", lambda a, kw: [NoteEvent, a[0], a[1]]):
                try:
                    r = NoteEvent.from_parsed_data(datas, prev, sps, be, pbi, spi)
                    real = "R " + ser(r)
                    ev = r[0]
                    ctor = [NoteEvent, ev.tick, ev.timestamp, ev.end_timestamp, ev.note, ev.hopo_state, ev.sustain, ev.star_power_data, ev._proximal_bpm_event_index]
                    rec.log.append("()(tick=,timestamp=,end_timestamp=,note=,hopo_state=,sustain=,star_power_data=,_proximal_bpm_event_index=) 9 "
                                   + " ".join(ser(x) for x in ctor) + " R " + ser(ev))
                except Unserialisable:
                    continue
                except Exception as ex:  # noqa: BLE001
                    real = "E " + err_tok(ex)
        finally:
            inst.complex_sustain_from_parsed_datas = raw_cs
        if rec.ok:
            out.append((request("noteFromParsedData", [NoteEvent, datas, prev, sps, be, pbi, spi], rec.log), real, "noteFromParsedData"))
    return out


def cases_last_end(rng, n):
    from chartparse.instrument import InstrumentTrack
    from .props import C05
    out = []
    for _ in range(n):
        be, res, tempo = _bpm_events(rng)
        lines = _note_lines(rng, res, rng.choice([0, 1, 3, 5]))
        try:
            from chartparse.instrument import Difficulty, Instrument
            tr = InstrumentTrack.from_chart_lines(Instrument.GUITAR, Difficulty.EXPERT, lines, be)
        except Exception:  # noqa: BLE001
            continue
        if tr is None:
            continue
        try:
            req = request("lastNoteEndTimestamp", [tr], [])
        except Unserialisable:
            continue
        out.append((req, show_result(lambda t: type(t).last_note_end_timestamp.func(t), tr), "lastNoteEndTimestamp"))
    return out


def cases_scanner(rng, n):
    """`Chart._partition_lines_by_data_section`: the header recogniser's answers are tabulated for the lines of the input, `islice` is
    recorded (and made a list)"""
    import itertools
    import types

    import chartparse.chart as cc
    from chartparse.chart import Chart
    out = []
    atoms = ["[Song]", "[SyncTrack]", "[ExpertSingle]", "[x]", "[a]b]", "{", "}", "  {", "} ", "  0 = N 0 0", "junk", "", "[]", "[", "Resolution = 1", "[Song]", "{", "}"]
    for _ in range(n):
        lines = [rng.choice(atoms) for _ in range(rng.choice([0, 1, 3, 6, 10, 14]))]
        if rng.random() < 0.5:  # mostly well-framed inputs
            lines = []
            for _ in range(rng.randint(0, 4)):
                lines += [rng.choice(["[Song]", "[SyncTrack]", "[x y]", "[ExpertSingle]"])] + ([] if rng.random() < 0.1 else ["{"]) + \
                         [rng.choice(atoms[7:15]) for _ in range(rng.randint(0, 3))] + ([] if rng.random() < 0.1 else ["}"])
        table = []
        for l in dict.fromkeys(lines):
            m = Chart._header_tag_regex_prog.match(l)
            mo = "N" if m is None else f"O Match 1 g1 {ser(m.group(1))}"
            table.append(f"Chart._header_tag_regex_prog.match 1 {ser(l)} R {mo}")
            if m is not None:
                table.append(f".group 2 {mo} I 1 R {ser(m.group(1))}")
        log = []

        def islice(seq, a, b, _log=log):
            r = list(itertools.islice(seq, a, b))
            _log.append(f"itertools.islice 3 {ser(list(seq))} {ser(a)} {ser(b)} R {ser(r)}")
            return r
        shim = types.SimpleNamespace(**{k: getattr(itertools, k) for k in dir(itertools) if not k.startswith("_")})
        shim.islice = islice
        raw = cc.itertools
        cc.itertools = shim
        try:
            real = show_result(lambda: {k: list(v) for k, v in Chart._partition_lines_by_data_section(lines).items()})
        finally:
            cc.itertools = raw
        out.append((request("partitionLines", [Chart, lines], table + log), real, "partitionLines"))
    return out


def cases_rate(rng, n):
    """`Chart.notes_per_second`: the two tick-to-time queries and the final rate computation are recorded"""
    import io

    from chartparse.chart import Chart
    from chartparse.instrument import Difficulty, Instrument
    from chartparse.sync import BPMEvents
    out = []
    ins, dif = list(Instrument), list(Difficulty)
    for _ in range(n):
        res = rng.choice([192, 100, 480])
        notes = "".join(f"  {t} = N {rng.randint(0, 4)} {rng.choice([0, 0, 50])}\n" for t in sorted(rng.sample(range(0, 2000), rng.choice([0, 1, 3, 5]))))
        text = (f"[Song]\n{{\n  Resolution = {res}\n}}\n[SyncTrack]\n{{\n  0 = TS 4\n  0 = B 120000\n  {rng.randint(1, 900)} = B {rng.choice([60000, 150000])}\n}}\n"
                f"[Events]\n{{\n}}\n[ExpertSingle]\n{{\n{notes}}}\n" + ("[HardDrums]\n{\n}\n" if rng.random() < 0.3 else ""))
        try:
            c = Chart.from_file(io.StringIO(text))
        except Exception:  # noqa: BLE001
            continue
        i = rng.choice([Instrument.GUITAR] * 8 + [Instrument.DRUMS, Instrument.BASS])
        d = rng.choice([Difficulty.EXPERT] * 8 + [Difficulty.HARD])
        form = rng.choice(["none", "tick", "ticks", "time", "times", "endtick", "mixed", "neg"])
        a = rng.randint(0, 500)
        b = a + rng.choice([0, rng.randint(1, 2500)])
        ta = timedelta(microseconds=rng.randint(0, 10**6))
        tb = ta + timedelta(microseconds=rng.choice([0, rng.randint(1, 5 * 10**6)]))
        start, end = {"none": (None, None), "tick": (a, None), "ticks": (a, b), "time": (ta, None), "times": (ta, tb), "endtick": (None, b),
                      "mixed": (a, tb), "neg": (-5, None)}[form]
        rec = Recorder()
        with rec.patch(BPMEvents, "timestamp_at_tick_no_optimize_return", ".timestamp_at_tick_no_optimize_return", lambda a_, kw: [a_[0], a_[1]]), \
                rec.patch(Chart, "_notes_per_second", "._notes_per_second", lambda a_, kw, _c=c: [_c] + list(a_)):
            real = show_result(c.notes_per_second, i, d, start, end)
        if rec.ok:
            try:
                out.append((request("notesPerSecond", [c, i, d, start, end], rec.log), real, "notesPerSecond"))
            except Unserialisable:
                pass
    return out


def cases_field(rng, n):
    """`Metadata.from_chart_lines.parse_all_lines_for_field` (a nested function: rebuilt from its code object with `lines` in its
    closure cell); the table look-up, the recogniser, the match object and the processing function are tabulated for the input"""
    import types

    import chartparse.metadata as cm
    outer = cm.Metadata.from_chart_lines.__func__
    code = next(c for c in outer.__code__.co_consts if isinstance(c, types.CodeType) and c.co_name == "parse_all_lines_for_field")
    fields = list(cm._field_parsing_specs)
    pool = ['  Resolution = 192', '  Name = "a b"', '  Name = "second"', '  Offset = 5', '  Player2 = bass', 'junk', '', '  Resolution = 7', '  Year = ", 2018"',
            '  Difficulty = 4', '  Genre = "rock"', '  Name = x', '  Player2 = drums', '  Offset = x']
    out = []
    for _ in range(n):
        field = rng.choice(fields[:6] + [rng.choice(fields)])
        lines = [rng.choice(pool) for _ in range(rng.choice([0, 1, 3, 6]))]
        spec = cm._field_parsing_specs[field]
        so = f"O Spec 1 regex_prog O Pattern 1 field {ser(field)}"
        table = [f"_field_parsing_specs[] 1 {ser(field)} R {so}"]
        for l in dict.fromkeys(lines):
            m = spec.regex_prog.match(l)
            mo = "N" if m is None else f"O Match 1 g1 {ser(m.group(1))}"
            table.append(f".match 2 O Pattern 1 field {ser(field)} {ser(l)} R {mo}")
            if m is not None:
                table.append(f".group 2 {mo} I 1 R {ser(m.group(1))}")
                try:
                    table.append(f".processing_fn 2 {so} {ser(m.group(1))} R {ser(spec.processing_fn(m.group(1)))}")
                except Unserialisable:
                    raise
                except Exception as ex:  # noqa: BLE001
                    table.append(f".processing_fn 2 {so} {ser(m.group(1))} E {err_tok(ex)}")
        cell_vars = {"lines": lines}
        fn = types.FunctionType(code, outer.__globals__, "parse_all_lines_for_field", None, tuple(types.CellType(cell_vars[v]) for v in code.co_freevars))
        out.append((request("parseAllLinesForField", [field, lines], table), show_result(fn, field), "parseAllLinesForField"))
    return out


def cases_from_file(rng, n):
    """`Chart.from_file`: the scanner (its `islice` bodies made lists), the four section parsers and the constructor are recorded; the
    file object is a value holding its text, `.read` / `.splitlines` are tabulated"""
    import io
    import itertools
    import types

    import chartparse.chart as cc
    from chartparse.chart import Chart
    from chartparse.globalevents import GlobalEventsTrack
    from chartparse.instrument import Difficulty, Instrument, InstrumentTrack
    from chartparse.metadata import Metadata
    from chartparse.sync import SyncTrack

    from . import gen
    out = []
    prof = gen.Profile(max_tracks=3, max_groups=3, max_events=2, max_tempo=2, meta_fields=0.1, unknown_sections=0.4, garbage=0.05)
    ins, dif = list(Instrument), list(Difficulty)
    for k_ in range(min(max(8, n // 2), 1500)):
        src = gen.rand_src(rng, prof)
        text = gen.render(src, rng, prof).text
        r = rng.random()
        if r < 0.15:
            # a required section missing, a section written twice, a broken sync section
            text = text.replace(rng.choice(["[Events]", "[SyncTrack]", "[Song]"]), "[Other]", 1)
        elif r < 0.25:
            text = text.replace("0 = B ", "1 = B ", 1)
        have = [(t.inst, t.diff) for t in src.tracks]
        want = rng.choice([None, None, [], have[:1], have[1:], have[::-1] + [(rng.randrange(10), rng.randrange(4))], [(rng.randrange(10), rng.randrange(4))]])
        want_arg = None if want is None else rng.choice([list, tuple])((ins[i], dif[d]) for i, d in want)
        shim = types.SimpleNamespace(**{k: getattr(itertools, k) for k in dir(itertools) if not k.startswith("_")})
        shim.islice = lambda seq, a, b: list(itertools.islice(seq, a, b))
        rec = Recorder()
        fp = io.StringIO(text)
        raw = cc.itertools
        cc.itertools = shim
        made = []
        init = Chart.__init__

        def __init__(self, *a, _init=init, _made=made, **kw):
            _init(self, *a, **kw)
            _made.append((a, self))
        Chart.__init__ = __init__
        try:
            with rec.patch(Chart, "_partition_lines_by_data_section", "._partition_lines_by_data_section", lambda a, kw: [a[0], a[1]]), \
                    rec.patch(Metadata, "from_chart_lines", "Metadata.from_chart_lines", lambda a, kw: [a[1]]), \
                    rec.patch(SyncTrack, "from_chart_lines", "SyncTrack.from_chart_lines", lambda a, kw: [a[1], a[2]]), \
                    rec.patch(GlobalEventsTrack, "from_chart_lines", "GlobalEventsTrack.from_chart_lines", lambda a, kw: [a[1], a[2]]), \
                    rec.patch(InstrumentTrack, "from_chart_lines", "InstrumentTrack.from_chart_lines", lambda a, kw: [a[1], a[2], a[3], a[4]]):
                real = show_result(Chart.from_file, fp, want_tracks=want_arg)
        except Unserialisable:
            continue
        finally:
            cc.itertools = raw
            Chart.__init__ = init
        if not rec.ok:
            continue
        table = [f".read 1 {ser(io.StringIO(text))} R {ser(text)}", f".splitlines 1 {ser(text)} R {ser(text.splitlines())}"]
        try:
            for a, c in made:
                table.append(f"() 5 {ser(Chart)} " + " ".join(ser(x) for x in a) + f" R {ser(c)}")
        except Unserialisable:
            continue
        out.append((request("fromFile", [Chart, io.StringIO(text), want_arg], table + rec.log), real, "fromFile"))
    return out


def cases_tracks(rng, n):
    """the three section parsers: the dispatcher, the builder calls (event class, data, tempo events / resolution) and the note builder are
    recorded; the constructor's entry is written from the object that came back"""
    import chartparse.track as ct
    from chartparse.globalevents import GlobalEventsTrack
    from chartparse.instrument import Difficulty, Instrument, InstrumentTrack
    from chartparse.sync import SyncTrack

    from . import gen
    out = []
    prof = gen.Profile(max_tracks=2, max_groups=4, max_events=3, max_tempo=3, garbage=0.1, unknown_sections=0.0)
    ins, dif = list(Instrument), list(Difficulty)

    def pick_be(a, kw):
        return list(a)
    BE_ = "chartparse.track.build_events_from_data"

    def run(name, owner, call, args, ctor_name, fields, ctor_sources=()):
        rec = Recorder()
        with rec.patch(owner, "_parse_data_from_chart_lines", "._parse_data_from_chart_lines", lambda a, kw: [a[0], a[1]]), \
                rec.patch(ct, "build_events_from_data", "chartparse.track.build_events_from_data", pick_be):
            if owner is InstrumentTrack:
                with rec.patch(owner, "_build_note_events_from_data", "._build_note_events_from_data", lambda a, kw: list(a)):
                    obj, real = _call(call)
            else:
                obj, real = _call(call)
        if not rec.ok:
            return
        table = list(rec.log)
        if obj is not None:
            vals = [getattr(obj, f) for f in fields]
            table.append(f"{ctor_name} {len(vals) + 1} {ser(owner)} " + " ".join(ser(v) for v in vals) + f" R {ser(obj)}")
        elif table and all(" E " not in e.rsplit(" R ", 1)[0] and e.rsplit(" R ", 1)[-1] != e for e in table):
            # every recorded callee answered: the exception is the constructor's own (`__post_init__`); its arguments are the callees'
            # answers, found by the event class each builder call was given
            def answer(prefix):
                return next(e.rsplit(" R ", 1)[1] for e in table if e.startswith(prefix))
            try:
                vals = [answer(src_) if isinstance(src_, str) else ser(src_[0]) for src_ in ctor_sources]
            except StopIteration:
                return
            table.append(f"{ctor_name} {len(vals) + 1} {ser(owner)} " + " ".join(vals) + " " + real)
        out.append((request(name, args, table), real, name))

    def _call(f):
        try:
            o = f()
            return o, "R " + ser(o)
        except Unserialisable:
            raise
        except Exception as ex:  # noqa: BLE001
            return None, "E " + err_tok(ex)

    for _ in range(max(6, n // 6)):
        src = gen.rand_src(rng, prof)
        R = gen.render(src, rng, prof)
        secs = dict(R.sections)
        sync_lines = list(secs.get("SyncTrack", []))
        if rng.random() < 0.15 and sync_lines:
            rng.shuffle(sync_lines)
        res = src.res
        try:
            run("syncFromChartLines", SyncTrack, lambda: SyncTrack.from_chart_lines(res, sync_lines), [SyncTrack, res, sync_lines],
                "()(time_signature_events=,bpm_events=,anchor_events=)", ["time_signature_events", "bpm_events", "anchor_events"],
                [f"{BE_} 3 O type:TimeSignatureEvent 0 ", f"{BE_} 3 O type:BPMEvent 0 ", f"{BE_} 2 O type:AnchorEvent 0 "])
            st = SyncTrack.from_chart_lines(src.res, list(secs.get("SyncTrack", [])))
        except Unserialisable:
            continue
        except Exception:  # noqa: BLE001
            continue
        be = st.bpm_events
        ev_lines = list(secs.get("Events", []))
        try:
            run("globalEventsFromChartLines", GlobalEventsTrack, lambda: GlobalEventsTrack.from_chart_lines(ev_lines, be), [GlobalEventsTrack, ev_lines, be],
                "()(text_events=,section_events=,lyric_events=)", ["text_events", "section_events", "lyric_events"])
            for tag, body in R.sections:
                if tag in ("Song", "SyncTrack", "Events"):
                    continue
                i_, d_ = rng.choice(ins), rng.choice(dif)
                body = list(body)
                run("instrumentFromChartLines", InstrumentTrack, lambda: InstrumentTrack.from_chart_lines(i_, d_, body, be), [InstrumentTrack, i_, d_, body, be],
                    "()(instrument=,difficulty=,note_events=,star_power_events=,track_events=)",
                    ["instrument", "difficulty", "note_events", "star_power_events", "track_events"])
        except Unserialisable:
            continue
    return out


def cases_parse_data(rng, n):
    """the three `_parse_data_from_chart_lines`: the dispatcher call (types in their order, lines) and the map's `__getitem__` are recorded"""
    import chartparse.track as ct
    from chartparse.globalevents import GlobalEventsTrack
    from chartparse.instrument import InstrumentTrack
    from chartparse.sync import SyncTrack

    from . import gen
    out = []
    prof = gen.Profile(max_tracks=2, max_groups=4, max_events=3, max_tempo=3, garbage=0.2, unknown_sections=0.0)
    for _ in range(max(6, n // 6)):
        src = gen.rand_src(rng, prof)
        R = gen.render(src, rng, prof)
        for tag, body in R.sections:
            owner, name = {"SyncTrack": (SyncTrack, "syncParseData"), "Events": (GlobalEventsTrack, "globalEventsParseData"),
                           "Song": (None, None)}.get(tag, (InstrumentTrack, "instrumentParseData"))
            if owner is None:
                continue
            body = list(body)
            rng.shuffle(body) if rng.random() < 0.2 else None
            rec = Recorder()
            try:
                with rec.patch(ct, "parse_data_from_chart_lines", "chartparse.track.parse_data_from_chart_lines", lambda a, kw: [tuple(a[0]), a[1]]), \
                        rec.patch(ct.ParsedDataMap, "__getitem__", ".__getitem__", lambda a, kw: [a[0], a[1]]):
                    real = show_result(owner._parse_data_from_chart_lines, body)
            except Unserialisable:
                continue
            if rec.ok:
                out.append((request(name, [owner, body], rec.log), real, name))
    return out


def cases_build_events(rng, n):
    """`build_events_from_data`: the three `issubclass` answers are tabulated for the event class of the call; the nested builder the
    dispatch must reach is given the function's own result (the function returns that call's result)"""
    import chartparse.track as ct
    from chartparse.globalevents import GlobalEventsTrack, LyricEvent, SectionEvent, TextEvent
    from chartparse.instrument import InstrumentTrack, StarPowerEvent, TrackEvent
    from chartparse.sync import AnchorEvent, BPMEvent, SyncTrack, TimeSignatureEvent

    from . import gen
    out = []
    prof = gen.Profile(max_tracks=1, max_groups=3, max_events=3, max_tempo=3, garbage=0.0, unknown_sections=0.0)
    needing = "O type:<locals>.BPMNeedingEvent 0"
    for _ in range(max(6, n // 8)):
        src = gen.rand_src(rng, prof)
        R = gen.render(src, rng, prof)
        secs = dict(R.sections)
        try:
            ts_d, bpm_d, an_d = SyncTrack._parse_data_from_chart_lines(list(secs.get("SyncTrack", [])))
            be = ct.build_events_from_data(BPMEvent, bpm_d, src.res)
            tx_d, se_d, ly_d = GlobalEventsTrack._parse_data_from_chart_lines(list(secs.get("Events", [])))
        except Exception:  # noqa: BLE001
            continue
        calls = [(AnchorEvent, an_d, None), (BPMEvent, bpm_d, src.res), (BPMEvent, list(reversed(bpm_d)), src.res), (TimeSignatureEvent, ts_d, be),
                 (TextEvent, tx_d, be), (SectionEvent, se_d, be), (LyricEvent, ly_d, be)]
        for tag, body in R.sections:
            if tag not in ("Song", "SyncTrack", "Events"):
                _, sp_d, te_d = InstrumentTrack._parse_data_from_chart_lines(list(body))
                calls += [(StarPowerEvent, sp_d, be), (TrackEvent, te_d, be)]
        for et, datas, third in calls:
            datas = list(datas)
            try:
                real = show_result(ct.build_events_from_data, et, datas, third)
                a, b = issubclass(et, AnchorEvent), issubclass(et, BPMEvent)
                table = [f"issubclass 2 {ser(et)} {ser(AnchorEvent)} R {ser(a)}", f"issubclass 2 {ser(et)} {ser(BPMEvent)} R {ser(b)}",
                         f"issubclass 2 {ser(et)} {needing} R {ser(not a and not b)}"]
                if a:
                    table.append(f"data_to_anchor_events 1 {ser(datas)} {real}")
                elif b:
                    table.append(f"data_to_bpm_events 2 {ser(datas)} {ser(third)} {real}")
                else:
                    table.append(f"data_to_events 3 {ser(et)} {ser(datas)} {ser(third)} {real}")
                out.append((request("buildEventsFromData", [et, datas, third], table), real, "buildEventsFromData"))
            except Unserialisable:
                continue
    return out


def cases_stamp(rng, n):
    """the `from_parsed_data` of star-power phrases, track events, global events and anchors: the hinted query is recorded, the
    constructor's entry is written from the object that came back"""
    from chartparse.globalevents import GlobalEventsTrack, LyricEvent, SectionEvent, TextEvent
    from chartparse.instrument import InstrumentTrack, StarPowerEvent, TrackEvent
    from chartparse.sync import AnchorEvent, BPMEvents, SyncTrack

    from . import gen
    out = []
    prof = gen.Profile(max_tracks=1, max_groups=3, max_events=3, max_tempo=3, garbage=0.0, unknown_sections=0.0)
    for _ in range(max(6, n // 8)):
        src = gen.rand_src(rng, prof)
        R = gen.render(src, rng, prof)
        secs = dict(R.sections)
        try:
            st = SyncTrack.from_chart_lines(src.res, list(secs.get("SyncTrack", [])))
            _, _, an_d = SyncTrack._parse_data_from_chart_lines(list(secs.get("SyncTrack", [])))
            tx_d, se_d, ly_d = GlobalEventsTrack._parse_data_from_chart_lines(list(secs.get("Events", [])))
        except Exception:  # noqa: BLE001
            continue
        be = st.bpm_events
        from chartparse.sync import TimeSignatureEvent
        ts_d = SyncTrack._parse_data_from_chart_lines(list(secs.get("SyncTrack", [])))[0]
        jobs = [("globalEventFromParsedData", TextEvent, tx_d, "value"), ("globalEventFromParsedData", SectionEvent, se_d, "value"),
                ("globalEventFromParsedData", LyricEvent, ly_d, "value"), ("timeSignatureFromParsedData", TimeSignatureEvent, ts_d, "upper_numeral,lower_numeral")]
        for tag, body in R.sections:
            if tag not in ("Song", "SyncTrack", "Events"):
                _, sp_d, te_d = InstrumentTrack._parse_data_from_chart_lines(list(body))
                jobs += [("specialFromParsedData", StarPowerEvent, sp_d, "sustain"), ("trackEventFromParsedData", TrackEvent, te_d, "value")]
        for name, et, datas, field in jobs:
            datas = list(datas)
            if rng.random() < 0.2:
                rng.shuffle(datas)   # out of order: the hinted query may refuse
            prev = None
            for d in datas:
                rec = Recorder()
                try:
                    with rec.patch(BPMEvents, "timestamp_at_tick", ".timestamp_at_tick(start_iteration_index=)",
                                   lambda a, kw: [a[0], a[1], kw.get("start_iteration_index", a[2] if len(a) > 2 else 0)]):
                        try:
                            ev = et.from_parsed_data(d, prev, be)
                            real = "R " + ser(ev)
                        except Exception as ex:  # noqa: BLE001
                            ev, real = None, "E " + err_tok(ex)
                    if not rec.ok:
                        break
                    table = list(rec.log)
                    fields = field.split(",")
                    ctor = "()(tick=,timestamp=," + "".join(f"{f_}=," for f_ in fields) + "_proximal_bpm_event_index=)"
                    if ev is not None:
                        table.append(f"{ctor} {4 + len(fields)} {ser(et)} {ser(ev.tick)} {ser(ev.timestamp)} " + " ".join(ser(getattr(ev, f_)) for f_ in fields)
                                     + f" {ser(ev._proximal_bpm_event_index)} R {ser(ev)}")
                    out.append((request(name, [et, d, prev, be], table), real, name))
                except Unserialisable:
                    break
                if ev is None:
                    break
                prev = ev
        for d in an_d:
            try:
                ev = AnchorEvent.from_parsed_data(d)
                table = [f"timedelta(microseconds=) 1 {ser(d.microseconds)} R {ser(ev.timestamp)}",
                         f"()(tick=,timestamp=) 3 {ser(AnchorEvent)} {ser(ev.tick)} {ser(ev.timestamp)} R {ser(ev)}"]
                out.append((request("anchorFromParsedData", [AnchorEvent, d], table), "R " + ser(ev), "anchorFromParsedData"))
            except Unserialisable:
                continue
    return out


GENERATORS = {
    "specialFromParsedData": cases_stamp,
    "trackEventFromParsedData": cases_stamp,
    "globalEventFromParsedData": cases_stamp,
    "anchorFromParsedData": cases_stamp,
    "timeSignatureFromParsedData": cases_stamp,
    "buildEventsFromData": cases_build_events,
    "instrumentParseData": cases_parse_data,
    "syncParseData": cases_parse_data,
    "globalEventsParseData": cases_parse_data,
    "instrumentFromChartLines": cases_tracks,
    "syncFromChartLines": cases_tracks,
    "globalEventsFromChartLines": cases_tracks,
    "fromFile": cases_from_file,
    "parseAllLinesForField": cases_field,
    "notesPerSecond": cases_rate,
    "partitionLines": cases_scanner,
    "noteFromParsedDatas": cases_note_lanes,
    "longestSustain": cases_sustain,
    "refinedSustainTuple": cases_sustain,
    "complexSustain": cases_sustain,
    "parseDataFromChartLines": cases_dispatch,
    "noteFromParsedData": cases_note_event,
    "lastNoteEndTimestamp": cases_last_end,
    "computeStarPowerData": cases_star_power,
    "buildNoteEvents": cases_build_notes,
    "dataToEvents": cases_data_to_events,
    "bpmEventsPostInit": cases_post_init,
    "syncPostInit": cases_post_init,
}


def validate(ctx: fw.Ctx, out: fw.Outcome, names):
    rng = ctx.sub("imp")
    cases, done = [], set()
    for name in names:
        g = GENERATORS.get(name)
        if g is None or g in done:
            continue
        done.add(g)
        try:
            cases += [c for c in g(rng, ctx.n(120, 12_000)) if c[2] in names]
        except Exception as ex:  # noqa: BLE001  (the function no longer takes this call form: no verdict from here)
            out.notes.append(f"imperative embedding: cases for {name} could not be built ({type(ex).__name__}: {str(ex)[:100]}); exploration ×4")
            ctx.intensify = True
    if not cases:
        return {}
    mod = driver.run_parallel([c[0] for c in cases])
    stats = {"agree": 0, "outside": 0}
    for (req, real, name), m in zip(cases, mod):
        if m.startswith(("E internal:unsupported", "E internal:untranslatable", "bad-", "E fuel")) or "?" in m:
            stats["outside"] += 1  # the translator refused the function, or the value domain was left: the embedding makes no claim
            continue
        stats["agree"] += 1
        out.traces += 1
        if m != real:
            out.corr_mismatch(f"imperative embedding ({name}): the dumped term, run on the recorded calls, answers differently from the function",
                              {"op": "imp", "request": req[:4000]}, impl=real[:300], model=m[:300])
    out.notes.append(f"imperative embedding vs CPython: {stats['agree']} calls of {sorted(set(c[2] for c in cases))} agree with their dumped terms "
                     f"run by Imp.exec on the recorded external calls, {stats['outside']} outside the embedding's domain")
    return stats
