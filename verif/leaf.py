"""The embedded Python subset (`lean/Chartparse/Model/Py.lean`) against CPython and against the real leaf functions.

Two comparisons, both through the native driver:
  * `leaf <name> args…`  — `Py.evalBody` on the AST the translator dumped from /repo  vs  calling the real function;
  * `pyx env expr`       — `Py.evalExpr` on random expressions of the subset            vs  CPython's own `eval`.
A disagreement means the evaluator (trusted base of the leaf ties) or the AST dump misrepresents the code: it is reported as a
correspondence mismatch of the property that relies on that leaf.
"""
from __future__ import annotations

import random
import types
from datetime import timedelta
from fractions import Fraction

from . import driver
from . import framework as fw

US = timedelta(microseconds=1)


def show(v) -> str:
    if isinstance(v, bool):
        return f"bool {str(v).lower()}"
    if isinstance(v, int):
        return f"int {v}"
    if isinstance(v, float):
        f = Fraction(v)
        return f"flt {f.numerator}/{f.denominator}"
    if isinstance(v, timedelta):
        return f"td {v // US}"
    if v is None:
        return "none"
    if isinstance(v, tuple) and len(v) == 2:
        return f"pair ({show(v[0])}) ({show(v[1])})"
    return f"?{type(v).__name__}"


def call(fn, *a):
    try:
        return show(fn(*a))
    except ValueError:
        return "E ValueError"
    except ZeroDivisionError:
        return "E internal:ZeroDivisionError"
    except (AttributeError, TypeError):
        return "E stub"  # the function read an attribute the stand-in argument of this comparison does not have: no verdict from here
    except Exception as ex:  # noqa: BLE001
        return "E internal:" + type(ex).__name__


def arg(v) -> str:
    if isinstance(v, int):
        return f"i:{v}"
    if isinstance(v, float):
        f = Fraction(v)
        return f"f:{f.numerator}/{f.denominator}"
    if isinstance(v, timedelta):
        return f"t:{v // US}"
    raise TypeError(v)


def rand_bpm(rng):
    r = rng.random()
    if r < 0.6:
        return rng.randint(1, 10**7) / 1000
    if r < 0.75:
        return rng.choice([0.0, -1.0, -0.001, 1e-3, 0.001, 999999.999, 120.0])
    return rng.uniform(1e-3, 1e6)


def leaf_cases(rng: random.Random, name: str, n: int):
    """(driver request, real outcome) pairs"""
    import chartparse.chart  # noqa: F401
    from chartparse import sync, tick
    from chartparse.chart import Chart

    out = []
    for _ in range(n):
        if name == "secs":
            t = rng.choice([-1, 0, 1, rng.randint(0, 10**4), rng.randint(0, 10**9), rng.randint(2**53, 2**54)])
            b = rand_bpm(rng)
            r = rng.choice([-1, 0, 1, 192, 480, rng.randint(1, 10**4), rng.randint(1, 2**40)])
            out.append((f"leaf secs {arg(t)} {arg(b)} {arg(r)}", call(tick.seconds_from_ticks_at_bpm, t, b, r)))
        elif name == "notedur":
            r = rng.choice([0, 1, 2, 3, 192, 480, rng.randint(1, 10**5), rng.randint(1, 2**55)])
            d = rng.choice([1, 2, 3, 4, 6, 12, 24, rng.randint(1, 1000)])
            f = getattr(tick.note_duration_to_ticks, "__wrapped__", tick.note_duration_to_ticks)
            out.append((f"leaf notedur {arg(r)} {arg(d)}", call(f, r, types.SimpleNamespace(value=d))))
        elif name == "bpm":
            nn = rng.choice([rng.randint(1, 10**4), rng.randint(1, 10**7), rng.randint(1, 10**12), 1118, 20548, 2**53 + 1])

            def decode(k):
                # the value the constructor receives, whether or not it then accepts it
                seen = {}
                orig = sync.BPMEvent.__init__

                def spy(self, *a, **kw):
                    seen["bpm"] = kw.get("bpm")
                    return orig(self, *a, **kw)
                sync.BPMEvent.__init__ = spy
                try:
                    try:
                        sync.BPMEvent.from_parsed_data(sync.BPMEvent.ParsedData(tick=tick.Tick(0), raw_bpm=str(k)), None, tick.Ticks(192))
                    except ValueError:
                        pass
                finally:
                    sync.BPMEvent.__init__ = orig
                return seen["bpm"]
            out.append((f"leaf bpm {arg(nn)}", call(decode, nn)))
        elif name == "valid":
            x = rng.choice([rng.randint(1, 10**7) / 1000, rng.uniform(0, 1000), 1118 / 1000, 1 + 118 / 1000, 0.0, rng.randint(1, 10**9) / 1000, 0.0005, 2.5e-4])

            def mk(v):
                sync.BPMEvent(tick=tick.Tick(0), timestamp=timedelta(0), bpm=v)
            out.append((f"leaf valid {arg(x)}", call(mk, x)))
        elif name == "nps":
            s = timedelta(microseconds=rng.choice([0, rng.randint(0, 10**7), rng.randint(0, 10**12)]))
            e = timedelta(microseconds=rng.choice([0, s // US, s // US + 1, rng.randint(0, 10**7), rng.randint(0, 10**13), 86400 * 10**6 + 5]))
            stamps = [timedelta(microseconds=rng.randint(0, 10**7)) for _ in range(rng.randint(0, 6))] + [s, e][: rng.randint(0, 2)]
            events = [types.SimpleNamespace(timestamp=t) for t in stamps]
            c = sum(1 for t in stamps if s <= t <= e)  # the leaf's opaque input, by its definition in the source
            out.append((f"leaf nps {arg(s)} {arg(e)} {arg(c)}", call(Chart._notes_per_second, events, s, e)))
        elif name == "hopo":
            from chartparse.instrument import Note, NoteEvent
            from chartparse.tick import NoteDuration
            notes = [m for m in Note if isinstance(m.value, tuple)]
            res = rng.choice([1, 2, 3, 4, 5, 100, 192, 480, rng.randint(1, 2000)])
            f = getattr(tick.note_duration_to_ticks, "__wrapped__", tick.note_duration_to_ticks)
            thr = f(res, NoteDuration.EIGHTH_TRIPLET)
            note = rng.choice(notes)
            tap, forced = rng.random() < 0.3, rng.random() < 0.4
            if rng.random() < 0.15:
                prev, pt, pn = None, 0, note
            else:
                pn = rng.choice(notes + [note])
                pt = rng.randint(0, 3000)
                from .props import C04
                prev = C04.prev_event(pn, pt)
            tk = pt + rng.choice([0, 1, thr - 1, thr, thr + 1, rng.randint(0, 1000)]) if thr >= 1 else pt + rng.randint(0, 5)
            tk = max(tk, 0)
            bits = lambda n: "".join(str(b) for b in n.value)  # noqa: E731
            real = call(lambda: NoteEvent._compute_hopo_state(res, tk, note, tap, forced, prev))
            real = real.replace("?HOPOState", "enum")  # show() prints unknown types by class name; give the member below
            try:
                real = "enum HOPOState." + NoteEvent._compute_hopo_state(res, tk, note, tap, forced, prev).name
            except ValueError:
                real = "E ValueError"
            out.append((f"leaf hopo i:{thr} i:{tk} o:{bits(note)} b:{int(note.is_chord())} b:{int(tap)} b:{int(forced)} "
                        + ("n:" if prev is None else "o:") + f" i:{pt} o:{bits(pn)}", real))
        elif name == "scan":
            from .props import C01
            res, tempo = C01.rand_map(rng, rng.choice([1, 2, 4, 7]))
            be = C01.build_bpm_events(res, tempo)
            tk = rng.choice([t for t, _ in tempo] + [max(0, t - 1) for t, _ in tempo] + [rng.randint(0, tempo[-1][0] + 50), -1, -7])
            h = rng.randint(0, len(tempo) + 1)
            out.append((f"leaf scan {arg(tk)} {arg(h)} l:{';'.join(str(t) for t, _ in tempo)}", call(be._index_of_proximal_event, tk, h)))
        elif name in ("tickadd", "after", "during"):
            from chartparse.instrument import SpecialEvent
            T, L = rng.choice([0, 5, rng.randint(0, 5000)]), rng.choice([0, 0, 1, rng.randint(0, 600)])
            tk = rng.choice([T, T + L, T + L - 1, T - 1, T + 1, rng.randint(0, 6000)])
            tk = max(tk, 0)
            ns = types.SimpleNamespace(tick=T, sustain=L, end_tick=tick.add(T, L))
            ns.tick_is_after_event = types.MethodType(SpecialEvent.tick_is_after_event, ns)
            if name == "tickadd":
                out.append((f"leaf tickadd {arg(T)} {arg(L)}", call(tick.add, T, L)))
            elif name == "after":
                out.append((f"leaf after {arg(tk)} {arg(ns.end_tick)}", call(SpecialEvent.tick_is_after_event, ns, tk)))
            else:
                out.append((f"leaf during {arg(tk)} {arg(T)} b:{int(ns.tick_is_after_event(tk))}", call(SpecialEvent.tick_is_during_event, ns, tk)))
        elif name == "between":
            a, b = (rng.choice([0, 1, rng.randint(0, 5000), rng.randint(0, 2**54), -rng.randint(1, 50)]) for _ in range(2))
            out.append((f"leaf between {arg(a)} {arg(b)}", call(tick.between, a, b)))
        elif name == "timeadd":
            from chartparse import time as cptime
            ts = timedelta(microseconds=rng.choice([0, rng.randint(0, 10**9), rng.randint(0, 10**13)]))
            other = rng.choice([0.0, 0.5, 1e-6, 5e-7, 1.5e-6, 2.5e-6, rng.uniform(0, 1e-5), rng.uniform(0, 10), rng.uniform(0, 1e6), rng.randint(0, 10**9) / 1e6,
                                (rng.randint(0, 10**7) * 2 + 1) / 2e6, timedelta(microseconds=rng.randint(0, 10**9))])
            out.append((f"leaf timeadd {arg(ts)} {arg(other)}", call(cptime.add, ts, other)))
        elif name == "tsat":
            from .props import C01
            res, tempo = C01.rand_map(rng, rng.choice([1, 2, 4, 7]))
            be = C01.build_bpm_events(res, tempo)
            tk = rng.choice([t for t, _ in tempo] + [max(0, t - 1) for t, _ in tempo] + [rng.randint(0, tempo[-1][0] + 500), rng.randint(0, 10**6), -1, -7])
            h = rng.randint(0, len(tempo) + 1)
            seqs = ("l:" + ";".join(str(e.tick) for e in be), "lf:" + ";".join(arg(float(e.bpm))[2:] for e in be),
                    "lt:" + ";".join(str(e.timestamp // US) for e in be))
            out.append((f"leaf tsat {arg(res)} {arg(tk)} {arg(h)} " + " ".join(seqs), call(lambda: be.timestamp_at_tick(tk, start_iteration_index=h))))
        elif name == "tslower":
            l = rng.choice([None, None, 0, 1, 2, 3, 4, 5, 16, 30, 64, rng.randint(0, 200)])
            be = sync.BPMEvents(events=[sync.BPMEvent(tick=tick.Tick(0), timestamp=timedelta(0), bpm=120.0)], resolution=tick.Ticks(192))

            def lower(v):
                return sync.TimeSignatureEvent.from_parsed_data(sync.TimeSignatureEvent.ParsedData(tick=tick.Tick(0), upper=4, lower=v), None, be).lower_numeral
            out.append((f"leaf tslower {'n:' if l is None else arg(l)}", call(lower, l)))
        elif name == "bpmstep":
            res = rng.choice([-1, 0, 1, 192, 480, rng.randint(1, 10**4)])
            pt = rng.choice([0, rng.randint(0, 10**5), rng.randint(0, 2**40)])
            t = pt + rng.choice([0, 1, 1, 2, rng.randint(1, 10**4), rng.randint(1, 10**8), -1])
            b = rng.choice([rng.randint(1, 10**7) / 1000, 120.0, 0.0, 0.001, 999999.999])
            pts = timedelta(microseconds=rng.choice([0, rng.randint(0, 10**9), rng.randint(0, 10**13)]))
            k = rng.randint(0, 50)
            prev = sync.BPMEvent(tick=tick.Tick(pt), timestamp=pts, bpm=b, _proximal_bpm_event_index=k)

            def step():
                return sync.BPMEvent.from_parsed_data(sync.BPMEvent.ParsedData(tick=tick.Tick(t), raw_bpm="120000"), prev, tick.Ticks(res)).timestamp
            if t >= 0:
                out.append((f"leaf bpmstep {arg(res)} {arg(t)} {arg(pt)} {arg(b)} {arg(pts)} {arg(k)}", call(step)))
        elif name == "anchor":
            us = rng.choice([0, 1, rng.randint(0, 10**9), rng.randint(2**53, 2**56), rng.randint(10**16, 8 * 10**19), 8670214808394963])

            def mk(v):
                return sync.AnchorEvent.from_parsed_data(sync.AnchorEvent.ParsedData(tick=tick.Tick(0), microseconds=v)).timestamp
            out.append((f"leaf anchor {arg(us)}", call(mk, us)))
    return out


# ---------------------------------------------------------------------------------------------- random expressions

def rand_num(rng):
    r = rng.random()
    if r < 0.45:
        return rng.choice([0, 1, -1, 2, 3, 60, 1000, rng.randint(-50, 50), rng.randint(0, 10**6), 2**53 + 1, -(2**53) - 1, 10**18 + 1])
    m = rng.choice([rng.uniform(0, 1), rng.uniform(1, 1000), rng.randint(1, 10**7) / 1000, 0.1, 0.5, 1e-9, 1e9, 2.5, 0.0])
    return m if rng.random() < 0.75 else -m


def rand_expr(rng, names, depth):
    """(python source, prefix tokens)"""
    if depth == 0 or rng.random() < 0.25:
        if rng.random() < 0.5:
            k = rng.choice(names)
            return k, ["var", k]
        n = rng.choice([0, 1, 2, 3, 60, 1000, rng.randint(0, 10**6), 1000000])
        return str(n), ["int", str(n)]
    r = rng.random()
    if r < 0.04:
        k = rng.choice([0, 1, 2, 5, 16, 31, 64, -1])
        b = rng.choice([2, 2, 3, 10, -2, 0])
        return f"(({b}) ** {k})", ["bin", "pow", "int", str(b), "int", str(k)]
    if r < 0.08:
        a, ta = rand_expr(rng, names, depth - 1)
        b, tb = rand_expr(rng, names, depth - 1)
        c, tc = rand_expr(rng, names, depth - 1)
        d, td_ = rand_expr(rng, names, depth - 1)
        return f"({a} if ({c} < {d}) else {b})", ["ifexp", "cmp", "lt"] + tc + td_ + ta + tb
    if r < 0.7:
        op, sym = rng.choice([("add", "+"), ("sub", "-"), ("mul", "*"), ("truediv", "/")])
        a, ta = rand_expr(rng, names, depth - 1)
        b, tb = rand_expr(rng, names, depth - 1)
        return f"({a} {sym} {b})", ["bin", op] + ta + tb
    a, ta = rand_expr(rng, names, depth - 1)
    if r < 0.8:
        return f"round({a})", ["round"] + ta
    if r < 0.88:
        return f"round({a}, 3)", ["roundN", "3"] + ta
    if r < 0.92:
        return f"abs({a})", ["abs"] + ta
    if r < 0.95:
        return f"tdsec(abs({a}))", ["tdsec", "abs"] + ta
    if r < 0.97:
        return f"isfloat({a})", ["isfloat"] + ta
    return f"Seconds({a})", ["cast"] + ta


def expr_cases(rng: random.Random, n: int):
    out = []
    for _ in range(n):
        env = {k: rand_num(rng) for k in ("x", "y", "z")}
        src, toks = rand_expr(rng, list(env), rng.randint(1, 4))
        if rng.random() < 0.3:
            op, sym = rng.choice([("lt", "<"), ("le", "<="), ("gt", ">"), ("ge", ">="), ("eq", "=="), ("ne", "!=")])
            b, tb = rand_expr(rng, list(env), 2)
            src, toks = f"({src} {sym} {b})", ["cmp", op] + toks + tb
        try:
            want = show(eval(src, {"Seconds": lambda v: v, "tdsec": lambda v: timedelta(seconds=v), "isfloat": lambda v: isinstance(v, float),
                                   "__builtins__": {"round": round, "abs": abs}}, dict(env)))  # noqa: S307  CPython is the reference here
        except TypeError:
            continue  # e.g. arithmetic between a timedelta and a float: outside what the leaves do
        except ZeroDivisionError:
            want = "E internal:ZeroDivisionError"
        except OverflowError:
            continue
        envs = ",".join(f"{k}={arg(v)}" for k, v in env.items())
        out.append((f"pyx {envs} " + " ".join(toks), want, src, env))
    return out


def validate(ctx: fw.Ctx, out: fw.Outcome, leaves):
    """run both comparisons; `leaves`: driver leaf names this property relies on"""
    rng = ctx.sub("leaf")
    cases = []
    leaves = [x for l in leaves for x in (l if isinstance(l, (list, tuple)) else [l])]
    for name in leaves:
        for req, real in leaf_cases(rng, name, ctx.n(150, 20_000)):
            cases.append((req, real, "leaf:" + name))
    for req, want, src, env in expr_cases(rng, ctx.n(600, 60_000)):
        cases.append((req, want, "expr"))
    mod = driver.run_parallel([c[0] for c in cases])
    stats = {"leaf": 0, "expr": 0, "unsupported": 0}
    for (req, real, tag), m in zip(cases, mod):
        if m.startswith(("E internal:unsupported", "E internal:NameError")) or real == "E stub":
            # outside the embedded subset's domain, or a leaf whose source the translator refused (its stub names an unbound variable):
            # the evaluator makes no claim
            stats["unsupported"] += 1
            continue
        stats["leaf" if tag.startswith("leaf") else "expr"] += 1
        out.traces += 1
        if m != real:
            out.corr_mismatch(f"embedded Python subset ({tag}): {req[:120]}", {"op": "leaf", "request": req}, impl=real, model=m)
    out.notes.append(f"embedded-Python evaluator vs CPython: {stats['expr']} random expressions, {stats['leaf']} calls of the real leaf functions "
                     f"{list(leaves)} against their dumped ASTs, {stats['unsupported']} outside the subset's domain")
    return stats
