"""Runs the real chartparse in-process and produces the canonical dump the Lean driver produces.

Must be imported with /repo (or $VERIF_REPO) on sys.path.  Never compares floats, addresses or
hash-ordered things: floats are exact ratios, timestamps integer microseconds, tracks sorted by key.
"""
from __future__ import annotations

import io
import logging
import decimal
import threading
import warnings
from datetime import timedelta

US = timedelta(microseconds=1)
DOCUMENTED = ("ValueError", "RegexNotMatchError", "MissingRequiredField")

_tls = threading.local()


class _Capture(logging.Handler):
    def emit(self, record):  # noqa: D102
        sink = getattr(_tls, "sink", None)
        if sink is not None:
            # what a user's handler would print: the *formatted* message. A record whose formatting fails is lost to every
            # ordinary handler (logging swallows the error), so it does not count as a warning here either.
            try:
                sink.append((record.name, record.getMessage()))
            except Exception as ex:  # noqa: BLE001
                sink.append((record.name, f"<lost: formatting the record raised {type(ex).__name__}>"))


_handler = None


def install_capture():
    """Attach one capturing handler to the two chartparse loggers and silence propagation."""
    global _handler
    if _handler is not None:
        return
    import chartparse.chart  # noqa: F401  cycle-safe first import
    import chartparse.track  # noqa: F401

    _handler = _Capture()
    for name in ("chartparse.chart", "chartparse.track"):
        lg = logging.getLogger(name)
        lg.addHandler(_handler)
        lg.propagate = False


def cps(s: str) -> str:
    return ",".join(str(ord(c)) for c in s) if s else "-"


def us(td) -> int:
    return td // US


def rat(x: float) -> str:
    a, b = x.as_integer_ratio()
    return f"{a}/{b}"


def err_name(e: BaseException) -> str:
    n = type(e).__name__
    return "E " + n if n in DOCUMENTED else "E internal:" + n


def enums():
    from chartparse.instrument import Difficulty, Instrument

    return list(Instrument), list(Difficulty)


_want_cache = {}


_want_calls = 0
_scratch_want: list = []


def want_arg(want):
    """want: None | list of (instrument index, difficulty index).

    An application that parses a batch of charts with one selection hands the *same list object* to every parse; so does this
    harness: equal selections are one object for the life of the process (the library must treat it as an input, not as scratch)."""
    if want is None:
        return None
    ins, dif = enums()
    key = tuple((int(i), int(d)) for i, d in want)
    if key not in _want_cache:
        _want_cache[key] = [(ins[i], dif[d]) for i, d in key if i < len(ins) and d < len(dif)]
    global _want_calls
    _want_calls += 1
    if _want_calls % 3 == 0 and threading.current_thread() is threading.main_thread():
        # … every third time (main thread only: the list is edited here, between parses, never during one) one scratch list that the "application" keeps and edits in place between parses …
        _scratch_want[:] = _want_cache[key]
        return _scratch_want
    if _want_calls % 3 == 1:
        # … and every third time a brand-new list that is dropped after the parse (its address is free for the next selection)
        return list(_want_cache[key])
    return _want_cache[key]


def field_order():
    """the 24 [Song] fields in the order of the documented format (the harness's own table, not a private table of the package)"""
    from . import gen

    return [snake for snake, _, _ in gen.FIELDS]


def show_field(v) -> str:
    from chartparse.metadata import Player2Instrument

    if v is None:
        return "~"
    if isinstance(v, Player2Instrument):
        return "p" + cps(v.value)
    if isinstance(v, bool):
        return "?bool"
    if isinstance(v, int):
        return f"i{v}"
    if isinstance(v, str):
        return "s" + cps(v)
    return "?" + type(v).__name__


def show_sustain(s) -> str:
    if isinstance(s, int):
        return f"S{s}"
    return "T" + ":".join("~" if x is None else str(x) for x in s)


def show_val(e) -> str:
    return f"{e.tick} {us(e.timestamp)} {e._proximal_bpm_event_index} {cps(e.value)}"


def sec(tag, items) -> str:
    return tag + " " + ";".join(items)


def dump_track(i, d, tr, ins, dif):
    out = [f"T {i} {d} {ins.index(tr.instrument)} {dif.index(tr.difficulty)}"]
    notes = []
    for n in tr.note_events:
        lanes = "".join("1" if x else "0" for x in n.note.value)
        sp = "~" if n.star_power_data is None else str(n.star_power_data.star_power_event_index)
        notes.append(
            f"{n.tick} {us(n.timestamp)} {us(n.end_timestamp)} {n._proximal_bpm_event_index} {lanes} "
            f"{show_sustain(n.sustain)} {n.hopo_state.value} {sp}"
        )
    out.append(sec("N", notes))
    out.append(sec("SP", [f"{s.tick} {s.sustain} {us(s.timestamp)} {s._proximal_bpm_event_index}" for s in tr.star_power_events]))
    out.append(sec("TE", [show_val(e) for e in tr.track_events]))
    last = tr.last_note_end_timestamp
    out.append("L " + ("~" if last is None else str(us(last))))
    return out


def dump_chart(c, warnings) -> str:
    ins, dif = enums()
    md = c.metadata
    parts = ["OK", "META " + " ".join(show_field(getattr(md, f)) for f in field_order())]
    st = c.sync_track
    parts.append(sec("B", [f"{e.tick} {rat(float(e.bpm))} {us(e.timestamp)}" for e in st.bpm_events]))
    parts.append(sec("TS", [f"{e.tick} {e.upper_numeral} {e.lower_numeral} {us(e.timestamp)} {e._proximal_bpm_event_index}"
                            for e in st.time_signature_events]))
    parts.append(sec("A", [f"{e.tick} {us(e.timestamp)}" for e in st.anchor_events]))
    g = c.global_events_track
    parts.append(sec("TX", [show_val(e) for e in g.text_events]))
    parts.append(sec("SE", [show_val(e) for e in g.section_events]))
    parts.append(sec("LY", [show_val(e) for e in g.lyric_events]))
    keyed = []
    for i, dd in c.instrument_tracks.items():
        for d, tr in dd.items():
            keyed.append((ins.index(i), dif.index(d), tr))
    keyed.sort(key=lambda x: (x[0], x[1]))
    for i, d, tr in keyed:
        parts += dump_track(i, d, tr, ins, dif)
    unp = sum(1 for name, msg in warnings if name == "chartparse.track" and msg.startswith("unparsable line"))
    unh = [msg for name, msg in warnings if name == "chartparse.chart" and msg.startswith("unhandled data section titled '")]
    parts.append(f"W {unp}")
    parts.append(sec("U", [cps(m[len("unhandled data section titled '"):-1]) for m in unh]))
    return "|".join(parts)


_parse_count = 0


def parse(text: str, want=None):
    """Returns (chart or None, exception or None, warnings).

    What is parsed must not depend on how verbosely the application logs: every other parse runs with the `chartparse` logger
    at DEBUG (records below WARNING are simply not counted), the others at the default level."""
    global _parse_count
    from chartparse.chart import Chart

    install_capture()
    _tls.sink = []
    _parse_count += 1
    lg = logging.getLogger("chartparse")
    old = lg.level
    main = threading.current_thread() is threading.main_thread()
    if _parse_count % 2 == 0 and main:
        lg.setLevel(logging.DEBUG)
    # ... nor on whether the application turns Python warnings into errors (-W error): every third parse does
    strict = _parse_count % 3 == 0 and main
    cm = warnings.catch_warnings()
    if strict:
        cm.__enter__()
        warnings.simplefilter("error")
    # ... nor on process-wide numeric settings an application may have changed (decimal precision and rounding): every fifth parse
    dm = decimal.localcontext()
    lowprec = _parse_count % 5 == 0
    if lowprec:
        dctx = dm.__enter__()
        dctx.prec = 5
        dctx.rounding = decimal.ROUND_DOWN
    # ... nor on a parse that failed just before in the same thread: every third parse is preceded by the parse of a damaged sibling of
    # the same text (a failed parse leaves nothing behind: no half-filled buffer, cursor or header state)
    import zlib
    _h = zlib.crc32(text.encode("utf-8", "replace"))  # by the text, not by a counter: a replay of the text meets the same sibling
    if _h % 3 == 1 or _all_siblings:
        for bad in ([b_ for k_ in range(6) for b_ in damaged_siblings(text, k_)] if _all_siblings else damaged_siblings(text, _h // 3)):
            try:
                Chart.from_file(io.StringIO(bad, newline=""), want_tracks=want_arg(want))
            except Exception:  # noqa: BLE001
                pass
        _tls.sink = []
    try:
        c = Chart.from_file(io.StringIO(text, newline=""), want_tracks=want_arg(want))
        return c, None, _tls.sink
    except Exception as e:  # noqa: BLE001
        return None, e, _tls.sink
    finally:
        if lowprec:
            dm.__exit__(None, None, None)
        if strict:
            cm.__exit__(None, None, None)
        if lg.level != old:
            lg.setLevel(old)
        sink = _tls.sink
        _tls.sink = None
        _tls.last = sink


_all_siblings = False


class all_siblings:
    """inside this block every parse is preceded by the parses of *all* damaged siblings of its text (a family that wants the device
    for each of its texts, not for a third of them; its replays use the same block)"""

    def __enter__(self):
        global _all_siblings
        self.old, _all_siblings = _all_siblings, True

    def __exit__(self, *a):
        global _all_siblings
        _all_siblings = self.old


def damaged_siblings(text: str, k: int):
    """a few texts that differ from `text` by one injury, each failing at another stage of the parse (none may succeed: that is fine)"""
    nl = "\r\n" if "\r\n" in text else "\n"
    lines = text.split(nl)
    import re as _re
    out = []
    note = next((i for i, l in enumerate(lines) if _re.match(r"\s*\d+ = N [0-4] \d+\s*$", l)), None)
    ev = next((i for i, l in enumerate(lines) if _re.match(r"\s*\d+ = E ", l)), None)
    bpm = [i for i, l in enumerate(lines) if _re.match(r"\s*\d+ = B \d+\s*$", l)]
    kind = k % 6
    if kind == 0 and note is not None:
        # the track's first note is forced (ValueError while the first event is being built) …
        tick = lines[note].split("=")[0].strip()
        out.append(nl.join(lines[:note + 1] + [f"  {tick} = N 5 0"] + lines[note + 1:]))
    elif kind == 1 and bpm:
        # … the tempo section goes backwards after its first events …
        out.append(nl.join(lines[:bpm[-1] + 1] + ["  0 = B 90000"] + lines[bpm[-1] + 1:]))
    elif kind == 2 and ev is not None:
        # … an event line whose tick has more digits than int() converts …
        out.append(nl.join(lines[:ev + 1] + ["  " + "7" * 5000 + lines[ev][lines[ev].index(" = "):]] + lines[ev + 1:]))
    elif kind == 3:
        # … the file is cut off inside its last section (and once more right after a header) …
        last = max((i for i, l in enumerate(lines) if l == "}"), default=None)
        if last is not None:
            out.append(nl.join(lines[:last]))
        hdr = max((i for i, l in enumerate(lines) if l.startswith("[")), default=None)
        if hdr is not None:
            out.append(nl.join(lines[:hdr + 1]))
    elif kind == 4 and note is not None:
        # … the first note on another lane, then a note so far out that its time does not fit a timedelta (OverflowError after the first
        # event of the track was built) …
        first = _re.sub(r"= N ([0-4]) ", lambda m: f"= N {(int(m.group(1)) + 1) % 5} ", lines[note], count=1)
        out.append(nl.join(lines[:note] + [first, "  " + "9" * 30 + " = N 0 0"] + lines[note + 1:]))
    elif kind == 5 and bpm:
        # … a zero tempo in the middle of the map.
        out.append(nl.join(lines[:bpm[0] + 1] + [_re.sub(r"\d+ = B \d+", lambda m: str(int(m.group().split(" = ")[0]) + 1) + " = B 0", lines[bpm[0]], count=1)] + lines[bpm[0] + 1:]))
    return out


def run_chart(text: str, want=None) -> str:
    c, e, w = parse(text, want)
    if e is not None:
        return err_name(e)
    try:
        return dump_chart(c, w)
    except Exception as ex:  # noqa: BLE001  the returned chart holds something its own public types do not allow (a float tick, a None list …)
        return "E internal:unobservable-" + type(ex).__name__


def run_observed(text: str, want=None) -> str:
    """C17: the canonical dump plus what it canonicalises away or does not touch — iteration order of the track map,
    str()/repr() of the chart, and the public tick-to-time and rate queries on a fixed set of ticks"""
    import hashlib
    from datetime import timedelta as _td

    c, e, w = parse(text, want)
    if e is not None:
        return err_name(e)
    ins, dif = enums()
    out = [dump_chart(c, w)]
    out.append("ORDER " + ",".join(f"{ins.index(i)}:{dif.index(d)}" for i, dd in c.instrument_tracks.items() for d in dd))
    try:
        out.append("STR " + hashlib.sha256((str(c) + "\x00" + repr(c)).encode()).hexdigest()[:16])
    except Exception as ex:  # noqa: BLE001
        out.append("STR raised " + type(ex).__name__)
    be = c.sync_track.bpm_events
    q = []
    for t in (0, 1, 96, 144, 192, 384, 400, 768, 1000, 5000):
        try:
            a = be.timestamp_at_tick_no_optimize_return(t)
            b, idx = be.timestamp_at_tick(t)
            q.append(f"{t}:{us(a)}:{us(b)}:{idx}")
        except Exception as ex:  # noqa: BLE001
            q.append(f"{t}:{type(ex).__name__}")
    out.append("Q " + ",".join(q))
    r = []
    for i, dd in c.instrument_tracks.items():
        for d in dd:
            for args in ((), (0, 400), (96,), (_td(0), _td(seconds=2))):
                try:
                    r.append(rat(float(c.notes_per_second(i, d, *args))))
                except Exception as ex:  # noqa: BLE001
                    r.append(type(ex).__name__)
            break
        break
    out.append("R " + ",".join(r))
    return "|".join(out)


def run_path(data: bytes, want=None, tmpdir=None) -> str:
    """`Chart.from_filepath` on real bytes through a real temporary file."""
    import os
    import tempfile
    from pathlib import Path

    from chartparse.chart import Chart

    install_capture()
    fd, p = tempfile.mkstemp(suffix=".chart", dir=tmpdir)
    try:
        with os.fdopen(fd, "wb") as f:
            f.write(data)
        _tls.sink = []
        try:
            c = Chart.from_filepath(Path(p), want_tracks=want_arg(want))
            return dump_chart(c, _tls.sink)
        except Exception as e:  # noqa: BLE001
            return err_name(e)
        finally:
            _tls.sink = None
    finally:
        os.unlink(p)


# ------------------------------------------------------------------------------------------------------------------
# A process with a past. Every property quantifies over all charts in *any* process state, so each slice runs after other
# charts were parsed and queried in the same interpreter: charts with other tempo maps and resolutions but the same ticks,
# [Song] sections with every field set, parses that fail half-way, lines of one kind met in sections of another, every public
# read-only query. On code without cross-call state this changes nothing; answers remembered under too small a key (tick only,
# (resolution, tick), raw line only), defaults that accumulate, scratch state left by a failed parse — all become visible to
# the property's own truth oracle in the cases that follow.

_polluted = False


def pollute(seed: int = 0):
    global _polluted
    if _polluted:
        return
    _polluted = True
    import random
    from datetime import timedelta as _td

    from . import gen

    rng = random.Random(f"past-{seed}")
    ins, dif = enums()
    texts = []
    prof = gen.Profile(max_tracks=3, max_groups=10, max_events=6, max_tempo=4, garbage=0.3, unknown_sections=0.3, meta_fields=0.9, dup_fields=0.3,
                       resolutions=(192, 480, 100, 1, 2, 3, 96, 1000, 120))
    for k in range(24):
        src = gen.rand_src(rng, prof)
        if k % 3 == 0:  # the tempo maps most likely to share ticks with later charts: events at small round ticks
            src.tempo = [(0, rng.choice([60000, 90000, 120000, 1, 999999999]))] + [(t, rng.randint(1, 10**6)) for t in (96, 192, 384, 768)[: rng.randint(0, 4)]]
        texts.append(gen.render(src, rng, prof).text)
    head = "[Song]\n{\n  Resolution = 192\n}\n[SyncTrack]\n{\n  0 = TS 4\n  0 = B 120000\n  400 = B 60000\n}\n[Events]\n{\n}\n"
    texts += [
        head + "[ExpertSingle]\n{\n  0 = N 0 0\n  100 = N 1 0\n  450 = N 2 0\n  120 = N 3 0\n}\n",      # fails while building notes
        head + "[HardDrums]\n{\n  0 = N 0 500\n  0 = N 1 0\n  100 = S 2 50\n  100 = S 2 50\n  120 = E solo\n}\n",
        head.replace("  400 = B 60000\n", "  400 = B 0\n") + "[EasySingle]\n{\n  500 = N 0 0\n}\n",           # zero tempo governs a note
        "[Song]\n{\n}\n[SyncTrack]\n{\n}\n[Events]\n{\n}\n", "", "\n", "[Song]\n{\n  Resolution = 192\n}\n",
        head.replace("[Events]\n{\n}", "[Events]\n{\n  0 = N 0 0\n  5 = B 120000\n  7 = E \"section a\"\n  7 = E \"lyric b\"\n  9 = E \"c\"\n}")
        + "[ExpertSingle]\n{\n  0 = B 120000\n  0 = TS 4\n  3 = E \"section a\"\n  4 = N 0 0\n}\n",
    ]
    for text in texts:
        c, e, _ = parse(text)
        if c is None:
            continue
        try:
            be = c.sync_track.bpm_events
            for t in list(range(0, 1200, 7)) + [1920, 3840, 5000, 10**6, -1]:
                for f in (be.timestamp_at_tick, be.timestamp_at_tick_no_optimize_return):
                    try:
                        f(t)
                    except ValueError:
                        pass
            for i in ins:
                try:
                    c[i]
                except KeyError:
                    pass
                for d in dif:
                    for a in ((), (0,), (0, 400), (96, 768), (_td(0), _td(seconds=2)), (_td(seconds=1),)):
                        try:
                            c.notes_per_second(i, d, *a)
                        except ValueError:
                            pass
            str(c), repr(c), c == c
            for dd in c.instrument_tracks.values():
                for tr in dd.values():
                    tr.last_note_end_timestamp, tr.header_tag, str(tr)
                    for n in tr.note_events[:4]:
                        n.longest_sustain, n.end_tick, str(n), hash(n.tick)
        except Exception:  # noqa: BLE001  the past must never decide a verdict by itself
            pass
