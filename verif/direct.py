"""Entry-point equivalence, shared by C07 / C08 / C09: what a section decodes to does not depend on how its lines are handed over.

For a generated chart, each section's body is also given directly to the section class's public `from_chart_lines` as a list, a
tuple, a one-shot iterator, a generator, and as lines that still carry their line feed (what iterating an open file yields), and
— through a real file — to `Chart.from_filepath`. Every route must decode the section exactly as `Chart.from_file` did (that parse
is itself checked against the generator's truth by the property's other families). A route that raises where the chart parsed,
loses lines, or decodes other values is a violation of the section's decoding property."""
from __future__ import annotations

import types

from . import gen, impl
from . import framework as fw

FORMS = ["list", "tuple", "iter", "gen", "newlines", "newlines-iter"]


def hand_over(lines, form):
    if form == "list":
        return list(lines)
    if form == "tuple":
        return tuple(lines)
    if form == "iter":
        return iter(list(lines))
    if form == "gen":
        return (l for l in list(lines))
    if form == "newlines":
        return [l + "\n" for l in lines]
    return iter([l + "\n" for l in lines])


def sync_dump(st) -> str:
    return "|".join([impl.sec("B", [f"{e.tick} {impl.rat(float(e.bpm))} {impl.us(e.timestamp)}" for e in st.bpm_events]),
                     impl.sec("TS", [f"{e.tick} {e.upper_numeral} {e.lower_numeral} {impl.us(e.timestamp)}" for e in st.time_signature_events]),
                     impl.sec("A", [f"{e.tick} {impl.us(e.timestamp)}" for e in st.anchor_events])])


def events_dump(g) -> str:
    return "|".join([impl.sec("TX", [impl.show_val(e) for e in g.text_events]), impl.sec("SE", [impl.show_val(e) for e in g.section_events]),
                     impl.sec("LY", [impl.show_val(e) for e in g.lyric_events])])


def meta_dump(md) -> str:
    return "META " + " ".join(impl.show_field(getattr(md, f)) for f in impl.field_order())


def track_dump(tr) -> str:
    ins, dif = impl.enums()
    return "|".join(impl.dump_track(0, 0, tr, ins, dif)[1:])


def run(ctx: fw.Ctx, out: fw.Outcome, section: str, prof: gen.Profile, n_quick=40, n_thorough=4000):
    """section: 'song' | 'sync' | 'events' | 'instrument' | 'all'"""
    from chartparse.globalevents import GlobalEventsTrack
    from chartparse.metadata import Metadata
    from chartparse.instrument import InstrumentTrack
    from chartparse.sync import SyncTrack

    rng = ctx.sub("direct-" + section)
    ins, dif = impl.enums()
    for _ in range(ctx.n(n_quick, n_thorough)):
        src = gen.rand_src(rng, prof)
        if section == "instrument" and not src.tracks:
            continue
        R = gen.render(src, rng, prof, garbage=rng.random() < 0.5)
        c, e, _ = impl.parse(R.text)
        if c is None:
            continue  # the chart-level families report that
        secs = dict(R.sections)
        bodies = []
        if section in ("song", "all"):
            bodies.append(("Song", secs["Song"], meta_dump(c.metadata), lambda arg: meta_dump(Metadata.from_chart_lines(arg))))
        if section in ("sync", "all"):
            bodies.append(("SyncTrack", secs["SyncTrack"], sync_dump(c.sync_track),
                           lambda arg: sync_dump(SyncTrack.from_chart_lines(c.metadata.resolution, arg))))
        if section in ("events", "all"):
            bodies.append(("Events", secs["Events"], events_dump(c.global_events_track),
                           lambda arg: events_dump(GlobalEventsTrack.from_chart_lines(arg, c.sync_track.bpm_events))))
        if section in ("instrument", "all"):
            for tr in src.tracks[:2]:
                tag = gen.header_tag(tr.inst, tr.diff)
                real = c.instrument_tracks.get(ins[tr.inst], {}).get(dif[tr.diff])
                if real is None or tag not in secs:
                    continue
                bodies.append((tag, secs[tag], track_dump(real),
                               (lambda i_, d_: lambda arg: track_dump(InstrumentTrack.from_chart_lines(ins[i_], dif[d_], arg, c.sync_track.bpm_events)))(tr.inst, tr.diff)))
        for tag, body, want, call in bodies:
            if any("\n" in l for l in body):
                continue
            for form in rng.sample(FORMS, 3 if section != "all" else 1):
                rp = {"op": "direct-section", "section": section, "tag": tag, "text": R.text, "form": form}
                out.case("X" + fw.h([R.text, tag, form]), True, None, tags=["direct-" + section + "-" + form])
                try:
                    got = call(hand_over(body, form))
                except Exception as ex:  # noqa: BLE001
                    got = impl.err_name(ex)
                if got != want:
                    p_, q_ = fw.first_diff(want, got)
                    out.violation("direct-" + fw.h(rp), f"the lines between the braces of [{tag}], handed to that section's own parser (as {form}), decode differently from what Chart.from_file made of the section: {p_[:120]!r} vs {q_[:120]!r}",
                                  rp, observed=q_[:300], promised=p_[:300])
                    break


def replay(data) -> tuple:
    """re-run one route on the stored chart"""
    from chartparse.globalevents import GlobalEventsTrack
    from chartparse.instrument import InstrumentTrack
    from chartparse.sync import SyncTrack

    c, e, _ = impl.parse(data["text"])
    if c is None:
        return False, "chart does not parse"
    ins, dif = impl.enums()
    # recover the section body from the text as the scanner frames it (the stored chart is well-formed)
    lines = data["text"].splitlines()
    k = lines.index(f"[{data['tag']}]")
    j = lines.index("}", k)
    body = lines[k + 2:j]
    arg = hand_over(body, data["form"])
    try:
        if data["tag"] == "Song":
            from chartparse.metadata import Metadata
            want, got = meta_dump(c.metadata), meta_dump(Metadata.from_chart_lines(arg))
        elif data["tag"] == "SyncTrack":
            want, got = sync_dump(c.sync_track), sync_dump(SyncTrack.from_chart_lines(c.metadata.resolution, arg))
        elif data["tag"] == "Events":
            want, got = events_dump(c.global_events_track), events_dump(GlobalEventsTrack.from_chart_lines(arg, c.sync_track.bpm_events))
        else:
            i_, d_ = next((i, d) for i in range(len(ins)) for d in range(len(dif)) if gen.header_tag(i, d) == data["tag"])
            want = track_dump(c.instrument_tracks[ins[i_]][dif[d_]])
            got = track_dump(InstrumentTrack.from_chart_lines(ins[i_], dif[d_], arg, c.sync_track.bpm_events))
    except Exception as ex:  # noqa: BLE001
        return True, impl.err_name(ex)
    return got != want, str(fw.first_diff(want, got))[:300]
