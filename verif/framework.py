"""Common machinery of the per-property checks: context, outcome accounting, replay files."""
from __future__ import annotations

import collections
import hashlib
import json
import os
import pathlib
import random
import time

ROOT = pathlib.Path(__file__).resolve().parent.parent
REPO = pathlib.Path(os.environ.get("VERIF_REPO", "/repo"))
REPLAYS = ROOT / "replays"
EVIDENCE = ROOT / "evidence"
KNOWN = ROOT / "known_findings.json"


def h(obj) -> str:
    return hashlib.sha256(json.dumps(obj, sort_keys=True, default=str).encode()).hexdigest()[:16]


class Ctx:
    def __init__(self, pid: str, tier: str, seed: int):
        self.pid = pid
        self.tier = tier
        self.seed = seed
        self.rng = random.Random(f"{pid}-{seed}")
        self.jobs = min(16, os.cpu_count() or 4)
        self.t0 = time.time()
        self.search = False  # True while running the failing-input search (bigger, truth-only)
        self.intensify = False  # True when a leaf function's translation tie could not be established: explore 4× deeper

    def n(self, quick: int, thorough: int) -> int:
        base = quick if self.tier == "quick" else thorough
        return base * (10 if self.search and self.tier == "quick" else 4 if self.intensify and self.tier == "quick" else 1)

    def sub(self, tag) -> random.Random:
        return random.Random(f"{self.pid}-{self.seed}-{tag}")


KNOWN_KEYS: set = set()   # keys of the listed known findings of the property being checked (set by main before the slice)
T0 = [time.time()]        # when the slice started


class Enough(Exception):
    """raised out of a slice that has its violation and would only burn time finding it again"""

    def __init__(self, outcome):
        super().__init__("enough")
        self.outcome = outcome


class Outcome:
    """What a slice explored and what it found."""

    def __init__(self, rule: str):
        self.rule = rule
        self.evaluations = 0
        self.keys = set()  # distinct non-trivial
        self.samples = []
        self.violations = []  # impl ≠ truth      (the property fails on the real code)
        self.corr = []  # impl ≠ model      (correspondence broken)
        self.model_bugs = []  # model ≠ truth while impl = truth
        self.dist = collections.Counter()
        self.traces = 0  # cases where model and impl were actually compared
        self.exhaustive = None
        self.notes = []

    def case(self, key, nontrivial: bool, sample=None, tags=()):
        self.evaluations += 1
        if nontrivial:
            self.keys.add(key if isinstance(key, str) else h(key))
        for t in tags:
            self.dist[t] += 1
        if sample is not None and len(self.samples) < 4:
            self.samples.append(sample)

    def violation(self, key, what: str, replay: dict, observed=None, promised=None):
        if len(self.violations) < 50:
            self.violations.append({"key": key, "what": what, "replay": replay, "observed": observed, "promised": promised})
        if key not in KNOWN_KEYS and time.time() - T0[0] > float(os.environ.get("VERIF_STOP_AFTER", "240") or 240):
            raise Enough(self)  # a violation that is not a listed finding is in hand and the slice has run for minutes: report it
        if "MemoryError" in f"{what} {observed}":
            # every further exhaustion of the memory cap costs as long as filling it: the first one, with its input, is the report
            raise Enough(self)

    def corr_mismatch(self, what: str, replay: dict, impl=None, model=None):
        if len(self.corr) < 50:
            self.corr.append({"what": what, "replay": replay, "impl": impl, "model": model})

    def model_bug(self, what: str, replay: dict, model=None, promised=None):
        if len(self.model_bugs) < 50:
            self.model_bugs.append({"what": what, "replay": replay, "model": model, "promised": promised})

    def merge(self, o: "Outcome"):
        self.evaluations += o.evaluations
        self.keys |= o.keys
        for s in o.samples:
            if len(self.samples) < 4:
                self.samples.append(s)
        self.violations += o.violations
        self.corr += o.corr
        self.model_bugs += o.model_bugs
        self.dist.update(o.dist)
        self.traces += o.traces
        self.notes += o.notes
        if o.exhaustive is False:
            self.exhaustive = False
        elif o.exhaustive and self.exhaustive is None:
            self.exhaustive = True
        return self


def write_replay(pid: str, kind: str, data: dict) -> str:
    REPLAYS.mkdir(exist_ok=True)
    name = f"{pid}-{kind}-{h(data)}.json"
    p = REPLAYS / name
    p.write_text(json.dumps({"property": pid, "kind": kind, **data}, indent=1, default=str, ensure_ascii=False))
    return str(p.relative_to(ROOT))


def load_known():
    if not KNOWN.exists():
        return []
    return json.loads(KNOWN.read_text())["entries"]


def first_diff(a: str, b: str) -> tuple[str, str]:
    for x, y in zip(a.split("|"), b.split("|")):
        if x != y:
            return x[:400], y[:400]
    return a[-200:], b[-200:]


def limit_memory(tier="quick"):
    """the implementation under test runs inside this process and its Python children: a change to /repo that builds a table per tick or
    per beat must end as a MemoryError on the input that provokes it (an undocumented error where an answer is promised), not as a machine
    without memory. Address space of this process and its children is capped (VERIF_MEM_GB; default 4 in the quick tier, where the checks themselves stay below 0.2 GB, and 32 in the thorough tier); the Lean tools are exempted
    (`unlimit_memory`), they map their libraries into a much larger address space."""
    import resource
    # (the thorough tier of C04 holds 24 million cases: 7.6 GB resident on the unchanged tree)
    gb = float(os.environ.get("VERIF_MEM_GB") or (4 if tier == "quick" else 32))
    soft, hard = resource.getrlimit(resource.RLIMIT_AS)
    lim = int(gb * 2**30)
    if hard != resource.RLIM_INFINITY:
        lim = min(lim, hard)
    resource.setrlimit(resource.RLIMIT_AS, (lim, hard))


def unlimit_memory():
    import resource
    soft, hard = resource.getrlimit(resource.RLIMIT_AS)
    resource.setrlimit(resource.RLIMIT_AS, (hard, hard))
