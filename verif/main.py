"""Entry point:  ./check <ID> [--tier quick|thorough] [--replay FILE]   |   ./check --setup

One run = regenerate Gen/ from /repo, re-check the property's proofs (lake), audit their axioms,
run the correspondence slice (impl vs model vs truth), and decide:

  proofs build ∧ axioms clean ∧ correspondence agrees ∧ truth agrees      → exit 0
  impl ≠ truth on some input                                              → VIOLATION with that input as replay
  proof / obligation / correspondence broken                              → search the real code for a failing
        input; found → VIOLATION with it; none → VIOLATION … no-failing-input-found naming what no longer checks
  infrastructure trouble (tool missing, model ≠ truth, timeout)           → exit 2
"""
from __future__ import annotations

import fcntl
import hashlib
import importlib
import json
import os
import pathlib
import re
import subprocess
import sys
import time
import traceback

ROOT = pathlib.Path(__file__).resolve().parent.parent
LEAN = ROOT / "lean"
REPO = pathlib.Path(os.environ.get("VERIF_REPO", "/repo"))
PY = "/venv/bin/python"
ALLOWED_AXIOMS = {"propext", "Classical.choice", "Quot.sound"}
FORBIDDEN = re.compile(r"\b(sorry|admit|native_decide|bv_decide|implemented_by|unsafe)\b|^\s*axiom\s|maxHeartbeats\s+0\b", re.M)
ALL = [f"C{i:02d}" for i in range(1, 21)]

sys.path.insert(0, str(ROOT))
sys.path.insert(0, str(REPO))

from verif import framework as fw  # noqa: E402


def sh(cmd, cwd=None, timeout=3600, env=None):
    e = dict(os.environ)
    if env:
        e.update(env)
    p = subprocess.run(cmd, cwd=cwd, stdout=subprocess.PIPE, stderr=subprocess.STDOUT, timeout=timeout, env=e, preexec_fn=fw.unlimit_memory)
    return p.returncode, p.stdout.decode(errors="replace")


class Lock:
    def __enter__(self):
        self.f = open(ROOT / ".lock", "w")
        fcntl.flock(self.f, fcntl.LOCK_EX)
        return self

    def __exit__(self, *a):
        fcntl.flock(self.f, fcntl.LOCK_UN)
        self.f.close()


def translate() -> dict:
    rc, out = sh([PY, "-m", "verif.translate"], cwd=ROOT, env={"PYTHONPATH": f"{REPO}:{ROOT}", "VERIF_REPO": str(REPO)})
    try:
        status = json.loads(out[out.index("{"):])
    except Exception:  # noqa: BLE001
        status = {k: {"ok": False, "error": "translator crashed: " + out[-400:]} for k in
                  ("Unicode", "Regexes", "Tables", "Imports", "State", "Classes", "Leaf", "Imp")}
    (LEAN / ".gen_status.json").write_text(json.dumps(status, indent=1))
    return status


def lake_build(targets) -> tuple[bool, str]:
    rc, out = sh(["lake", "build"] + list(targets), cwd=LEAN, timeout=7200)
    return rc == 0, out


def strip_comments(src: str) -> str:
    src = re.sub(r"/-.*?-/", "", src, flags=re.S)
    return re.sub(r"--.*", "", src)


def theorem_names(pid: str) -> list[str]:
    p = LEAN / "Chartparse" / "Props" / f"{pid}.lean"
    src = strip_comments(p.read_text())
    return [f"Chartparse.Props.{pid}.{m}" for m in re.findall(r"^theorem\s+([^\s:({\[]+)", src, flags=re.M)]


def module_closure(pid: str) -> list[pathlib.Path]:
    """source files of the property's module and everything of this project it imports"""
    seen, todo = [], [f"Chartparse.Props.{pid}"]
    while todo:
        m = todo.pop()
        p = LEAN / (m.replace(".", "/") + ".lean")
        if not p.exists() or p in seen:
            continue
        seen.append(p)
        for imp in re.findall(r"^import\s+(Chartparse\.\S+)", p.read_text(), flags=re.M):
            todo.append(imp)
    return seen


def audit(pid: str) -> dict:
    """`#print axioms` on every property theorem + forbidden-token scan of the module closure"""
    names = theorem_names(pid)
    res = {"theorems": names, "axioms": {}, "ok": True, "problems": []}
    if not names:
        res["ok"] = False
        res["problems"].append("no theorem in Props file")
        return res
    files = module_closure(pid)
    for f in files:
        if "/Gen/" in str(f):
            continue
        m = FORBIDDEN.search(strip_comments(f.read_text()))
        if m:
            res["ok"] = False
            res["problems"].append(f"forbidden token {m.group(0).strip()!r} in {f.name}")
    adir = LEAN / ".audit"
    adir.mkdir(exist_ok=True)
    body = f"import Chartparse.Props.{pid}\n" + "".join(f"#print axioms {n}\n" for n in names)
    afile = adir / f"{pid}.lean"
    trace = LEAN / ".lake" / "build" / "lib" / "lean" / "Chartparse" / "Props" / f"{pid}.trace"
    key = hashlib.sha256((body + (trace.read_text() if trace.exists() else str(time.time()))).encode()).hexdigest()
    cache = adir / f"{pid}.json"
    if cache.exists():
        c = json.loads(cache.read_text())
        if c.get("key") == key:
            out = c["out"]
        else:
            out = None
    else:
        out = None
    if out is None:
        afile.write_text(body)
        rc, out = sh(["lake", "env", "lean", str(afile)], cwd=LEAN, timeout=1800)
        if rc == 0:
            cache.write_text(json.dumps({"key": key, "out": out}))
        else:
            res["ok"] = False
            res["problems"].append("axiom audit failed to run: " + out[-300:])
            return res
    flat = re.sub(r"\s+", " ", out)
    for n in names:
        m = re.search(r"'" + re.escape(n) + r"' (does not depend on any axioms|depends on axioms: \[([^\]]*)\])", flat)
        if not m:
            res["ok"] = False
            res["problems"].append(f"no axiom report for {n}")
            continue
        ax = [] if m.group(2) is None else [a.strip() for a in m.group(2).split(",") if a.strip()]
        res["axioms"][n] = ax
        bad = [a for a in ax if a not in ALLOWED_AXIOMS]
        if bad:
            res["ok"] = False
            res["problems"].append(f"{n} depends on {bad}")
    return res


TIE_THEOREM = {"Secs": "secs_tie", "NoteDur": "noteDur_tie", "BpmDecode": "bpmDecode_tie", "BpmValid": "bpmValid_tie",
               "Nps": "nps_tie", "Anchor": "anchor_tie", "Hopo": "hopo_tie", "Scan": "scan_tie",
               "Phrase": ["tickAdd_tie", "endTick_tie", "after_tie", "during_tie"],
               "TsAt": ["tsAt_tie", "between_tie", "timeAdd_float_tie", "timeAdd_td_tie"],
               "BpmStep": ["bpmStep_tie", "tsLower_tie"],
               "Compose": ["buildFrom_eq_code", "tsAt_of_code", "C01_query_code", "C01_zero_code", "C11_hint_invariant_code", "C11_hint_reject_code",
                           "query_errors_are_ValueError_code", "C12_mono_code", "C12_equal_code", "C12_strict_code",
                           "C15_negative_code", "C15_zero_bpm_code"],
               "ComposeInst": ["C04_table_code", "C04_first_forced_code", "C04_threshold_code", "C05_during_code"],
               "ComposeSync": ["C08_bpm_code", "C08_ts_lower_code"],
               "ComposeRate": ["C16_nonpositive_code", "C16_value_code"],
               # loops and glue, dumped as terms of the imperative embedding (Model/Imp.lean, Gen/Imp.lean)
               "LoopEvents": ["dataToEvents_tie", "dataToBpmEvents_tie", "dataToAnchorEvents_tie"], "LoopSp": ["spData_tie"], "LoopGroups": ["buildNoteEvents_tie"],
               "LoopValid": ["bpmEventsPostInit_tie", "syncPostInit_tie"], "LoopScan": ["partitionLines_tie"], "ComposeLoopScan": ["scanV_scanGo", "scanV_scanSections"], "LoopLanes": ["noteFromParsedDatas_tie", "lanesFold_lanes"],
               "LoopSustain": ["refinedSustainTuple_tie", "longestSustain_int", "longestSustain_tup", "refineV_refine", "complexSustain_tie", "fillV_fill"],
               "LoopGlue": ["noteFromParsedData_tie"], "LoopRate": ["notesPerSecond_tie", "bounds_falls"], "LoopField": ["parseAllLinesForField_tie"], "LoopLastEnd": ["lastNoteEndTimestamp_tie", "firstMax_pairs"], "LoopStamp": ["stamp_tie", "specialFromParsedData_tie", "trackEventFromParsedData_tie", "globalEventFromParsedData_tie", "anchorFromParsedData_tie", "timeSignatureFromParsedData_tie"], "LoopTracks": ["instrumentFromChartLines_tie", "syncFromChartLines_tie", "globalEventsFromChartLines_tie", "instrumentParseData_tie", "syncParseData_tie", "globalEventsParseData_tie", "buildEventsFromData_tie"], "LoopRoute": ["fromFile_tie", "routeFold_select", "routeFold_unrestricted", "routeBody_turns", "skipV_seq", "fileV_missing_required", "req_tags", "routeFold_empty", "routeFold_empty_table", "table_entries", "fileV_select"], "LoopDispatch": ["parseData_tie"], "ComposeLoopDispatch": ["dispatchV_eq"],
               # … and what they say about the hand model's functions (the subjects of the property theorems)
               "ComposeLoopEvents": ["dataToEvents_code"], "ComposeLoopSp": ["spData_code"], "ComposeLoopGroups": ["buildNoteEvents_code"]}


def leaf_ties(prop, st, tier="quick") -> dict:
    """For each arithmetic leaf function the property's model relies on: is `eval(AST dumped from /repo) = hand model` still a
    theorem (lake build of Tie/<X>.lean, axioms audited)? A tie that cannot be established is not a verdict about the code —
    the correspondence check remains the tie — but it makes this run explore four times deeper."""
    res = {}
    for X in getattr(prop, "LEAVES", {}):
        sec = "Imp" if "Loop" in X else "Leaf"
        if not st.get(sec, {}).get("ok"):
            res[X] = {"proved": False, "why": f"translation of Gen/{sec}.lean failed: " + str(st.get(sec, {}).get("error"))[:200]}
            continue
        ok, out = lake_build([f"Chartparse.Tie.{X}"])
        if not ok:
            errs = re.findall(r"error: (.*)", out)
            res[X] = {"proved": False, "why": ("the dumped AST is no longer provably the hand model: " + " | ".join(e[:160] for e in errs[:2]))}
            continue
        tie_files, todo = [], [X, "Common"]
        while todo:  # the tie's own file and every other Tie file it imports
            y = todo.pop()
            if y in tie_files:
                continue
            tie_files.append(y)
            todo += re.findall(r"^import Chartparse\.Tie\.(\w+)", (LEAN / "Chartparse" / "Tie" / f"{y}.lean").read_text(), flags=re.M)
        src = "".join(strip_comments((LEAN / "Chartparse" / "Tie" / f"{y}.lean").read_text()) for y in tie_files)
        adir = LEAN / ".audit"
        adir.mkdir(exist_ok=True)
        thms = TIE_THEOREM[X] if isinstance(TIE_THEOREM[X], list) else [TIE_THEOREM[X]]
        names = [f"Chartparse.Tie.{t}" for t in thms]
        name = ", ".join(names)
        body = f"import Chartparse.Tie.{X}\n" + "".join(f"#print axioms {n}\n" for n in names)
        trace = LEAN / ".lake" / "build" / "lib" / "lean" / "Chartparse" / "Tie" / f"{X}.trace"
        key = hashlib.sha256((body + (trace.read_text() if trace.exists() else str(time.time()))).encode()).hexdigest()
        cache = adir / f"Tie{X}.json"
        out2 = None
        if cache.exists():
            c = json.loads(cache.read_text())
            out2 = c["out"] if c.get("key") == key else None
        if out2 is None:
            (adir / f"Tie{X}.lean").write_text(body)
            rc, out2 = sh(["lake", "env", "lean", str(adir / f"Tie{X}.lean")], cwd=LEAN, timeout=1800)
            if rc == 0:
                cache.write_text(json.dumps({"key": key, "out": out2}))
        flat = re.sub(r"\s+", " ", out2)
        ax, m = [], True
        for n_ in names:
            m_ = re.search(r"'" + re.escape(n_) + r"' (does not depend on any axioms|depends on axioms: \[([^\]]*)\])", flat)
            m = m and bool(m_)
            if m_ and m_.group(2) is not None:
                ax += [a.strip() for a in m_.group(2).split(",") if a.strip() and a.strip() not in ax]
        clean = bool(m) and all(a in ALLOWED_AXIOMS for a in ax) and not FORBIDDEN.search(src)
        res[X] = {"proved": clean, "theorem": name, "axioms": ax} if clean else {"proved": False, "why": f"axiom audit of {name} failed: {flat[-200:]}"}
        if clean and tier == "thorough":
            rc, cout = sh(["lake", "env", "leanchecker", f"Chartparse.Tie.{X}"], cwd=LEAN, timeout=3600)
            res[X]["leanchecker"] = rc == 0
            if rc != 0:
                res[X] = {"proved": False, "why": "leanchecker rejected the module: " + cout[-200:]}
    return res


def leanchecker(pid: str) -> tuple[bool, str]:
    rc, out = sh(["lake", "env", "leanchecker", f"Chartparse.Props.{pid}"], cwd=LEAN, timeout=3600)
    return rc == 0, out[-400:]


def load_prop(pid: str):
    return importlib.import_module(f"verif.props.{pid}")


def setup() -> int:
    t0 = time.time()
    with Lock():
        st = translate()
        bad = [k for k, v in st.items() if not v.get("ok")]
        if bad:
            print("setup: translation of", bad, "failed (kept previous Gen files):", {k: st[k].get("error") for k in bad})
        ok, out = lake_build(["Chartparse", "driver"] + [f"Chartparse.Tie.{X}" for X in TIE_THEOREM])
        print(out[-3000:])
        if not ok:
            print("setup: lake build failed (the checks will rebuild per property and report)")
    print(f"setup done in {time.time() - t0:.0f}s")
    return 0


def known_for(pid: str):
    return [e for e in fw.load_known() if e["property"] == pid]


def run(pid: str, tier: str, seed: int) -> int:
    t0 = time.time()
    prop = load_prop(pid)
    ctx = fw.Ctx(pid, tier, seed)
    try:
        import chartparse.chart  # noqa: F401  the one cycle-safe first import on an unfixed tree
    except Exception:  # noqa: BLE001
        pass
    broken = []  # what no longer checks (theorems / obligations / translation)
    infra = []
    with Lock():
        st = translate()
        for sec in prop.GEN_SECTIONS:
            if not st.get(sec, {}).get("ok"):
                broken.append(f"translation of Gen/{sec}.lean failed: {st.get(sec, {}).get('error')}")
        ok, out = lake_build([f"Chartparse.Props.{pid}", "driver"])
        build_log = out
        if not ok:
            errs = re.findall(r"error: (.*)", out)
            # a failure inside Model/ or the driver is my bug unless Gen changed shape
            broken.append("lake build failed: " + " | ".join(e[:300] for e in errs[:4]))
        aud = {"ok": False, "theorems": theorem_names(pid), "axioms": {}, "problems": ["not run: build failed"]}
        if ok:
            aud = audit(pid)
            if not aud["ok"]:
                # forbidden tokens / extra axioms are defects of the proof base, not of the code under test
                infra += aud["problems"]
        ties = leaf_ties(prop, st, tier) if ok else {}
        ctx.intensify = any(not v["proved"] for v in ties.values())
        chk = None
        if ok and tier == "thorough":
            cok, cout = leanchecker(pid)
            chk = cok
            if not cok:
                infra.append("leanchecker rejected the module: " + cout)
    driver_ok = (LEAN / ".lake" / "build" / "bin" / "driver").exists()
    if not driver_ok:
        infra.append("native driver missing")
    # ---- correspondence slice (corpus first inside each slice)
    out = None
    try:
        if pid != "C20" and not os.environ.get("VERIF_NO_PAST"):
            from verif import impl
            impl.pollute(seed)  # every slice runs in a process with a past (see impl.pollute); C20 uses fresh interpreters throughout
        fw.KNOWN_KEYS.update(e["id"] for e in known_for(pid) if e.get("status") == "finding")
        fw.T0[0] = time.time()
        out = prop.slice(ctx)
        if getattr(prop, "LEAVES", None) and driver_ok:
            from verif import leaf
            leaf.validate(ctx, out, list(prop.LEAVES.values()))
            if getattr(prop, "IMP", None):
                from verif import impval
                impval.validate(ctx, out, list(prop.IMP))
            for X, v in ties.items():
                out.notes.append(f"leaf tie {X}: " + (f"{v['theorem']} holds for the AST dumped from the working tree" if v["proved"]
                                                      else f"NOT established ({v['why']}); tie = correspondence only, exploration ×4"))
    except fw.Enough as en:
        out = en.outcome
        out.notes.append("slice stopped at the first exhaustion of the memory cap by the implementation")
    except Exception as ex:  # noqa: BLE001
        frames = traceback.extract_tb(ex.__traceback__)
        inner = frames[-1] if frames else None
        if isinstance(ex, (MemoryError, RecursionError)) and inner is not None and str(inner.filename).startswith(str(REPO)):
            # the code under test ran out of the capped memory (fw.limit_memory) or of stack at a call the harness makes on every run:
            # not a harness problem — the property is no longer shown to hold, and the call stack is the lead
            broken.append(f"{type(ex).__name__} inside {pathlib.Path(inner.filename).name}:{inner.lineno} ({inner.name}) while the harness exercised the "
                          "implementation: " + " <- ".join(f"{pathlib.Path(f.filename).name}:{f.lineno}" for f in reversed(frames[-5:])))
        else:
            infra.append("slice crashed: " + traceback.format_exc()[-1500:])
    violations = list(out.violations) if out else []
    corr = list(out.corr) if out else []
    # ---- known findings: replay each one listed for this property
    kf_lines = []
    for e in known_for(pid):
        if e.get("status") != "finding":
            continue
        try:
            still, obs = prop.replay(ctx, e["replay"])
        except Exception:  # noqa: BLE001
            still, obs = None, traceback.format_exc()[-300:]
        if still:
            kf_lines.append(f"KNOWN-FINDING: property={pid} {e['what']}")
        else:
            print(f"note: known finding {e['id']} no longer reproduces ({obs})")
    known_keys = {e["id"] for e in known_for(pid) if e.get("status") == "finding"}
    new_viol = [v for v in violations if v["key"] not in known_keys]
    # ---- broken proof or correspondence: search the real code for a failing input
    searched = None
    if (broken or corr) and not new_viol and out is not None:
        ctx.search = True
        try:
            so = prop.search(ctx, corr) if hasattr(prop, "search") else prop.slice(ctx)
            searched = so.evaluations
            new_viol = [v for v in so.violations if v["key"] not in known_keys]
        except Exception:  # noqa: BLE001
            infra.append("search crashed: " + traceback.format_exc()[-800:])
        ctx.search = False
    wall = time.time() - t0
    # ---- evidence
    names = aud.get("theorems", [])
    discharged = len(names) if (not broken and aud["ok"]) else 0
    ev = {
        "property_id": pid, "tier": tier, "seed": seed, "level": "proof",
        "coverage": {
            "obligations": max(1, len(names)), "discharged": discharged,
            "checker_cmd": f"cd lean && lake build Chartparse.Props.{pid} && lake env lean .audit/{pid}.lean"
                           + (" && lake env leanchecker Chartparse.Props." + pid if tier == "thorough" else ""),
            "trusted_base": prop.TRUSTED if hasattr(prop, "TRUSTED") else [],
            "theorems": names, "axioms": aud.get("axioms", {}), "audit_problems": aud.get("problems", []),
            "leanchecker": chk, "gen_status": {k: v.get("ok") for k, v in st.items()},
            "broken_obligations": broken,
            "evaluations": out.evaluations if out else 0,
            "distinct_nontrivial": len(out.keys) if out else 0,
            "rule": out.rule if out else "",
            "samples": (out.samples if out else [])[:4] or [{"theorem": n} for n in names[:3]],
            "traces_validated_against_impl": out.traces if out else 0,
            "distribution": dict(out.dist.most_common(40)) if out else {},
            "correspondence_mismatches": len(corr), "model_vs_truth_mismatches": len(out.model_bugs) if out else 0,
            "search_evaluations": searched, "notes": out.notes if out else [], "leaf_ties": ties,
        },
        "assumptions": getattr(prop, "ASSUMPTIONS", []),
        "wall_s": round(wall, 2), "violations": len(new_viol) + (1 if (broken or corr) and not new_viol else 0),
    }
    if out is not None and out.exhaustive is not None:
        ev["coverage"]["exhaustive"] = bool(out.exhaustive)
    fw.EVIDENCE.mkdir(exist_ok=True)
    (fw.EVIDENCE / f"{pid}.json").write_text(json.dumps(ev, indent=1, default=str, ensure_ascii=False) + "\n")
    # ---- verdict
    for l in kf_lines:
        print(l)
    if new_viol:
        for v in new_viol[:3]:
            path = fw.write_replay(pid, "input", {"what": v["what"], "observed": v["observed"], "promised": v["promised"],
                                                   "replay": v["replay"], "how": f"./check {pid} --replay <this file>",
                                                   "past_seed": None if pid == "C20" else seed,
                                                   "past": "the slice ran after verif.impl.pollute(past_seed): other charts parsed and queried in the "
                                                           "same interpreter; the replay re-creates that past first"})
            print(f"{pid}: {v['what']}")
            print(f"VIOLATION property={pid} replay={path}")
        return 1
    if broken or corr:
        data = {"no_longer_checks": broken + [f"correspondence: {c['what']}" for c in corr[:3]],
                "first_disagreement": corr[0] if corr else None, "lake_output_tail": build_log[-1500:] if broken else None,
                "searched_inputs": searched}
        path = fw.write_replay(pid, "unproved", data)
        print(f"{pid}: no longer shown to hold: {data['no_longer_checks'][:2]}")
        print(f"VIOLATION property={pid} replay={path} no-failing-input-found")
        return 1
    if out is not None and out.model_bugs:
        print(f"{pid}: model disagrees with the property's truth while the implementation agrees (model bug):",
              json.dumps(out.model_bugs[0], default=str)[:600])
        return 2
    if infra:
        print(f"{pid}: infrastructure problem:", infra[:3])
        return 2
    print(f"{pid}: held — {len(names)} theorems checked, axioms {sorted({a for v in aud['axioms'].values() for a in v})}, "
          f"{out.evaluations} cases ({len(out.keys)} distinct non-trivial), {out.traces} compared with the model, {wall:.1f}s")
    return 0


def replay(pid: str, path: str) -> int:
    prop = load_prop(pid)
    data = json.loads(pathlib.Path(path).read_text())
    ctx = fw.Ctx(pid, "quick", 0)
    if data.get("kind") == "unproved":
        print("this replay names proof obligations / correspondences, not an input:", data.get("no_longer_checks"))
        return run(pid, "quick", 0)
    if data.get("past_seed") is not None and not os.environ.get("VERIF_NO_PAST"):
        from verif import impl
        try:
            import chartparse.chart  # noqa: F401
        except Exception:  # noqa: BLE001
            pass
        impl.pollute(data["past_seed"])
    still, obs = prop.replay(ctx, data["replay"])
    print(json.dumps({"still_fails": still, "observed": obs, "promised": data.get("promised")}, default=str, ensure_ascii=False)[:2000])
    if still:
        print(f"VIOLATION property={pid} replay={path}")
        return 1
    return 0


def main(argv) -> int:
    if "--setup" in argv:
        return setup()
    args = [a for a in argv[1:] if not a.startswith("--")]
    pid = args[0]
    tier = os.environ.get("VERIF_TIER") or "quick"
    if "--tier" in argv:
        tier = argv[argv.index("--tier") + 1]
        args = [a for a in args if a != tier]
    seed = int(os.environ.get("VERIF_SEED", "0") or 0)
    if "--replay" in argv:
        fw.limit_memory()
        return replay(pid, argv[argv.index("--replay") + 1])
    if tier not in ("quick", "thorough"):
        tier = "quick"
    fw.limit_memory(tier)
    return run(pid, tier, seed)


if __name__ == "__main__":
    try:
        sys.exit(main(sys.argv))
    except subprocess.TimeoutExpired as e:
        print("timeout:", e)
        sys.exit(2)
    except MemoryError:
        # the harness itself (not the code under test inside a slice, which is handled there) ran into the address-space cap
        print("infrastructure problem: the check ran out of the memory allowed by VERIF_MEM_GB")
        sys.exit(2)
