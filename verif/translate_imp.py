"""Section `Imp` of the translator: loops and glue of /repo as terms of `Model/Imp.lean`.

Syntax to syntax, node by node: an `ast` node becomes the constructor of the same name; anything the embedded subset has no
constructor for is refused (the function is then recorded as untranslatable and its tie is the correspondence check alone).
The translator *decides* only these things, all recorded in DESIGN.md's trusted base:
  * a module-level `int` constant is its live value; an enum member is the object `(class name, name, value)`;
  * `typing.cast(T, x)` and a call of a `typing.NewType` are `x`;
  * a call whose callee is not a local is the external call named by its dotted source text (plus the keyword names, in the
    order written); a method call on a local value is the external call `.<method>` with the receiver as first argument;
  * `logger.warning(...)` is "one warning" (its text is not modelled);
  * lists are values: a function in which a mutated list could be reachable under a second name, or in which a loop's own
    sequence is mutated inside the loop, is refused.
"""
from __future__ import annotations

import ast
import enum
import importlib

from .translate import HEADER, REPO, lean_str


class Refused(Exception):
    pass


EXC_KIND = {"ValueError": ".valueError", "RegexNotMatchError": ".regexNotMatch", "MissingRequiredField": ".missingRequiredField"}
BIN = {"Add": "add", "Sub": "sub", "Mult": "mul", "Pow": "pow"}
CMP = {"Lt": "lt", "LtE": "le", "Gt": "gt", "GtE": "ge", "Eq": "eq", "NotEq": "ne"}


def exc_kind(name: str) -> str:
    return EXC_KIND.get(name, f"(.internal {lean_str(name)})")


def dotted(node):
    if isinstance(node, ast.Name):
        return node.id
    if isinstance(node, ast.Attribute):
        b = dotted(node.value)
        return None if b is None else b + "." + node.attr
    return None


def funcdef(modname: str, qual: str):
    tree = ast.parse((REPO / "chartparse" / f"{modname}.py").read_text())
    body, node = tree.body, None
    for part in qual.split("."):
        node = next((n for n in reversed(body) if isinstance(n, (ast.FunctionDef, ast.ClassDef)) and n.name == part), None)
        if node is None:
            raise Refused(f"{modname}.{qual} not found")
        body = node.body
    if not isinstance(node, ast.FunctionDef):
        raise Refused(f"{modname}.{qual} is not a function")
    return node, vars(importlib.import_module(f"chartparse.{modname}"))


def enclosing_function(modname: str, qual: str):
    """the FunctionDef that directly contains the (nested) function `qual`, if any"""
    tree = ast.parse((REPO / "chartparse" / f"{modname}.py").read_text())
    body, node, parent = tree.body, None, None
    for part in qual.split("."):
        parent = node
        node = next((n for n in reversed(body) if isinstance(n, (ast.FunctionDef, ast.ClassDef)) and n.name == part), None)
        if node is None:
            return None
        body = node.body
    return parent if isinstance(parent, ast.FunctionDef) else None


def own_nodes(fn):
    """nodes of the function's own body, nested function / class definitions excluded"""
    todo = list(fn.body)
    while todo:
        n = todo.pop()
        if isinstance(n, (ast.FunctionDef, ast.AsyncFunctionDef, ast.ClassDef, ast.Lambda)):
            continue
        yield n
        todo.extend(ast.iter_child_nodes(n))


def class_val(c) -> str:
    return f"(.obj {lean_str('type:' + c.__qualname__)} .fnil)"


def lit_val(v) -> str:
    if isinstance(v, bool):
        return f"(.bool {str(v).lower()})"
    if isinstance(v, int):
        return f"(.int {v})" if v >= 0 else f"(.int ({v}))"
    if v is None:
        return ".none"
    if isinstance(v, str):
        return "(.str [" + ", ".join(str(ord(c)) for c in v) + "])"
    if isinstance(v, enum.Enum):
        val = v.value
        if isinstance(val, tuple) and all(isinstance(x, int) for x in val):
            inner = ".nil"
            for x in reversed(val):
                inner = f"(.cons {lit_val(x)} {inner})"
            vv = f"(.tup {inner})"
        elif isinstance(val, (int, str)):
            vv = lit_val(val)
        else:
            raise Refused(f"enum value {val!r}")
        return f"(.obj {lean_str(type(v).__name__)} (.field \"name\" {lit_val(v.name)} (.field \"value\" {vv} .fnil)))"
    if isinstance(v, tuple):
        inner = ".nil"
        for x in reversed(v):
            inner = f"(.cons {lit_val(x)} {inner})"
        return f"(.tup {inner})"
    if isinstance(v, list):
        inner = ".nil"
        for x in reversed(v):
            inner = f"(.cons {lit_val(x)} {inner})"
        return f"(.list {inner})"
    if isinstance(v, dict):
        inner = ".nil"
        for k, x in reversed(list(v.items())):
            inner = f"(.cons (.tup (.cons {lit_val(k)} (.cons {lit_val(x)} .nil))) {inner})"
        return f"(.dict {inner})"
    raise Refused(f"constant {v!r}")


def is_list_map_class(cls) -> bool:
    """a class whose instances are nothing but a `collections.defaultdict(list)` reached through `__getitem__` — by the shape of its
    `__init__` and `__getitem__` (anything else in the class makes this false)"""
    import inspect
    import textwrap
    if not isinstance(cls, type):
        return False
    try:
        tree = ast.parse(textwrap.dedent(inspect.getsource(cls)))
    except (OSError, TypeError, SyntaxError):
        return False
    body = [n for n in tree.body[0].body if not (isinstance(n, ast.Expr) and isinstance(n.value, ast.Constant))]
    if [getattr(n, "name", None) for n in body] != ["__init__", "__getitem__"]:
        return False
    init = [n for n in body[0].body if not (isinstance(n, ast.Expr) and isinstance(n.value, ast.Constant))]
    get = [n for n in body[1].body if not (isinstance(n, ast.Expr) and isinstance(n.value, ast.Constant))]
    if len(init) != 1 or not isinstance(init[0], (ast.Assign, ast.AnnAssign)) or ast.unparse(init[0].value) != "collections.defaultdict(list)":
        return False
    tgt = init[0].target if isinstance(init[0], ast.AnnAssign) else init[0].targets[0]
    if ast.unparse(tgt) != "self._dict":
        return False
    k = body[1].args.args[1].arg
    if len(get) != 1 or not isinstance(get[0], ast.Return):
        return False
    r = get[0].value
    if isinstance(r, ast.Call) and dotted(r.func) in ("typ.cast", "typing.cast") and len(r.args) == 2:
        r = r.args[1]
    return ast.unparse(r) in (f"self._dict.__getitem__({k})", f"self._dict[{k}]")


class Fn:
    def __init__(self, mod, qual):
        self.fn, self.glob = funcdef(mod, qual)
        a = self.fn.args
        if a.vararg or a.kwarg:
            raise Refused("*args / **kwargs")
        self.params = [x.arg for x in a.posonlyargs + a.args + a.kwonlyargs]
        owner = self.glob.get(qual.split(".")[0]) if "." in qual else None
        for part in qual.split(".")[1:-1]:
            owner = getattr(owner, part, None)
        self.owner = owner if isinstance(owner, type) else None
        self.first_param = self.params[0] if self.params else None
        raw = vars(self.owner).get(self.fn.name) if self.owner is not None else None
        self.first_kind = "classmethod" if isinstance(raw, classmethod) else "staticmethod" if isinstance(raw, staticmethod) else "function"
        assigned = []
        for n in own_nodes(self.fn):
            tg = []
            if isinstance(n, ast.Assign):
                tg = n.targets
            elif isinstance(n, (ast.AnnAssign, ast.AugAssign, ast.For)):
                tg = [n.target]
            elif isinstance(n, ast.NamedExpr):
                raise Refused("walrus")
            elif isinstance(n, (ast.With, ast.Global, ast.Nonlocal, ast.Delete, ast.Yield, ast.YieldFrom, ast.Await,
                                ast.SetComp, ast.Match)):
                raise Refused(type(n).__name__)
            for t in tg:
                for m in ast.walk(t):
                    if isinstance(m, ast.Name) and isinstance(m.ctx, ast.Store) and m.id not in assigned:
                        assigned.append(m.id)
        self.locals = sorted(x for x in assigned if x not in self.params)
        # closure variables: names this nested function reads that its enclosing function binds — extra parameters of the term
        par = enclosing_function(mod, qual)
        if par is not None:
            bound = {x.arg for x in par.args.posonlyargs + par.args.args + par.args.kwonlyargs}
            for n in own_nodes(par):
                for t in (n.targets if isinstance(n, ast.Assign) else [n.target] if isinstance(n, (ast.AnnAssign, ast.AugAssign, ast.For)) else []):
                    bound |= {m.id for m in ast.walk(t) if isinstance(m, ast.Name)}
            used = []
            ann = set()   # names that occur in annotations only name types: they are never evaluated into the result
            for n in ast.walk(self.fn):
                for sub in ([n.annotation] if isinstance(n, (ast.AnnAssign, ast.arg)) and n.annotation is not None else []) + \
                           ([n.returns] if isinstance(n, ast.FunctionDef) and n.returns is not None else []):
                    ann |= {id(m) for m in ast.walk(sub)}
            for n in own_nodes(self.fn):
                if id(n) in ann:
                    continue
                if isinstance(n, ast.Name) and isinstance(n.ctx, ast.Load) and n.id in bound and n.id not in self.params \
                        and n.id not in self.locals and n.id not in used:
                    used.append(n.id)
            self.params += used
        # type-alias locals: assigned once, and every read of them in the function's own statements sits in an annotation or in the first
        # argument of `typing.cast` (never evaluated into the result): their assignments are dropped (that evaluating `A | B` over classes
        # cannot fail is not modelled)
        self.aliases = set()
        cast_first = set()
        for n in own_nodes(self.fn):
            if isinstance(n, ast.Call) and dotted(n.func) in ("typ.cast", "typing.cast", "cast") and n.args:
                cast_first |= {id(m) for m in ast.walk(n.args[0])}
        ann_ids = set()
        for n in ast.walk(self.fn):
            for sub in ([n.annotation] if isinstance(n, (ast.AnnAssign, ast.arg)) and n.annotation is not None else []) + \
                       ([n.returns] if isinstance(n, ast.FunctionDef) and n.returns is not None else []):
                ann_ids |= {id(m) for m in ast.walk(sub)}
        for name in list(self.locals):
            loads = [m for m in own_nodes(self.fn) if isinstance(m, ast.Name) and m.id == name and isinstance(m.ctx, ast.Load)]
            stores = [m for m in own_nodes(self.fn) if isinstance(m, ast.Name) and m.id == name and isinstance(m.ctx, ast.Store)]
            if len(stores) == 1 and all(id(m) in cast_first or id(m) in ann_ids for m in loads) and name[:1].isupper():
                self.aliases.add(name)
        self.locals = [x for x in self.locals if x not in self.aliases]
        self.local_classes = {n.name for n in self.fn.body if isinstance(n, ast.ClassDef)}
        self.uses_it = False
        self.uses_log = False
        self.consts = []   # (name, Lean value, source text): non-scalar constants folded at translation time, emitted as definitions
        # locals that only ever hold a fresh map-of-lists (so that `x[k].append(v)` has the meaning `appendAt` gives it)
        self.listmaps = set()
        for n in own_nodes(self.fn):
            if isinstance(n, ast.Assign) and len(n.targets) == 1 and isinstance(n.targets[0], ast.Name) and isinstance(n.value, ast.Call) \
                    and not n.value.args and not n.value.keywords and is_list_map_class(self.glob.get(dotted(n.value.func) or "")):
                self.listmaps.add(n.targets[0].id)
        for n in own_nodes(self.fn):
            if isinstance(n, (ast.Assign, ast.AnnAssign)) and n.value is not None:
                for t in (n.targets if isinstance(n, ast.Assign) else [n.target]):
                    if isinstance(t, ast.Name) and t.id in self.listmaps and not (isinstance(n.value, ast.Call) and is_list_map_class(self.glob.get(dotted(n.value.func) or ""))):
                        self.listmaps.discard(t.id)
        self._alias_check()

    def _in_warning(self, node) -> bool:
        for n in own_nodes(self.fn):
            if isinstance(n, ast.Expr) and isinstance(n.value, ast.Call) and dotted(n.value.func) == "logger.warning":
                if any(node is m for m in ast.walk(n)):
                    return True
        return False

    # ------------------------------------------------------------------ aliasing
    def _alias_check(self):
        mutated = set()
        for n in own_nodes(self.fn):
            if isinstance(n, ast.Expr) and isinstance(n.value, ast.Call) and isinstance(n.value.func, ast.Attribute) \
                    and n.value.func.attr in ("append", "extend", "insert", "pop", "clear", "sort", "reverse", "remove") \
                    and isinstance(n.value.func.value, ast.Name):
                mutated.add(n.value.func.value.id)
            if isinstance(n, ast.Expr) and isinstance(n.value, ast.Call) and isinstance(n.value.func, ast.Attribute) \
                    and n.value.func.attr == "append" and isinstance(n.value.func.value, ast.Subscript) \
                    and isinstance(n.value.func.value.value, ast.Name):
                mutated.add(n.value.func.value.value.id)
            if isinstance(n, (ast.Assign, ast.AugAssign)):
                for t in (n.targets if isinstance(n, ast.Assign) else [n.target]):
                    if isinstance(t, ast.Subscript) and isinstance(t.value, ast.Name):
                        mutated.add(t.value.id)
        self.mutated = mutated
        for n in own_nodes(self.fn):
            if isinstance(n, (ast.Assign, ast.AnnAssign)) and n.value is not None:
                tgs = n.targets if isinstance(n, ast.Assign) else [n.target]
                for t in tgs:
                    if isinstance(t, ast.Name) and t.id in mutated and not self._fresh(n.value):
                        raise Refused(f"mutated list `{t.id}` is not created fresh")
                if isinstance(n.value, ast.Name) and n.value.id in mutated:
                    raise Refused(f"mutated list `{n.value.id}` gets a second name")
            if isinstance(n, ast.For):
                names = {m.id for m in ast.walk(n.iter) if isinstance(m, ast.Name)}
                if names & mutated:
                    inner = {m.value.func.value.id for b in n.body for m in ast.walk(b)
                             if isinstance(m, ast.Expr) and isinstance(m.value, ast.Call) and isinstance(m.value.func, ast.Attribute)
                             and isinstance(m.value.func.value, ast.Name)}
                    inner |= {t.value.id for b in n.body for m in ast.walk(b) if isinstance(m, (ast.Assign, ast.AugAssign))
                              for t in (m.targets if isinstance(m, ast.Assign) else [m.target])
                              if isinstance(t, ast.Subscript) and isinstance(t.value, ast.Name)}
                    if names & inner:
                        raise Refused("a loop mutates the sequence it iterates")
        for p in self.params:
            if p in mutated:
                raise Refused(f"parameter `{p}` is mutated")

    def _fresh(self, v) -> bool:
        if isinstance(v, (ast.List,)):
            return True
        if isinstance(v, ast.Dict) and not v.keys:
            return True
        if isinstance(v, ast.Call) and dotted(v.func) == "dict" and not v.args and not v.keywords:
            return True
        if isinstance(v, ast.Call) and not v.args and not v.keywords and is_list_map_class(self.glob.get(dotted(v.func) or "")):
            return True
        if isinstance(v, ast.BinOp) and isinstance(v.op, ast.Mult) and isinstance(v.left, ast.List):
            return True
        if isinstance(v, ast.Call) and dotted(v.func) in ("list", "_SustainList") and len(v.args) <= 1:
            return all(self._fresh(a) for a in v.args)
        return False

    # ------------------------------------------------------------------ expressions
    def _is_class_ref(self, node) -> bool:
        d = dotted(node)
        if d is None or self.is_local(d.split(".")[0]):
            return False
        obj = self.glob.get(d.split(".")[0])
        for p_ in d.split(".")[1:]:
            obj = getattr(obj, p_, None)
        return isinstance(obj, type) and obj.__module__.startswith("chartparse")

    def _plain_const(self, v, depth=0) -> bool:
        if isinstance(v, (str, int, type(None), enum.Enum)):
            return True
        if depth < 3 and isinstance(v, (tuple, list)):
            # (a class-level list is read as a constant: that no code of the package writes a class-level container is the inventory
            # obligation `gen_state_ok` of C17)
            return all(self._plain_const(x, depth + 1) for x in v)
        if depth < 3 and isinstance(v, dict):
            return all(self._plain_const(k, depth + 1) and self._plain_const(x, depth + 1) for k, x in v.items())
        return False

    def const(self, hint, val, src) -> str:
        if isinstance(val, (str, int, type(None), enum.Enum)):
            return f"(.lit {lit_val(val)})"
        name = "K_" + "".join(c if c.isalnum() else "_" for c in hint).strip("_")
        if name in [c[0] for c in self.consts]:
            if [c for c in self.consts if c[0] == name][0][1] != lit_val(val):
                name += str(len(self.consts))
            else:
                return f"(.lit {self.lean}{name})"
        self.consts.append((name, lit_val(val), src, val))
        return f"(.lit {self.lean}{name})"

    def is_local(self, name) -> bool:
        return name in self.params or name in self.locals

    def spine(self, items) -> str:
        acc = ".enil"
        for it in reversed(items):
            acc = f"(.econs {it} {acc})"
        return acc

    def expr(self, node) -> str:
        if isinstance(node, ast.Constant):
            return f"(.lit {lit_val(node.value)})"
        if isinstance(node, ast.Name):
            if self.is_local(node.id):
                return f"(.var {lean_str(node.id)})"
            g = self.glob.get(node.id)
            if isinstance(g, int) and not isinstance(g, bool):
                return f"(.lit {lit_val(g)})"
            if isinstance(g, type) and g.__module__.startswith("chartparse"):
                return f"(.lit {class_val(g)})"   # a class of the package handed on as a value: an object that is nothing but its name
            if node.id in getattr(self, "local_classes", ()):
                return f"(.lit (.obj {lean_str('type:<locals>.' + node.id)} .fnil))"   # a class defined in this function's body
            raise Refused(f"name {node.id}")
        if isinstance(node, ast.Attribute):
            d = dotted(node)
            if d is not None and not self.is_local(d.split(".")[0]):
                parts = d.split(".")
                obj = self.glob.get(parts[0])
                for p in parts[1:]:
                    obj = getattr(obj, p, None)
                if isinstance(obj, enum.Enum):
                    return f"(.lit {lit_val(obj)})"
                if isinstance(obj, int) and not isinstance(obj, bool):
                    return f"(.lit {lit_val(obj)})"
                if isinstance(obj, str):
                    return f"(.lit {lit_val(obj)})"   # a class-level string constant of another class (`Metadata.header_tag`): its live value
                if isinstance(obj, type) and obj.__module__.startswith("chartparse"):
                    return f"(.lit {class_val(obj)})"
                raise Refused(f"global {d}")
            if d is not None and self.owner is not None and self.first_kind == "classmethod" and len(d.split(".")) == 2 \
                    and d.split(".")[0] == self.first_param and d.split(".")[1] in vars(self.owner) \
                    and self._plain_const(vars(self.owner)[d.split(".")[1]]):
                # `cls.<constant>` in a classmethod: the live value of the owning class's constant (a subclass overriding it is not modelled)
                return self.const(d.split(".")[1], vars(self.owner)[d.split(".")[1]], d)
            return f"(.attr {self.expr(node.value)} {lean_str(node.attr)})"
        if isinstance(node, ast.Subscript) and isinstance(node.value, ast.Name) and not self.is_local(node.value.id) \
                and isinstance(self.glob.get(node.value.id), dict) and not isinstance(node.slice, ast.Slice):
            # a look-up in a module-level table: the external call `<table>[]`
            return f"(.call {lean_str(node.value.id + '[]')} {self.spine([self.expr(node.slice)])})"
        if isinstance(node, ast.Subscript) and not isinstance(node.slice, ast.Slice) and self._is_class_ref(node.slice):
            # a look-up keyed by a class object (`parsed_data[NoteEvent.ParsedData]`): the receiver's own `__getitem__`, an external call
            return f"(.call \".__getitem__\" {self.spine([self.expr(node.value), self.expr(node.slice)])})"
        if isinstance(node, ast.Subscript):
            if isinstance(node.slice, ast.Slice):
                if node.slice.step is not None:
                    raise Refused("slice step")
                lo = self.expr(node.slice.lower) if node.slice.lower is not None else "(.lit .none)"
                hi = self.expr(node.slice.upper) if node.slice.upper is not None else "(.lit .none)"
                return f"(.slice {self.expr(node.value)} {lo} {hi})"
            return f"(.index {self.expr(node.value)} {self.expr(node.slice)})"
        if isinstance(node, ast.UnaryOp) and isinstance(node.op, ast.Not):
            return f"(.not {self.expr(node.operand)})"
        if isinstance(node, ast.UnaryOp) and isinstance(node.op, ast.USub) and isinstance(node.operand, ast.Constant) \
                and isinstance(node.operand.value, int) and not isinstance(node.operand.value, bool):
            return f"(.lit {lit_val(-node.operand.value)})"
        if isinstance(node, ast.BoolOp):
            op = ".and" if isinstance(node.op, ast.And) else ".or"
            terms = [self.expr(v) for v in node.values]
            acc = terms[-1]
            for t in reversed(terms[:-1]):
                acc = f"({op} {t} {acc})"
            return acc
        if isinstance(node, ast.Compare) and len(node.ops) == 1:
            op, rhs = node.ops[0], node.comparators[0]
            if isinstance(op, (ast.Is, ast.IsNot)) and isinstance(rhs, ast.Constant) and rhs.value is None:
                inner = f"(.isNone {self.expr(node.left)})"
                return inner if isinstance(op, ast.Is) else f"(.not {inner})"
            if type(op).__name__ in CMP:
                return f"(.cmp .{CMP[type(op).__name__]} {self.expr(node.left)} {self.expr(rhs)})"
            if isinstance(op, ast.In):
                return f"(.contains {self.expr(node.left)} {self.expr(rhs)})"
            if isinstance(op, ast.NotIn):
                return f"(.not (.contains {self.expr(node.left)} {self.expr(rhs)}))"
            raise Refused("comparison " + type(op).__name__)
        if isinstance(node, ast.BinOp) and type(node.op).__name__ in BIN:
            return f"(.bin .{BIN[type(node.op).__name__]} {self.expr(node.left)} {self.expr(node.right)})"
        if isinstance(node, ast.IfExp):
            return f"(.ifExp {self.expr(node.test)} {self.expr(node.body)} {self.expr(node.orelse)})"
        if isinstance(node, ast.Tuple):
            return f"(.mkTup {self.spine([self.expr(e) for e in node.elts])})"
        if isinstance(node, ast.List):
            return f"(.mkList {self.spine([self.expr(e) for e in node.elts])})"
        if isinstance(node, ast.Call):
            return self.call(node)
        if isinstance(node, ast.ListComp):
            return self.gen("comp", node)
        if isinstance(node, ast.Dict) and not node.keys:
            return "(.lit (.dict .nil))"
        if isinstance(node, ast.DictComp):
            # a dict comprehension that reads nothing but module-level names (enum classes, itertools): a constant of the module,
            # folded to its live value at translation time
            bound = {m.id for g in node.generators for m in ast.walk(g.target) if isinstance(m, ast.Name)}
            for m in ast.walk(node):
                if isinstance(m, ast.Name) and isinstance(m.ctx, ast.Load) and m.id not in bound and self.is_local(m.id):
                    raise Refused("dict comprehension over locals")
            val = eval(compile(ast.Expression(node), "<dictcomp>", "eval"), dict(self.glob))  # noqa: S307
            if not self._plain_const(val):
                raise Refused("dict comprehension value")
            return self.const("table", val, ast.unparse(node)[:100])
        raise Refused(f"expression {type(node).__name__}: {ast.unparse(node)[:60]}")

    def gen(self, form, node) -> str:
        """`<form>(elt for v in it if c …)`: one `for`, a plain name as target"""
        if len(node.generators) != 1 or node.generators[0].is_async or not isinstance(node.generators[0].target, ast.Name):
            raise Refused("generator form")
        g = node.generators[0]
        v = g.target.id
        it = self.expr(g.iter)
        self.params.append(v)  # visible inside the generator only
        try:
            conds = [self.expr(c) for c in g.ifs]
            c = "(.lit (.bool true))"
            for t in reversed(conds):
                c = t if c == "(.lit (.bool true))" else f"(.and {t} {c})"
            e = self.expr(node.elt)
        finally:
            self.params.pop()
        return f"(.{form} {lean_str(v)} {it} {c} {e})"

    def call(self, node) -> str:
        f = dotted(node.func)
        args, kws = node.args, node.keywords
        if any(isinstance(a, ast.Starred) for a in args) or any(k.arg is None for k in kws):
            raise Refused("star arguments")
        root = f.split(".")[0] if f else None
        if f is not None and not self.is_local(root):
            obj = self.glob.get(root, getattr(__import__("builtins"), root, None))
            for p in f.split(".")[1:]:
                obj = getattr(obj, p, None)
            if obj is len and len(args) == 1 and not kws:
                return f"(.len {self.expr(args[0])})"
            if obj is range and not kws and len(args) in (1, 2):
                lo = "(.lit (.int 0))" if len(args) == 1 else self.expr(args[0])
                return f"(.range {lo} {self.expr(args[-1])})"
            if obj is enumerate and len(args) == 1 and not kws:
                return f"(.enumerate {self.expr(args[0])})"
            if obj is dict and not args and not kws:
                return "(.lit (.dict .nil))"
            if obj is tuple and len(args) == 1 and not kws:
                return f"(.toTup {self.expr(args[0])})"
            if obj is isinstance and len(args) == 2 and not kws and isinstance(args[1], ast.Name) and args[1].id == "int":
                return f"(.isInt {self.expr(args[0])})"
            import datetime as _dt
            if obj is isinstance and len(args) == 2 and not kws and self.glob.get(dotted(args[1]) or "") is _dt.timedelta:
                return f"(.isTd {self.expr(args[0])})"
            if obj is _dt.timedelta and len(args) == 1 and not kws and isinstance(args[0], ast.Constant) and args[0].value == 0:
                return "(.lit (.td 0))"
            if obj in (any, all, next, max) and len(args) == 1 and not kws and isinstance(args[0], ast.GeneratorExp):
                return self.gen({any: "anyGen", all: "allGen", next: "nextGen", max: "maxGen"}[obj], args[0])
            if obj is max and len(args) == 1 and set(k.arg for k in kws) == {"key"} and isinstance(kws[0].value, ast.Lambda) \
                    and len(kws[0].value.args.args) == 1:
                v = kws[0].value.args.args[0].arg
                it = self.expr(args[0])
                self.params.append(v)
                try:
                    key = self.expr(kws[0].value.body)
                finally:
                    self.params.pop()
                return f"(.maxKey {lean_str(v)} {it} {key})"
            if obj is filter and len(args) == 2 and not kws and isinstance(args[0], ast.Lambda) and len(args[0].args.args) == 1:
                v = args[0].args.args[0].arg
                it = self.expr(args[1])
                self.params.append(v)
                try:
                    c = self.expr(args[0].body)
                finally:
                    self.params.pop()
                return f"(.comp {lean_str(v)} {it} {c} (.var {lean_str(v)}))"
            if is_list_map_class(obj) and not args and not kws:
                return "(.lit (.list .nil))"  # an empty map from keys to lists, entries in insertion order
            import typing
            if obj is typing.cast and len(args) == 2 and not kws:
                return self.expr(args[1])
            if hasattr(obj, "__supertype__") and len(args) == 1 and not kws:  # typing.NewType: the identity
                return self.expr(args[0])
            if isinstance(obj, type) and hasattr(obj, "__dataclass_fields__") and not args and kws:
                acc = ".fnilE"
                for k in reversed(kws):
                    acc = f"(.fcons {lean_str(k.arg)} {self.expr(k.value)} {acc})"
                return f"(.ctor {lean_str(obj.__name__)} {acc})"
            name = f + ("(" + ",".join(k.arg + "=" for k in kws) + ")" if kws else "")
            return f"(.call {lean_str(name)} {self.spine([self.expr(a) for a in args] + [self.expr(k.value) for k in kws])})"
        if isinstance(node.func, ast.Attribute) and f is not None and self.owner is not None and len(f.split(".")) == 3 \
                and f.split(".")[0] == self.first_param and self.first_kind == "classmethod" \
                and f.split(".")[1] in vars(self.owner) and not callable(vars(self.owner)[f.split(".")[1]]) and not kws:
            # `cls.<class constant>.<method>(…)` in a classmethod: the external call named after the owning class (no receiver)
            name = self.owner.__name__ + "." + ".".join(f.split(".")[1:])
            return f"(.call {lean_str(name)} {self.spine([self.expr(a) for a in args])})"
        if isinstance(node.func, ast.Attribute) and node.func.attr == "items" and not args and not kws:
            return f"(.items {self.expr(node.func.value)})"   # of a dict (anything else is `unsupported` in the embedding)
        if isinstance(node.func, ast.Attribute):
            # a method call on a value: the receiver is the first argument
            name = "." + node.func.attr + ("(" + ",".join(k.arg + "=" for k in kws) + ")" if kws else "")
            return f"(.call {lean_str(name)} {self.spine([self.expr(node.func.value)] + [self.expr(a) for a in args] + [self.expr(k.value) for k in kws])})"
        if isinstance(node.func, ast.Name) and self.is_local(node.func.id):
            # a call of a value held in a local (`cls(x)`): the external call `()` with the value as first argument
            name = "()" + ("(" + ",".join(k.arg + "=" for k in kws) + ")" if kws else "")
            return f"(.call {lean_str(name)} {self.spine([self.expr(node.func)] + [self.expr(a) for a in args] + [self.expr(k.value) for k in kws])})"
        raise Refused("call " + ast.unparse(node)[:60])

    # ------------------------------------------------------------------ statements
    def block(self, stmts) -> str:
        out = [s for s in (self.stmt(st) for st in stmts) if s is not None]
        if not out:
            return ".skip"
        acc = out[-1]
        for s in reversed(out[:-1]):
            acc = f"(.seq {s}\n {acc})"
        return acc

    def stmt(self, st):
        if isinstance(st, ast.Expr) and isinstance(st.value, ast.Constant):
            return None  # docstring / `...`
        if isinstance(st, (ast.FunctionDef, ast.ClassDef)):
            return None  # a nested definition: reachable only through a call, which is an external call
        if isinstance(st, ast.Pass):
            return None
        if isinstance(st, (ast.Assign, ast.AnnAssign)):
            if isinstance(st, ast.AnnAssign) and st.value is None:
                return None
            tgs = st.targets if isinstance(st, ast.Assign) else [st.target]
            if len(tgs) != 1:
                raise Refused("chained assignment")
            t = tgs[0]
            if isinstance(t, ast.Name) and t.id in self.aliases:
                return None
            if isinstance(t, ast.Name):
                return f"(.assign {lean_str(t.id)} {self.expr(st.value)})"
            if isinstance(t, ast.Tuple) and all(isinstance(e, ast.Name) for e in t.elts):
                return f"(.unpack [{', '.join(lean_str(e.id) for e in t.elts)}] {self.expr(st.value)})"
            if isinstance(t, ast.Subscript) and isinstance(t.value, ast.Name) and self.is_local(t.value.id) \
                    and not isinstance(t.slice, ast.Slice):
                return f"(.setIdx {lean_str(t.value.id)} {self.expr(t.slice)} {self.expr(st.value)})"
            if isinstance(t, ast.Subscript) and not isinstance(t.slice, ast.Slice) and isinstance(t.value, ast.Call) \
                    and isinstance(t.value.func, ast.Attribute) and t.value.func.attr == "setdefault" and isinstance(t.value.func.value, ast.Name) \
                    and self.is_local(t.value.func.value.id) and len(t.value.args) == 2 and not t.value.keywords \
                    and isinstance(t.value.args[1], ast.Call) and dotted(t.value.args[1].func) == "dict" and not t.value.args[1].args \
                    and not t.value.args[1].keywords and not self.is_local("dict"):
                # `x.setdefault(k, dict())[k2] = e` on a local dict of dicts (the inner dict is fresh, so nothing else sees it)
                return f"(.setDefaultIdx {lean_str(t.value.func.value.id)} {self.expr(t.value.args[0])} {self.expr(t.slice)} {self.expr(st.value)})"
            raise Refused("assignment target " + ast.unparse(t)[:40])
        if isinstance(st, ast.AugAssign) and isinstance(st.target, ast.Name) and type(st.op).__name__ in BIN:
            if st.target.id in self.mutated:
                raise Refused("augmented assignment to a mutated list")
            return f"(.assign {lean_str(st.target.id)} (.bin .{BIN[type(st.op).__name__]} (.var {lean_str(st.target.id)}) {self.expr(st.value)}))"
        if isinstance(st, ast.Expr) and isinstance(st.value, ast.Call):
            c = st.value
            if isinstance(c.func, ast.Attribute) and c.func.attr == "append" and isinstance(c.func.value, ast.Name) \
                    and self.is_local(c.func.value.id) and len(c.args) == 1 and not c.keywords:
                return f"(.append {lean_str(c.func.value.id)} {self.expr(c.args[0])})"
            if isinstance(c.func, ast.Attribute) and c.func.attr == "append" and isinstance(c.func.value, ast.Subscript) \
                    and isinstance(c.func.value.value, ast.Name) and self.is_local(c.func.value.value.id) and len(c.args) == 1 and not c.keywords \
                    and not isinstance(c.func.value.slice, ast.Slice) and c.func.value.value.id in self.listmaps:
                return f"(.appendAt {lean_str(c.func.value.value.id)} {self.expr(c.func.value.slice)} {self.expr(c.args[0])})"
            if dotted(c.func) == "logger.warning":
                self.uses_log = True
                return "(.warn (.lit .none))"
            raise Refused("expression statement " + ast.unparse(st)[:60])
        if isinstance(st, ast.If):
            return f"(.ite {self.expr(st.test)}\n {self.block(st.body)}\n {self.block(st.orelse)})"
        if isinstance(st, ast.While):
            if st.orelse:
                raise Refused("while-else")
            return f"(.while {self.expr(st.test)}\n {self.block(st.body)})"
        if isinstance(st, ast.For):
            if isinstance(st.target, ast.Name):
                return f"(.forIn {lean_str(st.target.id)} {self.expr(st.iter)}\n {self.block(st.body)}\n {self.block(st.orelse)})"
            if isinstance(st.target, ast.Tuple) and all(isinstance(e, ast.Name) for e in st.target.elts):
                self.uses_it = True
                un = f"(.unpack [{', '.join(lean_str(e.id) for e in st.target.elts)}] (.var \"$it\"))"
                body = self.block(st.body)
                return f"(.forIn \"$it\" {self.expr(st.iter)}\n (.seq {un}\n {body})\n {self.block(st.orelse)})"
            raise Refused("for target")
        if isinstance(st, ast.Assert) and st.msg is None:
            return f"(.ite (.not {self.expr(st.test)})\n (.raise (.internal \"AssertionError\"))\n .skip)"
        if isinstance(st, ast.Break):
            return ".brk"
        if isinstance(st, ast.Continue):
            return ".cont"
        if isinstance(st, ast.Return):
            return f"(.ret {self.expr(st.value) if st.value is not None else '(.lit .none)'})"
        if isinstance(st, ast.Raise) and st.exc is not None and st.cause is None:
            e = st.exc.func if isinstance(st.exc, ast.Call) else st.exc
            d = dotted(e)
            if d is None:
                raise Refused("raise of an expression")
            return f"(.raise {exc_kind(d.split('.')[-1])})"
        if isinstance(st, ast.Try):
            if st.orelse or st.finalbody or len(st.handlers) != 1 or st.handlers[0].name is not None \
                    or dotted(st.handlers[0].type) is None:
                raise Refused("try form")
            kind = exc_kind(dotted(st.handlers[0].type).split(".")[-1])
            return f"(.tryExcept {self.block(st.body)}\n {kind}\n {self.block(st.handlers[0].body)})"
        raise Refused(f"statement {type(st).__name__}: {ast.unparse(st)[:60]}")


# (Lean name, module, qualified name)
FUNCTIONS = [
    ("computeStarPowerData", "instrument", "NoteEvent._compute_star_power_data"),
    ("buildNoteEvents", "instrument", "InstrumentTrack._build_note_events_from_data"),
    ("noteFromParsedDatas", "instrument", "Note.from_parsed_datas"),
    ("parseDataFromChartLines", "track", "parse_data_from_chart_lines"),
    ("dataToEvents", "track", "build_events_from_data.data_to_events"),
    ("dataToBpmEvents", "track", "build_events_from_data.data_to_bpm_events"),
    ("dataToAnchorEvents", "track", "build_events_from_data.data_to_anchor_events"),
    ("noteFromParsedData", "instrument", "NoteEvent.from_parsed_data"),
    ("longestSustain", "instrument", "NoteEvent._longest_sustain"),
    ("partitionLines", "chart", "Chart._partition_lines_by_data_section"),
    ("syncPostInit", "sync", "SyncTrack.__post_init__"),
    ("bpmEventsPostInit", "sync", "BPMEvents.__post_init__"),
    ("complexSustain", "instrument", "complex_sustain_from_parsed_datas"),
    ("refinedSustainTuple", "instrument", "_refined_sustain_tuple"),
    ("lastNoteEndTimestamp", "instrument", "InstrumentTrack.last_note_end_timestamp"),
    ("notesPerSecond", "chart", "Chart.notes_per_second"),
    ("parseAllLinesForField", "metadata", "Metadata.from_chart_lines.parse_all_lines_for_field"),
    ("fromFile", "chart", "Chart.from_file"),
    ("instrumentFromChartLines", "instrument", "InstrumentTrack.from_chart_lines"),
    ("syncFromChartLines", "sync", "SyncTrack.from_chart_lines"),
    ("globalEventsFromChartLines", "globalevents", "GlobalEventsTrack.from_chart_lines"),
    ("instrumentParseData", "instrument", "InstrumentTrack._parse_data_from_chart_lines"),
    ("syncParseData", "sync", "SyncTrack._parse_data_from_chart_lines"),
    ("globalEventsParseData", "globalevents", "GlobalEventsTrack._parse_data_from_chart_lines"),
    ("buildEventsFromData", "track", "build_events_from_data"),
    ("specialFromParsedData", "instrument", "SpecialEvent.from_parsed_data"),
    ("trackEventFromParsedData", "instrument", "TrackEvent.from_parsed_data"),
    ("globalEventFromParsedData", "globalevents", "GlobalEvent.from_parsed_data"),
    ("anchorFromParsedData", "sync", "AnchorEvent.from_parsed_data"),
    ("timeSignatureFromParsedData", "sync", "TimeSignatureEvent.from_parsed_data"),
]


def gen_imp() -> str:
    import chartparse.chart  # noqa: F401  cycle-safe first import
    L = [HEADER, "import Chartparse.Model.Imp", "namespace Chartparse.Gen.Imp", "open Chartparse.PyImp\n"]
    L.append("/-! Loops and glue of /repo as terms of `Model/Imp.lean` (`Tie/Loop*.lean` proves each equal to the hand model). -/\n")
    report = []
    for lean, mod, qual in FUNCTIONS:
        try:
            f = Fn(mod, qual)
            f.lean = lean
            body = f.block(f.fn.body)
            if f.uses_log:
                body = f"(.seq (.assign \"$log\" (.mkList .enil))\n {body})"  # the warnings of this call, in order
            locs = f.locals + (["$it"] if f.uses_it else []) + (["$log"] if f.uses_log else [])
            for cname, cval, csrc, pyval in f.consts:
                L.append(f"/-- constant of `chartparse.{mod}.{qual}`, folded to its live value: `{csrc}` -/")
                if isinstance(pyval, dict):
                    # a dict constant is emitted through its entries, so that proofs can speak about the list of pairs
                    ents = ",\n  ".join(f"({lit_val(k)}, {lit_val(x)})" for k, x in pyval.items())
                    L.append(f"def {lean}{cname}_entries : List (Val × Val) :=\n [{ents}]\n")
                    L.append(f"def {lean}{cname} : Val := .dict (encEntries {lean}{cname}_entries)\n")
                else:
                    L.append(f"def {lean}{cname} : Val :=\n {cval}\n")
            L.append(f"/-- `chartparse.{mod}.{qual}` -/")
            L.append(f"def {lean}Params : List String := [{', '.join(lean_str(p) for p in f.params)}]")
            L.append(f"def {lean}Locals : List String := [{', '.join(lean_str(p) for p in locs)}]")
            L.append(f"def {lean} : Stmt :=\n {body}\n")
            report.append((lean, True))
        except Refused as e:
            why = " ".join(str(e).split())[:100]
            L.append(f"/-- `chartparse.{mod}.{qual}`: outside the embedded subset ({why}) -/")
            L.append(f"def {lean}Params : List String := []")
            L.append(f"def {lean}Locals : List String := []")
            L.append(f"def {lean} : Stmt := .raise (.internal {lean_str('untranslatable: ' + why)})\n")
            report.append((lean, False))
    L.append("def translated : List (String × Bool) := [" + ", ".join(f"({lean_str(k)}, {str(v).lower()})" for k, v in report) + "]")
    L.append("\ndef byName : String → Option (List String × List String × Stmt)")
    for lean, _ in report:
        L.append(f"  | {lean_str(lean)} => some ({lean}Params, {lean}Locals, {lean})")
    L.append("  | _ => none")
    L.append("\nend Chartparse.Gen.Imp\n")
    return "\n".join(L)
