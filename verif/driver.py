"""Talks to the Lean model driver over the line protocol (batch: requests in, replies out)."""
from __future__ import annotations

import os
import pathlib
import subprocess

LEAN_DIR = pathlib.Path(__file__).resolve().parent.parent / "lean"
EXE = LEAN_DIR / ".lake" / "build" / "bin" / "driver"


def cps(s: str) -> str:
    return ",".join(str(ord(c)) for c in s) if s else "-"


def want_tok(want) -> str:
    if want is None:
        return "~"
    if not want:
        return "-"
    return ";".join(f"{i}:{d}" for i, d in want)


def run(requests: list[str], timeout: float = 3600) -> list[str]:
    """One reply per request. Uses the native executable; falls back to `lake env lean --run`."""
    if not requests:
        return []
    data = ("\n".join(requests) + "\n").encode()
    if EXE.exists():
        cmd = [str(EXE)]
    else:
        cmd = ["lake", "env", "lean", "--run", "Driver.lean"]
    from .framework import unlimit_memory
    p = subprocess.run(cmd, input=data, stdout=subprocess.PIPE, stderr=subprocess.PIPE, cwd=LEAN_DIR, timeout=timeout, preexec_fn=unlimit_memory)
    out = p.stdout.decode().split("\n")
    if out and out[-1] == "":
        out.pop()
    if p.returncode != 0 or len(out) != len(requests):
        raise RuntimeError(
            f"driver failed: rc={p.returncode} replies={len(out)}/{len(requests)} stderr={p.stderr.decode()[-500:]}"
        )
    return out


def run_parallel(requests: list[str], jobs: int | None = None) -> list[str]:
    from concurrent.futures import ThreadPoolExecutor

    jobs = jobs or min(16, os.cpu_count() or 4)
    if len(requests) < 4 * jobs:
        return run(requests)
    n = (len(requests) + jobs - 1) // jobs
    chunks = [requests[i : i + n] for i in range(0, len(requests), n)]
    with ThreadPoolExecutor(len(chunks)) as ex:
        res = list(ex.map(run, chunks))
    return [r for c in res for r in c]
