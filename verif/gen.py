"""Seeded structured generators carrying ground truth.

A case is a *structure* (ChartSrc) rendered to chart text with seeded degrees of freedom (padding,
digit scripts, section order, newline style, garbage lines, unknown sections).  Because the text is
built from the structure, the promise of each property can be computed from the structure alone
(`Truth`), without consulting the Lean model or the implementation.
"""
from __future__ import annotations

import dataclasses
import random
import re
from dataclasses import dataclass, field
from fractions import Fraction

# --- tables of the file format as *documented* (README / Moonscraper), not read from the code
INSTRUMENTS = ["Single", "DoubleGuitar", "DoubleBass", "DoubleRhythm", "Keyboard", "Drums", "GHLGuitar", "GHLBass",
               "GHLCoop", "GHLRhythm"]
DIFFICULTIES = ["Easy", "Medium", "Hard", "Expert"]
FIELDS = [  # (snake, Pascal, kind) kind: int | str | p2
    ("resolution", "Resolution", "int"), ("offset", "Offset", "int"), ("player2", "Player2", "p2"),
    ("difficulty", "Difficulty", "int"), ("preview_start", "PreviewStart", "int"), ("preview_end", "PreviewEnd", "int"),
    ("genre", "Genre", "str"), ("media_type", "MediaType", "str"), ("name", "Name", "str"), ("artist", "Artist", "str"),
    ("charter", "Charter", "str"), ("album", "Album", "str"), ("year", "Year", "str"),
    ("music_stream", "MusicStream", "str"), ("guitar_stream", "GuitarStream", "str"),
    ("rhythm_stream", "RhythmStream", "str"), ("bass_stream", "BassStream", "str"), ("drum_stream", "DrumStream", "str"),
    ("drum2_stream", "Drum2Stream", "str"), ("drum3_stream", "Drum3Stream", "str"), ("drum4_stream", "Drum4Stream", "str"),
    ("vocal_stream", "VocalStream", "str"), ("keys_stream", "KeysStream", "str"), ("crowd_stream", "CrowdStream", "str"),
]
DEFAULTS = {"offset": 0, "player2": "bass", "difficulty": 0, "preview_start": 0, "preview_end": 0, "genre": "rock",
            "media_type": "cd"}
REQUIRED_TAGS = ["Song", "SyncTrack", "Events"]

# `\s` characters that are not line breaks (padding must not split the line)
PAD_CHARS = [" ", " ", " ", "\t", "\x1f", "\xa0", " ", " ", " ", " ", " ", " ", "　"]
# zero digits of some Nd blocks
DIGIT_ZEROS = [0x30, 0x30, 0x30, 0x30, 0x660, 0x6F0, 0x966, 0xFF10, 0x1D7CE, 0x1D7D8, 0x1E950, 0x11066, 0xA620]
C08_PAST = [1118, 1122, 1128, 20548, 1133, 1137, 2236, 2244]


def header_tag(i: int, d: int) -> str:
    return DIFFICULTIES[d] + INSTRUMENTS[i]


@dataclass
class NoteGroup:
    tick: int
    lanes: dict  # lane -> length, lanes 0..4
    open_len: int | None = None
    tap: bool = False
    forced: bool = False


@dataclass
class TrackSrc:
    inst: int
    diff: int
    groups: list
    phrases: list  # (tick, len) ordered by tick
    tevents: list  # (tick, word)


@dataclass
class ChartSrc:
    res: int
    meta: dict  # snake -> value (int | str); p2 as 'bass'/'rhythm'
    tempo: list  # (tick, n)
    tss: list  # (tick, upper, lower|None)
    anchors: list  # (tick, us)
    gevents: list  # (tick, kind, value) kind in lyric|section|text
    tracks: list
    unknown: list = field(default_factory=list)  # (tag, [raw lines])


@dataclass
class Profile:
    """knobs; every property slice biases the same generator"""
    max_tempo: int = 5
    max_groups: int = 12
    max_tracks: int = 3
    max_events: int = 6
    exotic_pad: float = 0.15
    exotic_digits: float = 0.1
    garbage: float = 0.1
    unknown_sections: float = 0.15
    shuffle_sections: float = 0.3
    crlf: float = 0.25
    big_numbers: float = 0.05
    resolutions: tuple = (192, 192, 480, 96, 960, 100, 1, 2, 3, 7, 333, 1000,
                          1920, 19200, 1921, 1929, 4800, 9600, 1001, 19)   # the usual ones with a digit more or less
    meta_fields: float = 0.35
    tricky_text: float = 0.4
    phrases: float = 0.6
    flags: float = 0.25
    c08_past: bool = True
    dup_fields: float = 0.0  # chance per [Song] field of a second, later line for the same field (the first one counts)


# ------------------------------------------------------------------------------------------ random structures


def rand_tempo(rng: random.Random, prof: Profile, res: int):
    k = rng.randint(1, prof.max_tempo)
    t = 0
    out = []
    for _ in range(k):
        r = rng.random()
        if r < 0.35:
            n = rng.choice([120000, 60000, 90000, 140000, 200000, 117000])
        elif r < 0.7:
            n = rng.randint(20000, 400000)
        elif r < 0.8:
            n = rng.choice(C08_PAST) if prof.c08_past else rng.randint(1, 5000) * 8
        elif r < 0.9:
            n = rng.randint(1, 5000)
        else:
            n = rng.choice([1, 1000, 999999, 10**6, 10**9, rng.randint(10**6, 10**9)])
        out.append((t, n))
        t += rng.choice([1, 2, res, res * 4, rng.randint(1, 3000), rng.randint(1, 50)])
    return out


WORDS = ["solo", "soloend", "x", "a_b", "[idle]", "E", "N", "=", "k=v", "é", "日本", "a\tb", "7", "S2", "\"q\"", "e\u0301", "\u212b", "\u2126x", "100%", "%s", "{0}", "//", "x//", "see:http://example.org/x", "a//b//c", "#c", "\\\\x", "\u201cq\u201d",
         # invisible characters, closing braces and signs are ordinary word characters
         "a\u200db", "\u200c", "x\u200e", "\ufeffq", "solo}", "}", "{x}", "+1", "-", "a=b", "1_0",
         # words made of digits are words: leading zeros and other digit scripts stay as written
         "007", "00", "0", "\u0663\u0664", "\uff11\uff12", "0x10", "1e3", "1.0", "١٠"]
TEXT_ATOMS = ["lyric", "section", "lyric ", "section ", "Lyric ", "SECTION ", "Section ", "LYRIC ", "ſection ", " ", "  ", "\"", "=", "[", "]", "{", "}", "la", "Intro", "1", "é",
              "日本", "\t", "E", "phrase_start", "a", "-", "'", "\\", "\xa0", "N 0 0",
              # text that is not in a Unicode normal form (decomposed accents, singleton code points, compatibility forms): verbatim means verbatim
              "e\u0301", "\u212b", "\u2126", "\u30cf\u3099", "\ufb01", "\u1e9b\u0323", "\u00c5", "\uff21", "\u0130", "\u00df", "%s", "{0}",
              # what other formats treat as comments, escapes or quotes is ordinary text here
              "//", " // ", "http://x", "a//b", "#", ";", "\\\\", "\\n", "\u201c", "\u201d", "\u2018", "/*", "*/", "<!--",
              # invisible and directional characters (zero-width joiners, marks, BOM inside a value), the separator itself, braces at the end
              "\u200b", "\u200c", "\u200d", "\u200e", "\u200f", "\u202e", "\u2060", "\u2066", "\u2069", "\ufeff", "\u00ad", "\U0001f468\u200d\U0001f469",
              " = ", "1 + 1 = 2", " = E ", "}", "x}", "\x7f", "\x01"]


# Magnitudes at which fixed-width integers, doubles, "sane maximum" clamps and digit-count limits change behaviour. Any numeric
# dimension of an input (a tick, a distance, a length, a count) is tried at a few of these besides its ordinary range.
LADDER = sorted({0, 1, 2, 3} | {2**k + d for k in (7, 8, 15, 16, 24, 31, 32, 33, 53, 63, 64) for d in (-1, 0, 1)} | {10**k for k in (3, 6, 9, 10, 12, 18)}
                | {32 * 192 + 1, 33 * 480, 64 * 960, 999_999_999, 1_000_000_000})


def ladder(rng: random.Random, lo=0, hi=None, k=3):
    """k seeded rungs of the ladder within [lo, hi]"""
    c = [x for x in LADDER if x >= lo and (hi is None or x <= hi)]
    return rng.sample(c, min(k, len(c)))


def rand_text(rng: random.Random, prof: Profile) -> tuple[str, str]:
    """(kind, value)"""
    kind = rng.choice(["lyric", "section", "text", "text"])
    if rng.random() < prof.tricky_text:
        body = "".join(rng.choice(TEXT_ATOMS) for _ in range(rng.randint(0, 5)))
    else:
        body = rng.choice(["la", "Intro 1", "phrase_start", "Verse", "oh-", "solo", "", "x y z"])
    if kind == "text":
        body = body.replace('"', "")
        if body.startswith("lyric ") or body.startswith("section "):
            body = "_" + body
    if rng.random() < 0.02:
        body += rng.choice(["la ", "x", "é"]) * rng.choice([130, 260, 260, 1030, 1030, 4100])
    return kind, body


def rand_groups(rng: random.Random, prof: Profile, res: int, thr: int):
    n = rng.randint(0, prof.max_groups)
    t = rng.choice([0, 0, res, rng.randint(0, 2000)])
    groups = []
    for gi in range(n):
        r = rng.random()
        if r < 0.1:
            g = NoteGroup(t, {}, open_len=rng.choice([0, 0, rng.randint(0, 500)]))
        else:
            lanes = rng.sample(range(5), rng.choice([1, 1, 1, 2, 2, 3, 4, 5]))
            pat = rng.random()
            if pat < 0.5:
                ln = rng.choice([0, 0, 0, rng.randint(1, 600)])
                lens = {l: ln for l in lanes}
            elif pat < 0.75:
                ln = rng.randint(1, 600)
                lens = {l: rng.choice([0, ln]) for l in lanes}
            else:
                lens = {l: rng.randint(0, 900) for l in lanes}
            g = NoteGroup(t, lens)
        if rng.random() < prof.flags:
            g.tap = rng.random() < 0.5
            g.forced = rng.random() < 0.6 and gi > 0
        groups.append(g)
        t += rng.choice([1, 1, max(1, thr - 1), max(1, thr), thr + 1, thr + 1, res, rng.randint(1, 2 * res + 5), rng.randint(1, 40)])
    return groups


def rand_phrases(rng: random.Random, prof: Profile, groups, res: int):
    if rng.random() > prof.phrases:
        return []
    ticks = [g.tick for g in groups] or [0]
    hi = max(ticks) + res + 2
    k = rng.randint(1, 5)
    starts = sorted(rng.choice([rng.choice(ticks), max(0, rng.choice(ticks) - 1), rng.choice(ticks) + 1, rng.randint(0, hi)])
                    for _ in range(k))
    out = []
    for s in starts:
        ln = rng.choice([0, 1, res, rng.randint(0, hi), rng.choice(ticks) - s if rng.choice(ticks) >= s else 1,
                         (rng.choice(ticks) - s + 1) if rng.choice(ticks) >= s else 2])
        out.append((s, max(0, ln)))
    return out


def threshold(res: int) -> int:
    """resolution / 3 rounded to the nearest tick (never a tie)"""
    return (2 * res + 3) // 6


def rand_src(rng: random.Random, prof: Profile | None = None) -> ChartSrc:
    prof = prof or Profile()
    res = rng.choice(prof.resolutions) if rng.random() < 0.8 else rng.randint(1, 5000)
    if rng.random() < prof.big_numbers:
        res = rng.randint(5000, 10**7)
    meta = {"resolution": res}
    for snake, pascal, kind in FIELDS[1:]:
        if rng.random() < prof.meta_fields:
            if kind == "int":
                meta[snake] = rng.choice([0, 1, 7, rng.randint(0, 10**6), 2**53 + 1, rng.randint(10**16, 10**30)])
            elif kind == "p2":
                meta[snake] = rng.choice(["bass", "rhythm"])
            else:
                meta[snake] = rand_value(rng, prof)
    if rng.random() < 0.15:
        # whatever the profile focuses on, the rest of the file is sometimes not trivial: every numeric [Song] field set (Offset, Difficulty,
        # PreviewStart, PreviewEnd …) — none of them moves, scales or filters anything outside the metadata
        for snake, pascal, kind in FIELDS[1:]:
            if kind == "int" and snake not in meta:
                meta[snake] = rng.choice([1, 2, 2, 5, 30, 1000])
    tempo = rand_tempo(rng, prof, res)
    last = tempo[-1][0]
    tss = [(0, rng.randint(1, 12), rng.choice([None, None, 0, 1, 2, 3, 4]))]
    t = 0
    for _ in range(rng.randint(0, 2)):
        if rng.random() < 0.2:
            # a second signature line on the same tick (same or another numerator, with / without the exponent): two events
            up = tss[-1][1] if rng.random() < 0.6 else rng.randint(1, 16)
            tss.append((t, up, rng.choice([None, 0, 2, 3, 5, tss[-1][2], 7, 8, 16, 31, 62])))
            continue
        t += rng.randint(0, last + 500)
        tss.append((t, rng.randint(1, 16), rng.choice([None, 0, 2, 3, 5, 6, 7, 10, 63])))
    anchors = [(rng.randint(0, last + 100), rng.randint(0, 10**8)) for _ in range(rng.choice([0, 0, 0, 1, 2]))]
    if rng.random() < 0.3:
        # an anchor sitting on a tempo line's tick, with a time of its own (a little or a lot off the tempo-map time)
        anchors += [(t, rng.choice([0, rng.randint(0, 10**8), 599998500])) for t, _ in rng.sample(tempo, rng.randint(1, min(2, len(tempo))))]
        anchors.sort(key=lambda a_: a_[0])
    gevents = []
    t = 0
    for _ in range(rng.randint(0, prof.max_events)):
        t += rng.choice([0, 1, res, rng.randint(0, last + 600)])
        kind, val = rand_text(rng, prof)
        gevents.append((t, kind, val))
    if rng.random() < 0.12:
        # event names that mean something to the games (song end, coda, solo markers, dynamics switches) are just texts here: an `end`
        # event before the last note ends nothing
        sig = rng.choice(["end", "end", "[end]", "coda", "music_end", "solo", "soloend", "ENABLE_CHART_DYNAMICS", "crowd_noclap", "idle"])
        gevents = [(rng.choice([0, 0, 1]), rng.choice(["text", "text", "section", "lyric"]), sig)] + [(t_ + 1, k_, v_) for t_, k_, v_ in gevents]
    tracks = []
    thr = threshold(res)
    for i, d in rng.sample([(i, d) for i in range(10) for d in range(4)], rng.randint(0, prof.max_tracks)):
        groups = rand_groups(rng, prof, res, thr)
        phrases = rand_phrases(rng, prof, groups, res)
        te = sorted((rng.choice([g.tick for g in groups] or [0]) + rng.choice([0, 1, res]), rng.choice(WORDS))
                    for _ in range(rng.choice([0, 0, 1, 2])))
        te = [(t, w.replace(" ", "_")) for t, w in te]
        tracks.append(TrackSrc(i, d, groups, phrases, te))
    unknown = []
    if rng.random() < prof.unknown_sections:
        for tag in rng.sample(["Foo", "ExpertVocals", "song", "EasySingleX", "Expert Single", "SingleExpert", "日本"],
                              rng.randint(1, 2)):
            body = [rng.choice(["  0 = N 0 0", "anything", "  Resolution = 5", "  0 = B 1", "[x]", "  0 = E \"lyric z\"", ""])
                    for _ in range(rng.randint(0, 3))]
            unknown.append((tag, body))
    return ChartSrc(res, meta, tempo, tss, anchors, gevents, tracks, unknown)


def rand_value(rng: random.Random, prof: Profile) -> str:
    if rng.random() < 0.025:
        # lengths at which line buffers and "nobody writes that much" limits sit
        return rng.choice(["x", "é", "ab ", "-"]) * rng.choice([130, 260, 260, 1030, 1030, 4100]) + "!"
    if rng.random() < prof.tricky_text:
        atoms = ["a", "B c", "\"", "=", " = ", "Name", "Artist = x", "Resolution = 1", ", 2018", "é", "日本", " ", "\t", "song.ogg",
                 "\"x\"", "0", "12", "[", "}", "e\u0301", "\u212b", "\u2126", "\u3000", "\xa0", "%s", "100%", "{0}", "\\", "//", "AC//DC", " // ", "\\\\", "\\\\nas\\share", "\\\"", "\u201c", "\u201d", "#", ";"]
        v = "".join(rng.choice(atoms) for _ in range(rng.randint(1, 4)))
    else:
        v = rng.choice(["Song Name", "Artist", ", 2018", "song.ogg", "rock", "x"])
    return v or "x"


# ------------------------------------------------------------------------------------------ rendering


def num(rng: random.Random, prof: Profile, n: int, ascii_only=False) -> str:
    s = str(n)
    if rng.random() < 0.05:
        s = "0" * rng.randint(1, 3) + s
    if not ascii_only and rng.random() < prof.exotic_digits:
        if rng.random() < 0.5:
            z = rng.choice(DIGIT_ZEROS)
            s = "".join(chr(z + int(c)) for c in s)
        else:
            s = "".join(chr(rng.choice(DIGIT_ZEROS) + int(c)) for c in s)
    return s


def pad(rng: random.Random, prof: Profile, default="  ") -> str:
    if rng.random() < prof.exotic_pad:
        return "".join(rng.choice(PAD_CHARS) for _ in range(rng.randint(0, 4)))
    return default


# unparsable lines per section kind — decided from the documented line formats (never by the code under test):
# nothing here is a canonical line of the section it is inserted into
GARBAGE_COMMON = ["  }", "} ", "\t{", " { ", "  {", "garbage", "[solo]", "[ExpertSingle]", "[Song]", "[x y]", "0 = X 1", "= N 0 0", "0 N 0 0", "{x", "x}", "  ", "", "0 = E", "0 = n 0 0", "-1 = N 0 0", "Resolution = x",
                  "0 = E two words", "0 = B", "0 = TS", "0 = A x", "0 = N 0", "0 = S 2", "0 = B 12a", "0  = N 0 0", "0 = N  0 0"]
GARBAGE = {
    "instrument": GARBAGE_COMMON + ["0 = S 64 10", "0 = N 8 0", "0 = S 0 5", "0 = N 10 0", "0 = S 2 5 5", "0 = B 120000", "0 = TS 4", "0 = A 5",
                                    "0 = E \"lyric a b\""],
    "sync": GARBAGE_COMMON + ["0 = N 0 0", "0 = S 2 5", "0 = E solo", "0 = E \"x\"", "0 = TS 4 4 4", "0 = B 1 2"],
    "events": GARBAGE_COMMON + ["0 = N 0 0", "0 = S 2 5", "0 = E solo", "0 = B 120000", "0 = E \"unterminated", "0 = E \"a\"b\"", "0 = E x\"y\""],
}


class Rendered:
    def __init__(self):
        self.lines = []  # final physical lines
        self.sections = []  # (tag, [body lines]) in file order
        self.garbage = {}  # tag -> count of unparsable lines inserted
        self.text = ""
        self.newline = "\n"


def body_lines_track(rng, prof, tr: TrackSrc):
    """lines of one instrument section: N lines of one tick contiguous and in canonical layout; S and E lines
    interleaved anywhere (the dispatcher separates kinds)."""
    L = []
    items = []  # (tick, order, line) — S/E lines are merged by tick
    for g in tr.groups:
        blk = []
        if g.open_len is not None:
            blk.append((g.tick, 7, g.open_len))
        else:
            ls = list(g.lanes.items())
            rng.shuffle(ls)
            for l, ln in ls:
                blk.append((g.tick, l, ln))
            if ls and rng.random() < getattr(prof, "dup_lanes", 0.05):
                # a lane written twice at one tick, with the same length, is still that one lane with that length
                for l, ln in rng.sample(ls, rng.choice([1, 1, len(ls)])):
                    blk.insert(rng.randint(0, len(blk)), (g.tick, l, ln))
        flags = []
        # flag lines may carry any length: it never contributes (C03)
        if g.forced:
            flags.append((g.tick, 5, rng.choice([0, 0, rng.randint(1, 2000)])))
        if g.tap:
            flags.append((g.tick, 6, rng.choice([0, 0, rng.randint(1, 2000)])))
        # a flag written twice (or three times) is still one flag
        flags = [f for f in flags for _ in range(rng.choice([1, 1, 1, 1, 2, 3]))]
        if g.open_len is None:
            # flags may sit anywhere among lane lines
            for f in flags:
                blk.insert(rng.randint(0, len(blk)), f)
        else:
            blk += flags  # an open line is first (canonical layout)
        items.append(("N", g.tick, blk))
    for t, ln in tr.phrases:
        items.append(("S", t, ln))
    for t, w in tr.tevents:
        items.append(("E", t, w))
    # stable merge by tick keeping per-kind order; S/E may be injected *between* N lines of one tick
    ns = [x for x in items if x[0] == "N"]
    others = [x for x in items if x[0] != "N"]
    for kind, t, blk in ns:
        for (tk, idx, ln) in blk:
            L.append((t, f"{pad(rng, prof)}{num(rng, prof, tk)} = N {idx} {num(rng, prof, ln)}{pad(rng, prof, '')}"))
    # S and E lines are inserted anywhere consistent with their *own* order (the dispatcher separates kinds)
    for want_kind in ("S", "E"):
        pos = 0
        for kind, t, v in others:
            if kind != want_kind:
                continue
            cands = list(range(pos, len(L) + 1))
            near = [i for i in cands if (i == len(L) or L[i][0] >= t) and (i == 0 or L[i - 1][0] <= t)]
            i = rng.choice(near) if near and rng.random() < 0.8 else rng.choice(cands)
            if kind == "S":
                line = f"{pad(rng, prof)}{num(rng, prof, t)} = S 2 {num(rng, prof, v)}{pad(rng, prof, '')}"
            else:
                line = f"{pad(rng, prof)}{num(rng, prof, t)} = E {v}{pad(rng, prof, '')}"
            L.insert(i, (t, line))
            pos = i + 1
    return [x[1] for x in L]


def quote(s: str) -> str:
    return '"' + s + '"'


def render(src: ChartSrc, rng: random.Random, prof: Profile | None = None, *, order=None, newline=None,
           garbage=True) -> Rendered:
    prof = prof or Profile()
    R = Rendered()
    secs = []
    # [Song]
    song = []
    for snake, pascal, kind in FIELDS:
        if snake in src.meta:
            v = src.meta[snake]
            if kind == "int":
                val = num(rng, prof, v)
                if rng.random() < 0.1:
                    val = quote(val)
            elif kind == "p2":
                val = v if rng.random() < 0.8 else quote(v)
            else:
                val = quote(v)
            song.append(f"{pad(rng, prof)}{pascal} = {val}{pad(rng, prof, '')}")
    rng.shuffle(song)
    if prof.dup_fields:
        # a stale second line for a field, further down: the first matching line is the field's line
        k = 0
        while k < len(song):
            m_ = re.match(r"\s*(\w+) = ", song[k])
            if m_ and rng.random() < prof.dup_fields:
                kind = next((kd for _, pc, kd in FIELDS if pc == m_.group(1)), None)
                other = "7" if kind == "int" else ("rhythm" if kind == "p2" else quote("stale " + m_.group(1)))
                song.insert(rng.randint(k + 1, len(song)), f"  {m_.group(1)} = {other}")
            k += 1
    secs.append(("Song", song))
    # [SyncTrack]
    sync = []
    for t, n in src.tempo:
        sync.append((t, 1, f"{pad(rng, prof)}{num(rng, prof, t)} = B {num(rng, prof, n)}{pad(rng, prof, '')}"))
    for t, u, l in src.tss:
        low = "" if l is None else " " + num(rng, prof, l)
        sync.append((t, 0, f"{pad(rng, prof)}{num(rng, prof, t)} = TS {num(rng, prof, u)}{low}{pad(rng, prof, '')}"))
    for t, us in src.anchors:
        sync.append((t, 2, f"{pad(rng, prof)}{num(rng, prof, t)} = A {num(rng, prof, us)}"))
    # stable: per-kind order preserved, kinds interleaved by tick
    sync.sort(key=lambda x: (x[0], x[1]))
    secs.append(("SyncTrack", [x[2] for x in sync]))
    # [Events]
    ev = []
    for t, kind, val in src.gevents:
        txt = val if kind == "text" else f"{kind} {val}"
        ev.append(f"{pad(rng, prof)}{num(rng, prof, t)} = E {quote(txt)}{pad(rng, prof, '')}")
    secs.append(("Events", ev))
    for tr in src.tracks:
        secs.append((header_tag(tr.inst, tr.diff), body_lines_track(rng, prof, tr)))
    for tag, body in src.unknown:
        secs.append((tag, [b for b in body if b not in ("{", "}")]))
    if order is None:
        if rng.random() < prof.shuffle_sections:
            rng.shuffle(secs)
    else:
        secs = [secs[i] for i in order]
    # garbage lines: never "{" / "}", and not something a recogniser of that section accepts
    if garbage:
        for tag, body in secs:
            if tag in [u[0] for u in src.unknown]:
                continue
            cnt = 0
            while rng.random() < prof.garbage:
                if tag == "Song":
                    g = rng.choice(["garbage", "Foo = 1", "resolution = 1", "Name: x", "", "  ", "= 5"])
                else:
                    g = rng.choice(GARBAGE["sync" if tag == "SyncTrack" else "events" if tag == "Events" else "instrument"])
                body.insert(rng.randint(0, len(body)), g)
                cnt += 1
            if cnt:
                R.garbage[tag] = cnt
    R.sections = secs
    lines = []
    for tag, body in secs:
        lines.append(f"[{tag}]")
        lines.append("{")
        lines += body
        lines.append("}")
    R.lines = lines
    nl = newline or ("\r\n" if rng.random() < prof.crlf else "\n")
    R.newline = nl
    R.text = nl.join(lines) + (nl if rng.random() < 0.8 else "")
    return R


# ------------------------------------------------------------------------------------------ ground truth


def exact_us(res: int, tempo: list, tick: int) -> tuple[Fraction, int]:
    """exact tempo-map time of `tick` in microseconds, and the governing index"""
    g = 0
    for i, (t, _) in enumerate(tempo):
        if t <= tick:
            g = i
    total = Fraction(0)
    for i in range(g):
        total += Fraction((tempo[i + 1][0] - tempo[i][0]) * 60_000_000_000, tempo[i][1] * res)
    total += Fraction((tick - tempo[g][0]) * 60_000_000_000, tempo[g][1] * res)
    return total, g


TOL = Fraction(1, 2) + Fraction(1, 1000)


def nearest_float_ratio(n: int) -> str:
    """the float nearest to n/1000, as `num/den` — computed by Python's correctly rounded int/int division,
    which is IEEE semantics, not chartparse code"""
    a, b = (n / 1000).as_integer_ratio()
    return f"{a}/{b}"


def sustain_truth(g: NoteGroup) -> str:
    if g.open_len is not None:
        return f"S{g.open_len}"
    vals = list(g.lanes.values())
    if all(v == vals[0] for v in vals):
        return f"S{vals[0]}"
    return "T" + ":".join(str(g.lanes[l]) if l in g.lanes else "~" for l in range(5))


def longest_truth(g: NoteGroup) -> int:
    if g.open_len is not None:
        return g.open_len
    return max(g.lanes.values())


def lanes_truth(g: NoteGroup) -> str:
    return "".join("1" if l in g.lanes else "0" for l in range(5))


def hopo_truth(res: int, prev: NoteGroup | None, cur: NoteGroup) -> int:
    """0 strum, 1 hopo, 2 tap — the rule as the property states it"""
    if cur.tap:
        return 2
    if prev is None:
        return 0
    lanes = lanes_truth(cur)
    chord = lanes.count("1") > 1
    natural = (not chord) and lanes != lanes_truth(prev) and (cur.tick - prev.tick) <= threshold(res)
    return (0 if natural else 1) if cur.forced else (1 if natural else 0)


def sp_truth(phrases: list, tick: int):
    for i, (t, ln) in enumerate(phrases):
        if t <= tick < t + ln:
            return i
    return None


def meta_truth(src: ChartSrc) -> list[str]:
    out = []
    for snake, pascal, kind in FIELDS:
        if snake in src.meta:
            v = src.meta[snake]
        elif snake in DEFAULTS:
            v = DEFAULTS[snake]
        else:
            out.append("~")
            continue
        if kind == "int":
            out.append(f"i{v}")
        elif kind == "p2":
            out.append("p" + cps(v))
        else:
            out.append("s" + cps(v))
    return out


def cps(s: str) -> str:
    return ",".join(str(ord(c)) for c in s) if s else "-"


# ------------------------------------------------------------------------------------------ dump parsing


def parse_dump(s: str) -> dict:
    """canonical dump string -> nested dict (both impl and model dumps)"""
    if not s.startswith("OK"):
        return {"err": s}
    parts = s.split("|")
    d = {"err": None, "tracks": {}}
    cur = None

    def items(p):
        body = p.split(" ", 1)[1] if " " in p else ""
        return [x.split(" ") for x in body.split(";")] if body else []

    for p in parts[1:]:
        tag = p.split(" ", 1)[0]
        if tag == "META":
            d["meta"] = p.split(" ")[1:]
        elif tag == "B":
            d["bpm"] = [(int(a), b, int(c)) for a, b, c in items(p)]
        elif tag == "TS" and cur is None:
            d["ts"] = [tuple(int(x) for x in it) for it in items(p)]
        elif tag == "A":
            d["anchor"] = [tuple(int(x) for x in it) for it in items(p)]
        elif tag in ("TX", "SE", "LY"):
            d[tag] = [(int(a), int(b), int(c), v) for a, b, c, v in items(p)]
        elif tag == "T":
            _, i, dd, li, ld = p.split(" ")
            cur = {"label": (int(li), int(ld))}
            d["tracks"][(int(i), int(dd))] = cur
        elif tag == "N":
            cur["notes"] = [dict(tick=int(a), ts=int(b), end=int(c), idx=int(e), lanes=f, sus=g, hopo=int(h),
                                 sp=None if k == "~" else int(k)) for a, b, c, e, f, g, h, k in items(p)]
        elif tag == "SP":
            cur["sps"] = [tuple(int(x) for x in it) for it in items(p)]
        elif tag == "TE":
            cur["tes"] = [(int(a), int(b), int(c), v) for a, b, c, v in items(p)]
        elif tag == "L":
            v = p.split(" ")[1]
            cur["last"] = None if v == "~" else int(v)
        elif tag == "W":
            d["unparsable"] = int(p.split(" ")[1])
        elif tag == "U":
            body = p.split(" ", 1)[1] if " " in p else ""
            d["unhandled"] = body.split(";") if body else []
    return d


def uncps(s: str) -> str:
    return "" if s == "-" else "".join(chr(int(x)) for x in s.split(","))
