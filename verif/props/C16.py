"""C16 — notes_per_second is count-in-closed-interval over interval length."""
from __future__ import annotations

from datetime import timedelta
from fractions import Fraction

from .. import common, driver, gen, impl
from .. import framework as fw

GEN_SECTIONS = ["Tables", "Regexes", "Unicode"]
# arithmetic leaf functions whose ASTs are dumped from /repo and proved equal to the hand model (lean/Chartparse/Tie/<X>.lean)
LEAVES = {'Nps': 'nps', 'Secs': 'secs', 'ComposeRate': [], 'LoopRate': []}
IMP = ['notesPerSecond']  # functions dumped as terms of the imperative embedding, run against CPython on every run
TRUSTED = [
    "leaf ties: Py.evalBody (embedded Python subset, validated against CPython on random expressions and against the real leaf functions every run) + the AST dump",
    "Lean 4 kernel; axioms ⊆ {propext, Classical.choice, Quot.sound}",
    "hand model of Chart.notes_per_second / _notes_per_second (bound resolution, closed count, int/int and int/float "
    "divisions in binary64); tied by differential execution with the value as an exact ratio",
]
ASSUMPTIONS = ["arguments respect the typed overloads (both ticks, both timestamps, or omitted); mixed forms hit an assert and are not generated"]
# truth: the notes are the ones the file writes (generator), their times and the tick bounds are the Lean model's hint-free query
RULE = ("tracks × tempo maps × (start, end) as ticks / timestamps / omitted, with bounds coinciding exactly with note times and "
        "with each other, absent tracks, note-less tracks, non-positive intervals; promised: value = count of notes with "
        "start time in [S, E] divided by (E−S) seconds within 3·2⁻⁵³ relative error, ValueError otherwise; non-trivial = ≥ 1 "
        "note in the interval; distinct by (chart, call)")
US = timedelta(microseconds=1)


def slice(ctx: fw.Ctx) -> fw.Outcome:
    out = fw.Outcome(RULE)
    rng = ctx.sub("c16")
    prof = gen.Profile(max_tracks=2, max_groups=10, garbage=0.0, unknown_sections=0.0, meta_fields=0.0, exotic_pad=0.0, exotic_digits=0.0, max_tempo=4)
    reqs, meta = [], []
    ins, dif = impl.enums()
    pending = []

    def evaluate(c, be, real, nts, R, i, d, form, args, sb, eb, history=None, src=None, refiled=None):
        """make the call now (in this process state); the promise is computed afterwards, with tick bounds resolved by the
        model's hint-free query — never by asking the tempo map under test"""
        try:
            if len(args) == 2 and args[0] is None:
                v = c.notes_per_second(ins[i], dif[d], end=args[1])  # the start omitted, the end given
            else:
                v = c.notes_per_second(ins[i], dif[d], *args)
            x = impl.rat(float(v))
        except Exception as ex:  # noqa: BLE001
            x = impl.err_name(ex)
        # the notes of the chosen track are the notes the file writes: their ticks and longest lengths come from the generator,
        # their times from the model's hint-free query — nothing of the promise is read back from the parsed chart
        tr_ = next((t_ for t_ in src.tracks if (t_.inst, t_.diff) == (i, d)), None)
        wt = [g_.tick for g_ in tr_.groups] if tr_ is not None else []
        we = [g_.tick + gen.longest_truth(g_) for g_ in tr_.groups] if tr_ is not None else []
        pending.append(dict(x=x, has=bool(wt), wt=wt, we=we, args=args, R=R, i=i, d=d, form=form,
                            sb=sb, eb=eb, history=history, res=src.res, tempo=list(src.tempo), refiled=refiled))

    def settle():
        need = sorted({(p["res"], tuple(p["tempo"]), a) for p in pending for a in list(p["args"]) + p["wt"] + p["we"]
                       if isinstance(a, int) and not isinstance(a, bool)})
        rep = driver.run_parallel([f"tsat {res} {','.join(f'{t}:{n}' for t, n in tempo)} {tick} 0" for res, tempo, tick in need])
        table = dict(zip(need, rep))
        for p in pending:
            x, args, R, i, d, sb, eb, form = p["x"], p["args"], p["R"], p["i"], p["d"], p["sb"], p["eb"], p["form"]

            def bound(v, default):
                if v is None:
                    return default() if callable(default) else default
                if isinstance(v, int):
                    r = table[(p["res"], tuple(p["tempo"]), v)]
                    if r.startswith(("E ", "MAP ")):
                        raise ValueError(r)
                    return timedelta(microseconds=int(r.split(" ")[0]))
                return v
            if not p["has"]:
                want = "E ValueError"
            else:
                try:
                    nts = [bound(t_, None) for t_ in p["wt"]]
                    S = bound(args[0] if len(args) > 0 else None, timedelta(0))
                    E = bound(args[1] if len(args) > 1 else None, lambda: max(bound(t_, None) for t_ in p["we"]))
                    D = (E - S) // US
                    if D <= 0:
                        want = "E ValueError"
                    else:
                        cnt = sum(1 for t in nts if S <= t <= E)
                        want = Fraction(cnt * 10**6, D)
                except ValueError:
                    want = "E ValueError"
            rp = {"op": "nps", "text": R.text, "i": i, "d": d, "start": sb, "end": eb}
            if p["history"]:
                rp["history"] = p["history"]  # calls made earlier in the same process, replayed first
            if p["refiled"]:
                rp["refiled"] = p["refiled"]  # tracks filed under other keys of chart.instrument_tracks after the history's calls
            inside = isinstance(want, Fraction) and want > 0
            out.case(fw.h(rp), inside, {"call": [i, d, sb, eb], "value": x} if inside else None, tags=[form, "err" if x.startswith("E") else "value"])
            if not p["refiled"]:
                reqs.append(f"nps {driver.cps(R.text)} {i} {d} {sb} {eb}")
                meta.append((rp, x))
            if isinstance(want, str):
                if x != want:
                    out.violation("nps-" + fw.h(rp), f"notes_per_second({i},{d},{sb},{eb}) = {x}, promised {want}", rp, observed=x, promised=want)
            else:
                if x.startswith("E "):
                    out.violation("nps-" + fw.h(rp), f"notes_per_second({i},{d},{sb},{eb}) raised {x}, promised {float(want):.6f}", rp, observed=x, promised=str(want))
                else:
                    got = Fraction(x)
                    if abs(got - want) > want * Fraction(3, 2**53):
                        out.violation("nps-" + fw.h(rp), f"notes_per_second({i},{d},{sb},{eb}) = {float(got):.9f}, count/seconds = {float(want):.9f}",
                                      {**rp, "want": str(want)}, observed=str(got), promised=str(want))

    for k_ in range(ctx.n(60, 6000)):
        src = gen.rand_src(rng, prof)
        tick_calls = []
        if k_ % 20 == 3:
            # always some charts so fast that neighbouring ticks share a microsecond: the rate counts events, not distinct times
            src.res, src.meta["resolution"] = 192, 192
            src.tempo, src.anchors, src.tss = [(0, rng.choice([960000000, 999999999, 500000001]))], [], [(0, 4, None)]
            if not src.tracks:
                src.tracks.append(gen.TrackSrc(0, 3, [], [], []))
            src.tracks[0].groups = [gen.NoteGroup(t_, {t_ % 5: 0}) for t_ in (0, 1, 2, 3, 7, 8, 400, 401)]
            src.tracks[0].phrases, src.tracks[0].tevents = [], []
        elif rng.random() < 0.15 and src.tracks:
            src.tracks[0].groups = []
        if rng.random() < 0.2:  # very slow tempo: intervals of a day and more
            src.tempo = [(0, rng.choice([1, 2, 5]))] + src.tempo[1:]
        if rng.random() < 0.25 and src.tracks:
            # notes written in any tick order: on a single-tempo chart every order parses, and the rate counts notes, not positions
            src.tempo = src.tempo[:1]
            for tr_ in src.tracks:
                rng.shuffle(tr_.groups)
                for g_ in tr_.groups:
                    g_.forced = False  # a forced note must not come first
        if rng.random() < 0.3 and src.tracks and src.tracks[0].groups:
            # anchors sitting on note ticks (likely bounds), with times of their own: a tick bound still means the tempo-map time
            src.anchors = sorted({(g_.tick, rng.choice([0, 10, rng.randint(0, 10**7)])) for g_ in rng.sample(src.tracks[0].groups, min(3, len(src.tracks[0].groups)))})
        R = gen.render(src, rng, prof, garbage=False)
        c, e, _ = impl.parse(R.text)
        if c is None:
            out.violation("chart-" + fw.h(R.text), f"well-formed chart raised {impl.err_name(e)}", common.chart_replay(R.text), observed=impl.err_name(e), promised="parses")
            continue
        be = c.sync_track.bpm_events
        for _ in range(6):
            if src.tracks and rng.random() < 0.85:
                tr = rng.choice(src.tracks)
                i, d = tr.inst, tr.diff
            else:
                i, d = rng.randrange(10), rng.randrange(4)
                tr = next((t for t in src.tracks if (t.inst, t.diff) == (i, d)), None)
            real = c.instrument_tracks.get(ins[i], {}).get(dif[d])
            nts = [n.timestamp for n in real.note_events] if real else []
            nticks = ([n.tick for n in real.note_events] if real else []) or [0]
            form = rng.choice(["none", "tick", "ticks", "time", "times", "days", "negtick", "endtick"])
            a = rng.choice(nticks + [0, max(nticks) + 5, rng.randint(0, max(nticks) + 50)])
            b = rng.choice(nticks + [a, a + 1, max(nticks) + 5, rng.randint(0, max(nticks) + 500)])
            args, sb, eb = (), "~", "~"
            if form == "tick":
                args, sb = (a,), f"t{a}"
            elif form == "ticks":
                args, sb, eb = (a, b), f"t{a}", f"t{b}"
            elif form == "time":
                ta = rng.choice(nts + [timedelta(0), timedelta(microseconds=rng.randint(0, 10**7))])
                args, sb = (ta,), f"u{ta // US}"
            elif form == "times":
                ta = rng.choice(nts + [timedelta(0), timedelta(microseconds=rng.randint(0, 10**7))])
                tb = rng.choice(nts + [ta, ta + US, timedelta(microseconds=rng.randint(0, 10**8))])
                args, sb, eb = (ta, tb), f"u{ta // US}", f"u{tb // US}"
            if form == "endtick":   # only the end given, as a tick: the start is time zero (a time as the only end hits the typed API's assert)
                args, eb = (None, b), f"t{b}"
            if form == "negtick":
                # a bound before the map has no time: ValueError whatever the other bound
                neg = -rng.choice([1, 2, 192, rng.randint(1, 5000)])
                args = rng.choice([(neg,), (neg, b), (0, neg), (neg, neg - 5)])
                sb, eb = f"t{args[0]}", (f"t{args[1]}" if len(args) > 1 else "~")
            if form == "days":
                ta = rng.choice([timedelta(0), timedelta(seconds=rng.randint(0, 100))])
                tb = ta + timedelta(days=rng.choice([1, 1, 2, 3]), seconds=rng.choice([0, 0, 5, 4000]))
                args, sb, eb = (ta, tb), f"u{ta // US}", f"u{tb // US}"
            evaluate(c, be, real, nts, R, i, d, form, args, sb, eb, src=src)
            if form in ("tick", "ticks"):
                tick_calls.append((i, d, form, args, sb, eb))
        # always: windows whose bounds sit one microsecond inside / outside note times (closed bounds are exact, not "about")
        if real is not None and len(set(nts)) >= 2:
            u = sorted(set(nts))
            for ta, tb in ((u[0] + US, u[-1] - US), (u[0] + US, u[1] - US), (u[-1] + US, u[-1] + 5 * US), (u[0], u[0]), (max(u[0] - US, timedelta(0)), u[0])):
                if tb >= ta:
                    evaluate(c, be, real, nts, R, i, d, "times", (ta, tb), f"u{ta // US}", f"u{tb // US}", src=src)
        # the chart edited between queries: a track taken out of `chart.instrument_tracks` and filed under another instrument / difficulty
        # (the container is public and plain). "The chosen track" is the one filed under the key now; the old key has none
        if src.tracks and k_ % 3 == 0:
            import copy
            tr0 = rng.choice(src.tracks)
            free = [(i_, d_) for i_ in range(10) for d_ in range(4) if (i_, d_) not in {(t_.inst, t_.diff) for t_ in src.tracks}]
            i2, d2 = rng.choice(free)
            hist = [{"text": R.text, "i": tr0.inst, "d": tr0.diff, "start": "~", "end": "~"}]
            try:
                c.notes_per_second(ins[tr0.inst], dif[tr0.diff])
            except ValueError:
                pass
            move = [tr0.inst, tr0.diff, i2, d2]
            refile(c, [move])
            src3 = copy.deepcopy(src)
            next(t_ for t_ in src3.tracks if (t_.inst, t_.diff) == (tr0.inst, tr0.diff)).__dict__.update(inst=i2, diff=d2)
            for (i, d) in ((tr0.inst, tr0.diff), (i2, d2)):
                evaluate(c, be, None, [], R, i, d, "refiled", (), "~", "~", history=hist, src=src3, refiled=[move])
                tk = [g_.tick for g_ in tr0.groups] or [0]
                a, b = min(tk), max(tk) + 1
                evaluate(c, be, None, [], R, i, d, "refiled", (a, b), f"t{a}", f"t{b}", history=hist, src=src3, refiled=[move])
        # the same tick bounds on a twin chart (same notes, every tempo doubled) in the same process: an answer remembered
        # from the first chart would be wrong here
        if tick_calls:
            import copy
            src2 = copy.deepcopy(src)
            src2.tempo = [(t, n * 2) for t, n in src2.tempo]
            R2 = gen.render(src2, rng, prof, garbage=False)
            c2, e2, _ = impl.parse(R2.text)
            if c2 is not None:
                for (i, d, form, args, sb, eb) in tick_calls:
                    real2 = c2.instrument_tracks.get(ins[i], {}).get(dif[d])
                    nts2 = [n.timestamp for n in real2.note_events] if real2 else []
                    evaluate(c2, c2.sync_track.bpm_events, real2, nts2, R2, i, d, form + "-twin", args, sb, eb,
                             history=[{"text": R.text, "i": i, "d": d, "start": sb, "end": eb}], src=src2)
    settle()
    mod = driver.run_parallel(reqs)
    for (rp, x), m in zip(meta, mod):
        out.traces += 1
        if x != m:
            out.corr_mismatch(f"notes_per_second{(rp['i'], rp['d'], rp['start'], rp['end'])}", rp, impl=x, model=m)
    return out


def refile(c, moves):
    ins, dif = impl.enums()
    for i, d, i2, d2 in moves:
        tr = c.instrument_tracks[ins[i]].pop(dif[d])
        if not c.instrument_tracks[ins[i]]:
            del c.instrument_tracks[ins[i]]
        if ins[i2] not in c.instrument_tracks:
            c.instrument_tracks[ins[i2]] = {}
        c.instrument_tracks[ins[i2]][dif[d2]] = tr


def replay(ctx, data):
    ins, dif = impl.enums()
    if data.get("refiled"):
        # the earlier calls are made on this very chart, then the tracks are filed anew
        c, e, _ = impl.parse(data["text"])
        if c is None:
            return True, impl.err_name(e)
        for h_ in data.get("history", []):
            try:
                c.notes_per_second(ins[h_["i"]], dif[h_["d"]])
            except ValueError:
                pass
        refile(c, data["refiled"])
    else:
        for hcall in data.get("history", []):
            replay(ctx, hcall)
        c, e, _ = impl.parse(data["text"])
        if c is None:
            return True, impl.err_name(e)

    def arg(s):
        if s == "~":
            return None
        return int(s[1:]) if s[0] == "t" else timedelta(microseconds=int(s[1:]))
    a0, a1 = arg(data["start"]), arg(data["end"])
    try:
        if a0 is None and a1 is not None:
            v = impl.rat(float(c.notes_per_second(ins[data["i"]], dif[data["d"]], end=a1)))
        else:
            v = impl.rat(float(c.notes_per_second(ins[data["i"]], dif[data["d"]], *[a for a in (a0, a1) if a is not None])))
    except Exception as ex:  # noqa: BLE001
        v = impl.err_name(ex)
    if "want" in data:
        w = Fraction(data["want"])
        return v.startswith("E") or abs(Fraction(v) - w) > w * Fraction(3, 2**53), v
    return None, v
