"""C15 — untrustworthy tempo data is rejected loudly, never turned into times."""
from __future__ import annotations

import copy
import random
from datetime import timedelta

from .. import common, gen, impl
from .. import framework as fw
from . import C01

GEN_SECTIONS = ["Tables", "Regexes", "Unicode"]
# code-level corollaries of the leaf ties (lean/Chartparse/Tie/Compose.lean)
LEAVES = {'TsAt': ['tsat', 'between', 'timeadd'], 'Compose': [], 'LoopValid': [], 'LoopEvents': []}
IMP = ['bpmEventsPostInit', 'syncPostInit']  # functions dumped as terms of the imperative embedding, run against CPython on every run
TRUSTED = [
    "Lean 4 kernel; axioms ⊆ {propext, Classical.choice, Quot.sound}",
    "hand model of the tempo-map builders and their validators; tied by differential execution with the exact exception class",
]
ASSUMPTIONS = ["the three required sections and a Resolution line are present (other errors are other properties)"]
RULE = ("fault enumeration: well-formed charts × every single corruption of the sync data at every position (resolution 0; "
        "drop / shift the tick-0 tempo or signature; duplicate, reorder or shift a tempo tick; zero tempo at any position, "
        "last included; no tempo / no signature at all); promised: ValueError — except a zero tempo that is last and governs "
        "nothing, where no event may carry a time under it; direct queries for negative ticks and under zero tempo raise "
        "ValueError; non-trivial = the corruption was applied at a position > 0; distinct by chart text")
US = timedelta(microseconds=1)


def corruptions(src: gen.ChartSrc):
    """yield (name, position, corrupted src, must_fail)"""
    k = len(src.tempo)
    s = copy.deepcopy(src); s.meta["resolution"] = 0; s.res = 0
    yield "resolution-0", 0, s, True
    s = copy.deepcopy(src); s.tempo = s.tempo[1:]
    yield "drop-tick0-tempo", 0, s, True
    s = copy.deepcopy(src); s.tempo[0] = (1, s.tempo[0][1])
    if k == 1 or s.tempo[1][0] > 1:
        yield "shift-tick0-tempo", 0, s, True
    s = copy.deepcopy(src); s.tempo = []
    yield "no-tempo", 0, s, True
    s = copy.deepcopy(src); s.tss = [t for t in s.tss if t[0] != 0]
    yield "drop-tick0-signature", 0, s, True
    s = copy.deepcopy(src); s.tss = [(t + 1, u, l) for t, u, l in s.tss]
    yield "shift-signatures", 0, s, True
    s = copy.deepcopy(src); s.tss = []
    yield "no-signature", 0, s, True
    for p in range(1, k):
        s = copy.deepcopy(src); s.tempo[p] = (s.tempo[p - 1][0], s.tempo[p][1])
        yield "duplicate-tempo-tick", p, s, True
        s = copy.deepcopy(src); s.tempo[p - 1], s.tempo[p] = (s.tempo[p][0], s.tempo[p - 1][1]), (s.tempo[p - 1][0], s.tempo[p][1])
        if p - 1 > 0 or True:
            yield "reorder-tempo-ticks", p, s, True
    for p in range(k):
        # a verbatim duplicate of the p-th tempo line (same tick, same value)
        s = copy.deepcopy(src); s.tempo.insert(p + 1, s.tempo[p])
        yield "verbatim-duplicate-tempo", p + 1, s, True
    for p in range(1, k):
        # the p-th tempo moved before its predecessor, its value equal to the tempo it now follows
        s = copy.deepcopy(src)
        prev_val = s.tempo[p - 2][1] if p >= 2 else s.tempo[p - 1][1]
        moved = (s.tempo[p][0], prev_val)
        del s.tempo[p]
        s.tempo.insert(p - 1, moved)
        if p - 1 > 0:
            yield "move-tempo-earlier-same-value", p, s, True
    for p in range(k):
        s = copy.deepcopy(src); s.tempo[p] = (s.tempo[p][0], 0)
        yield "zero-tempo", p, s, None  # decided by what it governs, see below
        # the same with an anchor on every tempo line's tick: an anchor is a note for the editor, it never vouches for a time
        s = copy.deepcopy(s); s.anchors = [(t, 1000 * i + 7) for i, (t, _) in enumerate(s.tempo)]
        yield "zero-tempo-anchored", p, s, None


def governs_something(src: gen.ChartSrc, p: int) -> bool:
    """does any event tick (or a later tempo event) fall under tempo event p?"""
    lo = src.tempo[p][0]
    hi = src.tempo[p + 1][0] if p + 1 < len(src.tempo) else None
    if hi is not None:
        return True  # the next tempo event's timestamp is computed under it
    ticks = [t for t, _, _ in src.tss] + [t for t, _, _ in src.gevents]
    for tr in src.tracks:
        for g in tr.groups:
            ticks += [g.tick, g.tick + gen.longest_truth(g)]
        ticks += [t for t, _ in tr.phrases] + [t for t, _ in tr.tevents]
    return any(t >= lo for t in ticks)


def render_sorted(src, rng, prof):
    # keep the corrupted order of B lines exactly as in src.tempo: gen.render sorts sync lines by tick (stable per kind)
    R = gen.render(src, rng, prof, garbage=False)
    secs = []
    for t, b in R.sections:
        if t == "SyncTrack":
            zero = rng.choice(["0", "0", "000", "00", "٠", "０"])  # a zero tempo is zero however it is spelled
            bl = [f"  {tk} = B {n if n else zero}" for tk, n in src.tempo]
            others = [l for l in b if " = B " not in l]
            b = others[:1] + bl + others[1:] if others else bl
        if t == "Song" and src.meta.get("resolution") == 0 and rng.random() < 0.5:
            # a stale positive Resolution line further down does not rescue the chart: the first line is the field's line
            b = b + [rng.choice(["  Resolution = 192", "  Resolution = 480", "Resolution = 1"])]
        secs.append((t, b))
    lines = []
    for t, b in secs:
        lines += [f"[{t}]", "{"] + b + ["}"]
    return R.newline.join(lines) + R.newline


def slice(ctx: fw.Ctx) -> fw.Outcome:
    out = fw.Outcome(RULE)
    rng = ctx.sub("c15")
    prof = gen.Profile(max_tempo=5, garbage=0.0, unknown_sections=0.0, meta_fields=0.0, exotic_digits=0.0, exotic_pad=0.0, c08_past=False)
    cases = []
    for _ in range(ctx.n(40, 4000)):
        src = gen.rand_src(rng, prof)
        for name, pos, s2, must in corruptions(src):
            text = render_sorted(s2, rng, prof)
            if must is None:
                must = governs_something(s2, pos)
            cases.append((name, pos, text, must, s2))
    # always: no signature (or no tempo) at tick 0 while the first one sits on a "natural" place — a bar line or beat of the 4/4 a player
    # would imply, tick 1, the resolution itself: nothing written later stands in for the missing tick-0 line
    for res_ in (192, 480, 100):
        for first in (res_ * 4, res_ * 8, res_ * 12, res_, res_ * 2, 1, res_ * 4 - 1):
            for kind_ in ("TS", "B"):
                sync_ = ([f"  {first} = TS 4", "  0 = B 120000"] if kind_ == "TS" else ["  0 = TS 4", f"  {first} = B 120000"]) + [f"  {first + res_} = TS 3"]
                text = (f"[Song]\n{{\n  Resolution = {res_}\n}}\n[SyncTrack]\n{{\n" + "\n".join(sync_) + "\n}\n[Events]\n{\n}\n[ExpertSingle]\n{\n"
                        f"  {first} = N 0 0\n}}\n")
                cases.append((f"first-{kind_}-off-zero", 0, text, True, None))
    a, b = common.run_charts([(c[2], None) for c in cases])
    for (name, pos, text, must, s2), x, y in zip(cases, a, b):
        rp = {"op": "corrupt", "text": text, "corruption": name, "position": pos, "must_fail": must}
        out.case("K" + fw.h(text), pos > 0, {"corruption": name, "position": pos, "result": x[:20]} if pos > 1 else None,
                 tags=[name, x.split("|")[0][:14]])
        out.traces += 1
        ex, ey = x.split("|")[0], y.split("|")[0]
        if ex != ey:
            out.corr_mismatch(f"corruption {name} at {pos}", rp, impl=ex, model=ey)
        if must and x != "E ValueError":
            out.violation("corrupt-" + fw.h(text), f"sync corruption `{name}` at position {pos} was not rejected with ValueError: {x[:60]}",
                          rp, observed=x[:200], promised="E ValueError")
        if x.startswith("E internal:"):
            # rejected or not, a corrupted sync section never surfaces as an undocumented exception
            out.violation("corrupt-" + fw.h(text), f"sync corruption `{name}` at position {pos} raised {x}", rp, observed=x[:200], promised="a chart or ValueError")
    queries(ctx, out)
    return out


def negative_queries(ctx, out):
    """ordinary (valid) maps, one tempo included: no public query for a negative tick may return a time"""
    rng = ctx.sub("negq")
    for _ in range(ctx.n(150, 15_000)):
        res, tempo = C01.rand_map(rng, rng.choice([1, 1, 2, 5, 40, 70]))
        be = C01.build_bpm_events(res, tempo)
        if len(tempo) > 5:
            # a long map that has already answered lookups deep into it (and at its end) is as strict about what precedes it
            for tk in (tempo[-1][0] + 7, tempo[len(tempo) // 2][0], tempo[-1][0]):
                try:
                    be.timestamp_at_tick(tk)
                    be.timestamp_at_tick_no_optimize_return(tk)
                except Exception:  # noqa: BLE001  these only give the map a past; what is judged are the negative ticks below
                    break
        for tick in (-1, -rng.randint(2, 10**6), -rng.choice(gen.LADDER[8:])):
            for name in ("timestamp_at_tick", "timestamp_at_tick_no_optimize_return"):
                rp = {"op": "negq", "res": res, "tempo": tempo, "tick": tick, "api": name}
                out.case("N" + fw.h(rp), True, None, tags=["negative-tick-" + str(min(len(tempo), 2))])
                try:
                    r = getattr(be, name)(tick)
                    out.violation("negq-" + fw.h(rp), f"{name}({tick}) on a {len(tempo)}-tempo map returned {r}", rp, observed=str(r), promised="ValueError")
                except ValueError:
                    pass
                except Exception as e:  # noqa: BLE001
                    out.violation("negq-" + fw.h(rp), f"{name}({tick}) raised {impl.err_name(e)}", rp, observed=impl.err_name(e), promised="ValueError")


def queries(ctx, out):
    negative_queries(ctx, out)
    rng = ctx.sub("queries")
    for _ in range(ctx.n(200, 20_000)):
        res, tempo = C01.rand_map(rng, 5)
        p = rng.randrange(len(tempo))
        if rng.random() < 0.25:
            # the zero tempo far into the chart: at the magnitudes where 32-bit ticks, doubles or "sane maximum" clamps give out
            tempo = tempo + [(rng.choice(gen.ladder(rng, lo=max(tempo[-1][0] + 1, 2**31), hi=2**53 + 1, k=1)), 120000)]
            p = len(tempo) - 1
            try:
                C01.build_bpm_events(res, tempo)
            except OverflowError:
                continue  # that far at that tempo is beyond what a timedelta holds: not a chart this property speaks about
        zt = [(t, (0 if i == p else n)) for i, (t, n) in enumerate(tempo)]
        rp = {"op": "query", "res": res, "tempo": zt, "tick": None}
        try:
            be = C01.build_bpm_events(res, zt)
        except ValueError:
            out.case("Q" + fw.h(rp), True, None, tags=["zero-tempo-map-rejected"])
            continue
        except Exception as e:  # noqa: BLE001
            out.violation("query-" + fw.h(rp), f"building a map with a zero tempo raised {impl.err_name(e)}", rp, observed=impl.err_name(e), promised="ValueError or a map")
            continue
        lo = zt[p][0]
        # a healthy twin (same resolution and ticks, no zero) answers the same ticks first, through both public queries: nothing
        # it answered may come back from the untrustworthy map
        try:
            twin = C01.build_bpm_events(res, tempo)
            for tick in (lo, lo + 1, lo + 1000):
                twin.timestamp_at_tick(tick)
                twin.timestamp_at_tick_no_optimize_return(tick)
        except Exception:  # noqa: BLE001  the twin only prepares a past; what the queries themselves answer is judged below
            pass
        for tick in (lo, lo + 1, lo + 1000, -1, -5):
            rp = {"op": "query", "res": res, "tempo": zt, "tick": tick}
            governed = tick >= lo and (p + 1 >= len(zt) or tick < zt[p + 1][0])
            out.case("Q" + fw.h(rp), True, None, tags=["query-neg" if tick < 0 else "query-zero"])
            if tick < 0 or governed:
                for h in (0, min(p, len(zt) - 1)):
                    try:
                        r = be.timestamp_at_tick(tick, start_iteration_index=h)
                        out.violation("query-" + fw.h(rp), f"query for tick {tick} (zero tempo at {lo}) returned {r[0]}", rp, observed=str(r), promised="ValueError")
                        break
                    except ValueError:
                        pass
                    except Exception as e:  # noqa: BLE001
                        out.violation("query-" + fw.h(rp), f"query raised {impl.err_name(e)}", rp, observed=impl.err_name(e), promised="ValueError")
                        break
                try:
                    r = be.timestamp_at_tick_no_optimize_return(tick)
                    out.violation("query-" + fw.h(rp), f"timestamp_at_tick_no_optimize_return({tick}) (zero tempo at {lo}; a healthy map of the same resolution "
                                  f"answered that tick earlier in the process) returned {r}", {**rp, "twin": tempo, "api": "noopt"}, observed=str(r), promised="ValueError")
                except ValueError:
                    pass
                except Exception as e:  # noqa: BLE001
                    out.violation("query-" + fw.h(rp), f"query raised {impl.err_name(e)}", {**rp, "api": "noopt"}, observed=impl.err_name(e), promised="ValueError")


def replay(ctx, data):
    if data["op"] == "corrupt":
        x = impl.run_chart(data["text"])
        return (data["must_fail"] and x != "E ValueError"), x[:200]
    if data["op"] == "negq":
        be = C01.build_bpm_events(data["res"], [tuple(t) for t in data["tempo"]])
        try:
            return True, str(getattr(be, data["api"])(data["tick"]))
        except ValueError:
            return False, "ValueError"
    if data["op"] == "query":
        try:
            if data.get("twin"):
                tw = C01.build_bpm_events(data["res"], [tuple(t) for t in data["twin"]])
                tw.timestamp_at_tick(data["tick"])
                tw.timestamp_at_tick_no_optimize_return(data["tick"])
            be = C01.build_bpm_events(data["res"], [tuple(t) for t in data["tempo"]])
            r = be.timestamp_at_tick_no_optimize_return(data["tick"]) if data.get("api") == "noopt" else be.timestamp_at_tick(data["tick"])
            return True, str(r)
        except ValueError:
            return False, "ValueError"
        except Exception as e:  # noqa: BLE001
            return True, impl.err_name(e)
    return None, "unknown replay op"
