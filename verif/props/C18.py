"""C18 — only documented errors escape; parsed charts always render."""
from __future__ import annotations

import random

from .. import common, gen, impl
from .. import framework as fw

GEN_SECTIONS = ["Tables", "Regexes", "Unicode"]
TRUSTED = [
    "Lean 4 kernel; axioms ⊆ {propext, Classical.choice, Quot.sound}",
    "whole-chart hand model with explicit internal-failure points (IndexError / KeyError / UnboundLocalError / "
    "AssertionError sites); tied by differential execution with the three-valued outcome",
    "rendering (str / repr) is exercised on every parsed chart and event, not modelled",
]
ASSUMPTIONS = ["numeric tokens ≤ 8 digits and time-signature exponents < 64 (platform timedelta range, printable int size)",
               "partial: the theorem covers the exception class of parsing; rendering is exercised only"]
RULE = ("malformed stream: sequences of line deletions, duplications, swaps, fragment insertions and character edits applied to "
        "well-formed charts, plus texts assembled from arbitrary fragments, plus every ordered pair of N lines of one tick over all eight indices (exhaustive) and sampled longer tuples; numeric tokens ≤ 8 digits; projection = returned / "
        "documented error / anything else; every returned chart and every event in it is rendered with str() and repr(); "
        "non-trivial = an input that raises, or a mutated input that still parses; distinct by text")

FRAGS = ["[Song]", "{", "}", "[SyncTrack]", "[Events]", "[ExpertSingle]", "[Foo]", "  0 = B 0", "  0 = B 120000", "  5 = B 1", "  0 = TS 4",
         "  0 = TS 4 63", "  0 = TS 4 7", "  8 = TS 3 9", "  Resolution 192", "  Resolution: 480", "  Offset", "  0 = N 5 0", "  0 = N 7 10", "  3 = N 4 99999999", "  0 = S 2 0", "  0 = E solo", "  0 = A 99999999",
         '  0 = E "lyric x"', "  Resolution = 0", "  Resolution = 192", "  Player2 = foo", "", "   ", " = ", "  0 = N 6 0", "  7 = S 2 3",
         "  99999999 = B 99999999", "  0 = TS 0 0", "  1 = TS 3", "  Offset = x", "  Resolution = 1", "  2 = N 0 5", "  2 = N 5 0", "  2 = N 7 0",
         '  4 = E "section "', "[HardDrums]", "  0 = B 1", "  1 = B 0", "  Difficulty = 99999999",
         # what one deleted or doubled character makes of an ordinary line: lone and doubled quotes, nothing after the separator
         '  Album = "', '  Name = ""', '  Charter = """', "  Genre = ", '  Year = ", 2018', '  Resolution = "192"', '  Player2 = "', '  MusicStream = \'x\'',
         '  5 = E "', '  5 = E ""', '  5 = E """', "  5 = E ", "  5 = N ", "  5 = S 2", "  0 = B", "  0 = B -1", "  0 = TS -4", "  0 = A", "  = B 120000", "0=B 120000",
         "  0 = TS 4 ", "  0 = TS 4 2 1", "  0 = TS 4", "  0 = TS 4 2"]
EDIT = '0123456789 =NSEBTA"[]{}x٣\t'


def mutate(rng: random.Random, lines):
    lines = list(lines)
    for _ in range(rng.randint(1, 5)):
        if not lines:
            lines.append(rng.choice(FRAGS))
            continue
        i = rng.randrange(len(lines))
        op = rng.randint(0, 5)
        if op == 0:
            del lines[i]
        elif op == 1:
            lines.insert(i, lines[i])
        elif op == 2:
            j = rng.randrange(len(lines))
            lines[i], lines[j] = lines[j], lines[i]
        elif op == 3:
            lines.insert(i, rng.choice(FRAGS))
        elif op == 4:
            s = lines[i]
            if s:
                k = rng.randrange(len(s))
                lines[i] = rng.choice([s[:k] + rng.choice(EDIT) + s[k + 1:], s[:k] + s[k + 1:], s[:k] + s[k] + s[k:]])
        else:
            lines[i] = rng.choice(FRAGS)
    return lines


def render_all(text):
    """parse, then str()/repr() the chart and every event; returns (outcome string, rendering problem or None)"""
    c, e, w = impl.parse(text)
    if c is None:
        return impl.err_name(e), None
    try:
        str(c)
        repr(c)
        objs = [c.metadata, c.sync_track, c.global_events_track, c.sync_track.bpm_events]
        objs += list(c.sync_track.bpm_events) + list(c.sync_track.time_signature_events) + list(c.sync_track.anchor_events)
        g = c.global_events_track
        objs += list(g.text_events) + list(g.section_events) + list(g.lyric_events)
        for dd in c.instrument_tracks.values():
            for tr in dd.values():
                objs += [tr] + list(tr.note_events) + list(tr.star_power_events) + list(tr.track_events)
        for o in objs:
            str(o)
            repr(o)
    except Exception as ex:  # noqa: BLE001
        return "OK", f"rendering raised {type(ex).__name__}: {ex}"
    return "OK", None


def render_strings(text):
    """str() of every event the Lean model renders, same order as the driver's `strs` op; None if the parse fails"""
    c, e, w = impl.parse(text)
    if c is None:
        return None
    ins, dif = impl.enums()
    out = [str(x) for x in c.sync_track.time_signature_events] + [str(x) for x in c.sync_track.anchor_events]
    g = c.global_events_track
    out += [str(x) for x in g.text_events] + [str(x) for x in g.section_events] + [str(x) for x in g.lyric_events]
    keyed = sorted(((ins.index(i), dif.index(d)), tr) for i, dd in c.instrument_tracks.items() for d, tr in dd.items())
    for _, tr in keyed:
        out.append(";".join([str(tr)] + [str(n) for n in tr.note_events] + [str(s) for s in tr.star_power_events] + [str(t) for t in tr.track_events]))
    return out


def _chunk(args):
    seed, n = args
    rng = random.Random(seed)
    prof = gen.Profile(big_numbers=0.0, exotic_digits=0.05, resolutions=(192, 1, 2, 3, 100, 480))
    res = []
    for _ in range(n):
        r = rng.random()
        if r < 0.75:
            src = gen.rand_src(rng, prof)
            R = gen.render(src, rng, prof)
            lines = mutate(rng, R.lines) if rng.random() < 0.85 else R.lines
            mutated = lines is not R.lines
        else:
            lines = [rng.choice(FRAGS) for _ in range(rng.randint(0, 25))]
            mutated = True
        nl = rng.choice(["\n", "\n", "\r\n"])
        text = nl.join(lines) + rng.choice(["", nl])
        o, rend = render_all(text)
        res.append((text, mutated, o, rend))
    return res


def enumerated(ctx):
    """every ordered pair (and a seeded sample of triples) of N lines of one tick, all eight indices — lane lines, flags and
    open notes mixed in any order (the code calls some of these layouts 'undefined'; they must still not leak an internal error)"""
    import itertools
    rng = ctx.sub("enum")
    head = "[Song]\n{\n  Resolution = 192\n}\n[SyncTrack]\n{\n  0 = TS 4\n  0 = B 120000\n}\n[Events]\n{\n}\n[ExpertSingle]\n{\n"
    tuples = [(a,) for a in range(8)] + list(itertools.product(range(8), repeat=2))
    tuples += [tuple(rng.randrange(8) for _ in range(rng.choice([3, 3, 4, 5]))) for _ in range(ctx.n(60, 1500))]
    res = []
    for tp in tuples:
        for lens in ((0,) * len(tp), tuple(rng.choice([0, 5, 7]) for _ in tp)):
            body = "".join(f"  10 = N {i} {l}\n" for i, l in zip(tp, lens))
            text = head + "  0 = N 0 0\n" + body + "  20 = N 1 0\n}\n"
            o, rend = render_all(text)
            res.append((text, True, o, rend))
    assert any(r[2] == "OK" for r in res), "enumerated family never parses: the harness is wrong"
    # a zero (or absurd) value in every position of a small sync section, with and without events after it
    sync = ["  0 = TS 4", "  0 = B 120000", "  96 = B 60000", "  192 = TS 3 3", "  288 = B 90000", "  300 = A 5"]
    for k in range(len(sync) + 1):
        for bad in ("  {t} = B 0", "  {t} = B 000", "  {t} = B ٠", "  {t} = TS 0", "  {t} = TS 0 0", "  {t} = A 0", "  {t} = B 1", "  {t} = B 99999999"):
            for tail in ("", "  9000 = N 0 0\n", "  5 = N 0 9000\n"):
                t = 0 if k == 0 else 1000 * k
                body = sync[:k] + [bad.format(t=t)] + sync[k:]
                text = ("[Song]\n{\n  Resolution = 192\n}\n[SyncTrack]\n{\n" + "\n".join(body) + "\n}\n[Events]\n{\n" + ("  9500 = E \"section x\"\n" if tail else "")
                        + "}\n[ExpertSingle]\n{\n" + tail + "}\n")
                o, rend = render_all(text)
                res.append((text, True, o, rend))
    # a [Song] section whose only line mentioning the required field is not a field line at all (no `=`, a colon, a longer name, the bare
    # name): the field is missing — a documented error — whatever a diagnostic would like to quote from that line
    for bad in ("  Resolution 192", "  Resolution: 192", "  ResolutionX = 1", "  Resolution", "Resolution", "  Resolution =", "  Resolution = ", "  = 192",
                "  Resolution == 192", "  resolution = 192", "  Resolution\t192"):
        for extra in ("", "  Name = \"x\"\n"):
            text = "[Song]\n{\n" + extra + bad + "\n}\n[SyncTrack]\n{\n  0 = TS 4\n  0 = B 120000\n}\n[Events]\n{\n}\n"
            o, rend = render_all(text)
            res.append((text, True, o, rend))
    # every signature exponent a line can write within practical bounds (the denominator is two to that power, whatever it is), on the
    # first signature and on a later one, and every small numerator
    for ex in list(range(0, 70)) + [100, 255, 256, 1000]:
        for first in (True, False):
            body = ([f"  0 = TS 4 {ex}"] if first else ["  0 = TS 4", f"  192 = TS {1 + ex % 9} {ex}"]) + ["  0 = B 120000"]
            text = "[Song]\n{\n  Resolution = 192\n}\n[SyncTrack]\n{\n" + "\n".join(body) + "\n}\n[Events]\n{\n}\n[ExpertSingle]\n{\n  0 = N 0 0\n}\n"
            o, rend = render_all(text)
            res.append((text, True, o, rend))
    return res


def slice(ctx: fw.Ctx) -> fw.Outcome:
    out = fw.Outcome(RULE)
    n = ctx.n(1500, 400_000)
    per = max(50, n // (ctx.jobs * 4))
    chunks = [(f"{ctx.pid}-{ctx.seed}-{k}", per) for k in range((n + per - 1) // per)]
    results = enumerated(ctx) + [r for c in common.parallel(ctx, _chunk, chunks) for r in c]
    # model on everything in quick, on a sample in thorough
    rng = ctx.sub("sample")
    sample_idx = range(len(results)) if len(results) <= 30000 else sorted(rng.sample(range(len(results)), 30000))
    from .. import driver
    mod = dict(zip(sample_idx, driver.run_parallel([f"chart {driver.cps(results[k][0])} ~" for k in sample_idx])))
    for k, (text, mutated, o, rend) in enumerate(results):
        rp = common.chart_replay(text)
        three = "OK" if o == "OK" else ("documented" if o in ("E ValueError", "E RegexNotMatchError", "E MissingRequiredField") else o)
        out.case("T" + fw.h(text), o != "OK" or mutated, {"text": text[:200], "outcome": o} if o not in ("OK", "E ValueError") and len(out.samples) < 4 else None,
                 tags=[o[:24]])
        if three not in ("OK", "documented"):
            out.violation("leak-" + fw.h(text), f"undocumented exception escapes Chart.from_file: {o}", rp, observed=o, promised="chart, ValueError, RegexNotMatchError or MissingRequiredField")
        if rend:
            out.violation("render-" + fw.h(text), rend, {**rp, "render": True}, observed=rend, promised="str()/repr() succeed")
        if k in mod:
            out.traces += 1
            m = mod[k].split("|")[0]
            m3 = "OK" if m == "OK" else ("documented" if m in ("E ValueError", "E RegexNotMatchError", "E MissingRequiredField") else m)
            if m3 != three:
                out.corr_mismatch("outcome class of a malformed text", rp, impl=o, model=m)
            elif m != o:
                out.dist["diagnostic: documented classes differ (not an alarm for C18)"] += 1
    renderings(ctx, out)
    return out


def renderings(ctx, out):
    """the modelled `__str__` family against the real one, character by character (BPMEvent prints a float: not modelled)"""
    from .. import driver
    rng = ctx.sub("render")
    prof = gen.Profile(big_numbers=0.0, max_tracks=3)
    texts = []
    for _ in range(ctx.n(80, 8000)):
        src = gen.rand_src(rng, prof)
        if rng.random() < 0.3:  # long times: days in str(timedelta)
            src.tempo = [(0, rng.choice([1, 2, 10]))] + src.tempo[1:]
        if rng.random() < 0.15:  # very long times (still far inside the timedelta range): 8-digit ticks at 0.001 BPM, resolution 1
            src.res = 1
            src.meta["resolution"] = 1
            src.tempo = [(0, 1)]
            f = rng.choice([1000, 5000, 9000])
            src.tss = [(t * f, u, l) for t, u, l in src.tss]
            src.gevents = [(min(t * f, 99_999_999), k, v) for t, k, v in src.gevents]
            for tr in src.tracks:
                for gq in tr.groups:
                    gq.tick = min(gq.tick * f, 90_000_000) if gq.tick * f < 90_000_000 else gq.tick
                tr.groups.sort(key=lambda gq: gq.tick)
                seen = set()
                tr.groups = [gq for gq in tr.groups if not (gq.tick in seen or seen.add(gq.tick))]
                tr.phrases = []
                tr.tevents = []
        texts.append(gen.render(src, rng, prof).text)
    mod = driver.run_parallel([f"strs {driver.cps(t)}" for t in texts])
    for t, m in zip(texts, mod):
        try:
            real = render_strings(t)
        except Exception as ex:  # noqa: BLE001
            out.violation("render-" + fw.h(t), f"rendering raised {type(ex).__name__}: {ex}", {**common.chart_replay(t), "render": True},
                          observed=str(ex), promised="str() succeeds")
            continue
        if real is None:
            continue
        out.case("R" + fw.h(t), True, {"rendered": real[-1][:160]} if real and len(out.samples) < 4 else None, tags=["render"])
        out.traces += 1
        want = "|".join(impl.cps(x) for x in real)
        if m != want:
            a, b = want.split("|"), m.split("|")
            k = next((i for i, (u, v) in enumerate(zip(a, b)) if u != v), min(len(a), len(b)))
            out.corr_mismatch("str() of an event", common.chart_replay(t), impl=gen.uncps(a[k])[:200] if k < len(a) else "<missing>",
                              model=(gen.uncps(b[k])[:200] if k < len(b) and not b[k].startswith(("E ", "CHART")) else (b[k] if k < len(b) else "<missing>")))


def replay(ctx, data):
    o, rend = render_all(data["text"])
    bad = o not in ("OK", "E ValueError", "E RegexNotMatchError", "E MissingRequiredField") or rend is not None
    return bad, f"{o} {rend or ''}"
