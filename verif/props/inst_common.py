"""Shared by C02–C05: instrument-focused charts (trivial sync section so unrelated mechanisms stay out)."""
from __future__ import annotations

from .. import common, gen, impl
from .. import framework as fw


def prof(**kw):
    base = dict(max_tempo=2, max_tracks=2, max_groups=14, max_events=0, garbage=0.05, unknown_sections=0.0, meta_fields=0.0,
                exotic_pad=0.1, exotic_digits=0.08, c08_past=False, shuffle_sections=0.2)
    base.update(kw)
    return gen.Profile(**base)


def notes_truth(src: gen.ChartSrc):
    """(i,d) -> list of dict(tick, lanes, sus, longest, hopo, sp)"""
    out = {}
    for tr in src.tracks:
        prev = None
        lst = []
        for g in tr.groups:
            lst.append(dict(tick=g.tick, lanes=gen.lanes_truth(g), sus=gen.sustain_truth(g), longest=gen.longest_truth(g),
                            hopo=gen.hopo_truth(src.res, prev, g), sp=gen.sp_truth(tr.phrases, g.tick)))
            prev = g
        out[(tr.inst, tr.diff)] = lst
    return out


def far_cases(rng, p):
    """well-formed tracks at ticks and with lengths no double holds exactly (2^53 and beyond), adjacent ticks included"""
    out = []
    for base in (2**53, 2**53 + 2**20 + 1, 2**32 - 2, 10**12 + 1):
        src = gen.rand_src(rng, p)
        src.res, src.meta["resolution"] = 192, 192
        src.tempo, src.tss, src.anchors, src.gevents, src.unknown = [(0, 120000)], [(0, 4, None)], [], [], []
        big = 2**53 + 1 if base >= 2**53 else 0
        groups = [gen.NoteGroup(base, {0: 0}), gen.NoteGroup(base + 1, {1: big}), gen.NoteGroup(base + 2, {2: big, 3: 2**53 if big else 5}), gen.NoteGroup(base + 3, {4: 0})]
        src.tracks = [gen.TrackSrc(0, 3, groups, [(base + 1, 2), (base + 3, big or 1)], [(base + 2, "solo")])]
        out.append((src, gen.render(src, rng, p, garbage=False)))
    return out


def revisit_cases(rng, p, n):
    """single-tempo charts whose N lines come back to a tick they have left (0, 32, 0, 200 …): every order is accepted there, a note is
    a run of *adjacent* lines of one tick, and its predecessor is the note written just before it"""
    out = []
    for _ in range(n):
        src = gen.rand_src(rng, p)
        src.tempo, src.tss, src.anchors, src.gevents, src.unknown = [(0, rng.choice([120000, 90000]))], [(0, 4, None)], [], [], []
        ticks = [rng.choice([0, 32, 64, 100, 200, 201, 500]) for _ in range(rng.randint(3, 7))]
        ticks = [t_ for k_, t_ in enumerate(ticks) if k_ == 0 or t_ != ticks[k_ - 1]]   # adjacent equal ticks would be one note
        if len(ticks) == 1:
            ticks.append(ticks[0] + 7)
        if len(set(ticks)) == len(ticks):
            ticks.append(ticks[0])   # never adjacent to itself: at least one other tick lies between
        groups = [gen.NoteGroup(t_, {rng.randrange(5): 0} if rng.random() < 0.8 else {0: 0, 3: 0}) for t_ in ticks]
        src.tracks = [gen.TrackSrc(rng.randrange(10), rng.randrange(4), groups, [], [])]
        out.append((src, gen.render(src, rng, p, garbage=False)))
    return out


def blank_line_cases(rng, p, n):
    """charts with blank lines (empty, blanks, a TAB) *inside* section bodies — before the closing brace, after the opening one, between
    note lines of different ticks: a blank body line is reported and changes nothing else (every section still gets its own lines)"""
    import copy
    out = []
    for _ in range(n):
        src = gen.rand_src(rng, p)
        R = gen.render(src, rng, p, garbage=False)
        lines = R.text.split(R.newline)
        inside, spots = False, []
        for i, l in enumerate(lines):
            if l == "{":
                inside = True
                spots.append(i + 1)
            elif l == "}":
                inside = False
                spots.append(i)
            elif inside:
                spots.append(i + 1)
        # never between two lines of one tick (that would split nothing — a blank line is no N line — but keep the truth simple)
        for i in sorted(rng.sample(spots, min(len(spots), rng.randint(1, 6))), reverse=True):
            lines.insert(i, rng.choice(["", "", "  ", "\t"]))
        R2 = copy.copy(R)
        R2.text = R.newline.join(lines)
        out.append((src, R2))
    return out


def run(ctx, out, cases, project, truth_project, label, nontrivial, also=None):
    """cases: list of (src, Rendered). project(notes list of one track) / truth_project(truth list) must be comparable."""
    a, b = common.run_charts([(R.text, None) for _, R in cases])
    for (src, R), x, y in zip(cases, a, b):
        dx, dy = gen.parse_dump(x), gen.parse_dump(y)
        rp = {**common.chart_replay(R.text)}
        tr = notes_truth(src)
        out.case("C" + fw.h(R.text), nontrivial(src), None, tags=["chart", common.status(dx)[:14]])
        out.traces += 1
        if dx["err"] is not None:
            out.violation("chart-" + fw.h(R.text), f"well-formed chart raised {dx['err']}", rp, observed=dx["err"], promised="parses")
            if dy["err"] != dx["err"]:
                out.corr_mismatch("chart status", rp, impl=dx["err"], model=common.status(dy))
            continue
        if also is not None:
            also(dx, src, R, rp)
        px = {k: project(v["notes"]) for k, v in dx["tracks"].items()}
        py = {k: project(v["notes"]) for k, v in dy["tracks"].items()} if dy["err"] is None else dy["err"]
        pt = {k: truth_project(v) for k, v in tr.items()}
        if px != py:
            out.corr_mismatch(label, rp, impl=common.short(str(px)), model=common.short(str(py)))
        if px != pt:
            k = next((k for k in set(px) | set(pt) if px.get(k) != pt.get(k)))
            a_, b_ = px.get(k), pt.get(k)
            pos = next((i for i, (u, v) in enumerate(zip(a_ or [], b_ or [])) if u != v), None)
            what = (f"{label}: track {k} note #{pos}: observed {a_[pos]}, written {b_[pos]}" if pos is not None
                    else f"{label}: track {k}: observed {len(a_ or [])} notes, written {len(b_ or [])}")
            out.violation("chart-" + fw.h(R.text), what, {**rp, "truth": {f"{k[0]}:{k[1]}": v for k, v in pt.items()}, "label": label},
                          observed=common.short(str(a_)), promised=common.short(str(b_)))
        elif py != pt and not isinstance(py, str):
            out.model_bug(label, rp, model=common.short(str(py)), promised=common.short(str(pt)))


def stable_under_reads(ctx, out, cases, label):
    """the parsed track must still read the same after derived attributes and rate queries have been read (a sample)"""
    ins, dif = impl.enums()
    for src, R in cases[: ctx.n(40, 2000)]:
        c, e, _ = impl.parse(R.text)
        if c is None:
            continue
        before = impl.dump_chart(c, [])
        for i, dd in c.instrument_tracks.items():
            for d, tr in dd.items():
                tr.last_note_end_timestamp
                tr.header_tag
                for n in tr.note_events[:3]:
                    n.longest_sustain, n.end_tick
                try:
                    c.notes_per_second(i, d)
                except Exception:  # noqa: BLE001  what a rate query answers or raises is C16 / C18's business; here only what it leaves behind
                    pass
        after = impl.dump_chart(c, [])
        if before != after:
            p_, q_ = fw.first_diff(before, after)
            out.violation("reads-" + fw.h(R.text), f"{label}: the parsed track reads differently after derived attributes / notes_per_second were read: {p_[:120]!r} vs {q_[:120]!r}",
                          {**common.chart_replay(R.text), "reads": True}, observed=q_, promised=p_)


def replay_chart(data, project):
    if data.get("reads"):
        o = fw.Outcome("")
        src = gen.ChartSrc(1, {}, [], [], [], [], [])
        class _R:  # noqa: N801
            text = data["text"]
        stable_under_reads(fw.Ctx("C00", "quick", 0), o, [(src, _R)], "replay")
        return bool(o.violations), str(o.violations[:1])[:300]
    x = impl.run_chart(data["text"])
    if x.startswith("E "):
        return True, x
    d = gen.parse_dump(x)
    px = {f"{k[0]}:{k[1]}": project(v["notes"]) for k, v in d["tracks"].items()}
    tr = data.get("truth")
    if tr is None:
        return False, common.short(str(px))
    norm = lambda v: repr(v).replace("(", "[").replace(")", "]")
    return norm({k: px.get(k) for k in sorted(tr)}) != norm({k: tr[k] for k in sorted(tr)}), common.short(str(px))
