"""Shared by C02–C05: instrument-focused charts (trivial sync section so unrelated mechanisms stay out)."""
from __future__ import annotations

from .. import common, gen, impl
from .. import framework as fw


def prof(**kw):
    base = dict(max_tempo=2, max_tracks=2, max_groups=14, max_events=0, garbage=0.05, unknown_sections=0.0, meta_fields=0.0,
                exotic_pad=0.1, exotic_digits=0.08, c08_past=False, shuffle_sections=0.2)
    base.update(kw)
    return gen.Profile(**base)


def notes_truth(src: gen.ChartSrc):
    """(i,d) -> list of dict(tick, lanes, sus, longest, hopo, sp)"""
    out = {}
    for tr in src.tracks:
        prev = None
        lst = []
        for g in tr.groups:
            lst.append(dict(tick=g.tick, lanes=gen.lanes_truth(g), sus=gen.sustain_truth(g), longest=gen.longest_truth(g),
                            hopo=gen.hopo_truth(src.res, prev, g), sp=gen.sp_truth(tr.phrases, g.tick)))
            prev = g
        out[(tr.inst, tr.diff)] = lst
    return out


def run(ctx, out, cases, project, truth_project, label, nontrivial):
    """cases: list of (src, Rendered). project(notes list of one track) / truth_project(truth list) must be comparable."""
    a, b = common.run_charts([(R.text, None) for _, R in cases])
    for (src, R), x, y in zip(cases, a, b):
        dx, dy = gen.parse_dump(x), gen.parse_dump(y)
        rp = {**common.chart_replay(R.text)}
        tr = notes_truth(src)
        out.case("C" + fw.h(R.text), nontrivial(src), None, tags=["chart", common.status(dx)[:14]])
        out.traces += 1
        if dx["err"] is not None:
            out.violation("chart-" + fw.h(R.text), f"well-formed chart raised {dx['err']}", rp, observed=dx["err"], promised="parses")
            if dy["err"] != dx["err"]:
                out.corr_mismatch("chart status", rp, impl=dx["err"], model=common.status(dy))
            continue
        px = {k: project(v["notes"]) for k, v in dx["tracks"].items()}
        py = {k: project(v["notes"]) for k, v in dy["tracks"].items()} if dy["err"] is None else dy["err"]
        pt = {k: truth_project(v) for k, v in tr.items()}
        if px != py:
            out.corr_mismatch(label, rp, impl=common.short(str(px)), model=common.short(str(py)))
        if px != pt:
            k = next((k for k in set(px) | set(pt) if px.get(k) != pt.get(k)))
            a_, b_ = px.get(k), pt.get(k)
            pos = next((i for i, (u, v) in enumerate(zip(a_ or [], b_ or [])) if u != v), None)
            what = (f"{label}: track {k} note #{pos}: observed {a_[pos]}, written {b_[pos]}" if pos is not None
                    else f"{label}: track {k}: observed {len(a_ or [])} notes, written {len(b_ or [])}")
            out.violation("chart-" + fw.h(R.text), what, {**rp, "truth": {f"{k[0]}:{k[1]}": v for k, v in pt.items()}, "label": label},
                          observed=common.short(str(a_)), promised=common.short(str(b_)))
        elif py != pt and not isinstance(py, str):
            out.model_bug(label, rp, model=common.short(str(py)), promised=common.short(str(pt)))


def replay_chart(data, project):
    x = impl.run_chart(data["text"])
    if x.startswith("E "):
        return True, x
    d = gen.parse_dump(x)
    px = {f"{k[0]}:{k[1]}": project(v["notes"]) for k, v in d["tracks"].items()}
    tr = data.get("truth")
    if tr is None:
        return False, common.short(str(px))
    norm = lambda v: repr(v).replace("(", "[").replace(")", "]")
    return norm({k: px.get(k) for k in sorted(tr)}) != norm({k: tr[k] for k in sorted(tr)}), common.short(str(px))
