"""C06 — sections are framed and routed to the right parser and track key."""
from __future__ import annotations

import itertools

from .. import common, direct, driver, gen, impl
from .. import framework as fw

GEN_SECTIONS = ["Tables", "Regexes", "Unicode"]
LEAVES = {'LoopScan': [], 'ComposeLoopScan': [], 'LoopRoute': []}
IMP = ['partitionLines', 'fromFile']  # functions dumped as terms of the imperative embedding, run against CPython on every run
TRUSTED = [
    "Lean 4 kernel; axioms ⊆ {propext, Classical.choice, Quot.sound}",
    "translator: header recogniser, header→(instrument, difficulty) table (probed behaviourally), required tags, "
    "str.splitlines break table of the running interpreter",
    "hand model of splitlines, the section scanner, the routing loop, BOM / universal-newline handling; tied by "
    "differential execution incl. Chart.from_filepath on real temporary files",
    "CPython's utf-8-sig codec (a parameter of the model)",
]
ASSUMPTIONS = ["framing theorem: body lines are neither '{' nor '}', tags match the header shape; permutation law: distinct tags; "
               "newline law: lines free of line-break characters"]
RULE = ("charts × permutations of sections × subsets of the 40 headers (each header routed at least once per run) × {LF, CRLF} "
        "× {BOM, none} through real temporary files × unknown sections with arbitrary bodies, plus a malformed stream for the "
        "scanner (missing braces, duplicate tags, text after the last brace); promised: the same parse for every variant, the "
        "track under exactly its (instrument, difficulty) key and label, unknown tags reported, a missing required section "
        "⇒ ValueError; non-trivial = ≥ 2 sections reordered or a non-default encoding variant; distinct by chart text")


def strip_warn(dump: str) -> str:
    """the parsed chart without the warnings tail (W / U) and independent of track order (already sorted)"""
    return dump.split("|W ")[0]


def variants(ctx, out):
    rng = ctx.sub("variants")
    prof = gen.Profile(max_tracks=4, garbage=0.0, unknown_sections=0.0, shuffle_sections=0.0, crlf=0.0)
    items = []
    headers = [(i, d) for i in range(10) for d in range(4)]
    rng.shuffle(headers)
    n = ctx.n(60, 4000)
    for k in range(n):
        src = gen.rand_src(rng, prof)
        # make sure each of the 40 headers is routed at least once per run
        if k < 40:
            i, d = headers[k]
            if not any((t.inst, t.diff) == (i, d) for t in src.tracks):
                src.tracks.append(gen.TrackSrc(i, d, [gen.NoteGroup(5, {k % 5: k})], [], []))
        seed = rng.randrange(1 << 30)
        import random

        base = gen.render(src, random.Random(seed), prof, newline="\n")
        nsec = len(base.sections)
        order = list(range(nsec))
        rng.shuffle(order)
        perm = gen.render(src, random.Random(seed), prof, newline="\n", order=order)
        crlf = gen.render(src, random.Random(seed), prof, newline="\r\n")
        items.append((src, base, perm, crlf, order))
    texts = []
    for src, base, perm, crlf, order in items:
        texts += [(base.text, None), (perm.text, None), (crlf.text, None)]
    a, b = common.run_charts(texts)
    for k, (src, base, perm, crlf, order) in enumerate(items):
        xb, xp, xc = a[3 * k:3 * k + 3]
        yb, yp, yc = b[3 * k:3 * k + 3]
        rp = {"op": "variants", "base": base.text, "perm": perm.text, "crlf": crlf.text}
        out.case("V" + fw.h(base.text), len(base.sections) >= 4, None, tags=["variants", common.status(gen.parse_dump(xb))[:14]])
        out.traces += 3
        for nm, x, y, t in (("base", xb, yb, base.text), ("permuted", xp, yp, perm.text), ("crlf", xc, yc, crlf.text)):
            if common.framing_proj(x) != common.framing_proj(y):
                p_, q_ = fw.first_diff(x, y)
                out.corr_mismatch(f"{nm} chart", common.chart_replay(t), impl=p_, model=q_)
        if xb.startswith("E "):
            out.violation("chart-" + fw.h(base.text), f"well-formed chart raised {xb}", common.chart_replay(base.text), observed=xb, promised="parses")
            continue
        if strip_warn(xp) != strip_warn(xb):
            p_, q_ = fw.first_diff(xb, xp)
            out.violation("perm-" + fw.h(rp), f"section order {order} changes the parse: {p_!r} vs {q_!r}", rp, observed=q_, promised=p_)
        if xc != xb:
            p_, q_ = fw.first_diff(xb, xc)
            out.violation("crlf-" + fw.h(rp), f"CRLF line endings change the parse: {p_!r} vs {q_!r}", rp, observed=q_, promised=p_)
        # routing: every written track under exactly its key and label
        d = gen.parse_dump(xb)
        want = sorted((t.inst, t.diff) for t in src.tracks)
        got = sorted(d["tracks"].keys())
        labels_ok = all(v["label"] == k_ for k_, v in d["tracks"].items())
        if got != sorted(set(want)) or not labels_ok:
            out.violation("route-" + fw.h(base.text), f"tracks stored under {got} with labels {[v['label'] for v in d['tracks'].values()]}, file has {want}",
                          {**common.chart_replay(base.text), "want_keys": want}, observed=got, promised=want)
        # framing: each track got exactly its own body (counts of notes per tick set)
        for t in src.tracks:
            tr = d["tracks"].get((t.inst, t.diff))
            if tr is not None and [n["tick"] for n in tr["notes"]] != [g.tick for g in t.groups] and sum(1 for u in src.tracks if (u.inst, u.diff) == (t.inst, t.diff)) == 1:
                out.violation("frame-" + fw.h(base.text), f"track {(t.inst, t.diff)} has note ticks {[n['tick'] for n in tr['notes']][:8]}, its section has {[g.tick for g in t.groups][:8]}",
                              common.chart_replay(base.text), observed=[n["tick"] for n in tr["notes"]][:20], promised=[g.tick for g in t.groups][:20])
                break


def files(ctx, out):
    """BOM and newline styles through Chart.from_filepath on real files; unknown sections; missing required sections"""
    rng = ctx.sub("files")
    prof = gen.Profile(max_tracks=2, garbage=0.0, unknown_sections=0.0, crlf=0.0, shuffle_sections=0.3)
    reqs, meta = [], []
    for k_ in range(ctx.n(40, 3000)):
        src = gen.rand_src(rng, prof)
        if k_ % 10 == 0:
            # always some files whose values hold characters that mean something at the start of a file only (U+FEFF) or are invisible
            src.gevents = [(0, "text", rng.choice(["a\ufeffb", "\ufeff", "x\u200by\ufeff"])), (0, "lyric", "la\ufeff-")] + src.gevents
            src.meta["name"] = "N\ufeffame"
        R = gen.render(src, rng, prof, newline="\n")
        base = impl.run_path(R.text.encode("utf-8"))
        xs = impl.run_chart(R.text)
        if xs != base:
            p_, q_ = fw.first_diff(xs, base)
            rp0 = {"op": "path", "hex": R.text.encode("utf-8").hex(), "base_hex": R.text.encode("utf-8").hex(), "stream": True}
            out.violation("file-" + fw.h(rp0), f"a file read by path parses differently from its own text read as a stream: {p_!r} vs {q_!r}", rp0, observed=q_, promised=p_)
        for nm, data in (("bom", b"\xef\xbb\xbf" + R.text.encode("utf-8")), ("crlf", R.text.replace("\n", "\r\n").encode("utf-8")),
                         ("bom+crlf", b"\xef\xbb\xbf" + R.text.replace("\n", "\r\n").encode("utf-8")),
                         ("cr", R.text.replace("\n", "\r").encode("utf-8"))):
            x = impl.run_path(data)
            rp = {"op": "path", "hex": data.hex(), "base_hex": R.text.encode("utf-8").hex()}
            out.case("F" + fw.h(rp), True, None, tags=["file-" + nm])
            reqs.append(f"path {driver.cps(data.decode('utf-8'))} ~")
            meta.append((nm, x, rp))
            if x != base:
                p_, q_ = fw.first_diff(base, x)
                out.violation("file-" + fw.h(rp), f"{nm} variant read by path parses differently: {p_!r} vs {q_!r}", rp, observed=q_, promised=p_)
        # unknown sections with arbitrary bodies: only the warnings change
        import copy

        src2 = copy.deepcopy(src)
        tags = rng.sample(["Foo", "ExpertVocals", "song", "SingleExpert", "Expert Single", "日本", "EasySingleX", "Editor-State", "Backup 2024.01.02", "a.b", "x]y", "é", "Expert\tSingle"], rng.randint(1, 3))
        src2.unknown = [(t, [rng.choice(["  0 = N 0 0", "junk", "  Resolution = 1", "  0 = B 1", "[x]", ""]) for _ in range(rng.randint(0, 4))]) for t in tags]
        R2 = gen.render(src2, rng, prof, newline="\n")
        x0 = impl.run_chart(gen.render(src, rng, prof, newline="\n", garbage=False).text)
        x2 = impl.run_chart(R2.text)
        rp = {"op": "unknown", "text": R2.text, "tags": tags}
        out.case("U" + fw.h(R2.text), True, None, tags=["unknown-sections"])
        if x2.startswith("E ") and not x0.startswith("E "):
            out.violation("unknown-" + fw.h(R2.text), f"sections {tags} that no table knows made the parse raise {x2[:60]}", rp, observed=x2[:300], promised=x0[:300])
        if not x2.startswith("E "):
            d2 = gen.parse_dump(x2)
            if strip_warn(x2) != strip_warn(x0) or sorted(gen.uncps(u) for u in d2["unhandled"]) != sorted(tags):
                out.violation("unknown-" + fw.h(R2.text), f"unknown sections {tags}: parse changed or not reported (reported {[gen.uncps(u) for u in d2['unhandled']]})",
                              rp, observed=x2[:300], promised=x0[:300])
        reqs.append(f"chart {driver.cps(R2.text)} ~")
        meta.append(("unknown", x2, rp))
        # a required section missing
        drop = rng.choice(gen.REQUIRED_TAGS)
        secs = [s for s in R.sections if s[0] != drop]
        lines = []
        for tag, body in secs:
            lines += [f"[{tag}]", "{"] + body + ["}"]
        text = "\n".join(lines) + "\n"
        x3 = impl.run_chart(text)
        rp = {"op": "missing", "text": text, "dropped": drop}
        out.case("M" + fw.h(text), True, None, tags=["missing-" + drop])
        reqs.append(f"chart {driver.cps(text)} ~")
        meta.append(("missing", x3, rp))
        if x3 != "E ValueError":
            out.violation("missing-" + fw.h(text), f"chart without [{drop}] gave {x3[:80]}", rp, observed=x3[:200], promised="E ValueError")
        # … also when another required section is written twice (a missing section is missing however many headers the file has)
        twice = rng.choice([t_ for t_ in gen.REQUIRED_TAGS if t_ != drop])
        lines = []
        for tag, body in secs:
            lines += ([f"[{tag}]", "{"] + body + ["}"]) * (2 if tag == twice else 1)
        text = "\n".join(lines) + "\n"
        x4 = impl.run_chart(text)
        rp = {"op": "missing", "text": text, "dropped": drop}
        out.case("M" + fw.h(text), True, None, tags=["missing-" + drop + "-twice-" + twice])
        reqs.append(f"chart {driver.cps(text)} ~")
        meta.append(("missing", x4, rp))
        if x4 != "E ValueError":
            out.violation("missing-" + fw.h(text), f"chart without [{drop}] and with [{twice}] written twice gave {x4[:80]}", rp, observed=x4[:200], promised="E ValueError")
    mod = driver.run_parallel(reqs)
    for (nm, x, rp), m in zip(meta, mod):
        out.traces += 1
        if common.framing_proj(x) != common.framing_proj(m):
            p_, q_ = fw.first_diff(x, m)
            out.corr_mismatch(f"{nm} variant", rp, impl=p_, model=q_)


def nothing_and_padding(ctx, out):
    """(a) inputs with no section at all lack every required section: rejected with ValueError, through a stream and through real
    files (empty file, BOM-only file); (b) a brace with blanks around it is not a brace: inside any section body — known or unknown —
    it is an ordinary body line, so the chart parses exactly as it does without it (one more unparsable-line warning at most)"""
    rng = ctx.sub("nothing")
    for nm, data in (("empty-stream", ""),):
        x = impl.run_chart(data)
        rp = {"op": "missing", "text": data, "dropped": "everything"}
        out.case("E" + nm, True, None, tags=[nm])
        if x != "E ValueError":
            out.violation("missing-" + nm, f"a text without any section gave {x[:80]}", rp, observed=x[:200], promised="E ValueError")
    for nm, data in (("empty-file", b""), ("bom-only-file", b"\xef\xbb\xbf")):
        x = impl.run_path(data)
        rp = {"op": "nothing-path", "hex": data.hex()}
        out.case("E" + nm, True, None, tags=[nm])
        if x != "E ValueError":
            out.violation("missing-" + nm, f"{nm}: a file without any section gave {x[:80]}", rp, observed=x[:200], promised="E ValueError")
    # (c) a chart is the same chart whatever size the reader's blocks have: CRLF files padded so that the carriage return of a
    #     chosen line — a closing brace first of all — is the last character of a 4 KiB … 128 KiB block and its line feed opens the next
    prof_b = gen.Profile(max_tracks=2, garbage=0.0, unknown_sections=0.0, crlf=0.0, shuffle_sections=0.0, meta_fields=0.0)
    for _ in range(ctx.n(10, 300)):
        src = gen.rand_src(rng, prof_b)
        src.meta["name"] = "x"
        R = gen.render(src, rng, prof_b, garbage=False, newline="\n")
        lines = R.text.split("\n")
        if lines[-1] == "":
            lines.pop()
        k_name = next(i for i, l in enumerate(lines) if "Name = " in l)
        braces = [i for i, l in enumerate(lines) if l == "}" and i > k_name]
        target = rng.choice(braces + [rng.randrange(k_name + 1, len(lines))])
        block = rng.choice([4096, 8192, 65536, 65536, 131072])
        off = sum(len(l) + 2 for l in lines[:target]) + len(lines[target])  # offset of the target line's "\r" in the CRLF text
        padn = (block - 1 - off) % block
        lines[k_name] = lines[k_name].replace('"x"', '"x' + "y" * padn + '"')
        crlf = "\r\n".join(lines) + "\r\n"
        assert crlf[off + padn] == "\r" and (off + padn + 1) % block == 0, "padding arithmetic is wrong"
        lf = "\n".join(lines) + "\n"
        base = impl.run_path(lf.encode("utf-8"))
        for nm, x in (("path", impl.run_path(crlf.encode("utf-8"))), ("stream", impl.run_chart(crlf))):
            rp = {"op": "path", "hex": crlf.encode("utf-8").hex(), "base_hex": lf.encode("utf-8").hex()} if nm == "path" else {"op": "variants", "base": lf, "perm": lf, "crlf": crlf}
            out.case("B" + fw.h([nm, crlf[:200], block, padn]), True, None, tags=[f"block-{block}-{nm}"])
            if x != base:
                p_, q_ = fw.first_diff(base, x)
                out.violation("block-" + fw.h([nm, block, off + padn, crlf[:300]]), f"CRLF chart whose carriage return of line {target + 1} sits at offset {off + padn} (end of a {block}-character block) "
                              f"parses differently from its LF spelling ({nm}): {p_[:80]!r} vs {q_[:80]!r}", rp, observed=q_[:200], promised=p_[:200])
    # (d) whatever else is wrong with the file, a missing required section is a ValueError
    for _ in range(ctx.n(20, 1000)):
        src = gen.rand_src(rng, prof_b)
        R = gen.render(src, rng, prof_b, garbage=False, newline="\n")
        drop = rng.sample(gen.REQUIRED_TAGS[1:], rng.randint(1, 2))
        lines = []
        for tag, body in R.sections:
            if tag in drop:
                continue
            if tag == "Song":
                body = rng.choice([[], [l for l in body if "Resolution" not in l], ["  Resolution = x"], ["garbage"]])
            lines += [f"[{tag}]", "{"] + body + ["}"]
        text = "\n".join(lines) + "\n"
        x = impl.run_chart(text)
        rp = {"op": "missing", "text": text, "dropped": "+".join(drop) + " and an unparsable [Song]"}
        out.case("M2" + fw.h(text), True, None, tags=["missing+bad-song"])
        if x != "E ValueError":
            out.violation("missing-" + fw.h(text), f"chart without [{'], ['.join(drop)}] (and with an unusable [Song]) gave {x[:80]}", rp, observed=x[:200], promised="E ValueError")
    # (e) two sections with line-for-line identical bodies are two tracks, each under its own header's key with its own label
    for _ in range(ctx.n(20, 1000)):
        src = gen.rand_src(rng, prof_b)
        if not src.tracks:
            src.tracks.append(gen.TrackSrc(rng.randrange(10), rng.randrange(4), [], [], []))
        R = gen.render(src, rng, prof_b, garbage=False, newline="\n")
        donor = src.tracks[0]
        dbody = next(b for t, b in R.sections if t == gen.header_tag(donor.inst, donor.diff))
        used = {(t.inst, t.diff) for t in src.tracks}
        clones = rng.sample([(i, d) for i in range(10) for d in range(4) if (i, d) not in used], rng.randint(1, 2))
        secs = list(R.sections) + [(gen.header_tag(i, d), dbody) for i, d in clones]
        if rng.random() < 0.6:
            rng.shuffle(secs)
        text = "".join(f"[{t}]\n{{\n" + "".join(l + "\n" for l in b) + "}\n" for t, b in secs)
        x = impl.run_chart(text)
        rp = {"op": "clones", "text": text, "keys": [list(k) for k in sorted(used | set(clones))]}
        out.case("CL" + fw.h(text), True, None, tags=["identical-bodies"])
        if x.startswith("E "):
            out.violation("clones-" + fw.h(text), f"chart with identical section bodies raised {x}", rp, observed=x, promised="parses")
            continue
        d = gen.parse_dump(x)
        bad = [(k, v["label"]) for k, v in d["tracks"].items() if tuple(v["label"]) != tuple(k)]
        if bad or sorted(d["tracks"]) != sorted(used | set(clones)):
            out.violation("clones-" + fw.h(text), f"sections with identical bodies: tracks {sorted(d['tracks'])}, expected {sorted(used | set(clones))}; labels differing from their key: {bad[:3]}",
                          rp, observed=str(bad)[:200], promised="each section is its own track under its own key and label")
    prof = gen.Profile(max_tracks=2, garbage=0.0, unknown_sections=0.5, crlf=0.3)
    cases = []
    for _ in range(ctx.n(60, 6000)):
        src = gen.rand_src(rng, prof)
        seed = rng.randrange(1 << 30)
        import random as _r
        R = gen.render(src, _r.Random(seed), prof, garbage=False)
        lines = R.lines[:]
        inside = [k for k, l in enumerate(lines) if l not in ("{",) and not l.startswith("[") and k > 0] or [len(lines) - 1]
        # positions strictly inside bodies: after a "{" line and not after the closing "}"
        body_pos = []
        depth = False
        for k, l in enumerate(lines):
            if l == "{":
                depth = True
                body_pos.append(k + 1)
            elif l == "}":
                depth = False
            elif depth:
                body_pos.append(k + 1)
        ins = []
        for _ in range(rng.randint(1, 3)):
            ins.append((rng.choice(body_pos), rng.choice(["  }", "} ", "\t}", " { ", "  {", "{ ", "\u3000}", "}\xa0"])))
        for pos, g in sorted(ins, reverse=True):
            lines.insert(pos, g)
        text2 = R.newline.join(lines) + R.newline
        cases.append((R.text if R.text.endswith(R.newline) else R.text + R.newline, text2, len(ins)))
    a, b = common.run_charts([(t, None) for c in cases for t in c[:2]])
    for k, (t1, t2, n) in enumerate(cases):
        x1, x2, y2 = a[2 * k], a[2 * k + 1], b[2 * k + 1]
        rp = {"op": "padded", "base": t1, "with_padded_braces": t2}
        out.case("P" + fw.h(t2), True, None, tags=["padded-brace-in-body"])
        out.traces += 1
        if common.framing_proj(x2) != common.framing_proj(y2):
            p_, q_ = fw.first_diff(x2, y2)
            out.corr_mismatch("padded brace inside a body", common.chart_replay(t2), impl=p_, model=q_)
        if strip_warn(x1) != strip_warn(x2):
            p_, q_ = fw.first_diff(strip_warn(x1), strip_warn(x2))
            out.violation("padded-" + fw.h(t2), f"{n} padded brace line(s) inside section bodies changed the parse: {p_[:100]!r} vs {q_[:100]!r}", rp,
                          observed=q_[:200], promised=p_[:200])


GAP_LINES = ["garbage", "  384 = B 60000", "  0 = N 0 0", "  Resolution = 7", "  5 = E \"section gap\"", "", "  ", "// comment", "  0 = TS 3", "  96 = S 2 5",
             "  Name = \"gap\"", "x = y", "  0 = A 5"]


def gaps(ctx, out):
    """lines written between a section's header and its opening brace are not between the braces: no section's parser receives them"""
    import random as _r
    rng = ctx.sub("gaps")
    prof = gen.Profile(max_tracks=3, garbage=0.0, unknown_sections=0.2, crlf=0.0)
    cases = []
    for _ in range(ctx.n(60, 6000)):
        src = gen.rand_src(rng, prof)
        R = gen.render(src, _r.Random(rng.randrange(1 << 30)), prof, garbage=False, newline="\n")
        lines, n = [], 0
        for l in R.lines:
            if l == "{" and lines and lines[-1].startswith("[") and rng.random() < 0.5:
                k = rng.randint(1, 2)
                lines += [rng.choice(GAP_LINES) for _ in range(k)]
                n += k
            lines.append(l)
        if n:
            cases.append((R.text if R.text.endswith("\n") else R.text + "\n", "\n".join(lines) + "\n", n))
    a, b = common.run_charts([(t, None) for c in cases for t in c[:2]])
    for k, (t1, t2, n) in enumerate(cases):
        x1, x2, y2 = a[2 * k], a[2 * k + 1], b[2 * k + 1]
        rp = {"op": "gap", "base": t1, "with_gap_lines": t2}
        out.case("Gp" + fw.h(t2), True, None, tags=["lines-between-header-and-brace"])
        out.traces += 1
        if common.framing_proj(x2) != common.framing_proj(y2):
            p_, q_ = fw.first_diff(x2, y2)
            out.corr_mismatch("lines between a header and its brace", common.chart_replay(t2), impl=p_, model=q_)
        if x1 != x2:
            p_, q_ = fw.first_diff(x1, x2)
            out.violation("gap-" + fw.h(t2), f"{n} line(s) written between a header and its opening brace changed the parse: {p_[:100]!r} vs {q_[:100]!r}", rp,
                          observed=q_[:200], promised=p_[:200])


def absent_lookups(ctx, out):
    """the keys of the track map are the headers of the file — also after the chart was asked about instruments it does not have"""
    rng = ctx.sub("absent")
    prof = gen.Profile(max_tracks=3, garbage=0.0, unknown_sections=0.0)
    ins, dif = impl.enums()
    for _ in range(ctx.n(30, 2000)):
        src = gen.rand_src(rng, prof)
        R = gen.render(src, rng, prof)
        c, e, _ = impl.parse(R.text)
        out.case("Ab" + fw.h(R.text), True, None, tags=["absent-lookups"])
        if c is None:
            continue
        want = sorted({(t.inst, t.diff) for t in src.tracks})
        for i in ins:
            for f in (lambda: c[i], lambda: c.instrument_tracks.get(i), lambda: i in c.instrument_tracks, lambda: c.notes_per_second(i, dif[rng.randrange(4)])):
                try:
                    f()
                except (KeyError, ValueError):
                    pass
        got = sorted((ins.index(i), dif.index(d)) for i, dd in c.instrument_tracks.items() for d in dd)
        empty = [ins.index(i) for i, dd in c.instrument_tracks.items() if not dd]
        if got != want or empty:
            out.violation("absent-" + fw.h(R.text), f"after lookups of every instrument the chart's tracks are keyed {got} (empty entries for instruments {empty}), the file's headers are {want}",
                          {"op": "absent", "text": R.text, "want": want}, observed=[got, empty], promised=want)


def malformed(ctx, out):
    """scanner correspondence on broken framing (model quirks are compared, nothing is promised)"""
    rng = ctx.sub("malformed")
    prof = gen.Profile(max_tracks=2, garbage=0.0, unknown_sections=0.2)
    cases = []
    for _ in range(ctx.n(150, 15_000)):
        src = gen.rand_src(rng, prof)
        R = gen.render(src, rng, prof)
        lines = R.lines[:]
        for _ in range(rng.randint(1, 3)):
            op = rng.randrange(6)
            i = rng.randrange(len(lines))
            if op == 0:
                brace = [k for k, l in enumerate(lines) if l in ("{", "}")]
                if brace:
                    del lines[rng.choice(brace)]
            elif op == 1:
                lines.insert(i, rng.choice(["{", "}", "[Dup]", "[Song]", "[ExpertSingle]", "text", ""]))
            elif op == 2:
                lines.append(rng.choice(["trailing", "", "[Open]", "{"]))
            elif op == 3:
                hdr = [k for k, l in enumerate(lines) if l.startswith("[")]
                k = rng.choice(hdr)
                lines[k] = rng.choice([lines[k][:-1], lines[k][1:], "[]", "[a]b", lines[k] + " ", " " + lines[k], "[[x]]"])
            elif op == 4:
                lines[i] = rng.choice(["{ ", " }", "{}", "}{"])
            else:
                j = rng.randrange(len(lines))
                lines[i], lines[j] = lines[j], lines[i]
        cases.append((R.newline.join(lines) + rng.choice(["", R.newline]), None))
    a, b = common.run_charts(cases)
    for (t, _), x, y in zip(cases, a, b):
        out.case("X" + fw.h(t), True, None, tags=["malformed", x.split("|")[0][:22]])
        out.traces += 1
        if common.framing_proj(x) != common.framing_proj(y):
            p_, q_ = fw.first_diff(x, y)
            out.corr_mismatch("malformed framing", common.chart_replay(t), impl=p_, model=q_)


def slice(ctx: fw.Ctx) -> fw.Outcome:
    out = fw.Outcome(RULE)
    variants(ctx, out)
    files(ctx, out)
    nothing_and_padding(ctx, out)
    malformed(ctx, out)
    gaps(ctx, out)
    absent_lookups(ctx, out)
    # "receives exactly the body lines between that section's braces": what Chart.from_file makes of each section is what that
    # section's own public parser makes of exactly those lines (texts with //, #, ;, quotes and backslashes inside values included)
    direct.run(ctx, out, "all", gen.Profile(max_tracks=3, max_events=8, unknown_sections=0.3, meta_fields=0.8, tricky_text=0.7, exotic_pad=0.2, exotic_digits=0.1),
               n_quick=40, n_thorough=3000)
    return out


def replay(ctx, data):
    op = data["op"]
    if op == "direct-section":
        return direct.replay(data)
    if op == "absent":
        ins, dif = impl.enums()
        c, e, _ = impl.parse(data["text"])
        if c is None:
            return False, "does not parse"
        for i in ins:
            for f in (lambda: c[i], lambda: c.notes_per_second(i, dif[0])):
                try:
                    f()
                except (KeyError, ValueError):
                    pass
        got = sorted([ins.index(i), dif.index(d)] for i, dd in c.instrument_tracks.items() for d in dd)
        empty = [ins.index(i) for i, dd in c.instrument_tracks.items() if not dd]
        return got != [list(w) for w in data["want"]] or bool(empty), str([got, empty])
    if op == "variants":
        xb, xp, xc = (impl.run_chart(data[k]) for k in ("base", "perm", "crlf"))
        return (strip_warn(xp) != strip_warn(xb) or xc != xb), str(fw.first_diff(xb, xp if strip_warn(xp) != strip_warn(xb) else xc))
    if op == "path":
        x, b = impl.run_path(bytes.fromhex(data["hex"])), impl.run_path(bytes.fromhex(data["base_hex"]))
        if data.get("stream"):
            b = impl.run_chart(bytes.fromhex(data["base_hex"]).decode("utf-8"))
        return x != b, str(fw.first_diff(b, x))
    if op == "missing":
        x = impl.run_chart(data["text"])
        return x != "E ValueError", x[:200]
    if op == "clones":
        x = impl.run_chart(data["text"])
        if x.startswith("E "):
            return True, x
        d = gen.parse_dump(x)
        bad = [(k, v["label"]) for k, v in d["tracks"].items() if tuple(v["label"]) != tuple(k)]
        return bool(bad) or sorted(d["tracks"]) != sorted(tuple(k) for k in data["keys"]), str(bad)[:200]
    if op == "nothing-path":
        x = impl.run_path(bytes.fromhex(data["hex"]))
        return x != "E ValueError", x[:200]
    if op == "gap":
        x1, x2 = impl.run_chart(data["base"]), impl.run_chart(data["with_gap_lines"])
        return x1 != x2, str(fw.first_diff(x1, x2))[:300]
    if op == "padded":
        x1, x2 = impl.run_chart(data["base"]), impl.run_chart(data["with_padded_braces"])
        return strip_warn(x1) != strip_warn(x2), str(fw.first_diff(strip_warn(x1), strip_warn(x2)))[:300]
    if op == "unknown":
        x = impl.run_chart(data["text"])
        if x.startswith("E "):
            return True, x
        d = gen.parse_dump(x)
        return sorted(gen.uncps(u) for u in d["unhandled"]) != sorted(data["tags"]), str(d["unhandled"])
    if op == "chart":
        x = impl.run_chart(data["text"])
        if "want_keys" in data:
            d = gen.parse_dump(x)
            return x.startswith("E ") or sorted(d["tracks"].keys()) != sorted(set(tuple(k) for k in data["want_keys"])), x[:300]
        return x.startswith("E "), x[:300]
    return None, "unknown replay op"
