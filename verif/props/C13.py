"""C13 — track selection restricts the parse and tracks do not interfere."""
from __future__ import annotations

import random

from .. import common, gen, impl
from .. import framework as fw

GEN_SECTIONS = ["Tables", "Regexes", "Unicode"]
LEAVES = {'LoopRoute': []}
IMP = ['fromFile']  # functions dumped as terms of the imperative embedding, run against CPython on every run
TRUSTED = [
    "Lean 4 kernel; axioms ⊆ {propext, Classical.choice, Quot.sound}",
    "translator: header → (instrument, difficulty) table; hand model of the routing loop with want_tracks",
    "translate_imp: Chart.from_file dumped as a term (class-level constants and the title table folded to their live values); "
    "Tie/LoopRoute proves it equal to fileV / routeFold and proves the selection law on that fold",
    "tied by whole-chart differential execution with selections",
]
ASSUMPTIONS = ["restriction law: the unrestricted parse succeeds"]
RULE = ("charts with subsets of the 40 tracks × selections (None, empty, subsets, supersets, absent pairs, duplicates) × one "
        "section's body replaced by arbitrary (also invalid) content; promised: selection = filter of the unrestricted parse "
        "with metadata / sync / events unchanged; an unselected or foreign section cannot change any other track; "
        "non-trivial = a proper non-empty selection or a replaced body; distinct by (chart, selection)")

BAD_BODIES = [["  0 = N 5 0"], ["  5 = N 0 0", "  0 = S 2 1", "  3 = S 2 1"], ["garbage"], ["  10 = N 0 0", "  5 = N 0 0", "  7 = E x"],
              [], ["  0 = N 7 10", "  0 = N 0 5"], ["  99999999 = N 0 99999999"], ["", "garbage"], ["  "], ["", "", "  5 = N 0 0", ""], ["// note", "  5 = N 0 0 // x"],
              # lone opening braces inside a body are body text of that section, however many there are
              ["{", "  5 = N 0 0"], ["  5 = N 0 0", "{", "{", "  6 = N 1 0"], ["{", "{", "{"], ["  1 = N 0 0", "{"]]


def split_tracks(dump: str):
    """(head without tracks, {key: track text}, tail)"""
    parts = dump.split("|")
    head, tracks, cur, tail = [], {}, None, []
    for p in parts:
        if p.startswith("T "):
            cur = tuple(int(v) for v in p.split(" ")[1:3])
            tracks[cur] = [p]
        elif p.startswith(("W ", "U ")):
            cur = None
            tail.append(p)
        elif cur is not None:
            tracks[cur].append(p)
        else:
            head.append(p)
    return "|".join(head), {k: "|".join(v) for k, v in tracks.items()}, "|".join(tail)


def slice(ctx: fw.Ctx) -> fw.Outcome:
    out = fw.Outcome(RULE)
    rng = ctx.sub("c13")
    prof = gen.Profile(max_tracks=5, garbage=0.0, unknown_sections=0.1, meta_fields=0.1)
    reqs, meta = [], []
    for _ in range(ctx.n(120, 12_000)):
        src = gen.rand_src(rng, prof)
        R = gen.render(src, rng, prof, garbage=False)
        present = sorted({(t.inst, t.diff) for t in src.tracks})
        sels = [[], present[:], present[:1], present[1:], [(rng.randrange(10), rng.randrange(4))], present + [(rng.randrange(10), rng.randrange(4))],
                present[:1] * 2, rng.sample(present, rng.randint(0, len(present))),
                # pairs the file lacks written before / between pairs it has
                [(rng.randrange(10), rng.randrange(4))] + present, [x for k in present for x in ((rng.randrange(10), rng.randrange(4)), k)]]
        full = impl.run_chart(R.text, None)
        reqs.append((R.text, None))
        meta.append(("full", R.text, None, full, None))
        for sel in rng.sample(sels, 4):
            x = impl.run_chart(R.text, sel)
            reqs.append((R.text, sel))
            meta.append(("sel", R.text, sel, x, full))
        # replace one instrument section's body; parse selecting only the others / unrestricted
        if src.tracks:
            victim = rng.choice(src.tracks)
            tag = gen.header_tag(victim.inst, victim.diff)
            lines, skip = [], False
            body = rng.choice(BAD_BODIES)
            if rng.random() < 0.35:  # bare bracket lines naming other sections of this chart (they are body text, not headers)
                other = rng.choice([t for t, _ in R.sections] + ["Whatever"])
                body = [f"[{other}]", "  5 = N 4 0"] + (["{", "  6 = N 0 0"] if rng.random() < 0.3 else [])
                body = [b for b in body if b != "}"]
            secs = []
            for t, b in R.sections:
                secs.append((t, body if t == tag else b))
            for t, b in secs:
                lines += [f"[{t}]", "{"] + b + ["}"]
            text2 = R.newline.join(lines) + R.newline
            others = [k for k in present if k != (victim.inst, victim.diff)]
            x2 = impl.run_chart(text2, others)
            x1 = impl.run_chart(R.text, others)
            reqs.append((text2, others))
            meta.append(("isolate", text2, others, x2, x1))
            x3 = impl.run_chart(text2, None)
            reqs.append((text2, None))
            meta.append(("isolate-full", text2, None, x3, full))
    # a header written twice: whatever the file means by that, a selection names the same track the unrestricted parse shows
    for _ in range(ctx.n(40, 2000)):
        src = gen.rand_src(rng, prof)
        if not src.tracks:
            continue
        R = gen.render(src, rng, prof, garbage=False)
        present = sorted({(t.inst, t.diff) for t in src.tracks})
        twice = rng.choice(src.tracks)
        tag = gen.header_tag(twice.inst, twice.diff)
        second = rng.choice([["  7 = N 2 0", "  9 = N 3 5"], [], ["  0 = N 0 0"]] + [b for t, b in R.sections if t not in gen.REQUIRED_TAGS])
        secs = list(R.sections)
        secs.insert(rng.randint(next(k for k, (t, _) in enumerate(secs) if t == tag) + 1, len(secs)), (tag, second))
        lines = []
        for t, b in secs:
            lines += [f"[{t}]", "{"] + b + ["}"]
        text = R.newline.join(lines) + R.newline
        full = impl.run_chart(text, None)
        reqs.append((text, None))
        meta.append(("full", text, None, full, None))
        for sel in ([(twice.inst, twice.diff)], present, present[:1], [(twice.inst, twice.diff), (rng.randrange(10), rng.randrange(4))]):
            x = impl.run_chart(text, sel)
            reqs.append((text, sel))
            meta.append(("sel", text, [list(k) for k in sel], x, full))
    # the caller's selection object is an input, not scratch space: the same list handed to two parses selects the same tracks
    # twice and is left as it was; a tuple or a generator-free iterable of the same pairs selects the same tracks
    from chartparse.chart import Chart
    import io
    for _ in range(ctx.n(40, 2000)):
        src = gen.rand_src(rng, prof)
        if not src.tracks:
            continue
        R = gen.render(src, rng, prof, garbage=False)
        present = sorted({(t.inst, t.diff) for t in src.tracks})
        sel = rng.sample(present, rng.randint(1, len(present))) + ([(rng.randrange(10), rng.randrange(4))] if rng.random() < 0.5 else [])
        w = list(impl.want_arg(sel))  # this family's own list: nobody but the library could change it
        before = list(w)
        dumps = []
        for k in range(3):
            try:
                c = Chart.from_file(io.StringIO(R.text, newline=""), want_tracks=(w if k < 2 else tuple(before)))
                dumps.append(impl.dump_chart(c, []))
            except Exception as ex:  # noqa: BLE001
                dumps.append(impl.err_name(ex))
        rp = {"op": "reuse", "text": R.text, "want": sel}
        out.case(fw.h(["reuse", R.text, sel]), True, None, tags=["reuse-selection"])
        # the track map holds the selected tracks and nothing else: no entry (not even an empty one) for an instrument none of whose
        # tracks was selected, so subscripting by it raises KeyError
        for sel2 in ([], sel[:1], [(rng.randrange(10), rng.randrange(4))]):
            try:
                c2 = Chart.from_file(io.StringIO(R.text, newline=""), want_tracks=impl.want_arg(sel2))
            except Exception:  # noqa: BLE001
                continue
            ins_, dif_ = impl.enums()
            want_keys = sorted({i for i, d in present if (i, d) in [tuple(x) for x in sel2]})
            got_keys = sorted(ins_.index(k) for k in c2.instrument_tracks.keys())
            empties = [ins_.index(k) for k, v in c2.instrument_tracks.items() if not v]
            if got_keys != want_keys or empties:
                out.violation("keys-" + fw.h([R.text, sel2]), f"selection {sel2}: the track map has entries for instruments {got_keys} (empty: {empties}), selected and present: {want_keys}",
                              {"op": "keys", "text": R.text, "want": sel2, "keys": want_keys}, observed=got_keys, promised=want_keys)
                break
        # one list object edited in place between parses, and brand-new lists built and dropped in turn (a freed list's address goes to the
        # next one): every parse returns what *this* selection selects
        ins_, dif_ = impl.enums()
        selA = sel
        selB = [p_ for p_ in present if p_ not in sel][:2] + sel[:1] if len(present) > 1 else sel[:0]
        mine = []
        for k in range(ctx.n(12, 40)):
            cur = selA if k % 2 == 0 else selB
            if k < 4:
                mine[:] = [(ins_[i], dif_[d]) for i, d in cur]
                arg = mine
            else:
                arg = [(ins_[i], dif_[d]) for i, d in cur]
            try:
                c3 = Chart.from_file(io.StringIO(R.text, newline=""), want_tracks=arg)
            except Exception:  # noqa: BLE001
                break
            del arg
            got3 = sorted((ins_.index(i), dif_.index(d)) for i, dd in c3.instrument_tracks.items() for d in dd)
            want3 = sorted(set(map(tuple, cur)) & set(present))
            if got3 != want3:
                out.violation("turns-" + fw.h([R.text, selA, selB, k]), f"selections {selA} and {selB} given in turn ({'one list edited in place' if k < 4 else 'new lists, each dropped after its parse'}): "
                              f"parse #{k} with {cur} returned tracks {got3}, selected and present: {want3}", {"op": "turns", "text": R.text, "A": selA, "B": selB, "present": present},
                              observed=got3, promised=want3)
                break
        if list(w) != before:
            out.violation("reuse-" + fw.h(rp), f"parsing with want_tracks={sel} changed the caller's list to {len(w)} entries", rp,
                          observed=len(w), promised=len(before))
        elif len(set(dumps)) != 1:
            p_, q_ = fw.first_diff(dumps[0], dumps[1] if dumps[1] != dumps[0] else dumps[2])
            out.violation("reuse-" + fw.h(rp), f"the same selection {sel} (same list twice, then as a tuple) gave different charts: {p_[:80]!r} vs {q_[:80]!r}",
                          rp, observed=q_[:200], promised=p_[:200])
    # sections with line-for-line identical bodies (also empty ones) are still different tracks: each carries its own header's
    # instrument and difficulty, restricted or not
    for _ in range(ctx.n(40, 2000)):
        src = gen.rand_src(rng, prof)
        if not src.tracks:
            src.tracks.append(gen.TrackSrc(rng.randrange(10), rng.randrange(4), [], [], []))
        R = gen.render(src, rng, prof, garbage=False)
        donor = rng.choice(src.tracks)
        dbody = next(b for t, b in R.sections if t == gen.header_tag(donor.inst, donor.diff))
        used = {(t.inst, t.diff) for t in src.tracks}
        free = [(i, d) for i in range(10) for d in range(4) if (i, d) not in used]
        clones = rng.sample(free, rng.randint(1, 3))
        if rng.random() < 0.5:
            clones[0] = (donor.inst, clones[0][1]) if (donor.inst, clones[0][1]) in free else clones[0]  # same instrument, other difficulty
        lines = []
        secs = list(R.sections) + [(gen.header_tag(i, d), dbody) for i, d in clones]
        if rng.random() < 0.5:
            rng.shuffle(secs)
        for t, b in secs:
            lines += [f"[{t}]", "{"] + b + ["}"]
        text = "\n".join(lines) + "\n"
        full = impl.run_chart(text, None)
        reqs.append((text, None))
        meta.append(("clones-full", text, None, full, None))
        rp = {"op": "clones", "text": text, "want": None, "keys": sorted(used | set(clones))}
        if not full.startswith("E "):
            d = gen.parse_dump(full)
            bad = [(k, v["label"]) for k, v in d["tracks"].items() if tuple(v["label"]) != tuple(k)]
            if bad or sorted(d["tracks"]) != sorted(used | set(clones)):
                out.violation("clones-" + fw.h(rp), f"sections with identical bodies: tracks {sorted(d['tracks'])} (expected {sorted(used | set(clones))}), "
                              f"tracks whose own instrument/difficulty differ from their header: {bad[:3]}", rp, observed=str(bad)[:200], promised="each track labelled by its own header")
            one = rng.choice(clones)
            x = impl.run_chart(text, [one])
            reqs.append((text, [one]))
            meta.append(("sel", text, [list(one)], x, full))
    # tracks must be independent: an out-of-order section raises ValueError whatever other sections contain, selected alone or not
    for _ in range(ctx.n(10, 500)):
        t2 = rng.randint(50, 900)
        early, late = rng.randint(1, t2 - 1), t2 + rng.randint(1, 500)
        a, b = rng.sample([(i, d) for i in range(10) for d in range(4)], 2)
        head = ["[Song]", "{", "  Resolution = 192", "}", "[SyncTrack]", "{", "  0 = TS 4", f"  0 = B {rng.choice([120000, 90000])}",
                f"  {t2} = B {rng.choice([60000, 150000])}", "}", "[Events]", "{", "}"]
        sec_a = [f"[{gen.header_tag(*a)}]", "{", f"  {early} = N 0 0", f"  {late} = N 1 0", "}"]
        sec_b = [f"[{gen.header_tag(*b)}]", "{", f"  {late} = N 0 0", f"  {early} = N 1 0", "}"]
        text = "\n".join(head + (sec_a + sec_b if rng.random() < 0.7 else sec_b + sec_a)) + "\n"
        full = impl.run_chart(text, None)
        reqs.append((text, None))
        meta.append(("unsorted-full", text, None, full, None))
        alone = impl.run_chart(text, [b])
        reqs.append((text, [b]))
        meta.append(("unsorted-alone", text, [b], alone, full))
    mod = __import__("verif.driver", fromlist=["x"]).run_parallel(
        [f"chart {common.driver.cps(t)} {common.driver.want_tok(w)}" for t, w in reqs])
    for (kind, text, sel, x, ref), m in zip(meta, mod):
        rp = {"op": kind, "text": text, "want": sel}
        out.case(fw.h([kind, text, sel]), kind != "full" and (kind != "sel" or bool(sel)), {"kind": kind, "want": sel} if kind == "sel" else None,
                 tags=[kind, x.split("|")[0][:14]])
        out.traces += 1
        if common.framing_proj(x) != common.framing_proj(m):
            p_, q_ = fw.first_diff(x, m)
            out.corr_mismatch(f"{kind} parse (want={sel})", rp, impl=p_, model=q_)
        if kind == "sel" and not ref.startswith("E "):
            h0, t0, _ = split_tracks(ref)
            if x.startswith("E "):
                out.violation("sel-" + fw.h(rp), f"selection {sel} raised {x} although the unrestricted parse succeeds", rp, observed=x, promised="filtered chart")
                continue
            h1, t1, _ = split_tracks(x)
            want = {k: v for k, v in t0.items() if k in [tuple(s) for s in sel]}
            if h1 != h0 or t1 != want:
                out.violation("sel-" + fw.h(rp), f"selection {sel}: got tracks {sorted(t1)}, expected {sorted(want)} identical to the unrestricted parse"
                              + ("" if h1 == h0 else "; metadata/sync/events changed"), rp, observed=sorted(t1), promised=sorted(want))
        if kind in ("unsorted-full", "unsorted-alone") and x != "E ValueError":
            out.violation("unsorted-" + fw.h(rp), f"a section listing a tick before a tempo change it already passed was accepted ({kind}, want={sel}): "
                          "whether it raises depends on what other sections contain", rp, observed=x[:80], promised="E ValueError")
        if kind == "isolate":
            # an unselected section (even invalid) never affects the result
            if x != ref:
                p_, q_ = fw.first_diff(ref, x)
                out.violation("iso-" + fw.h(rp), f"content of an unselected section changed the parse: {p_!r} vs {q_!r}", {**rp, "ref": ref[:2000]}, observed=q_, promised=p_)
        if kind == "isolate-full" and not x.startswith("E ") and not ref.startswith("E "):
            h0, t0, _ = split_tracks(ref)
            h1, t1, _ = split_tracks(x)
            changed = [k for k in set(t0) | set(t1) if t0.get(k) != t1.get(k)]
            if h0 != h1 or len(changed) > 1:
                out.violation("iso-" + fw.h(rp), f"replacing one section's body changed {changed} / shared data", rp, observed=changed, promised="only that track")
    return out


def replay(ctx, data):
    if data.get("op") == "turns":
        import io
        from chartparse.chart import Chart
        ins_, dif_ = impl.enums()
        present = [tuple(x) for x in data["present"]]
        mine = []
        for k in range(60):
            cur = [tuple(x) for x in (data["A"] if k % 2 == 0 else data["B"])]
            if k < 4:
                mine[:] = [(ins_[i], dif_[d]) for i, d in cur]
                arg = mine
            else:
                arg = [(ins_[i], dif_[d]) for i, d in cur]
            c3 = Chart.from_file(io.StringIO(data["text"], newline=""), want_tracks=arg)
            del arg
            got3 = sorted((ins_.index(i), dif_.index(d)) for i, dd in c3.instrument_tracks.items() for d in dd)
            if got3 != sorted(set(cur) & set(present)):
                return True, f"parse #{k}: {got3}"
        return False, "every parse returned its own selection"
    if data["op"] == "reuse":
        from chartparse.chart import Chart
        import io
        w = impl.want_arg(data["want"])
        before = list(w)
        dumps = []
        for k in range(3):
            try:
                dumps.append(impl.dump_chart(Chart.from_file(io.StringIO(data["text"], newline=""), want_tracks=(w if k < 2 else tuple(before))), []))
            except Exception as ex:  # noqa: BLE001
                dumps.append(impl.err_name(ex))
        return list(w) != before or len(set(dumps)) != 1, f"list {len(before)} -> {len(w)}; distinct results {len(set(dumps))}"
    if data["op"] == "keys":
        from chartparse.chart import Chart
        import io
        c2 = Chart.from_file(io.StringIO(data["text"], newline=""), want_tracks=impl.want_arg(data["want"]))
        ins_, _ = impl.enums()
        got = sorted(ins_.index(k) for k in c2.instrument_tracks.keys())
        return got != data["keys"] or any(not v for v in c2.instrument_tracks.values()), str(got)
    x = impl.run_chart(data["text"], data.get("want"))
    if data["op"] == "clones":
        if x.startswith("E "):
            return False, x
        d = gen.parse_dump(x)
        bad = [(k, v["label"]) for k, v in d["tracks"].items() if tuple(v["label"]) != tuple(k)]
        return bool(bad) or sorted(d["tracks"]) != sorted(tuple(k) for k in data["keys"]), str(bad)[:200]
    if data["op"] == "sel":
        full = impl.run_chart(data["text"], None)
        if full.startswith("E "):
            return False, "unrestricted parse fails"
        if x.startswith("E "):
            return True, x
        h0, t0, _ = split_tracks(full)
        h1, t1, _ = split_tracks(x)
        want = {k: v for k, v in t0.items() if k in [tuple(s) for s in data["want"]]}
        return (h1 != h0 or t1 != want), str(sorted(t1))
    if data["op"] in ("unsorted-full", "unsorted-alone"):
        return x != "E ValueError", x[:120]
    if data["op"] == "isolate":
        return ("ref" in data and x[:2000] != data["ref"]), x[:200]
    return False, x[:200]
