"""C01 — event timestamps equal the exact tempo-map time of their tick (within (g+1)(½+10⁻³) µs)."""
from __future__ import annotations

from datetime import timedelta
from fractions import Fraction

from .. import common, driver, gen, impl
from .. import framework as fw

GEN_SECTIONS = []
# arithmetic leaf functions whose ASTs are dumped from /repo and proved equal to the hand model (lean/Chartparse/Tie/<X>.lean)
LEAVES = {'Secs': 'secs', 'Scan': 'scan', 'TsAt': ['tsat', 'between', 'timeadd'], 'BpmStep': ['bpmstep'], 'Compose': [], 'LoopEvents': []}
IMP = ['dataToEvents']  # functions dumped as terms of the imperative embedding, run against CPython on every run
TRUSTED = [
    "leaf ties: Py.evalBody (embedded Python subset, validated against CPython on random expressions and against the real leaf functions every run) + the AST dump",
    "Lean 4 kernel; axioms ⊆ {propext, Classical.choice, Quot.sound}",
    "hand model of binary64 round-to-nearest-even on exact rationals (unbounded exponent), of "
    "`timedelta(seconds=float)` microsecond rounding, of seconds_from_ticks_at_bpm and of the tempo accumulation; "
    "tied by bit-exact differential execution against CPython",
    "CPython / IEEE-754 arithmetic, datetime.timedelta",
]
ASSUMPTIONS = ["envelope of the property: resolution ≥ 1, n ≥ 1, exact time below 10^6 s (no float overflow/underflow modelled)",
               "tolerance (g+1)·(1/2 + 1/1000) µs: seven float roundings contribute < 7.8e-4 µs before the final rounding"]
RULE = ("(a) primitives fl / timedelta(seconds=) / seconds_from_ticks_at_bpm compared bit for bit on random and near-tie "
        "inputs; (b) tempo maps (1–40 segments, odd resolutions, BPM 0.001…10^6) × ticks (tempo ticks, ±1, far past the end, "
        "random) through the real BPMEvents.timestamp_at_tick vs model vs exact Fraction time; (c) whole charts: every event "
        "of every kind; non-trivial = more than one tempo segment traversed; distinct by (map, tick)")

TOL = Fraction(1, 2) + Fraction(1, 1000)
US = timedelta(microseconds=1)


def build_bpm_events(res, tempo):
    import chartparse.track
    from chartparse.sync import BPMEvent

    datas = [BPMEvent.ParsedData(tick=t, raw_bpm=str(n)) for t, n in tempo]
    return chartparse.track.build_events_from_data(BPMEvent, datas, res)


def rebuilt_publicly(be):
    """the same tempo map put together through the public constructors: every event from its public fields only (private
    bookkeeping left at its default), then the public container"""
    from chartparse.sync import BPMEvent, BPMEvents
    return BPMEvents(events=[BPMEvent(tick=e.tick, timestamp=e.timestamp, bpm=e.bpm) for e in be.events], resolution=be.resolution)


TIES = {192: [200000, 40000, 100000, 1000000, 62500], 480: [160000, 32000, 80000, 400000], 100: [128000, 384000, 76800], 960: [80000, 16000, 200000],
        96: [400000, 80000, 200000], 1000: [64000, 12800, 38400]}  # a tick lasts a whole number of µs plus exactly one half


def rand_map(rng, max_seg=6, big=False):
    res = rng.choice([192, 480, 96, 960, 100, 1, 3, 7, 333, 1000, rng.randint(1, 5000), rng.randint(1, 10**6)])
    k = rng.randint(1, max_seg)
    t = 0
    tempo = []
    for _ in range(k):
        r = rng.random()
        if res in TIES and r < 0.25:
            n = rng.choice(TIES[res])  # half-microsecond ties: where two ways of writing the same formula part company
        elif r < 0.4:
            n = rng.choice([120000, 60000, 90000, 200000, 117000, 140500])
        elif r < 0.75:
            n = rng.randint(20000, 400000)
        elif r < 0.85:
            n = rng.randint(1, 3000)
        else:
            n = rng.choice([1, 1000, 10**6, 10**9, rng.randint(10**6, 10**9), rng.choice(gen.C08_PAST)])
        tempo.append((t, n))
        t += rng.choice([1, 2, res, 4 * res, rng.randint(1, 5000), rng.randint(1, 40)]) if not big else rng.randint(1, 10**7)
    if rng.random() < 0.08 and res >= 96 and all(n >= 20000 for _, n in tempo):
        # tempo changes far into the chart: past 2^31 / 2^32 ticks (months of music at ordinary tempi, still well inside a timedelta)
        far = max(t, rng.choice([2**31 - 5, 2**32 - 3, 2**32 + 192, 2**33 + 1]))
        tempo += [(far, rng.choice([120000, 90000, 200000])), (far + rng.choice([1, 192, 19200]), rng.choice([60000, 150000]))]
    return res, tempo


def ticks_for(rng, res, tempo, k):
    last = tempo[-1][0]
    out = [0]
    for t, _ in tempo:
        out += [t, t + 1, max(0, t - 1)]
    out += [last + rng.randint(0, 10**4), last + rng.randint(0, 10**8)]
    out += [rng.randint(0, last + 1000) for _ in range(k)]
    return out


def in_envelope(res, tempo, tick):
    ex, g = gen.exact_us(res, tempo, tick)
    return ex < 10**12, ex, g


def primitives(ctx, out):
    rng = ctx.sub("prim")
    reqs, exp = [], []
    for _ in range(ctx.n(1500, 200_000)):
        kind = rng.choice(["fl", "us", "secs"])
        if kind == "fl":
            p = rng.choice([rng.randint(1, 10**6), rng.randint(1, 2**70), 2**53 + rng.randint(-3, 3), rng.randint(1, 10**18)])
            q = rng.choice([1, 3, 1000, 60, rng.randint(1, 10**6), 2**rng.randint(0, 60), rng.randint(1, 10**15)])
            reqs.append(f"fl {p}/{q}")
            exp.append(impl.rat(p / q))
        elif kind == "us":
            # floats near microsecond ties and ordinary ones
            if rng.random() < 0.5:
                x = rng.randint(0, 10**6) + (rng.randint(0, 10**6) + 0.5) / 10**6 + rng.choice([0, 1e-10, -1e-10, 1e-9])
            else:
                x = rng.random() * 10 ** rng.randint(-6, 6)
            x = abs(x)
            a, b = x.as_integer_ratio()
            reqs.append(f"us {a}/{b}")
            exp.append(str(timedelta(seconds=x) // US))
        else:
            from chartparse.tick import seconds_from_ticks_at_bpm

            t = rng.choice([0, 1, rng.randint(0, 10**4), rng.randint(0, 10**9)])
            n = rng.choice([120000, rng.randint(1, 10**6), rng.randint(1, 10**9)])
            res = rng.choice([192, 1, rng.randint(1, 10**5), rng.randint(1, 10**18)])
            bpm = n / 1000
            a, b = bpm.as_integer_ratio()
            reqs.append(f"secs {t} {a}/{b} {res}")
            exp.append(impl.rat(float(seconds_from_ticks_at_bpm(t, bpm, res))))
    got = driver.run_parallel(reqs)
    for r, e, g in zip(reqs, exp, got):
        out.case(r, True, None, tags=["prim-" + r.split(" ")[0]])
        out.traces += 1
        if e != g:
            out.corr_mismatch(f"float primitive `{r}`", {"op": "prim", "req": r}, impl=e, model=g)


def maps(ctx, out):
    rng = ctx.sub("maps")
    cases = []
    for _ in range(ctx.n(250, 25_000)):
        res, tempo = rand_map(rng, rng.choice([1, 3, 6, 6, 12, 40]), big=rng.random() < 0.1)
        for tick in ticks_for(rng, res, tempo, 3):
            cases.append((res, tempo, tick))
    # always: a very fast tempo up to an enormous tick, then a slow one — the time is small, the tick count is not; whatever way the
    # arithmetic is arranged, ticks in the slow segment keep their exact time
    for res, t1, n_fast, n_slow in ((192, 192 * 10**9, 10**9, 1370), (192, 10**11, 999999999, 2000), (960, 5 * 10**11, 10**9, 1001),
                                    (1, 10**9, 10**9, 7), (480, 2**40, 10**9, 1234)):
        tempo = [(0, n_fast), (t1, n_slow)]
        for tick in [t1, t1 + 1, t1 + 7, t1 + 100, t1 + 12345] + [t1 + rng.randint(1, 10**5) for _ in range(6)]:
            if in_envelope(res, tempo, tick)[0]:
                cases.append((res, tempo, tick))
    reqs = [f"tsat {res} {','.join(f'{t}:{n}' for t, n in tempo)} {tick} 0" for res, tempo, tick in cases]
    mod = driver.run_parallel(reqs)
    cache = {}
    for (res, tempo, tick), m in zip(cases, mod):
        key = (res, tuple(tempo))
        if key not in cache:
            try:
                cache.clear()
                cache[key] = build_bpm_events(res, tempo)
            except Exception as e:  # noqa: BLE001
                cache[key] = e
        be = cache[key]
        inside, ex, g = in_envelope(res, tempo, tick)
        rp = {"op": "tsat", "res": res, "tempo": tempo, "tick": tick}
        if isinstance(be, Exception):
            i = impl.err_name(be)
        else:
            try:
                ts, idx = be.timestamp_at_tick(tick)
                i = f"{ts // US} {idx}"
                ts2 = be.timestamp_at_tick_no_optimize_return(tick)
                if ts2 != ts:
                    i = f"{ts2 // US} {idx}"  # the un-hinted public query is an observation point of its own
            except Exception as e:  # noqa: BLE001
                i = impl.err_name(e)
        out.case(fw.h([res, tempo, tick]), g >= 1, {"res": res, "tempo": tempo[:4], "tick": tick, "impl": i} if g >= 1 else None,
                 tags=[f"seg{min(g, 5)}", "tempo-tick" if any(t == tick for t, _ in tempo) else "between"])
        out.traces += 1
        mm = m[4:] if m.startswith("MAP ") else m
        if i != mm:
            out.corr_mismatch(f"timestamp_at_tick({tick}) on res={res} map={tempo[:5]}", rp, impl=i, model=m)
        if inside:
            if i.startswith("E "):
                out.violation("tsat-" + fw.h(rp), f"well-formed map/tick raised {i}", rp, observed=i, promised=f"≈{float(ex):.3f} µs")
            else:
                ts, idx = (int(x) for x in i.split(" "))
                if abs(ts - ex) > (g + 1) * TOL or idx != g or (tick == 0 and ts != 0):
                    out.violation("tsat-" + fw.h(rp), f"timestamp of tick {tick} is {ts} µs (index {idx}); exact time {float(ex):.4f} µs, "
                                  f"governing index {g}, tolerance {(g + 1)} × (½+10⁻³)", rp, observed=i, promised=f"{float(ex):.4f} {g}")
                elif not mm.startswith("E "):
                    mts, midx = (int(x) for x in mm.split(" "))
                    if abs(mts - ex) > (g + 1) * TOL or midx != g:
                        out.model_bug("tsat", rp, model=mm, promised=f"{float(ex):.4f} {g}")


def check_events(events, res, tempo):
    """every event of every kind: |ts − exact| ≤ (g+1)·tol, index = governing index"""
    for kind, tick, ts, idx in events:
        exu, g = gen.exact_us(res, tempo, tick)
        if exu >= 10**12:
            continue
        if kind == "B":
            ok = abs(ts - exu) <= max(1, idx) * TOL and (tick != 0 or ts == 0)
        else:
            ok = abs(ts - exu) <= (g + 1) * TOL and idx == g
        if not ok:
            return (kind, tick, ts, idx, float(exu), g)
    return None


def charts(ctx, out):
    rng = ctx.sub("charts")
    prof = gen.Profile(max_tempo=8, garbage=0.0, unknown_sections=0.0, meta_fields=0.0, c08_past=True)
    cases = []
    for _ in range(ctx.n(120, 12_000)):
        src = gen.rand_src(rng, prof)
        cases.append((src, gen.render(src, rng, prof)))
    a, b = common.run_charts([(R.text, None) for _, R in cases])
    for (src, R), x, y in zip(cases, a, b):
        dx, dy = gen.parse_dump(x), gen.parse_dump(y)
        rp = {**common.chart_replay(R.text), "res": src.res, "tempo": src.tempo}
        if dx["err"] is None:
            ex_, ey_ = common.all_events(dx), (common.all_events(dy) if dy["err"] is None else None)
            ends_x = [(n["tick"], n["end"]) for tr in dx["tracks"].values() for n in tr["notes"]]
        else:
            ex_, ey_, ends_x = dx["err"], dy["err"], []
        out.case("C" + fw.h(R.text), len(src.tempo) > 1, None, tags=["chart", f"tempo{min(len(src.tempo), 4)}"])
        out.traces += 1
        if ex_ != ey_:
            out.corr_mismatch("timestamps of a chart", rp, impl=str(ex_)[:300], model=str(ey_)[:300])
        if dx["err"] is not None:
            out.violation("chart-" + fw.h(R.text), f"well-formed chart raised {dx['err']}", rp, observed=dx["err"], promised="parses")
            continue
        bad = check_events(ex_, src.res, src.tempo)
        if bad is None:
            # sustain ends
            truth_end = {}
            for tr in src.tracks:
                for gq in tr.groups:
                    truth_end[(tr.inst, tr.diff, gq.tick)] = gq.tick + gen.longest_truth(gq)
            for key, tr in dx["tracks"].items():
                for n in tr["notes"]:
                    et = truth_end.get((key[0], key[1], n["tick"]))
                    if et is None:
                        continue
                    exu, g = gen.exact_us(src.res, src.tempo, et)
                    if exu < 10**12 and abs(n["end"] - exu) > (g + 1) * TOL:
                        bad = ("N-end", et, n["end"], None, float(exu), g)
                        break
        if bad is not None:
            out.violation("chart-" + fw.h(R.text), f"{bad[0]} event at tick {bad[1]}: timestamp {bad[2]} µs index {bad[3]}, "
                          f"exact {bad[4]:.4f} µs, governing index {bad[5]}", rp, observed=str(bad[:4]), promised=str(bad[4:]))


def slice(ctx: fw.Ctx) -> fw.Outcome:
    out = fw.Outcome(RULE)
    primitives(ctx, out)
    maps(ctx, out)
    charts(ctx, out)
    return out


def replay(ctx: fw.Ctx, data: dict):
    if data["op"] == "tsat":
        res, tempo, tick = data["res"], [tuple(x) for x in data["tempo"]], data["tick"]
        inside, ex, g = in_envelope(res, tempo, tick)
        try:
            ts, idx = build_bpm_events(res, tempo).timestamp_at_tick(tick)
            ts = ts // US
        except Exception as e:  # noqa: BLE001
            return inside, impl.err_name(e)
        return (abs(ts - ex) > (g + 1) * TOL or idx != g), f"{ts} {idx} (exact {float(ex):.4f}, g={g})"
    if data["op"] == "chart":
        x = impl.run_chart(data["text"], data.get("want"))
        if x.startswith("E "):
            return True, x
        bad = check_events(common.all_events(gen.parse_dump(x)), data["res"], [tuple(t) for t in data["tempo"]])
        return bad is not None, str(bad)
    return None, "unknown replay op"
