"""C12 — time is a non-decreasing function of tick across the whole chart (strict when a tick lasts ≥ 2 µs)."""
from __future__ import annotations

from datetime import timedelta

from .. import common, driver, gen, impl
from .. import framework as fw
from . import C01

GEN_SECTIONS = []
LEAVES = C01.LEAVES
TRUSTED = C01.TRUSTED
ASSUMPTIONS = ["monotonicity: no envelope; strictness: n·res ≤ 3·10^10 at every tempo and exact time below 10^6 s "
               "(float64 cannot resolve 2 µs beyond ~10^10 s: listed known finding)"]
RULE = ("tempo maps with extreme accelerations/decelerations and sub-µs ticks × ascending tick sweeps across one and several "
        "boundaries (adjacent ticks around every tempo change, random ascending runs), through the real timestamp_at_tick vs "
        "model; whole charts: all events of all tracks sorted by tick; promised: non-decreasing, equal ticks equal times, "
        "end ≥ start, strictly increasing inside the stated envelope; non-trivial = the sweep straddles a tempo change; "
        "distinct by (map, sweep)")
US = timedelta(microseconds=1)


def sweep(rng, res, tempo):
    ticks = set()
    for t, _ in tempo:
        for d in (-2, -1, 0, 1, 2):
            if t + d >= 0:
                ticks.add(t + d)
    last = tempo[-1][0]
    for _ in range(8):
        ticks.add(rng.randint(0, last + 2000))
    s = rng.randint(0, last + 10)
    for k in range(6):
        ticks.add(s + k)
    return sorted(ticks)


def strict_env(res, tempo, tick):
    return all(n * res <= 3 * 10**10 for _, n in tempo) and gen.exact_us(res, tempo, tick)[0] < 10**12


def maps(ctx, out):
    rng = ctx.sub("maps")
    cases = []
    for _ in range(ctx.n(200, 20_000)):
        res, tempo = C01.rand_map(rng, rng.choice([1, 2, 4, 8, 20]))
        if rng.random() < 0.3:  # extreme acceleration / deceleration
            tempo = [(t, rng.choice([1, 7, 10**9, 999_999_999, 120000])) for t, _ in tempo]
        if rng.random() < 0.15 and len(tempo) >= 2:
            # a tempo tick written twice (different values): the library may reject the map (ValueError) — but whatever it
            # accepts must still be monotone
            k = rng.randrange(1, len(tempo))
            tempo = tempo[:k + 1] + [(tempo[k][0], max(1, tempo[k][1] // rng.choice([2, 3])))] + tempo[k + 1:]
        cases.append((res, tempo, sweep(rng, res, tempo)))
    reqs, owner = [], []
    for ci, (res, tempo, ticks) in enumerate(cases):
        m = ",".join(f"{t}:{n}" for t, n in tempo)
        for tk in ticks:
            reqs.append(f"tsat {res} {m} {tk} 0")
            owner.append(ci)
    mod = driver.run_parallel(reqs)
    pos = 0
    for ci, (res, tempo, ticks) in enumerate(cases):
        mvals = mod[pos:pos + len(ticks)]
        pos += len(ticks)
        try:
            be = C01.build_bpm_events(res, tempo)
            if ci % 7 == 3 and len(tempo) >= 2 and len({t for t, _ in tempo}) == len(tempo):
                # the same map grown in the caller's hands: the public container over the caller's own list holding the first event only,
                # one query, then the remaining events appended one by one (each built from its predecessor by the public factory)
                from chartparse.sync import BPMEvent, BPMEvents
                mine = [be.events[0]]
                grown = BPMEvents(events=mine, resolution=be.resolution)
                grown.timestamp_at_tick(ticks[-1])
                grown.timestamp_at_tick_no_optimize_return(0)
                for t_, n_ in tempo[1:]:
                    mine.append(BPMEvent.from_parsed_data(BPMEvent.ParsedData(tick=t_, raw_bpm=str(n_)), mine[-1], be.resolution))
                for tk in ticks:
                    a_, b_ = be.timestamp_at_tick(tk), grown.timestamp_at_tick(tk)
                    if a_ != b_:
                        out.violation("grown-" + fw.h([res, tempo, tk]), f"a tempo map whose event list grew after its first query answers tick {tk} with {b_[0] // US} µs (index {b_[1]}), "
                                      f"the same map built at once with {a_[0] // US} µs (index {a_[1]})", {"op": "sweep", "res": res, "tempo": tempo, "ticks": [tk], "grown": True},
                                      observed=[b_[0] // US, b_[1]], promised=[a_[0] // US, a_[1]])
                        break
                be = grown
            ivals = []
            for tk in ticks:
                ts, idx = be.timestamp_at_tick(tk)
                ts2 = be.timestamp_at_tick_no_optimize_return(tk)
                if ts2 != ts:
                    out.violation("api-" + fw.h([res, tempo, tk]), f"the two public queries disagree for tick {tk}: {ts // US} µs vs {ts2 // US} µs "
                                  "(equal ticks must have identical timestamps)", {"op": "sweep", "res": res, "tempo": tempo, "ticks": [tk], "both": True},
                                  observed=[ts // US, ts2 // US], promised="identical")
                ivals.append(ts // US)
        except ValueError:
            if len({t for t, _ in tempo}) < len(tempo):
                out.case(fw.h(["dup", res, tempo]), False, None, tags=["duplicate-tick-map-rejected"])
                continue
            out.violation("map-" + fw.h([res, tempo]), "well-formed tempo map raised ValueError",
                          {"op": "sweep", "res": res, "tempo": tempo, "ticks": ticks}, observed="E ValueError", promised="times")
            continue
        except Exception as e:  # noqa: BLE001
            out.violation("map-" + fw.h([res, tempo]), f"well-formed tempo map raised {impl.err_name(e)}",
                          {"op": "sweep", "res": res, "tempo": tempo, "ticks": ticks}, observed=impl.err_name(e), promised="times")
            continue
        rp = {"op": "sweep", "res": res, "tempo": tempo, "ticks": ticks}
        out.case(fw.h(rp), len(tempo) > 1, {"res": res, "tempo": tempo[:4], "ticks": ticks[:8], "times": ivals[:8]} if len(tempo) > 1 else None,
                 tags=[f"seg{min(len(tempo), 5)}"])
        out.traces += 1
        mts = [int(m.split(" ")[0]) if not m.startswith(("E", "MAP")) else None for m in mvals]
        if len({t for t, _ in tempo}) < len(tempo):
            mts = ivals  # a map with a repeated tick that the library accepted: the model rejects it; only monotonicity is checked
        if mts != ivals:
            k = next(i for i, (a, b) in enumerate(zip(ivals, mts)) if a != b)
            out.corr_mismatch(f"timestamp_at_tick({ticks[k]}) on res={res} map={tempo[:5]}", rp, impl=ivals[k], model=mvals[k])
        for k in range(1, len(ticks)):
            a, b = ticks[k - 1], ticks[k]
            if ivals[k - 1] > ivals[k]:
                out.violation("mono-" + fw.h([res, tempo, a, b]), f"time decreases: tick {a} ↦ {ivals[k-1]} µs but tick {b} ↦ {ivals[k]} µs",
                              {"op": "sweep", "res": res, "tempo": tempo, "ticks": [a, b]}, observed=[ivals[k - 1], ivals[k]], promised="non-decreasing")
                break
            if a < b and ivals[k - 1] == ivals[k] and strict_env(res, tempo, b):
                out.violation("strict-" + fw.h([res, tempo, a, b]), f"ticks {a} < {b} have the same time {ivals[k]} µs although every tick lasts ≥ 2 µs",
                              {"op": "sweep", "res": res, "tempo": tempo, "ticks": [a, b], "strict": True}, observed=[ivals[k - 1], ivals[k]], promised="strictly increasing")
                break


def edges(ctx, out):
    """(a) ticks before the map: whatever a public query answers for a negative tick must not lie after time zero (a refusal is
    fine); (b) the far future: very slow first tempi push absolute times beyond what a double holds to the microsecond — the stored
    time of every tempo event still equals both public queries at its own tick, and the ticks around it stay ordered"""
    rng = ctx.sub("edges")
    # always: maps whose first tempo line is not at tick 0, followed by others (refused is fine; accepted must be ordered and consistent)
    fixed = [(192, [(5, 120000), (100, 60000)]), (192, [(1, 120000), (2, 90000), (400, 150000)]), (480, [(480, 120000), (960, 60000)]),
             (100, [(7, 60000), (57, 120000), (58, 30000)]), (192, [(191, 200000), (192, 100000)]), (3, [(2, 120000), (9, 7)]),
             # tempi whose ticks per minute are not a whole number, held for minutes before the next change
             (192, [(0, 120002), (76800, 90000)]), (192, [(0, 120001), (230400, 60000), (230401, 60001)]), (480, [(0, 100003), (500000, 50000)]),
             (7, [(0, 33333), (40000, 33334), (80000, 1)]), (192, [(0, 117000), (96, 117000), (105, 117000)]),
             # tempo lines out of tick order (refused is fine; accepted must be ordered and consistent)
             (192, [(0, 120000), (768, 60000), (384, 30000)]), (192, [(0, 120000), (500, 90000), (499, 200000), (1000, 60000)]),
             (480, [(0, 100000), (960, 50000), (480, 200000), (1440, 100000)])]
    for k in range(ctx.n(60, 6000) + len(fixed)):
        if k < len(fixed):
            res, tempo = fixed[k]
        else:
            res, tempo = C01.rand_map(rng, rng.choice([1, 2, 4]))
        if k >= len(fixed) and rng.random() < 0.6:
            # far future: 0.001–0.01 BPM for 10^8–10^10 ticks, then ordinary and very fast tempi
            n0 = rng.choice([1, 2, 7, 10])
            t1 = min(rng.randint(10**8, 10**10), 4 * 10**13 * n0 * res // 60000)  # stay inside timedelta's range (10^9 days)
            tempo = [(0, n0)] + [(t1 + k * rng.randint(1, 2000), n) for k, n in
                                                         enumerate([120000, rng.choice([156250000, 90000, 999999999]), rng.randint(1, 10**6)][: rng.randint(1, 3)])]
            tempo = sorted({t: n for t, n in tempo}.items())
        if k >= len(fixed) and rng.random() < 0.15 and len(tempo) >= 2 and tempo[-1][0] < 10**8:
            # a map whose first tempo is not at tick 0 may be refused; if it is accepted, time still follows ticks
            shift = rng.randint(1, max(1, tempo[1][0] - 1)) if tempo[1][0] > 1 else 1
            tempo = [(shift, tempo[0][1])] + [(t + shift if t + shift > shift else t + shift + 1, n) for t, n in tempo[1:]]
        try:
            be = C01.build_bpm_events(res, tempo)
        except (ValueError, OverflowError):
            continue
        rp = {"op": "edges", "res": res, "tempo": tempo}
        out.case("E" + fw.h(rp), True, None, tags=["edges-far" if tempo[-1][0] >= 10**8 else "edges-negative"])
        bad = None
        for tk in (-1, -8, -rng.randint(2, 10**4)):
            for f in (be.timestamp_at_tick_no_optimize_return, lambda t: be.timestamp_at_tick(t)[0]):
                try:
                    ts = f(tk)
                    if ts > timedelta(0):
                        bad = f"tick {tk} (before tick 0) is answered with {ts // US} µs, after the time of tick 0"
                except ValueError:
                    pass
        for ev in list(be.events)[1:]:
            near = [ev.tick - 1, ev.tick, ev.tick + 1]
            vals = []
            for tk in near:
                try:
                    a_, b_ = be.timestamp_at_tick(tk)[0], be.timestamp_at_tick_no_optimize_return(tk)
                except Exception as ex:  # noqa: BLE001  (a tick inside an accepted map has a time)
                    bad = bad or f"no time for tick {tk} of an accepted map: the query raised {type(ex).__name__}"
                    vals = None
                    break
                if a_ != b_:
                    bad = bad or f"the two public queries disagree for tick {tk}: {a_ // US} vs {b_ // US} µs"
                vals.append(a_)
            if vals is None:
                break
            if vals[1] != ev.timestamp:
                bad = bad or (f"tempo event at tick {ev.tick} is stored at {ev.timestamp // US} µs but a query for that very tick gives {vals[1] // US} µs "
                              "(equal ticks must have identical timestamps)")
            if not (vals[0] <= vals[1] <= vals[2]):
                bad = bad or f"time decreases around tick {ev.tick}: {[v // US for v in vals]}"
        if bad:
            out.violation("edges-" + fw.h(rp), bad, rp, observed=bad, promised="ordered like ticks; equal ticks equal times")


def charts(ctx, out):
    rng = ctx.sub("charts")
    prof = gen.Profile(max_tempo=8, garbage=0.0, unknown_sections=0.0, meta_fields=0.0)
    cases = []
    for k in range(ctx.n(120, 12_000)):
        src = gen.rand_src(rng, gen.Profile(max_tempo=16, garbage=0.0, unknown_sections=0.0, meta_fields=0.0) if k % 4 == 0 else prof)
        cases.append((src, gen.render(src, rng, prof)))
    from . import inst_common as ic
    cases += ic.far_cases(rng, ic.prof(garbage=0.0, exotic_pad=0.0, exotic_digits=0.0))  # notes and phrases beyond 2^32 and 2^53: ends after starts there too
    a, b = common.run_charts([(R.text, None) for _, R in cases])
    direct_vs_events(ctx, out, cases)
    for (src, R), x, y in zip(cases, a, b):
        dx, dy = gen.parse_dump(x), gen.parse_dump(y)
        rp = common.chart_replay(R.text)
        out.case("C" + fw.h(R.text), len(src.tempo) > 1 and len(src.tracks) > 0, None, tags=["chart"])
        out.traces += 1
        if dx["err"] is not None:
            out.violation("chart-" + fw.h(R.text), f"well-formed chart raised {dx['err']}", rp, observed=dx["err"], promised="parses")
            continue
        ex_ = common.all_events(dx)
        if dy["err"] is not None or ex_ != common.all_events(dy):
            out.corr_mismatch("timestamps of a chart", rp, impl=str(ex_)[:300], model=(dy["err"] or str(common.all_events(dy)))[:300])
        bad = check_order(dx)
        if bad:
            out.violation("chart-" + fw.h(R.text), bad, rp, observed=bad, promised="timestamps ordered like ticks across all tracks")


def direct_vs_events(ctx, out, cases):
    """a tick queried directly and the same tick taken from an event of any track must have the identical timestamp"""
    for src, R in cases[: ctx.n(60, 3000)]:
        c, e, _ = impl.parse(R.text)
        if c is None:
            continue
        be = c.sync_track.bpm_events
        d = gen.parse_dump(impl.dump_chart(c, []))
        for kind, tick, ts, idx in common.all_events(d):
            try:
                q = be.timestamp_at_tick_no_optimize_return(tick) // US
            except Exception as ex:  # noqa: BLE001
                q = impl.err_name(ex)
            if q != ts:
                out.violation("direct-" + fw.h([R.text, tick]), f"{kind} event at tick {tick} is at {ts} µs but the direct query for that tick gives {q}",
                              {**common.chart_replay(R.text), "direct": True}, observed=[ts, q], promised="identical")
                break


def end_pairs(dx):
    """(end tick, end time) of every note: the tick where its longest written length ends, and the time stored for that end"""
    out = []
    for key, tr in dx["tracks"].items():
        for n in tr["notes"]:
            sus = str(n.get("sus", ""))
            if sus.startswith("S") and sus[1:].isdigit():
                out.append((n["tick"] + int(sus[1:]), n["end"], "note end"))
            elif sus.startswith("T"):
                vals = [int(v) for v in sus[1:].split(":") if v.isdigit()]
                if vals:
                    out.append((n["tick"] + max(vals), n["end"], "note end"))
    return out


def check_order(dx):
    ev = sorted([(tick, ts, kind) for kind, tick, ts, idx in common.all_events(dx)] + end_pairs(dx))
    for (t1, s1, k1), (t2, s2, k2) in zip(ev, ev[1:]):
        if t1 == t2 and s1 != s2:
            return f"equal ticks, different times: {k1}@{t1}={s1} µs vs {k2}@{t2}={s2} µs"
        if t1 < t2 and s1 > s2:
            return f"time decreases across events: {k1}@{t1}={s1} µs, {k2}@{t2}={s2} µs"
    for key, tr in dx["tracks"].items():
        for n in tr["notes"]:
            if n["end"] < n["ts"]:
                return f"note at tick {n['tick']} ends ({n['end']}) before it starts ({n['ts']})"
    return None


def slice(ctx: fw.Ctx) -> fw.Outcome:
    out = fw.Outcome(RULE)
    maps(ctx, out)
    edges(ctx, out)
    charts(ctx, out)
    return out


def replay(ctx: fw.Ctx, data: dict):
    if data["op"] == "edges":
        be = C01.build_bpm_events(data["res"], [tuple(x) for x in data["tempo"]])
        for tk in (-1, -8, -100):
            try:
                if be.timestamp_at_tick_no_optimize_return(tk) > timedelta(0):
                    return True, f"tick {tk} answered after time zero"
            except ValueError:
                pass
        for ev in list(be.events)[1:]:
            v = [be.timestamp_at_tick(t)[0] for t in (ev.tick - 1, ev.tick, ev.tick + 1)]
            if v[1] != ev.timestamp or v[1] != be.timestamp_at_tick_no_optimize_return(ev.tick) or not (v[0] <= v[1] <= v[2]):
                return True, f"around tick {ev.tick}: {[x // US for x in v]}, stored {ev.timestamp // US}"
        return False, "ordered"
    if data["op"] == "sweep":
        res, tempo, ticks = data["res"], [tuple(x) for x in data["tempo"]], data["ticks"]
        be = C01.build_bpm_events(res, tempo)
        vals = [be.timestamp_at_tick(t)[0] // US for t in ticks]
        if data.get("both"):
            v2 = [be.timestamp_at_tick_no_optimize_return(t) // US for t in ticks]
            return vals != v2, f"{vals} vs {v2} (replay in isolation: a history-dependent disagreement needs the slice)"
        dec = any(a > b for a, b in zip(vals, vals[1:]))
        eq = data.get("strict") and any(a == b for a, b in zip(vals, vals[1:]))
        return bool(dec or eq), str(vals)
    if data["op"] == "chart" and data.get("direct"):
        o = fw.Outcome("")
        class _R:  # noqa: N801
            text = data["text"]
        direct_vs_events(fw.Ctx("C12", "quick", 0), o, [(None, _R)])
        return bool(o.violations), str(o.violations[:1])[:300]
    if data["op"] == "chart":
        x = impl.run_chart(data["text"])
        if x.startswith("E "):
            return True, x
        bad = check_order(gen.parse_dump(x))
        return bad is not None, str(bad)
    return None, "unknown replay op"
