"""C04 — strum / HOPO / tap state follows the natural-HOPO rule and flags."""
from __future__ import annotations

import itertools

from .. import common, driver, gen, impl
from .. import framework as fw
from . import inst_common as ic

GEN_SECTIONS = ["Tables", "Regexes", "Unicode"]
# arithmetic leaf functions whose ASTs are dumped from /repo and proved equal to the hand model (lean/Chartparse/Tie/<X>.lean)
LEAVES = {'NoteDur': 'notedur', 'Hopo': 'hopo', 'ComposeInst': []}
TRUSTED = [
    "leaf ties: Py.evalBody (embedded Python subset, validated against CPython on random expressions and against the real leaf functions every run) + the AST dump",
    "Lean 4 kernel; axioms ⊆ {propext, Classical.choice, Quot.sound}",
    "hand model of _compute_hopo_state and of round(resolution / 3) in binary64; generated EIGHTH_TRIPLET value and Note table",
    "tied by differential execution of the real _compute_hopo_state and of whole charts",
]
ASSUMPTIONS = ["1 ≤ resolution < 2^50 (beyond ~2^52 the float quotient is too coarse: listed known finding at 2^53)",
               "a forced first note raises ValueError by design (C04_first), it is not a state"]
RULE = ("resolutions {1..400 exhaustively in thorough; 96, 100, 192, 480, 960, odd primes, random < 10^6} × distances "
        "{threshold−1, threshold, threshold+1, random} × ordered pairs of the 32 lane combinations (all 1024 in thorough, a "
        "seeded 1/8 sample in quick) × 4 flag pairs, through the real NoteEvent._compute_hopo_state vs model vs the rule as "
        "stated; plus whole charts at first / second / later positions; non-trivial = a non-first note; distinct by "
        "(resolution, distance, pair, flags)")


def rule(res, dist, lanes, tap, forced, prev_lanes):
    if tap:
        return 2
    if prev_lanes is None:
        return 0
    chord = lanes.count("1") > 1
    natural = (not chord) and lanes != prev_lanes and dist <= gen.threshold(res)
    return (0 if natural else 1) if forced else (1 if natural else 0)


LANESETS = ["".join("1" if m >> l & 1 else "0" for l in range(5)) for m in range(32)]


_prev_cache = {}


def prev_event(note, tick=1000):
    """a real predecessor (a NoteEvent as the track builder makes them, taken from a parsed one-note section): whatever attribute of
    it the function reads is there"""
    key = (note, tick)
    if key not in _prev_cache:
        from chartparse.instrument import Difficulty, Instrument, InstrumentTrack
        from . import C01
        be = C01.build_bpm_events(192, [(0, 120000)])
        lanes = [l for l, b in enumerate(note.value) if b] if isinstance(note.value, tuple) and any(note.value) else [7]
        tr = InstrumentTrack.from_chart_lines(Instrument.GUITAR, Difficulty.EXPERT, [f"  {tick} = N {l} 0" for l in lanes], be)
        _prev_cache[key] = tr.note_events[0]
    return _prev_cache[key]


def direct(ctx, out):
    from types import SimpleNamespace

    from chartparse.instrument import HOPOState, Note, NoteEvent

    rng = ctx.sub("direct")
    note_of = {ls: Note(tuple(int(c) for c in ls)) for ls in LANESETS}
    if ctx.tier == "thorough":
        ress = list(range(1, 401)) + [480, 960, 997, 1009, 10007] + [rng.randint(401, 10**6) for _ in range(40)] + [2**49 + 1, 2**50 - 1]
        pair_frac = 1.0
    else:
        ress = [1, 2, 3, 4, 5, 7, 96, 100, 192, 480, 960, 997] + [rng.randint(1, 10**6) for _ in range(4)] + [2**50 - 1]
        pair_frac = 0.125
    reqs, meta = [], []
    try:
        # the function is private: if it no longer answers a plain, certainly-valid call in this form, this family has nothing to
        # say (the whole-chart family below asks the same questions through the public parser)
        NoteEvent._compute_hopo_state(192, 1200, note_of[LANESETS[1]], False, False, prev_event(note_of[LANESETS[2]]))
    except (TypeError, AttributeError) as ex:
        out.notes.append(f"direct family skipped: NoteEvent._compute_hopo_state is not callable as (resolution, tick, note, is_tap, is_forced, previous): {ex}")
        ctx.intensify = True
        return
    for res in ress:
        thr = gen.threshold(res)
        # also a note written *before* its predecessor in tick order (distance ≤ 0 ≤ threshold: "at most a triplet after" holds)
        # … and long rests: many bars, and distances at the magnitudes where fixed-width or "sane maximum" arithmetic changes
        far = {32 * res, 32 * res + 1, rng.choice([33, 64, 1000]) * res} | set(gen.ladder(rng, lo=thr + 2, k=2))
        for dist in sorted({max(1, thr - 1), max(1, thr), thr + 1, rng.randint(1, 3 * res + 3), 0, -1, -min(thr + 1, 999), -rng.randint(1, 900)} | far):
            for pl, cl in itertools.product(LANESETS, LANESETS):
                if pair_frac < 1 and rng.random() > pair_frac:
                    continue
                for tap, forced in ((0, 0), (0, 1), (1, 0), (1, 1)):
                    prev = prev_event(note_of[pl])
                    try:
                        i = NoteEvent._compute_hopo_state(res, 1000 + dist, note_of[cl], bool(tap), bool(forced), prev).value
                    except Exception as e:  # noqa: BLE001
                        i = impl.err_name(e)
                    meta.append((res, dist, pl, cl, tap, forced, i))
                    reqs.append(f"hopo {res} {1000 + dist} {cl} {tap} {forced} 1000 {pl}")
        # first note
        for cl in LANESETS[:8]:
            for tap, forced in ((0, 0), (1, 0), (0, 1), (1, 1)):
                try:
                    i = NoteEvent._compute_hopo_state(res, 5, note_of[cl], bool(tap), bool(forced), None).value
                except ValueError:
                    i = "E ValueError"
                meta.append((res, None, None, cl, tap, forced, i))
                reqs.append(f"hopo {res} 5 {cl} {tap} {forced} ~ -")
    mod = driver.run_parallel(reqs)
    for (res, dist, pl, cl, tap, forced, i), m in zip(meta, mod):
        rp = {"op": "hopo", "res": res, "dist": dist, "prev": pl, "cur": cl, "tap": tap, "forced": forced}
        out.case(fw.h(rp), pl is not None, rp if (out.evaluations % 5000 == 17) else None,
                 tags=["first" if pl is None else ("at-thr" if dist == gen.threshold(res) else "other")])
        out.traces += 1
        if str(i) != m:
            out.corr_mismatch(f"_compute_hopo_state res={res} dist={dist} {pl}->{cl} tap={tap} forced={forced}", rp, impl=i, model=m)
        if pl is None and forced:
            want = "E ValueError"
        else:
            want = rule(res, dist, cl, tap, forced, pl)
        if i != want:
            out.violation("hopo-" + fw.h(rp), f"resolution {res}, distance {dist} (threshold {gen.threshold(res)}), {pl}->{cl}, tap={tap}, "
                          f"forced={forced}: state {i}, rule says {want}", rp, observed=i, promised=want)
    out.exhaustive = ctx.tier == "thorough"


def charts(ctx, out):
    rng = ctx.sub("charts")
    cases = []
    for _ in range(ctx.n(120, 12_000)):
        p = ic.prof(flags=0.5, garbage=0.0, resolutions=(192, 100, 96, 480, 7, 1, 3, 1000, 125, 50))
        src = gen.rand_src(rng, p)
        cases.append((src, gen.render(src, rng, p)))
    cases += ic.revisit_cases(rng, ic.prof(garbage=0.0, flags=0.0), ctx.n(12, 1200))
    ic.run(ctx, out, cases, lambda notes: [(n["tick"], n["hopo"]) for n in notes],
           lambda tl: [(t["tick"], t["hopo"]) for t in tl], "HOPO states",
           lambda src: any(len(tr.groups) > 1 for tr in src.tracks))


def slice(ctx: fw.Ctx) -> fw.Outcome:
    out = fw.Outcome(RULE)
    direct(ctx, out)
    charts(ctx, out)
    from .. import direct as _direct
    _direct.run(ctx, out, 'instrument', ic.prof(flags=0.5, garbage=0.0, exotic_pad=0.25))  # the section's own public parser, given the lines between the braces (padding and all), builds the same track
    return out


def replay(ctx, data):
    if data.get("op") == "direct-section":
        from .. import direct as _direct
        return _direct.replay(data)
    if data["op"] == "hopo":
        from types import SimpleNamespace

        from chartparse.instrument import Note, NoteEvent

        mk = lambda ls: Note(tuple(int(c) for c in ls))
        prev = None if data["prev"] is None else prev_event(mk(data["prev"]), data.get("prev_tick", 1000))
        base = data.get("prev_tick", 1000) if data["prev"] is not None else 5
        try:
            i = NoteEvent._compute_hopo_state(data["res"], base + (data["dist"] or 0), mk(data["cur"]), bool(data["tap"]), bool(data["forced"]), prev).value
        except ValueError:
            i = "E ValueError"
        want = "E ValueError" if (data["prev"] is None and data["forced"]) else rule(data["res"], data["dist"], data["cur"], data["tap"], data["forced"], data["prev"])
        return i != want, i
    return ic.replay_chart(data, lambda notes: [[n["tick"], n["hopo"]] for n in notes])
