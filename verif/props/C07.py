"""C07 — instrument-section lines are recognised and decoded exactly."""
from __future__ import annotations

from .. import driver, gen, impl
from .. import framework as fw
from . import line_common as lc

GEN_SECTIONS = ["Unicode", "Regexes", "Tables"]
TRUSTED = [
    "Lean 4 kernel; axioms ⊆ {propext, Classical.choice, Quot.sound}",
    "translator: sre parse trees of the shipped N / S / E patterns -> Re terms (normal forms compared with templates by "
    "`decide`); Python's own \\d / \\s tables and int() digit values for all 0x110000 code points",
    "hand-written backtracking engine (Python priority order) for the sre subset; tied by differential execution against "
    "re.match().groups() and the real from_chart_line",
]
ASSUMPTIONS = ["words of E lines contain no whitespace (the recogniser's value class is `[^ ]`, tabs etc. end the word)"]
RULE = ("canonical N / S / E lines (digit strings of 1–30 digits incl. leading zeros and non-ASCII scripts, all paddings) with "
        "their promised values; canonical lines of the other kinds and one-token near-misses with promised rejection where "
        "the statement names them (S 64, N 8, E two words); random strings over the recogniser alphabet and single-character "
        "mutations (correspondence only); all 0x110000 code points for the class tables in thorough; non-trivial = accepted "
        "or a one-token near-miss; distinct by (kind, line)")


def classes_table(ctx, out):
    """Python's \\s, \\d, int() and splitlines per code point vs the regenerated tables the model uses"""
    import re

    sp, dg = re.compile(r"\s"), re.compile(r"\d")
    pts = range(0x110000) if ctx.tier == "thorough" else list(range(0, 0x3100)) + list(range(0xFF00, 0xFF80)) + list(range(0x1D7C0, 0x1D800)) + list(range(0x1E940, 0x1E960))
    reqs = [f"cls {c}" for c in pts]
    mod = driver.run_parallel(reqs)
    for c, m in zip(pts, mod):
        ch = chr(c)
        isd = dg.match(ch) is not None
        i = f"{str(sp.match(ch) is not None).lower()} {str(isd).lower()} {int(ch) if isd else 0} {str(len(('a' + ch + 'b').splitlines()) == 2).lower()}"
        out.evaluations += 1
        out.traces += 1
        if i != m:
            out.corr_mismatch(f"character class of U+{c:04X}", {"op": "cls", "c": c}, impl=i, model=m)
    out.dist["code-points"] += len(reqs)


def slice(ctx: fw.Ctx) -> fw.Outcome:
    out = fw.Outcome(RULE)
    rng = ctx.sub("c07")
    prof = gen.Profile(exotic_pad=0.4, exotic_digits=0.3)
    cases = []
    for _ in range(ctx.n(1200, 150_000)):
        kind = rng.choice(["note", "sp", "te"])
        t = rng.choice([0, rng.randint(0, 3000), rng.randint(0, 10**9), rng.randint(0, 10**30)])
        ts = gen.num(rng, prof, t)
        p, q = gen.pad(rng, prof), gen.pad(rng, prof, "")
        if kind == "note":
            idx = rng.randint(0, 7)
            ln = rng.choice([0, rng.randint(0, 2000), rng.randint(0, 10**20)])
            line = f"{p}{ts} = N {idx} {gen.num(rng, prof, ln)}{q}"
            truth = f"note {t} {idx} {ln}"
        elif kind == "sp":
            ln = rng.choice([0, rng.randint(0, 2000), rng.randint(0, 10**20)])
            line = f"{p}{ts} = S 2 {gen.num(rng, prof, ln)}{q}"
            truth = f"sp {t} {ln}"
        else:
            w = rng.choice(gen.WORDS + ["", "solo", "a=b", "[x]", "N", "\"x y\"".replace(" ", "_")])
            w = "".join(c for c in w if not c.isspace())
            line = f"{p}{ts} = E {w}{q}"
            truth = f"te {t} {impl.cps(w)}"
        cases.append((kind, line, truth, True, "canonical"))
        # the same line must not be claimed by the other two kinds
        for other in ("note", "sp", "te"):
            if other != kind and rng.random() < 0.3:
                cases.append((other, line, "none", True, "cross-kind"))
        if rng.random() < 0.3:
            cases.append((kind, lc.mutate(rng, line), None, True, "mutation"))
    # shapes the statement names
    for t in (0, 17, 4096):
        for line in (f"  {t} = S 64 10", f"  {t} = S 0 10", f"  {t} = S 1 10", f"  {t} = N 8 0", f"  {t} = N 9 0", f"  {t} = N 10 0",
                     f"  {t} = E two words", f"  {t} = N 0", f"  = N 0 0", f"  {t} N 0 0", f"  {t} = N 0 0 0", f"  {t} = S 2", f"  {t} = E",
                     f"  {t} = B 120000", f"  {t} = TS 4", f"  {t} = A 5", f"  {t} = E \"lyric la\" x", f"x {t} = N 0 0", f"  {t} = N ７ 0",
                     f"  -{t} = N 0 0", f"  {t}.0 = N 0 0", f"  {t} = N 0 -1"):
            for kind in ("note", "sp", "te"):
                cases.append((kind, line, "none", True, "named-rejection"))
    for _ in range(ctx.n(600, 60_000)):
        cases.append((rng.choice(["note", "sp", "te"]), lc.random_string(rng), None, False, "random"))
    lc.run(ctx, out, cases)
    classes_table(ctx, out)
    sections(ctx, out)
    from .. import direct
    direct.run(ctx, out, 'instrument', gen.Profile(max_tracks=2, max_events=0, unknown_sections=0.0, meta_fields=0.0, exotic_pad=0.2, exotic_digits=0.1))  # every way of handing the section's lines over decodes the same
    return out


def sections(ctx, out):
    """whole instrument sections mixing canonical lines with near-twins that differ only in blanks / one token: the parsed
    track must hold exactly what the independent reading of the format accepts, line by line, whatever was parsed before"""
    from .. import common
    rng = ctx.sub("sections")
    prof = gen.Profile(exotic_pad=0.2, exotic_digits=0.1)
    cases = []
    for _ in range(ctx.n(120, 12_000)):
        body, t = [], 0
        long = rng.random() < 0.2  # long sections where lines of other shapes outnumber the canonical ones
        for _ in range(rng.randint(40, 90) if long else rng.randint(2, 14)):
            t += rng.randint(1, 200)
            if long and rng.random() < 0.6:
                body.append(rng.choice([f"  {t} = S 64 5", f"  {t} = N 8 0", f"  {t} = E two words", f"  {t} = S 0 1", f"  {t} = E [mix 0 drums0]",
                                        f"  {t} = N 9 10", f"  {t} = S 2", f"  {t} = B 120000"]))
            if rng.random() < 0.08:
                # a line shaped like a section header, inside the braces, is one more line of no documented shape
                body.append(rng.choice(["[solo]", "[EasySingle]", "[Events]", "[ExpertSingle]", "[x]"]))
            kind = rng.choice(["note", "sp", "te"])
            if kind == "note":
                line = f"  {t} = N {rng.randint(0, 7)} {rng.choice([0, rng.randint(1, 500)])}"
            elif kind == "sp":
                line = f"  {t} = S 2 {rng.randint(0, 500)}"
            else:
                line = f"  {t} = E {rng.choice(['solo', 'a\tb', 'x=y', 'soloend'] + [w for w in gen.WORDS if ' ' not in w] + ['', ''])}"
            twin = rng.choice([line.replace(" N ", " N  ", 1), line.replace(" S 2 ", " S 2  ", 1), line.replace("\t", " "), line.replace(" = ", "  = ", 1),
                               line.replace(" = ", " =  ", 1), line.replace(" N ", " N 0", 1), line + " x", lc.mutate(rng, line)])
            pair = [line, twin] if rng.random() < 0.5 else [twin, line]
            body += pair if rng.random() < 0.7 else [line]
        body = [b for b in body if b not in ("{", "}") and not any(ch in b for ch in "\n\r\x0b\x0c\x1c\x1d\x1e\x85\u2028\u2029")]
        text = "\n".join(["[Song]", "{", "  Resolution = 192", "}", "[SyncTrack]", "{", "  0 = TS 4", "  0 = B 120000", "}", "[Events]", "{", "}",
                          "[ExpertSingle]", "{"] + body + ["}"]) + "\n"
        cases.append((text, body))
    from .. import impl as _impl
    nsib = ctx.n(30, 600)
    with _impl.all_siblings():   # the first texts each after every damaged sibling of theirs (a failed parse leaves nothing behind)
        a0 = [_impl.run_chart(t, None) for t, _ in cases[:nsib]]
    a, b = common.run_charts([(t, None) for t, _ in cases[nsib:]])
    a = a0 + a
    b = common.driver.run_parallel([f"chart {common.driver.cps(t)} ~" for t, _ in cases[:nsib]]) + b
    for k_, ((text, body), x, y) in enumerate(zip(cases, a, b)):
        specs = [(lc.spec("note", l), lc.spec("sp", l), lc.spec("te", l)) for l in body]
        notes = [s[0] for s in specs if s[0] != "none"]
        sps = [s[1] for s in specs if s[0] == "none" and s[1] != "none"]
        tes = [s[2] for s in specs if s[0] == "none" and s[1] == "none" and s[2] != "none"]
        warn = sum(1 for s in specs if s == ("none", "none", "none"))
        rp = {**common.chart_replay(text), "section": True, "siblings": k_ < nsib}
        out.case("S" + fw.h(text), True, None, tags=["section-with-twins"])
        out.traces += 1
        if common.framing_proj(x) != common.framing_proj(y):
            p_, q_ = fw.first_diff(x, y)
            out.corr_mismatch("instrument section with near-twin lines", rp, impl=p_, model=q_)
        # promise (ticks only for notes: grouping/ordering belongs to C02/C11): every accepted line contributes, no other does
        want_ticks = sorted(int(n.split(" ")[1]) for n in notes)
        d = gen.parse_dump(x)
        if d["err"] is not None:
            # the one documented refusal such a section can earn (single tempo, small ticks): a forced flag on its first note — decided
            # from the lines: the first run of accepted N lines with one tick holds index 5
            first = []
            for n_ in notes:
                if first and n_.split(" ")[1] != first[0].split(" ")[1]:
                    break
                first.append(n_)
            forced_first = any(n_.split(" ")[2] == "5" for n_ in first)
            if not (d["err"] == "E ValueError" and forced_first) and max([int(n_.split(" ")[1]) for n_ in notes] + [0]) < 10**9:
                out.violation("section-" + fw.h(text), f"instrument section whose first note carries no forced flag was refused ({d['err']}): its own lines give no reason",
                              {**rp, "sps": sps, "tes": tes, "ticks": sorted(set(want_ticks)), "warn": warn}, observed=d["err"], promised="parses")
            continue
        tr = d["tracks"].get((0, 3), {"notes": [], "sps": [], "tes": []})
        got_sp = [f"sp {t} {ln}" for t, ln, *_ in tr["sps"]]
        got_te = [f"te {t} {v}" for t, _, _, v in tr["tes"]]
        got_ticks = sorted({n["tick"] for n in tr["notes"]})
        if got_sp != sps or got_te != tes or got_ticks != sorted(set(want_ticks)) or d["unparsable"] != warn:
            out.violation("section-" + fw.h(text), f"instrument section with near-twin lines: star power {got_sp[:4]} vs {sps[:4]}, track events {got_te[:4]} vs {tes[:4]}, "
                          f"note ticks {got_ticks[:6]} vs {sorted(set(want_ticks))[:6]}, warnings {d['unparsable']} vs {warn}",
                          {**rp, "sps": sps, "tes": tes, "ticks": sorted(set(want_ticks)), "warn": warn}, observed=[got_sp, got_te, got_ticks, d["unparsable"]][:3],
                          promised=[sps, tes, sorted(set(want_ticks)), warn][:3])


def replay(ctx, data):
    if data.get("op") == "direct-section":
        from .. import direct
        return direct.replay(data)
    if data["op"] == "line":
        return lc.replay(data)
    if data["op"] == "chart" and data.get("section"):
        if data.get("siblings"):
            with impl.all_siblings():
                x = impl.run_chart(data["text"])
        else:
            x = impl.run_chart(data["text"])
        d = gen.parse_dump(x)
        if d["err"] is not None:
            return True, x   # every stored section was promised to parse
        tr = d["tracks"].get((0, 3), {"notes": [], "sps": [], "tes": []})
        got = ([f"sp {t} {ln}" for t, ln, *_ in tr["sps"]], [f"te {t} {v}" for t, _, _, v in tr["tes"]], sorted({n["tick"] for n in tr["notes"]}), d["unparsable"])
        return got != (data["sps"], data["tes"], data["ticks"], data["warn"]), str(got)[:300]
    return None, "unknown replay op"
