"""C07 — instrument-section lines are recognised and decoded exactly."""
from __future__ import annotations

from .. import driver, gen, impl
from .. import framework as fw
from . import line_common as lc

GEN_SECTIONS = ["Unicode", "Regexes", "Tables"]
TRUSTED = [
    "Lean 4 kernel; axioms ⊆ {propext, Classical.choice, Quot.sound}",
    "translator: sre parse trees of the shipped N / S / E patterns -> Re terms (normal forms compared with templates by "
    "`decide`); Python's own \\d / \\s tables and int() digit values for all 0x110000 code points",
    "hand-written backtracking engine (Python priority order) for the sre subset; tied by differential execution against "
    "re.match().groups() and the real from_chart_line",
]
ASSUMPTIONS = ["words of E lines contain no whitespace (the recogniser's value class is `[^ ]`, tabs etc. end the word)"]
RULE = ("canonical N / S / E lines (digit strings of 1–30 digits incl. leading zeros and non-ASCII scripts, all paddings) with "
        "their promised values; canonical lines of the other kinds and one-token near-misses with promised rejection where "
        "the statement names them (S 64, N 8, E two words); random strings over the recogniser alphabet and single-character "
        "mutations (correspondence only); all 0x110000 code points for the class tables in thorough; non-trivial = accepted "
        "or a one-token near-miss; distinct by (kind, line)")


def classes_table(ctx, out):
    """Python's \\s, \\d, int() and splitlines per code point vs the regenerated tables the model uses"""
    import re

    sp, dg = re.compile(r"\s"), re.compile(r"\d")
    pts = range(0x110000) if ctx.tier == "thorough" else list(range(0, 0x3100)) + list(range(0xFF00, 0xFF80)) + list(range(0x1D7C0, 0x1D800)) + list(range(0x1E940, 0x1E960))
    reqs = [f"cls {c}" for c in pts]
    mod = driver.run_parallel(reqs)
    for c, m in zip(pts, mod):
        ch = chr(c)
        isd = dg.match(ch) is not None
        i = f"{str(sp.match(ch) is not None).lower()} {str(isd).lower()} {int(ch) if isd else 0} {str(len(('a' + ch + 'b').splitlines()) == 2).lower()}"
        out.evaluations += 1
        out.traces += 1
        if i != m:
            out.corr_mismatch(f"character class of U+{c:04X}", {"op": "cls", "c": c}, impl=i, model=m)
    out.dist["code-points"] += len(reqs)


def slice(ctx: fw.Ctx) -> fw.Outcome:
    out = fw.Outcome(RULE)
    rng = ctx.sub("c07")
    prof = gen.Profile(exotic_pad=0.4, exotic_digits=0.3)
    cases = []
    for _ in range(ctx.n(1200, 150_000)):
        kind = rng.choice(["note", "sp", "te"])
        t = rng.choice([0, rng.randint(0, 3000), rng.randint(0, 10**9), rng.randint(0, 10**30)])
        ts = gen.num(rng, prof, t)
        p, q = gen.pad(rng, prof), gen.pad(rng, prof, "")
        if kind == "note":
            idx = rng.randint(0, 7)
            ln = rng.choice([0, rng.randint(0, 2000), rng.randint(0, 10**20)])
            line = f"{p}{ts} = N {idx} {gen.num(rng, prof, ln)}{q}"
            truth = f"note {t} {idx} {ln}"
        elif kind == "sp":
            ln = rng.choice([0, rng.randint(0, 2000), rng.randint(0, 10**20)])
            line = f"{p}{ts} = S 2 {gen.num(rng, prof, ln)}{q}"
            truth = f"sp {t} {ln}"
        else:
            w = rng.choice(gen.WORDS + ["", "solo", "a=b", "[x]", "N", "\"x y\"".replace(" ", "_")])
            w = "".join(c for c in w if not c.isspace())
            line = f"{p}{ts} = E {w}{q}"
            truth = f"te {t} {impl.cps(w)}"
        cases.append((kind, line, truth, True, "canonical"))
        # the same line must not be claimed by the other two kinds
        for other in ("note", "sp", "te"):
            if other != kind and rng.random() < 0.3:
                cases.append((other, line, "none", True, "cross-kind"))
        if rng.random() < 0.3:
            cases.append((kind, lc.mutate(rng, line), None, True, "mutation"))
    # shapes the statement names
    for t in (0, 17, 4096):
        for line in (f"  {t} = S 64 10", f"  {t} = S 0 10", f"  {t} = S 1 10", f"  {t} = N 8 0", f"  {t} = N 9 0", f"  {t} = N 10 0",
                     f"  {t} = E two words", f"  {t} = N 0", f"  = N 0 0", f"  {t} N 0 0", f"  {t} = N 0 0 0", f"  {t} = S 2", f"  {t} = E",
                     f"  {t} = B 120000", f"  {t} = TS 4", f"  {t} = A 5", f"  {t} = E \"lyric la\" x", f"x {t} = N 0 0", f"  {t} = N ７ 0",
                     f"  -{t} = N 0 0", f"  {t}.0 = N 0 0", f"  {t} = N 0 -1"):
            for kind in ("note", "sp", "te"):
                cases.append((kind, line, "none", True, "named-rejection"))
    for _ in range(ctx.n(600, 60_000)):
        cases.append((rng.choice(["note", "sp", "te"]), lc.random_string(rng), None, False, "random"))
    lc.run(ctx, out, cases)
    classes_table(ctx, out)
    return out


def replay(ctx, data):
    if data["op"] == "line":
        return lc.replay(data)
    return None, "unknown replay op"
