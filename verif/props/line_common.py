"""Shared by C07 / C09 / C10 / C14: run single lines through the shipped recognisers, the model and the truth."""
from __future__ import annotations

import random

from .. import driver, gen, impl
from .. import framework as fw

KIND_ID = {"note": 0, "sp": 1, "te": 2, "bpm": 3, "ts": 4, "anchor": 5, "lyric": 6, "section": 7, "text": 8}


def classes():
    from chartparse.globalevents import LyricEvent, SectionEvent, TextEvent
    from chartparse.instrument import NoteEvent, StarPowerEvent, TrackEvent
    from chartparse.sync import AnchorEvent, BPMEvent, TimeSignatureEvent

    return {"note": NoteEvent, "sp": StarPowerEvent, "te": TrackEvent, "bpm": BPMEvent, "ts": TimeSignatureEvent,
            "anchor": AnchorEvent, "lyric": LyricEvent, "section": SectionEvent, "text": TextEvent}


def line_impl(kind: str, line: str) -> str:
    from chartparse.exceptions import RegexNotMatchError

    cls = classes()[kind].ParsedData
    try:
        d = cls.from_chart_line(line)
    except RegexNotMatchError:
        return "none"
    except Exception as ex:  # noqa: BLE001
        return "internal:" + type(ex).__name__
    if kind == "note":
        return f"note {d.tick} {d.note_track_index.value} {d.sustain}"
    if kind == "sp":
        return f"sp {d.tick} {d.sustain}"
    if kind == "te":
        return f"te {d.tick} {impl.cps(d.value)}"
    if kind == "bpm":
        return f"bpm {d.tick} {impl.cps(d.raw_bpm)}"
    if kind == "ts":
        return f"ts {d.tick} {d.upper} {'~' if d.lower is None else d.lower}"
    if kind == "anchor":
        return f"anchor {d.tick} {d.microseconds}"
    return f"ev{KIND_ID[kind]} {d.tick} {impl.cps(d.value)}"


def run(ctx, out, cases, label="recogniser"):
    """cases: (kind, line, truth|None, nontrivial, tag). truth None = nothing promised (near-miss / random: only correspondence,
    unless truth == 'none' which promises rejection)."""
    mod = driver.run_parallel([f"line {KIND_ID[k]} {driver.cps(l)}" for k, l, *_ in cases])
    for (k, l, truth, nontriv, tag), m in zip(cases, mod):
        i = line_impl(k, l)
        out.case("L" + fw.h([k, l]), nontriv, {"kind": k, "line": l, "decoded": i} if nontriv else None,
                 tags=[tag, k + ("+" if i != "none" else "-")])
        out.traces += 1
        rp = {"op": "line", "kind": k, "line": l, "truth": truth}
        if i != m:
            out.corr_mismatch(f"{k} {label} on {l!r}", rp, impl=i, model=m)
        if truth is not None and i != truth:
            what = (f"line {l!r} must not produce a {k} datum but decoded as {i}" if truth == "none"
                    else f"canonical {k} line {l!r} decoded as {i}, promised {truth}")
            out.violation("line-" + fw.h([k, l]), what, rp, observed=i, promised=truth)
        elif truth is not None and m != truth:
            out.model_bug(f"{k} line {l!r}", rp, model=m, promised=truth)


def replay(data):
    i = line_impl(data["kind"], data["line"])
    return (data.get("truth") is not None and i != data["truth"]), i


ALPHABET = list("0123456789 =NSEBTA\"[]{}xé\t") + ["٣", "７", "\xa0", " ", "lyric ", "section ", " = ", " N ", " S 2 ", " E "]


def random_string(rng: random.Random) -> str:
    return "".join(rng.choice(ALPHABET) for _ in range(rng.randint(0, 14)))


def mutate(rng: random.Random, line: str) -> str:
    if not line:
        return rng.choice(ALPHABET)
    k = rng.randrange(len(line))
    op = rng.randrange(4)
    if op == 0:
        return line[:k] + line[k + 1:]
    if op == 1:
        return line[:k] + rng.choice(ALPHABET) + line[k:]
    if op == 2:
        return line[:k] + rng.choice(ALPHABET) + line[k + 1:]
    return line[:k] + line[k] + line[k:]
