"""Shared by C07 / C09 / C10 / C14: run single lines through the shipped recognisers, the model and the truth."""
from __future__ import annotations

import random

from .. import driver, gen, impl
from .. import framework as fw

KIND_ID = {"note": 0, "sp": 1, "te": 2, "bpm": 3, "ts": 4, "anchor": 5, "lyric": 6, "section": 7, "text": 8}


def classes():
    from chartparse.globalevents import LyricEvent, SectionEvent, TextEvent
    from chartparse.instrument import NoteEvent, StarPowerEvent, TrackEvent
    from chartparse.sync import AnchorEvent, BPMEvent, TimeSignatureEvent

    return {"note": NoteEvent, "sp": StarPowerEvent, "te": TrackEvent, "bpm": BPMEvent, "ts": TimeSignatureEvent,
            "anchor": AnchorEvent, "lyric": LyricEvent, "section": SectionEvent, "text": TextEvent}


def line_impl(kind: str, line: str) -> str:
    from chartparse.exceptions import RegexNotMatchError

    cls = classes()[kind].ParsedData
    try:
        d = cls.from_chart_line(line)
    except RegexNotMatchError:
        return "none"
    except Exception as ex:  # noqa: BLE001
        return "internal:" + type(ex).__name__
    if kind == "note":
        return f"note {d.tick} {d.note_track_index.value} {d.sustain}"
    if kind == "sp":
        return f"sp {d.tick} {d.sustain}"
    if kind == "te":
        return f"te {d.tick} {impl.cps(d.value)}"
    if kind == "bpm":
        return f"bpm {d.tick} {impl.cps(d.raw_bpm)}"
    if kind == "ts":
        return f"ts {d.tick} {d.upper} {'~' if d.lower is None else d.lower}"
    if kind == "anchor":
        return f"anchor {d.tick} {d.microseconds}"
    return f"ev{KIND_ID[kind]} {d.tick} {impl.cps(d.value)}"


# ------------------------------------------------------------------------------------------------------------------
# Independent reading of the documented line formats (README / Moonscraper), written without the shipped patterns:
# blanks = str.isspace, digits = str.isdecimal (the interpreter's own notions of \s and \d), values by position.
# `spec(kind, line)` is the promise for EVERY string: the decoded datum, or "none".


def _lead(line):
    i = 0
    while i < len(line) and line[i].isspace():
        i += 1
    return line[i:]


def _digits(s):
    i = 0
    while i < len(s) and s[i].isdecimal():
        i += 1
    return (s[:i], s[i:]) if i else (None, s)


def _blank(s):
    return all(c.isspace() for c in s)


def spec(kind: str, line: str) -> str:
    # a line feed is a blank like any other (padding); inside a value it is an ordinary character for `E <word>` and quoted
    # text, and impossible inside a lyric / section value (those are single-line by the format)
    tick, r = _digits(_lead(line))
    if tick is None or not r.startswith(" = "):
        return "none"
    r = r[3:]
    t = int(tick)
    if kind == "note":
        if not r.startswith("N ") or len(r) < 4 or r[2] not in "01234567" or r[3] != " ":
            return "none"
        ln, rest = _digits(r[4:])
        return f"note {t} {r[2]} {int(ln)}" if ln is not None and _blank(rest) else "none"
    if kind in ("sp", "bpm"):
        lit = "S 2 " if kind == "sp" else "B "
        if not r.startswith(lit):
            return "none"
        v, rest = _digits(r[len(lit):])
        if v is None or not _blank(rest):
            return "none"
        return f"sp {t} {int(v)}" if kind == "sp" else f"bpm {t} {impl.cps(v)}"
    if kind == "anchor":
        if not r.startswith("A "):
            return "none"
        v, rest = _digits(r[2:])
        return f"anchor {t} {int(v)}" if v is not None and rest in ("", "\n") else "none"  # no padding after an anchor; a final line feed is not padding
    if kind == "ts":
        if not r.startswith("TS "):
            return "none"
        u, rest = _digits(r[3:])
        if u is None:
            return "none"
        if rest.startswith(" "):
            l, rest2 = _digits(rest[1:])
            if l is not None and _blank(rest2):
                return f"ts {t} {int(u)} {int(l)}"
        return f"ts {t} {int(u)} ~" if _blank(rest) else "none"
    if kind == "te":
        if not r.startswith("E "):
            return "none"
        v = r[2:]
        while v and v[-1].isspace():
            v = v[:-1]
        return f"te {t} {impl.cps(v)}" if " " not in v else "none"
    if kind in ("lyric", "section", "text"):
        lit = {"lyric": 'E "lyric ', "section": 'E "section ', "text": 'E "'}[kind]
        if not r.startswith(lit):
            return "none"
        v = r[len(lit):]
        while v and v[-1].isspace():
            v = v[:-1]
        if not v.endswith('"'):
            return "none"
        v = v[:-1]
        if (kind == "text" and '"' in v) or (kind != "text" and "\n" in v):
            return "none"
        return f"ev{KIND_ID[kind]} {t} {impl.cps(v)}"
    return None


def run(ctx, out, cases, label="recogniser"):
    """cases: (kind, line, truth|None, nontrivial, tag). truth None = nothing promised (near-miss / random: only correspondence,
    unless truth == 'none' which promises rejection)."""
    mod = driver.run_parallel([f"line {KIND_ID[k]} {driver.cps(l)}" for k, l, *_ in cases])
    for (k, l, truth, nontriv, tag), m in zip(cases, mod):
        i = line_impl(k, l)
        sp_ = spec(k, l)
        if truth is None:
            truth = sp_  # the independent reading of the format decides every string, mutations and random ones included
        elif sp_ is not None and sp_ != truth:
            out.model_bug(f"oracle disagreement on {k} line {l!r}", {"op": "line", "kind": k, "line": l}, model=sp_, promised=truth)
        out.case("L" + fw.h([k, l]), nontriv, {"kind": k, "line": l, "decoded": i} if nontriv else None,
                 tags=[tag, k + ("+" if i != "none" else "-")])
        out.traces += 1
        rp = {"op": "line", "kind": k, "line": l, "truth": truth}
        if i != m:
            out.corr_mismatch(f"{k} {label} on {l!r}", rp, impl=i, model=m)
        if truth is not None and i != truth:
            what = (f"line {l!r} must not produce a {k} datum but decoded as {i}" if truth == "none"
                    else f"canonical {k} line {l!r} decoded as {i}, promised {truth}")
            out.violation("line-" + fw.h([k, l]), what, rp, observed=i, promised=truth)
        elif truth is not None and m != truth:
            out.model_bug(f"{k} line {l!r}", rp, model=m, promised=truth)


def replay(data):
    i = line_impl(data["kind"], data["line"])
    return (data.get("truth") is not None and i != data["truth"]), i


ALPHABET = list("0123456789 =NSEBTA\"[]{}xé\t\n+-_.") + ["٣", "７", "\xa0", " ", "lyric ", "section ", " = ", " N ", " S 2 ", " E ", "\u200b", "\u200d", "\ufeff", "}", "0x", "e3"]


def random_string(rng: random.Random) -> str:
    return "".join(rng.choice(ALPHABET) for _ in range(rng.randint(0, 14)))


def respell_number(rng: random.Random, line: str) -> str:
    """one number of the line written the way other number parsers accept it (`int()`, `float()`, other languages)"""
    import re
    nums = list(re.finditer(r"\d+", line))
    if not nums:
        return line + "0"
    m = rng.choice(nums)
    n = m.group()
    alt = rng.choice(["+" + n, "-" + n, n + ".0", n + "_0", n[0] + "_" + n[1:] if len(n) > 1 else "0_" + n, " " + n, n + " ", "0x" + n, n + "e0", n + "L",
                      "".join(chr(0x0660 + int(c)) for c in n), "".join(chr(0xFF10 + int(c)) for c in n), "0" + n, "00" + n, n + "\u200b", "\ufeff" + n,
                      n + ",0", "(" + n + ")", "'" + n + "'", n.replace("0", "O", 1) if "0" in n else n + "O"])
    return line[:m.start()] + alt + line[m.end():]


def mutate(rng: random.Random, line: str) -> str:
    if not line:
        return rng.choice(ALPHABET)
    if rng.random() < 0.2:
        return respell_number(rng, line)
    k = rng.randrange(len(line))
    op = rng.randrange(4)
    if op == 0:
        return line[:k] + line[k + 1:]
    if op == 1:
        return line[:k] + rng.choice(ALPHABET) + line[k:]
    if op == 2:
        return line[:k] + rng.choice(ALPHABET) + line[k + 1:]
    return line[:k] + line[k] + line[k:]
