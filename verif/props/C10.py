"""C10 — metadata fields decode independently, verbatim, with documented defaults."""
from __future__ import annotations

from .. import common, driver, gen, impl
from .. import framework as fw

GEN_SECTIONS = ["Unicode", "Regexes", "Tables"]
LEAVES = {'LoopField': []}
IMP = ['parseAllLinesForField']  # functions dumped as terms of the imperative embedding, run against CPython on every run
TRUSTED = [
    "Lean 4 kernel; axioms ⊆ {propext, Classical.choice, Quot.sound}",
    "translator: the 24 field recognisers, processing functions (probed), dataclass defaults, field order",
    "regex engine + hand model of Metadata.from_chart_lines; tied by differential execution of [Song] sections",
]
ASSUMPTIONS = ["non-empty, line-break-free values; at most one line per field for the order law"]
RULE = ("subsets of the 23 optional fields × permutations of lines × values containing quotes, '=', other field names, "
        "leading/trailing blanks, non-ASCII; integers with Unicode digits; foreign lines in between; promised: each value "
        "verbatim (one pair of quotes removed), ints, Player2 member, documented defaults for absent fields, "
        "MissingRequiredField without Resolution; all 24 fields at least once per run; non-trivial = ≥ 1 optional field "
        "present; distinct by section text")


def song_dump(lines):
    """Metadata.from_chart_lines on the real code, canonical field list or error"""
    from chartparse.metadata import Metadata

    try:
        md = Metadata.from_chart_lines(lines)
    except Exception as e:  # noqa: BLE001
        return impl.err_name(e)
    return " ".join(impl.show_field(getattr(md, f)) for f in impl.field_order())


def slice(ctx: fw.Ctx) -> fw.Outcome:
    out = fw.Outcome(RULE)
    rng = ctx.sub("c10")
    prof = gen.Profile(meta_fields=0.4, tricky_text=0.6, exotic_pad=0.25, exotic_digits=0.2, max_tracks=0, max_events=0, max_tempo=1,
                       garbage=0.3, unknown_sections=0.0, dup_fields=0.15)
    cases = []
    n = ctx.n(250, 25_000)
    for k in range(n):
        src = gen.rand_src(rng, prof)
        if k < 23:  # every optional field at least once per run
            snake, pascal, kind = gen.FIELDS[k + 1]
            if snake not in src.meta:
                src.meta[snake] = 7 if kind == "int" else ("rhythm" if kind == "p2" else gen.rand_value(rng, prof))
        if rng.random() < 0.1:
            del src.meta["resolution"]
        R = gen.render(src, rng, prof)
        # near-miss lines for *absent* fields: not a canonical `Field = value` line of that field, so the default must stay
        absent = [f for f in gen.FIELDS[1:] if f[0] not in src.meta]
        if absent and rng.random() < 0.5:
            snake, pascal, kind = rng.choice(absent)
            bad = rng.choice([f"  {pascal} = 7.5", f"  {pascal} = 0.00", f"  {pascal} = -3", f"  {pascal} = 1e3"] if kind == "int"
                             else [f"  {pascal.lower()} = \"x\"", f"  {pascal}= \"x\"", f"  {pascal} : \"x\"", f"  X{pascal} = \"x\""]
                             if kind == "str" else [f"  {pascal} = \"ba\"ss\"", f"  {pascal}  = bass"])
            lines = R.text.split(R.newline)
            # (the section's own header: a line `[Song]` may also sit in another section's body as an unparsable line)
            k = next(i for i in range(len(lines) - 1) if lines[i] == "[Song]" and lines[i + 1] == "{") + 2
            lines.insert(k, bad)
            R.text = R.newline.join(lines)
        cases.append((src, R))
    a, b = common.run_charts([(R.text, None) for _, R in cases])
    for (src, R), x, y in zip(cases, a, b):
        dx, dy = gen.parse_dump(x), gen.parse_dump(y)
        rp = common.chart_replay(R.text)
        if "resolution" not in src.meta:
            truth = "E MissingRequiredField"
        else:
            truth = gen.meta_truth(src)
        pj = lambda d: d["meta"] if d["err"] is None else d["err"]
        out.case("M" + fw.h(R.text), len(src.meta) > 1, {"song": dict(list(src.meta.items())[:4])} if len(src.meta) > 3 else None,
                 tags=["song", f"fields{min(len(src.meta), 6)}"])
        out.traces += 1
        if pj(dx) != pj(dy):
            out.corr_mismatch("metadata", rp, impl=common.short(str(pj(dx))), model=common.short(str(pj(dy))))
        if pj(dx) != truth:
            if isinstance(truth, list) and isinstance(pj(dx), list):
                k = next(i for i, (u, v) in enumerate(zip(pj(dx), truth)) if u != v)
                what = f"field {gen.FIELDS[k][0]}: parsed {pj(dx)[k]}, written/default {truth[k]}"
            else:
                what = f"[Song] parsed as {common.short(str(pj(dx)), 80)}, promised {common.short(str(truth), 80)}"
            out.violation("song-" + fw.h(R.text), what, {**rp, "truth": truth}, observed=common.short(str(pj(dx))), promised=common.short(str(truth)))
        elif pj(dy) != truth:
            out.model_bug("metadata", rp, model=common.short(str(pj(dy))), promised=common.short(str(truth)))
    order_law(ctx, out)
    direct(ctx, out)
    by_path(ctx, out)
    return out


BREAKS = ["\u2028", "\u2029", "\x85", "\x0b", "\x0c", "\x1c", "\x1d", "\x1e", "\r"]  # line boundaries for str.splitlines, ordinary characters for a field value


def direct(ctx, out):
    """Metadata.from_chart_lines called directly (list, tuple, one-shot iterator): values the file reader could never deliver in one
    line (they contain a character str.splitlines breaks at) are still ordinary values here; zero and its spellings are values, not
    absence; a field's value never reaches another field"""
    rng = ctx.sub("direct")
    prof = gen.Profile(tricky_text=0.7)
    for k in range(ctx.n(120, 12_000)):
        fields = rng.sample(gen.FIELDS[1:], rng.randint(0, 6))
        want = {}
        lines = []
        res = rng.choice(["0", "00", "\"0\"", "192", "1", "٠", "０", "480"])
        lines.append(f"  Resolution = {res}")
        want["resolution"] = "i" + str(int(res.strip('"')))
        for snake, pascal, kind in fields:
            if kind == "int":
                v = rng.choice(["0", "00", "\"0\"", "7", str(rng.randint(0, 10**6))])
                want[snake] = "i" + str(int(v.strip('"')))
                lines.append(f"  {pascal} = {v}")
            elif kind == "p2":
                v = rng.choice(["bass", "rhythm"])
                want[snake] = "p" + impl.cps(v)
                lines.append(f"  {pascal} = {v}")
            else:
                v = gen.rand_value(rng, prof).replace("\n", "")
                if rng.random() < 0.5:
                    other = rng.choice(gen.FIELDS[1:])[1]
                    v = v + rng.choice(BREAKS) + rng.choice(["", "  ", f"  {other} = \"polka\"", f"{other} = 5"]) + rng.choice(["", "x"])
                want[snake] = "s" + impl.cps(v)
                lines.append(f"  {pascal} = \"{v}\"")
        rng.shuffle(lines)
        form = rng.choice(["list", "tuple", "iter", "gen"])
        arg = lines if form == "list" else tuple(lines) if form == "tuple" else iter(lines) if form == "iter" else (l for l in lines)
        got = song_dump(arg)
        rp = {"op": "direct", "lines": lines, "form": form}
        out.case("D" + fw.h(rp), True, None, tags=["direct-" + form])
        if got.startswith("E "):
            out.violation("direct-" + fw.h(rp), f"Metadata.from_chart_lines({form} of {len(lines)} canonical field lines) raised {got}", {**rp, "want": want},
                          observed=got, promised="a Metadata")
            continue
        vals = dict(zip(impl.field_order(), got.split(" ")))
        bad = [(f, vals.get(f), w) for f, w in want.items() if vals.get(f) != w]
        # fields without a line keep their defaults: compare with the parse of the Resolution line alone
        base = dict(zip(impl.field_order(), song_dump([l for l in lines if "Resolution = " in l]).split(" ")))
        bad += [(f, v, base.get(f)) for f, v in vals.items() if f not in want and v != base.get(f)]
        if bad:
            f, g_, w = bad[0]
            out.violation("direct-" + fw.h(rp), f"Metadata.from_chart_lines ({form}): field {f} decoded as {g_}, written/default {w}", {**rp, "want": want},
                          observed=str(g_), promised=str(w))


def by_path(ctx, out):
    """the same [Song] read from a real file — UTF-8 with and without a byte-order mark — decodes as it does from a stream"""
    rng = ctx.sub("bypath")
    prof = gen.Profile(meta_fields=0.6, tricky_text=0.8, max_tracks=0, max_events=0, max_tempo=1, garbage=0.0, unknown_sections=0.0, crlf=0.0)
    for _ in range(ctx.n(25, 1500)):
        src = gen.rand_src(rng, prof)
        src.meta.setdefault("artist", rng.choice(["Motörhead", "日本", "Beyoncé “Live”", "naïve\u00a0x"]))
        R = gen.render(src, rng, prof, garbage=False, newline="\n")
        want = impl.run_chart(R.text)
        for nm, data in (("utf8", R.text.encode("utf-8")), ("utf8-bom", b"\xef\xbb\xbf" + R.text.encode("utf-8"))):
            got = impl.run_path(data)
            rp = {"op": "bypath", "hex": data.hex(), "text": R.text}
            out.case("P" + fw.h(rp), True, None, tags=["path-" + nm])
            if got != want:
                p_, q_ = fw.first_diff(want, got)
                out.violation("bypath-" + fw.h(rp), f"[Song] read from a {nm} file decodes differently from the same text read from a stream: {p_[:100]!r} vs {q_[:100]!r}", rp,
                              observed=q_[:200], promised=p_[:200])


def order_law(ctx, out):
    """permuting the lines of a [Song] body (one line per field, plus foreign lines) never changes the result"""
    rng = ctx.sub("order")
    prof = gen.Profile(meta_fields=0.5, tricky_text=0.7, exotic_pad=0.2, max_tracks=0, max_events=0, max_tempo=1, garbage=0.4, unknown_sections=0.0)
    for _ in range(ctx.n(150, 15_000)):
        src = gen.rand_src(rng, prof)
        R = gen.render(src, rng, prof)
        body = dict(R.sections)["Song"]
        base = song_dump(body)
        p = body[:]
        rng.shuffle(p)
        x = song_dump(p)
        rp = {"op": "order", "a": body, "b": p}
        out.case("O" + fw.h(rp), len(body) >= 2, None, tags=["order-law"])
        if x != base:
            out.violation("order-" + fw.h(rp), "permuting the [Song] lines changes the metadata", rp, observed=common.short(x), promised=common.short(base))


def replay(ctx, data):
    if data["op"] == "bypath":
        a, b = impl.run_chart(data["text"]), impl.run_path(bytes.fromhex(data["hex"]))
        return a != b, str(fw.first_diff(a, b))[:300]
    if data["op"] == "direct":
        got = song_dump(list(data["lines"]) if data["form"] in ("list", "tuple") else iter(data["lines"]))
        if got.startswith("E "):
            return True, got
        vals = dict(zip(impl.field_order(), got.split(" ")))
        bad = [(f, vals.get(f), w) for f, w in data["want"].items() if vals.get(f) != w]
        return bool(bad), str(bad[:2])
    if data["op"] == "order":
        a, b = song_dump(data["a"]), song_dump(data["b"])
        return a != b, common.short(b)
    if data["op"] == "chart":
        x = impl.run_chart(data["text"])
        d = gen.parse_dump(x)
        got = d["meta"] if d["err"] is None else d["err"]
        return got != data.get("truth"), common.short(str(got))
    return None, "unknown replay op"
