"""C10 — metadata fields decode independently, verbatim, with documented defaults."""
from __future__ import annotations

from .. import common, driver, gen, impl
from .. import framework as fw

GEN_SECTIONS = ["Unicode", "Regexes", "Tables"]
TRUSTED = [
    "Lean 4 kernel; axioms ⊆ {propext, Classical.choice, Quot.sound}",
    "translator: the 24 field recognisers, processing functions (probed), dataclass defaults, field order",
    "regex engine + hand model of Metadata.from_chart_lines; tied by differential execution of [Song] sections",
]
ASSUMPTIONS = ["non-empty, line-break-free values; at most one line per field for the order law"]
RULE = ("subsets of the 23 optional fields × permutations of lines × values containing quotes, '=', other field names, "
        "leading/trailing blanks, non-ASCII; integers with Unicode digits; foreign lines in between; promised: each value "
        "verbatim (one pair of quotes removed), ints, Player2 member, documented defaults for absent fields, "
        "MissingRequiredField without Resolution; all 24 fields at least once per run; non-trivial = ≥ 1 optional field "
        "present; distinct by section text")


def song_dump(lines):
    """Metadata.from_chart_lines on the real code, canonical field list or error"""
    from chartparse.metadata import Metadata

    try:
        md = Metadata.from_chart_lines(lines)
    except Exception as e:  # noqa: BLE001
        return impl.err_name(e)
    return " ".join(impl.show_field(getattr(md, f)) for f in impl.field_order())


def slice(ctx: fw.Ctx) -> fw.Outcome:
    out = fw.Outcome(RULE)
    rng = ctx.sub("c10")
    prof = gen.Profile(meta_fields=0.4, tricky_text=0.6, exotic_pad=0.25, exotic_digits=0.2, max_tracks=0, max_events=0, max_tempo=1,
                       garbage=0.3, unknown_sections=0.0)
    cases = []
    n = ctx.n(250, 25_000)
    for k in range(n):
        src = gen.rand_src(rng, prof)
        if k < 23:  # every optional field at least once per run
            snake, pascal, kind = gen.FIELDS[k + 1]
            if snake not in src.meta:
                src.meta[snake] = 7 if kind == "int" else ("rhythm" if kind == "p2" else gen.rand_value(rng, prof))
        if rng.random() < 0.1:
            del src.meta["resolution"]
        R = gen.render(src, rng, prof)
        # near-miss lines for *absent* fields: not a canonical `Field = value` line of that field, so the default must stay
        absent = [f for f in gen.FIELDS[1:] if f[0] not in src.meta]
        if absent and rng.random() < 0.5:
            snake, pascal, kind = rng.choice(absent)
            bad = rng.choice([f"  {pascal} = 7.5", f"  {pascal} = 0.00", f"  {pascal} = -3", f"  {pascal} = 1e3"] if kind == "int"
                             else [f"  {pascal.lower()} = \"x\"", f"  {pascal}= \"x\"", f"  {pascal} : \"x\"", f"  X{pascal} = \"x\""]
                             if kind == "str" else [f"  {pascal} = \"ba\"ss\"", f"  {pascal}  = bass"])
            lines = R.text.split(R.newline)
            k = lines.index("[Song]") + 2
            lines.insert(k, bad)
            R.text = R.newline.join(lines)
        cases.append((src, R))
    a, b = common.run_charts([(R.text, None) for _, R in cases])
    for (src, R), x, y in zip(cases, a, b):
        dx, dy = gen.parse_dump(x), gen.parse_dump(y)
        rp = common.chart_replay(R.text)
        if "resolution" not in src.meta:
            truth = "E MissingRequiredField"
        else:
            truth = gen.meta_truth(src)
        pj = lambda d: d["meta"] if d["err"] is None else d["err"]
        out.case("M" + fw.h(R.text), len(src.meta) > 1, {"song": dict(list(src.meta.items())[:4])} if len(src.meta) > 3 else None,
                 tags=["song", f"fields{min(len(src.meta), 6)}"])
        out.traces += 1
        if pj(dx) != pj(dy):
            out.corr_mismatch("metadata", rp, impl=common.short(str(pj(dx))), model=common.short(str(pj(dy))))
        if pj(dx) != truth:
            if isinstance(truth, list) and isinstance(pj(dx), list):
                k = next(i for i, (u, v) in enumerate(zip(pj(dx), truth)) if u != v)
                what = f"field {gen.FIELDS[k][0]}: parsed {pj(dx)[k]}, written/default {truth[k]}"
            else:
                what = f"[Song] parsed as {common.short(str(pj(dx)), 80)}, promised {common.short(str(truth), 80)}"
            out.violation("song-" + fw.h(R.text), what, {**rp, "truth": truth}, observed=common.short(str(pj(dx))), promised=common.short(str(truth)))
        elif pj(dy) != truth:
            out.model_bug("metadata", rp, model=common.short(str(pj(dy))), promised=common.short(str(truth)))
    order_law(ctx, out)
    return out


def order_law(ctx, out):
    """permuting the lines of a [Song] body (one line per field, plus foreign lines) never changes the result"""
    rng = ctx.sub("order")
    prof = gen.Profile(meta_fields=0.5, tricky_text=0.7, exotic_pad=0.2, max_tracks=0, max_events=0, max_tempo=1, garbage=0.4, unknown_sections=0.0)
    for _ in range(ctx.n(150, 15_000)):
        src = gen.rand_src(rng, prof)
        R = gen.render(src, rng, prof)
        body = dict(R.sections)["Song"]
        base = song_dump(body)
        p = body[:]
        rng.shuffle(p)
        x = song_dump(p)
        rp = {"op": "order", "a": body, "b": p}
        out.case("O" + fw.h(rp), len(body) >= 2, None, tags=["order-law"])
        if x != base:
            out.violation("order-" + fw.h(rp), "permuting the [Song] lines changes the metadata", rp, observed=common.short(x), promised=common.short(base))


def replay(ctx, data):
    if data["op"] == "order":
        a, b = song_dump(data["a"]), song_dump(data["b"])
        return a != b, common.short(b)
    if data["op"] == "chart":
        x = impl.run_chart(data["text"])
        d = gen.parse_dump(x)
        got = d["meta"] if d["err"] is None else d["err"]
        return got != data.get("truth"), common.short(str(got))
    return None, "unknown replay op"
