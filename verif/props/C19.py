"""C19 — a parsed chart is an immutable value under all read-only use (partial: see DESIGN)."""
from __future__ import annotations

import dataclasses
from datetime import timedelta

from .. import common, driver, gen, impl
from .. import framework as fw

GEN_SECTIONS = ["Classes"]
TRUSTED = [
    "Lean 4 kernel; axioms ⊆ {propext, Classical.choice, Quot.sound}",
    "translator: class inventory (frozen flag, eq mode, cached_property names) by introspection; container kind of "
    "Chart.instrument_tracks probed behaviourally on a throw-away chart",
    "hand model of the track-map / cached-slot state machine; tied by op-sequence differential execution",
    "Python's object model (frozen dataclasses, cached_property, dict) — exercised, not proved",
]
ASSUMPTIONS = ["`vars(obj)` / `__dict__` inspection is not a publicly observable datum",
               "partial: the theorem is about the container/cached-slot state machine, not about CPython's object model"]
RULE = ("random sequences (1–40 ops) of every read-only operation (subscript by each of 10 instruments, rate queries in all "
        "argument forms incl. failing ones, tick-to-time queries with hints, str/repr, ==, hash of events, derived "
        "attributes, attribute assignment attempts) on generated charts; after every op the full observation and twin "
        "equality are compared with the state before; non-trivial = at least one op on an absent key; distinct by "
        "(chart, op sequence)")


def observation(c) -> str:
    keys = ";".join(f"{impl.enums()[0].index(i)}:{'.'.join(str(impl.enums()[1].index(d)) for d in dd)}"
                    for i, dd in c.instrument_tracks.items())
    # also what the canonical dump abstracts from: the rendering of the whole chart and the kinds of its public containers
    import hashlib
    rend = hashlib.sha256((repr(c) + "\x00" + str(c) + "\x00" + repr(c.instrument_tracks)).encode("utf-8", "replace")).hexdigest()[:16]
    kinds = type(c.instrument_tracks).__name__ + ":" + ",".join(sorted({type(dd).__name__ for dd in c.instrument_tracks.values()}))
    # how every single event renders (in chart order: a rendering that leaves a trace changes how its neighbours render next time)
    evs, _ = events_of(c)
    rend += "/" + hashlib.sha256("\x00".join(str(e) for e in evs).encode("utf-8", "replace")).hexdigest()[:16]
    return impl.dump_chart(c, []) + "|K " + keys + "|R " + rend + "|Y " + kinds


def rand_ops(rng, c, n):
    ins, dif = impl.enums()
    ops = []
    last = 0
    for tr in [t for dd in c.instrument_tracks.values() for t in dd.values()]:
        if tr.note_events:
            last = max(last, tr.note_events[-1].tick)
    for _ in range(n):
        r = rng.random()
        if r < 0.25:
            ops.append(("getitem", rng.randrange(len(ins))))
        elif r < 0.5:
            form = rng.choice(["none", "tick", "ticks", "time", "times", "neg", "rev"])
            pres = [(ins.index(i), dif.index(d)) for i, dd in c.instrument_tracks.items() for d in dd]
            i_, d_ = rng.choice(pres) if pres and rng.random() < 0.6 else (rng.randrange(len(ins)), rng.randrange(len(dif)))
            ops.append(("nps", i_, d_, form, rng.randint(0, last + 5), rng.randint(0, last + 400)))
        elif r < 0.6:
            tk = rng.choice([rng.randint(-2, last + 500), rng.randint(-2, last + 500), -1, -rng.randint(2, 300), last + 1000])
            # the same tick asked several ways in a row: a hint that must be refused, no hint, the hint again
            for h in rng.sample([0, 1, 2, 3, 5], rng.choice([1, 1, 2, 3])):
                ops.append(("tsat", tk, h))
        elif r < 0.7:
            ops.append((rng.choice(["str", "repr", "eq", "ne", "eqperm", "eqperm"]),))
        elif r < 0.8:
            ops.append(("hash", rng.randrange(1 << 30)))
        elif r < 0.92:
            ops.append(("derived", rng.randrange(1 << 30)))
        else:
            ops.append(("setattr", rng.randrange(1 << 30)))
    # sliding windows over one track, each beginning exactly where the one before ended, the boundaries on notes (a rate graph):
    # every window counts the note on its left edge whatever was asked before
    tracks_ = [(ins.index(i), dif.index(d), tr) for i, dd in c.instrument_tracks.items() for d, tr in dd.items() if len(tr.note_events) >= 3]
    if tracks_ and rng.random() < 0.5:
        i_, d_, tr = rng.choice(tracks_)
        evs = tr.note_events
        cut = sorted(rng.sample(range(len(evs)), min(len(evs), rng.randint(3, 6))))
        us_ = lambda td: td // timedelta(microseconds=1)  # noqa: E731
        if rng.random() < 0.5:
            chain = [("nps", i_, d_, "ticks", evs[a].tick, evs[b].tick - evs[a].tick) for a, b in zip(cut, cut[1:]) if evs[b].tick > evs[a].tick]
        else:
            chain = [("nps", i_, d_, "tspan", us_(evs[a].timestamp), us_(evs[b].timestamp)) for a, b in zip(cut, cut[1:]) if evs[b].timestamp > evs[a].timestamp]
        at = rng.randint(0, len(ops))
        ops[at:at] = chain
    for _ in range(rng.choice([0, 1, 2])):
        ops.insert(rng.randint(0, len(ops)), ("iterpart", rng.randrange(1 << 30)))
    be = c.sync_track.bpm_events
    if len(be) > 20:
        # a long tempo map: a lookup deep into it, then before its start, then in its middle, then at its very end
        deep = [("tsat", be[-1].tick + rng.randint(0, 50), 0), ("tsat", -rng.randint(1, 9), 0), ("tsat", be[len(be) // 2].tick + 1, rng.choice([0, 3])),
                ("tsat", be[-1].tick, 0), ("tsat", be[1].tick - 1, 0)]
        at = rng.randint(0, len(ops))
        ops[at:at] = deep
    return ops


def events_of(c):
    ev = list(c.sync_track.bpm_events) + list(c.sync_track.time_signature_events) + list(c.sync_track.anchor_events)
    g = c.global_events_track
    ev += list(g.text_events) + list(g.section_events) + list(g.lyric_events)
    tracks = [t for dd in c.instrument_tracks.values() for t in dd.values()]
    for t in tracks:
        ev += list(t.note_events) + list(t.star_power_events) + list(t.track_events)
    return ev, tracks


_detail = [""]
_perm = [None]


def permuted_text(text):
    """the same sections, last first (None when the text is not plainly sectioned)"""
    nl = "\r\n" if "\r\n" in text else "\n"
    lines = text.split(nl)
    secs, cur = [], []
    for l in lines:
        cur.append(l)
        if l == "}":
            secs.append(cur)
            cur = []
    if any(x for x in cur) or len(secs) < 2:
        return None
    return nl.join(l for sec in reversed(secs) for l in sec) + nl


def _val(f):
    try:
        r = f()
    except ValueError:
        return "VE"
    if isinstance(r, tuple):
        return f"{impl.us(r[0])},{r[1]}"
    return str(impl.us(r)) if isinstance(r, timedelta) else impl.rat(float(r))


def apply(c, twin, op):
    """perform one read-only operation; returns a short outcome string (never raises for documented outcomes); the value the
    operation produced is left in `_detail[0]` (it must be a function of chart and operation, not of what was asked before)"""
    ins, dif = impl.enums()
    kind = op[0]
    _detail[0] = ""
    try:
        if kind == "getitem":
            try:
                d = c[ins[op[1]]]
                return "dict" + ".".join(str(dif.index(k)) for k in d)
            except KeyError:
                return "KeyError"
        if kind == "nps":
            _, i, d, form, a, b = op
            # (built per form, lazily: the numbers of one form are not meaningful — and may not even be representable — in another)
            args = {"none": lambda: (), "tick": lambda: (a,), "ticks": lambda: (a, a + b), "time": lambda: (timedelta(microseconds=a * 1000),),
                    "times": lambda: (timedelta(microseconds=a), timedelta(microseconds=a + b * 1000)), "neg": lambda: (-1,),
                    "tspan": lambda: (timedelta(microseconds=a), timedelta(microseconds=b))}.get(form, lambda: (a + b + 1, a))()
            _detail[0] = _val(lambda: c.notes_per_second(ins[i], dif[d], *args))
            return "ValueError" if _detail[0] == "VE" else "found"
        if kind == "tsat":
            be = c.sync_track.bpm_events
            _detail[0] = _val(lambda: be.timestamp_at_tick(op[1], start_iteration_index=op[2])) + "|" + _val(lambda: be.timestamp_at_tick_no_optimize_return(op[1]))
            return "unit"
        if kind == "str":
            str(c)
            return "unit"
        if kind == "repr":
            repr(c)
            return "unit"
        if kind == "eqperm":
            # compared, both ways round, with a chart of the same sections written in the opposite order in its file
            p = _perm[0]
            if p is not None:
                a, b = (p == c), (c == p)
                if a != b:
                    return "NOT-EQUAL"
            return "unit"
        if kind == "eq":
            return "unit" if (c == twin and twin == c) else "NOT-EQUAL"
        if kind == "ne":
            return "unit" if not (c != twin) else "NOT-EQUAL"
        if kind == "iterpart":
            # the public sequences walked the ways readers walk them: a loop left early, a first element, membership, a reversed walk, a
            # second iterator started before the first is exhausted
            seqs = [c.sync_track.bpm_events, c.sync_track.time_signature_events, c.sync_track.anchor_events, c.global_events_track.text_events,
                    c.global_events_track.section_events, c.global_events_track.lyric_events]
            for dd in c.instrument_tracks.values():
                for tr in dd.values():
                    seqs += [tr.note_events, tr.star_power_events, tr.track_events]
            x = seqs[op[1] % len(seqs)]
            how = (op[1] >> 8) % 5
            if how == 0:
                for _e in x:
                    break
            elif how == 1:
                next(iter(x), None)
            elif how == 2:
                it1, it2 = iter(x), iter(x)
                next(it1, None), next(it1, None), next(it2, None)
            elif how == 3:
                _ = (x[len(x) // 2] in x) if len(x) else (None in x)
            else:
                for _e in reversed(x):
                    break
            return "unit"
        ev, tracks = events_of(c)
        if kind == "hash":
            if ev:
                e = ev[op[1] % len(ev)]
                hash(e)
                str(e)
                repr(e)
            return "unit"
        if kind == "derived":
            pool = tracks + [e for e in ev if type(e).__name__ in ("NoteEvent", "StarPowerEvent")]
            if pool:
                o = pool[op[1] % len(pool)]
                for name in ("last_note_end_timestamp", "header_tag", "longest_sustain", "end_tick"):
                    if hasattr(type(o), name):
                        getattr(o, name)
            return "unit"
        if kind == "setattr":
            pool = tracks + ev + [c.sync_track, c.global_events_track, c.metadata, c.sync_track.bpm_events]
            o = pool[op[1] % len(pool)]
            f = dataclasses.fields(o)[op[1] % len(dataclasses.fields(o))].name
            # … or one of the object's derived public attributes (properties, cached properties), assigned *without* reading it first
            import functools
            derived = sorted(k for k in dir(type(o)) if not k.startswith("_") and isinstance(getattr(type(o), k, None), (property, functools.cached_property)))
            if derived and (op[1] >> 8) % 2:
                f = derived[(op[1] >> 9) % len(derived)]
                try:
                    setattr(o, f, None)
                    return "ASSIGNED:" + type(o).__name__ + "." + f
                except (dataclasses.FrozenInstanceError, AttributeError):
                    return "unit"
            try:
                setattr(o, f, getattr(o, f))
                return "ASSIGNED:" + type(o).__name__ + "." + f
            except dataclasses.FrozenInstanceError:
                return "unit"
        return "unit"
    except Exception as e:  # noqa: BLE001
        return "RAISED:" + type(e).__name__


def model_ops(ops):
    toks = []
    for op in ops:
        if op[0] == "getitem":
            toks.append(f"g{op[1]}")
        elif op[0] == "nps":
            toks.append(f"n{op[1]}.{op[2]}")
        elif op[0] == "derived":
            toks.append("c")
        else:
            toks.append("p")
    return ",".join(toks) if toks else "-"


def run_case(text, ops):
    """returns (problem or None, per-op outcomes, per-op key maps)"""
    c, e, _ = impl.parse(text)
    twin, _, _ = impl.parse(text)
    pt = permuted_text(text)
    _perm[0] = impl.parse(pt)[0] if pt is not None else None
    if c is None:
        return "parse-failed:" + impl.err_name(e), [], []
    obs0 = observation(c)
    keys0 = obs0.rsplit("|K ", 1)[1].split("|R ")[0]
    outs, maps, details = [], [], []
    problem = None
    for k, op in enumerate(ops):
        r = apply(c, twin, op)
        details.append(_detail[0])
        try:
            obs = observation(c)
        except Exception as ex:  # noqa: BLE001  the chart can no longer even be observed: it was changed beyond its own types
            obs = f"UNOBSERVABLE {type(ex).__name__}: {ex}|K ?|R ?"
        outs.append(r)
        maps.append(obs.rsplit("|K ", 1)[1].split("|R ")[0])
        if problem is None:
            if r.startswith(("NOT-EQUAL", "ASSIGNED", "RAISED")):
                problem = (k, op, r)
            elif obs != obs0:
                problem = (k, op, "observation changed: keys " + keys0 + " -> " + maps[-1])
            elif not (c == twin):
                problem = (k, op, "chart no longer equals its identically parsed twin")
    if problem is None:
        # what an operation answers is a function of the chart and the operation: the same operation on a freshly parsed copy,
        # with nothing asked before it, answers the same (checked for the value-producing operations, a bounded sample per case)
        idx = [k for k, op in enumerate(ops) if op[0] in ("tsat", "nps")]
        neg = [k for k in idx if ops[k][0] == "tsat" and ops[k][1] < 0][:6]  # refusals are where remembered state shows
        slid = [k for k in idx if ops[k][0] == "nps" and ops[k][3] in ("ticks", "tspan")][:8]  # windows that follow one another
        idx = sorted(set(idx[:4] + idx[4:][-8:] + neg + slid))  # the first few, the ones with the longest past, the refused ones
        for k in idx:
            fresh, _, _ = impl.parse(text)
            apply(fresh, twin, ops[k])
            if _detail[0] != details[k]:
                problem = (k, ops[k], f"answered {details[k]} after the operations before it, {_detail[0]} on a freshly parsed copy")
                break
    return problem, outs, maps, keys0


def assignment_sweep(text):
    """one instance of every event / track class of the chart × every declared field, every derived public attribute (not read before)
    and a new name: each assignment must be refused. Returns the accepted ones as (class, attribute)."""
    import functools
    c, e, _ = impl.parse(text)
    if c is None:
        return []
    ev, tracks = events_of(c)
    pool = tracks + ev + [c.sync_track, c.global_events_track, c.sync_track.bpm_events]
    seen, accepted = set(), []
    for o in pool:
        if type(o) in seen:
            continue
        seen.add(type(o))
        derived = sorted(k for k in dir(type(o)) if not k.startswith("_") and isinstance(getattr(type(o), k, None), (property, functools.cached_property)))
        for f in derived + [f_.name for f_ in dataclasses.fields(o)] + ["verif_new_attribute"]:
            try:
                setattr(o, f, None)
                accepted.append((type(o).__name__, f))
            except (dataclasses.FrozenInstanceError, AttributeError):
                pass
    return accepted


def slice(ctx: fw.Ctx) -> fw.Outcome:
    out = fw.Outcome(RULE)
    rng = ctx.sub("ops")
    prof = gen.Profile(max_tracks=3, max_groups=6, garbage=0.0, unknown_sections=0.0, exotic_pad=0.0, exotic_digits=0.0)
    reqs, meta = [], []
    for _ in range(ctx.n(60, 6000)):
        src = gen.rand_src(rng, prof)
        if src.tracks and rng.random() < 0.5:  # several difficulties of one instrument, in any file order
            inst = src.tracks[0].inst
            diffs = rng.sample(range(4), min(4, len(src.tracks)))
            for tr, d in zip(src.tracks, diffs):
                tr.inst, tr.diff = inst, d
        if rng.random() < 0.25:
            # a long tempo map (40 tempo events within a few hundred ticks): lookups deep into it, then again before its start
            t_, tempo_ = 0, []
            # … either packed before most notes, or stretching far past the last note (parsing then never looks deep into it)
            ends = [g.tick + gen.longest_truth(g) for tr in src.tracks for g in tr.groups] + [t for t, _, _ in src.gevents] + [0]
            step = rng.randint(1, 9) if rng.random() < 0.5 else max(ends) // rng.choice([8, 16, 24]) + 1
            for _ in range(rng.randint(34, 48)):
                tempo_.append((t_, rng.choice([120000, 60000, 90000, 150000, 200000])))
                t_ += rng.randint(step, step + 8)
            src.tempo = tempo_
            src.tss = [ts for ts in src.tss if ts[0] <= max(ends)] or [(0, 4, None)]
        if rng.random() < 0.15 and src.tracks:
            # a tempo so fast that neighbouring ticks share a microsecond: notes, phrases and events that coincide in time but not in tick
            src.res, src.meta["resolution"] = 192, 192
            src.tempo, src.anchors = [(0, rng.choice([960000000, 999999999, 500000000]))], []
            src.tss = [(0, 4, None)]
            for tr in src.tracks:
                for k, g in enumerate(tr.groups):
                    g.tick = k
                    g.forced = False
                tr.phrases = [(k, 1) for k in range(min(3, len(tr.groups)))]
                tr.tevents = [(k, "x") for k in range(min(2, len(tr.groups)))]
            src.gevents = [(k, kind, v) for k, (_, kind, v) in enumerate(src.gevents)]
        if rng.random() < 0.3:
            # a left-over section: star-power phrases and track events but not a single note (rate queries on it fail)
            free = [(i, d) for i in range(10) for d in range(4) if (i, d) not in {(t.inst, t.diff) for t in src.tracks}]
            i_, d_ = rng.choice(free)
            src.tracks.append(gen.TrackSrc(i_, d_, [], [(rng.randint(0, 500), rng.randint(0, 50)) for _ in range(rng.randint(1, 3))],
                                           [(rng.randint(0, 500), rng.choice(["solo", "soloend", "x"])) for _ in range(rng.randint(1, 3))]))
            src.tracks[-1].phrases.sort()
            src.tracks[-1].tevents.sort()
        if rng.random() < 0.35:
            # a chart with a very late event (ticks of eight and more digits), after the ordinary ones
            late = rng.randint(10**7, 10**9)
            src.gevents.append((late, "section", "Outro"))
            if src.tracks:
                src.tracks[-1].groups.append(gen.NoteGroup(late + 5, {rng.randrange(5): 0}))
        R = gen.render(src, rng, prof)
        c, e, _ = impl.parse(R.text)
        if c is None:
            continue
        if len(meta) < ctx.n(25, 1500):
            acc = assignment_sweep(R.text)
            out.case("As" + fw.h(R.text), True, None, tags=["assignment-sweep"])
            if acc:
                out.violation("assign-" + fw.h([R.text, acc[0]]), f"attribute assignment accepted: {acc[0][0]}.{acc[0][1]} = None" + (f" (and {len(acc) - 1} more: {acc[1:4]})" if len(acc) > 1 else ""),
                              {"op": "assign", "text": R.text, "cls": acc[0][0], "attr": acc[0][1]}, observed="accepted", promised="FrozenInstanceError")
        ops = rand_ops(rng, c, rng.randint(1, 40))
        res = run_case(R.text, ops)
        problem, outs, maps, keys0 = res
        present = {(t.inst) for t in src.tracks}
        absent_op = any((op[0] in ("getitem", "nps")) and op[1] not in present for op in ops)
        out.case(fw.h([R.text, ops]), absent_op, {"ops": [list(o) for o in ops[:6]], "tracks": sorted(present)},
                 tags=[o[0] for o in ops])
        if problem:
            k, op, what = problem
            # minimise: the single op on a fresh chart
            p1 = run_case(R.text, [op])[0]
            rops = [op] if p1 else ops[: k + 1]
            out.violation("ops-" + fw.h([R.text, rops]), f"read-only operation {list(op)} : {what}",
                          {"op": "ops", "text": R.text, "ops": [list(o) for o in rops]}, observed=what,
                          promised="observation and twin equality unchanged")
        # correspondence with the container state machine
        mp = keys0 if keys0 else "-"
        reqs.append(f"obj {mp} {model_ops(ops)}")
        meta.append((R.text, ops, outs, maps))
    mod = driver.run_parallel(reqs)
    for (text, ops, outs, maps), m in zip(meta, mod):
        out.traces += 1
        mm = m.split(" ") if m else []
        for k, (op, o, mp) in enumerate(zip(ops, outs, maps)):
            if k >= len(mm):
                break
            mo, mmap = mm[k].split("|")
            io = o if op[0] in ("getitem", "nps") else "unit"
            if op[0] == "nps" and mo == "found" and io == "ValueError":
                io = "found"  # the model covers the look-up; empty tracks / bad intervals are C16's model
            if (io, mp) != (mo, mmap) and not o.startswith(("NOT-EQUAL", "ASSIGNED", "RAISED")):
                out.corr_mismatch(f"op {list(op)} on a chart with keys {maps[0] if k else '…'}",
                                  {"op": "ops", "text": text, "ops": [list(x) for x in ops[: k + 1]]}, impl=f"{io}|{mp}", model=mm[k])
                break
    return out


def replay(ctx: fw.Ctx, data: dict):
    if data.get("op") == "assign":
        acc = assignment_sweep(data["text"])
        return (data["cls"], data["attr"]) in acc or ([data["cls"], data["attr"]] in [list(a) for a in acc]), str(acc[:5])
    ops = [tuple(o) for o in data["ops"]]
    res = run_case(data["text"], ops)
    return bool(res[0]), str(res[0])
