"""C08 — tempo, time-signature and anchor lines decode to exact values."""
from __future__ import annotations

import random

from .. import common, driver, gen, impl
from .. import framework as fw

GEN_SECTIONS = ["Unicode", "Regexes", "Tables"]
# arithmetic leaf functions whose ASTs are dumped from /repo and proved equal to the hand model (lean/Chartparse/Tie/<X>.lean)
LEAVES = {'BpmDecode': 'bpm', 'BpmValid': 'valid', 'Anchor': 'anchor', 'BpmStep': ['tslower', 'bpmstep'], 'ComposeSync': [], 'LoopTracks': []}
IMP = ['syncFromChartLines', 'syncParseData', 'buildEventsFromData']  # functions dumped as terms of the imperative embedding, run against CPython on every run
TRUSTED = [
    "leaf ties: Py.evalBody (embedded Python subset, validated against CPython on random expressions and against the real leaf functions every run) + the AST dump",
    "Lean 4 kernel; axioms ⊆ {propext, Classical.choice, Quot.sound}",
    "translator: sre parse tree of the shipped B/TS/A patterns -> Re terms; Python's \\d/\\s tables",
    "hand model of BPM decode (`int(raw)/1000`), `round(bpm,3)` validation, `2**lower`, anchor microseconds; "
    "tied by bit-exact differential execution",
    "CPython: IEEE-754 binary64 division and round(), int() of Unicode digits, re backtracking semantics",
]
ASSUMPTIONS = ["values n < 2^52 for the proved acceptance theorem (the slice also samples larger n)"]
RULE = ("(a) every n in 1..N (quick N=20000, thorough N=10^7) plus past failures and random/huge n through the real "
        "BPMEvent.from_parsed_data; promised: accepted and bpm == the float nearest n/1000; (b) rendered B/TS/A lines "
        "(paddings, digit scripts, leading zeros) through the real from_chart_line and whole charts; a case is "
        "non-trivial if n has a non-zero thousandths part or the line carries padding/non-ASCII digits/optional group; "
        "distinct by value or line text")


def _bpm_impl(n: int):
    from datetime import timedelta  # noqa: F401

    from chartparse.sync import BPMEvent

    try:
        e = BPMEvent.from_parsed_data(BPMEvent.ParsedData(tick=0, raw_bpm=str(n)), None, 192)
        return e.bpm
    except ValueError:
        return "ValueError"
    except Exception as ex:  # noqa: BLE001
        return "internal:" + type(ex).__name__


def _range_chunk(args):
    lo, hi = args
    bad = []
    nontriv = 0
    for n in range(lo, hi):
        r = _bpm_impl(n)
        if n % 1000:
            nontriv += 1
        if r != n / 1000:
            if len(bad) < 20:
                bad.append((n, r if isinstance(r, str) else r.as_integer_ratio()))
    return hi - lo, nontriv, bad


def bpm_values(ctx: fw.Ctx, out: fw.Outcome):
    rng = ctx.sub("bpm")
    N = ctx.n(20_000, 10_000_000)
    step = max(1, N // (ctx.jobs * 4))
    chunks = [(lo, min(N + 1, lo + step)) for lo in range(1, N + 1, step)]
    for total, nontriv, bad in common.parallel(ctx, _range_chunk, chunks):
        out.evaluations += total
        for n, r in bad:
            out.violation(f"bpm-{n}", f"`0 = B {n}` does not decode to the float nearest {n}/1000 (got {r})",
                          {"op": "bpm", "n": n}, observed=str(r), promised=gen.nearest_float_ratio(n))
    # distinct non-trivial: counted arithmetically for the exhaustive range (every n with a thousandths part)
    out.keys |= {f"n{n}" for n in range(1, min(N, 3000) + 1) if n % 1000}
    out.notes.append(f"exhaustive range 1..{N}: every value checked against the nearest float")
    out.exhaustive = True
    # corpus + random + huge, compared with the model bit for bit
    vals = list(gen.C08_PAST) + [1, 999, 1000, 1001, 10**6, 10**9, 2**52 - 1, 2**53 + 1, 10**18 + 7]
    vals += [rng.randint(1, 10**7) for _ in range(ctx.n(300, 20000))]
    vals += [rng.randint(10**7, 10**12) for _ in range(ctx.n(100, 5000))]
    vals += [rng.randint(10**12, 2**60) for _ in range(ctx.n(50, 2000))]
    mod = driver.run_parallel([f"bpm {n}" for n in vals])
    for n, m in zip(vals, mod):
        r = _bpm_impl(n)
        want = n / 1000
        ist = "ValueError" if isinstance(r, str) else impl.rat(r) + " true"
        if m.endswith("false"):
            m = "ValueError"
        out.case(f"n{n}", n % 1000 != 0, {"line": f"0 = B {n}", "bpm": str(r)}, tags=["bpm-vs-model"])
        out.traces += 1
        if r != want:
            out.violation(f"bpm-{n}", f"`0 = B {n}` does not decode to the float nearest {n}/1000 (got {r})",
                          {"op": "bpm", "n": n}, observed=str(r), promised=gen.nearest_float_ratio(n))
        if ist != m:
            out.corr_mismatch(f"decodeBpm {n}", {"op": "bpm", "n": n}, impl=ist, model=m)
        if r == want and m != impl.rat(want) + " true":
            out.model_bug(f"decodeBpm {n}", {"op": "bpm", "n": n}, model=m, promised=impl.rat(want))


def _line_impl(kind: str, line: str):
    from chartparse.exceptions import RegexNotMatchError
    from chartparse.sync import AnchorEvent, BPMEvent, TimeSignatureEvent

    cls = {"bpm": BPMEvent, "ts": TimeSignatureEvent, "anchor": AnchorEvent}[kind].ParsedData
    try:
        d = cls.from_chart_line(line)
    except RegexNotMatchError:
        return "none"
    except Exception as ex:  # noqa: BLE001
        return "internal:" + type(ex).__name__
    if kind == "bpm":
        return f"bpm {d.tick} {impl.cps(d.raw_bpm)}"
    if kind == "ts":
        return f"ts {d.tick} {d.upper} {'~' if d.lower is None else d.lower}"
    return f"anchor {d.tick} {d.microseconds}"


KIND_ID = {"bpm": 3, "ts": 4, "anchor": 5}


def lines(ctx: fw.Ctx, out: fw.Outcome):
    rng = ctx.sub("lines")
    prof = gen.Profile(exotic_pad=0.4, exotic_digits=0.3)
    cases = []
    for _ in range(ctx.n(1500, 150_000)):
        kind = rng.choice(["bpm", "ts", "ts", "anchor"])
        t = rng.choice([0, rng.randint(0, 10**4), rng.randint(0, 10**9), rng.randint(0, 10**30)])
        tick_s = gen.num(rng, prof, t)
        if kind == "bpm":
            n = rng.choice([rng.randint(1, 10**7), rng.choice(gen.C08_PAST), rng.randint(1, 10**20), rng.randint(10**28, 10**40), 10000000000000001979711487999])
            ns = gen.num(rng, prof, n)
            line = f"{gen.pad(rng, prof)}{tick_s} = B {ns}{gen.pad(rng, prof, '')}"
            truth = f"bpm {t} {impl.cps(ns)}"
        elif kind == "ts":
            u = rng.choice([rng.randint(0, 16), rng.randint(0, 10**6)])
            l = rng.choice([None, None, rng.randint(0, 16)])
            low = "" if l is None else " " + gen.num(rng, prof, l)
            line = f"{gen.pad(rng, prof)}{tick_s} = TS {gen.num(rng, prof, u)}{low}{gen.pad(rng, prof, '')}"
            truth = f"ts {t} {u} {'~' if l is None else l}"
        else:
            us = rng.choice([0, rng.randint(0, 10**8), rng.randint(0, 10**14)])
            line = f"{gen.pad(rng, prof)}{tick_s} = A {gen.num(rng, prof, us)}"
            truth = f"anchor {t} {us}"
        if rng.random() < 0.2:
            # a line that still carries its line feed (a file object or an open stream handed to from_chart_lines) is the same line
            cases.append((kind, line + "\n", truth))
        near = rng.random() < 0.25
        if near:  # one-token near miss: must not be accepted as this kind with different values
            line2 = perturb(rng, line)
            from . import line_common as lc
            cases.append((kind, line2, lc.spec(kind, line2)))
        cases.append((kind, line, truth))
    mod = driver.run_parallel([f"line {KIND_ID[k]} {driver.cps(l)}" for k, l, _ in cases])
    for (k, l, truth), m in zip(cases, mod):
        i = _line_impl(k, l)
        nontriv = truth in (None, "none") or any(ord(c) > 127 or c == "\t" for c in l) or l != l.strip() or k == "ts"
        out.case("L" + fw.h(l), nontriv, {"kind": k, "line": l, "decoded": i}, tags=[k, "accepted" if i != "none" else "rejected"])
        out.traces += 1
        if i != m:
            out.corr_mismatch(f"{k} recogniser on {l!r}", {"op": "line", "kind": k, "line": l}, impl=i, model=m)
        if truth is not None and i != truth:
            out.violation("line-" + fw.h(l), f"canonical {k} line {l!r} decoded as {i}, promised {truth}",
                          {"op": "line", "kind": k, "line": l, "truth": truth}, observed=i, promised=truth)
        if truth is not None and i == truth and m != truth:
            out.model_bug(f"{k} line {l!r}", {"op": "line", "kind": k, "line": l}, model=m, promised=truth)


def perturb(rng: random.Random, line: str) -> str:
    ops = [
        lambda s: s.replace(" = ", " =", 1), lambda s: s.replace(" = ", "= ", 1), lambda s: s.replace(" = ", " == ", 1),
        lambda s: s.replace(" B ", " b ", 1).replace(" TS ", " T S ", 1).replace(" A ", " a ", 1),
        lambda s: s + "x", lambda s: "x" + s, lambda s: s.replace(" B ", " B -", 1).replace(" A ", " A +", 1),
        lambda s: s.replace(" TS ", " TS  ", 1), lambda s: s + " 1 2", lambda s: s.rstrip() + ".5",
        lambda s: s.replace(" = ", " = E ", 1), lambda s: s[: max(1, len(s) // 2)],
    ]
    return rng.choice(ops)(line)


def charts(ctx: fw.Ctx, out: fw.Outcome):
    """whole charts: tempo value, u/4, u/2^l and anchor microseconds as the parsed chart reports them"""
    rng = ctx.sub("charts")
    prof = gen.Profile(max_tracks=0, max_events=0, garbage=0.0, unknown_sections=0.0, meta_fields=0.0)
    cases = []
    for _ in range(ctx.n(150, 15000)):
        src = gen.rand_src(rng, prof)
        # more signatures and anchors
        t = 0
        for _ in range(rng.randint(0, 4)):
            t += rng.randint(1, 1000)
            src.tss.append((t, rng.randint(0, 64), rng.choice([None, rng.randint(0, 16)])))
        src.tss.sort(key=lambda x: x[0])
        src.anchors = [(rng.choice([0, 5, 768, rng.randint(0, 5000)]), rng.choice([0, rng.randint(0, 10**9), rng.randint(2**53, 2**56), rng.randint(10**16, 8 * 10**19),
                                                                                    2**53 + 1, 8670214808394963]))
                       for _ in range(rng.randint(0, 4))]  # microsecond values beyond what a double holds exactly
        # anchors are reported in file order: several on one tick keep the order they were written in, whatever their values
        src.anchors.sort(key=lambda a_: a_[0])
        cases.append((src, gen.render(src, rng, prof)))
    # always: tempo, signature and anchor lines at ticks beyond 2^31 / 2^32 / 2^33 (ten and more digits) …
    for far in (2**31 - 1, 2**32 - 1, 2**32, 2**32 + 192, 2**33 + 7, 10**10, 10**12):
        src = gen.rand_src(rng, prof)
        src.res = src.meta["resolution"] = 192
        src.tempo = [(0, 120000), (far, 90000), (far + 5, 150500)]
        src.tss = [(0, 4, None), (far, 3, 3), (far + 1, 7, None)]
        src.anchors = [(far, 12345), (far + 2, 2**40)]
        cases.append((src, gen.render(src, rng, gen.Profile(max_tracks=0, max_events=0, garbage=0.0, unknown_sections=0.0, meta_fields=0.0, exotic_pad=0.0, exotic_digits=0.0))))
    # … and the shortest lines there are: one-digit ticks and values, no indentation, nothing after the number
    for body in (["0 = TS 4", "0 = B 5", "0 = A 0", "8 = A 9"], ["0 = B 1", "0 = TS 1", "1 = B 2", "1 = TS 2 0", "9 = A 1"], ["0 = TS 9 0", "0 = B 9"]):
        text = "[Song]\n{\n  Resolution = 192\n}\n[SyncTrack]\n{\n" + "\n".join(body) + "\n}\n[Events]\n{\n}\n"
        tempo_ = [(int(l.split()[0]), int(l.split()[3])) for l in body if " B " in l]
        tss_ = [(int(l.split()[0]), int(l.split()[3]), (int(l.split()[4]) if len(l.split()) > 4 else None)) for l in body if " TS " in l]
        an_ = [(int(l.split()[0]), int(l.split()[3])) for l in body if " A " in l]
        src = gen.ChartSrc(192, {"resolution": 192}, tempo_, tss_, an_, [], [], [])
        R_ = gen.Rendered()
        R_.text, R_.sections, R_.lines = text, [("Song", ["  Resolution = 192"]), ("SyncTrack", body), ("Events", [])], text.split("\n")
        cases.append((src, R_))
    a, b = common.run_charts([(R.text, None) for _, R in cases])
    for (src, R), x, y in zip(cases, a, b):
        dx, dy = gen.parse_dump(x), gen.parse_dump(y)
        pj = lambda d: (common.status(d), [(t, r) for t, r, _ in d.get("bpm", [])], [e[:3] for e in d.get("ts", [])], d.get("anchor"))
        truth = ("OK", [(t, gen.nearest_float_ratio(n)) for t, n in src.tempo],
                 [(t, u, 4 if l is None else 2 ** l) for t, u, l in src.tss], [tuple(a_) for a_ in src.anchors])
        out.case("C" + fw.h(R.text), len(src.tss) > 1 or bool(src.anchors), None, tags=["chart"])
        out.traces += 1
        if pj(dx) != pj(dy):
            out.corr_mismatch("sync values of a chart", common.chart_replay(R.text), impl=str(pj(dx))[:400], model=str(pj(dy))[:400])
        if pj(dx) != truth:
            out.violation("chart-" + fw.h(R.text), "sync section values differ from the written ones",
                          {**common.chart_replay(R.text), "truth": list(truth)}, observed=str(pj(dx))[:600], promised=str(truth)[:600])
        elif pj(dy) != truth:
            out.model_bug("sync values", common.chart_replay(R.text), model=str(pj(dy))[:400], promised=str(truth)[:400])


def slice(ctx: fw.Ctx) -> fw.Outcome:
    out = fw.Outcome(RULE)
    bpm_values(ctx, out)
    lines(ctx, out)
    charts(ctx, out)
    from .. import direct
    direct.run(ctx, out, 'sync', gen.Profile(max_tracks=0, max_events=0, unknown_sections=0.0, meta_fields=0.0, exotic_pad=0.2, exotic_digits=0.1))  # every way of handing the section's lines over decodes the same
    return out


def replay(ctx: fw.Ctx, data: dict):
    if data.get("op") == "direct-section":
        from .. import direct
        return direct.replay(data)
    if data["op"] == "bpm":
        n = data["n"]
        r = _bpm_impl(n)
        return r != n / 1000, str(r)
    if data["op"] == "line":
        i = _line_impl(data["kind"], data["line"])
        return ("truth" in data and i != data["truth"]), i
    if data["op"] == "chart":
        x = impl.run_chart(data["text"], data.get("want"))
        d = gen.parse_dump(x)
        pj = (common.status(d), [(t, r) for t, r, _ in d.get("bpm", [])], [e[:3] for e in d.get("ts", [])], d.get("anchor"))
        tr = data.get("truth")
        if tr is None:
            return False, str(pj)[:500]
        norm = lambda v: repr(v).replace("(", "[").replace(")", "]")
        return norm(pj) != norm(tuple(tr)), str(pj)[:500]
    return None, "unknown replay op"
