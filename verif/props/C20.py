"""C20 — every module is importable first; import order does not matter."""
from __future__ import annotations

import itertools
import json
import os
import subprocess
from concurrent.futures import ThreadPoolExecutor

from .. import driver
from .. import framework as fw

GEN_SECTIONS = ["Imports"]
TRUSTED = [
    "Lean 4 kernel (`decide +kernel` evaluates the closure check); axioms ⊆ {propext, Classical.choice, Quot.sound}",
    "translator: AST of all chartparse/*.py -> ordered top-level import/def statements (function bodies, "
    "TYPE_CHECKING blocks and string annotations skipped; unsupported top-level constructs fail translation)",
    "hand model of CPython's import statement semantics with partially initialised modules; tied by running the same "
    "import orders in fresh interpreters",
    "CPython import machinery itself",
]
ASSUMPTIONS = ["chartparse/__init__.py stays empty (checked by the translator)"]
RULE = ("fresh interpreters: all 12 first-imports and all 132 ordered pairs exhaustively, plus seeded longer permutations "
        "(quick 40, thorough 2000); promised: every import succeeds and every module ends with the same public names "
        "bound to the same objects as in the reference order; non-trivial = at least two imports; distinct by order")

SCRIPT = r"""
import sys, json, importlib, types, inspect
order = json.loads(sys.argv[1])
FORM = sys.argv[2] if len(sys.argv) > 2 else "module"
PRE = sys.argv[3] if len(sys.argv) > 3 else ""
_out = sys.stdout
# what a client may legitimately have done to its own process before it first imports the package
if PRE == "decimal-strict":
    import decimal
    for _c in (decimal.getcontext(), decimal.DefaultContext):
        _c.traps[decimal.FloatOperation] = True
        _c.prec = 3
        _c.rounding = decimal.ROUND_DOWN
elif PRE == "no-stdio":
    sys.stdout = sys.stderr = sys.stdin = None
elif PRE == "duck-stdio":
    class _Tee:
        def write(self, s): return len(s)
        def flush(self): pass
    sys.stdout = sys.stderr = _Tee()
elif PRE == "logging-set-up":
    import logging
    logging.getLogger().addHandler(logging.NullHandler())
    logging.getLogger().setLevel(logging.DEBUG)
    logging.getLogger("chartparse").setLevel(logging.ERROR)
    logging.disable(logging.CRITICAL)
elif PRE == "warnings-error":
    import warnings
    warnings.simplefilter("error")
elif PRE == "namesake":
    # the client's own adapter module is named after the library it wraps
    import types
    for _n in ("myapp", "myapp.parsers", "myapp.parsers.chartparse", "vendor.chartparse"):
        sys.modules[_n] = types.ModuleType(_n)
elif PRE == "elsewhere":
    import os
    os.chdir("/")
steps = []
for _k, m in enumerate(order):
    try:
        if FORM == "thread" and _k == 0:
            # the first import of the process happens in a helper thread that has ended before the next import starts
            import threading
            _box = []
            def _imp():
                try:
                    importlib.import_module("chartparse." + m)
                except BaseException as e:
                    _box.append(e)
            _t = threading.Thread(target=_imp); _t.start(); _t.join()
            if _box: raise _box[0]
        elif FORM == "stmt":
            exec("import chartparse." + m, {})
        elif FORM == "from":
            _ns = {}
            exec("from chartparse import " + m, _ns)
            if _ns.get(m) is not sys.modules.get("chartparse." + m) or not isinstance(_ns.get(m), types.ModuleType):
                # the statement went through but the name is bound to something that is not the package's module of that name
                raise ImportError("BoundToOtherObject")
        elif FORM == "dunder":
            __import__("chartparse." + m, fromlist=["*"])
        elif FORM == "star":
            exec("from chartparse." + m + " import *", {})
        else:
            importlib.import_module("chartparse." + m)
        steps.append("ok")
    except BaseException as e:
        steps.append("fail:" + type(e).__name__)
        break
def plain(x, depth=0):
    # public class-level state, canonically: numbers / strings / None, classes and functions by name, containers of those
    if isinstance(x, (str, int, float, bool, type(None))): return repr(x)
    if inspect.isclass(x) or inspect.isfunction(x): return "<" + getattr(x, "__module__", "?") + "." + getattr(x, "__qualname__", "?") + ">"
    if depth < 3 and isinstance(x, (list, tuple)): return "[" + ",".join(plain(y, depth + 1) for y in x) + "]"
    if depth < 3 and isinstance(x, (set, frozenset)): return "{" + ",".join(sorted(plain(y, depth + 1) for y in x)) + "}"
    if depth < 3 and isinstance(x, dict): return "{" + ",".join(plain(k, depth + 1) + ":" + plain(y, depth + 1) for k, y in x.items()) + "}"
    return "<" + type(x).__name__ + ">"
def class_state(c):
    import hashlib
    items = []
    for k, x in sorted(vars(c).items()):
        if k.startswith("_") or callable(x) or isinstance(x, (property, classmethod, staticmethod)) or hasattr(x, "__get__"): continue
        items.append(k + "=" + plain(x))
    return hashlib.sha256("|".join(items).encode("utf-8", "replace")).hexdigest()[:12] if items else ""
def descr(v):
    if isinstance(v, types.ModuleType): return ["module", v.__name__]
    if inspect.isclass(v) and getattr(v, "__module__", "").startswith("chartparse."):
        return ["obj", v.__module__, getattr(v, "__qualname__", "?"), "state:" + class_state(v)]
    if inspect.isclass(v) or inspect.isfunction(v): return ["obj", getattr(v, "__module__", "?"), getattr(v, "__qualname__", "?")]
    if isinstance(v, (str, int, float, bool, type(None))): return ["const", repr(v)]
    r = repr(v)
    return ["other", type(v).__name__, r if " at 0x" not in r and len(r) < 300 else ""]
mods = {}
ids = {}
for name, mod in sorted(sys.modules.items()):
    if name.startswith("chartparse.") and mod is not None and getattr(getattr(mod, "__spec__", None), "_initializing", False) is False:
        ns = {}
        for k, v in sorted(vars(mod).items()):
            if k.startswith("_"): continue
            ns[k] = descr(v)
            if inspect.isclass(v) or inspect.isfunction(v):
                # identity with the defining module's current binding
                dm = sys.modules.get(getattr(v, "__module__", ""))
                if dm is not None and name != getattr(v, "__module__", "") and "<locals>" not in getattr(v, "__qualname__", ""):
                    cur = dm
                    try:
                        for part in v.__qualname__.split("."): cur = getattr(cur, part)
                        ns[k].append(cur is v)
                    except AttributeError:
                        ns[k].append(False)
        mods[name.split(".", 1)[1]] = ns
# every imported module is usable with what this import order loaded (nothing further is imported here)
use = []
if all(s_ == "ok" for s_ in steps):
    import io
    from datetime import timedelta
    M = lambda n: sys.modules.get("chartparse." + n)
    def attempt(name, f):
        try:
            f()
            use.append([name, "ok"])
        except BaseException as e:
            use.append([name, type(e).__name__ + ": " + str(e)[:120]])
    SYNC = ["  0 = TS 4", "  0 = B 120000", "  96 = B 60000", "  5 = A 0"]
    if M("tick"): attempt("tick", lambda: (M("tick").seconds_from_ticks_at_bpm(1, 120.0, 192), M("tick").note_duration_to_ticks(192, M("tick").NoteDuration.EIGHTH_TRIPLET)))
    if M("time"): attempt("time", lambda: M("time").add(timedelta(0), 1.5))
    if M("metadata"): attempt("metadata", lambda: M("metadata").Metadata.from_chart_lines(["  Resolution = 192", '  Name = "x"']))
    if M("exceptions"): attempt("exceptions", lambda: str(M("exceptions").RegexNotMatchError("^a$", "b")))
    if M("sync"):
        attempt("sync", lambda: M("sync").SyncTrack.from_chart_lines(192, SYNC))
        attempt("sync.query", lambda: M("sync").SyncTrack.from_chart_lines(192, SYNC).bpm_events.timestamp_at_tick_no_optimize_return(100))
    if M("sync") and M("globalevents"):
        attempt("globalevents", lambda: M("globalevents").GlobalEventsTrack.from_chart_lines(['  7 = E "section a"', '  9 = E "lyric b"', '  9 = E "c"'],
                                                                                          M("sync").SyncTrack.from_chart_lines(192, SYNC).bpm_events))
    if M("sync") and M("instrument"):
        attempt("instrument", lambda: M("instrument").InstrumentTrack.from_chart_lines(
            M("instrument").Instrument.GUITAR, M("instrument").Difficulty.EXPERT, ["  0 = N 0 0", "  50 = N 1 10", "  50 = S 2 5", "  60 = E solo"],
            M("sync").SyncTrack.from_chart_lines(192, SYNC).bpm_events))
    if M("chart"):
        attempt("chart", lambda: str(M("chart").Chart.from_file(io.StringIO(
            "[Song]\n{\n  Resolution = 192\n}\n[SyncTrack]\n{\n  0 = TS 4\n  0 = B 120000\n}\n[Events]\n{\n  5 = E \"section a\"\n}\n[ExpertSingle]\n{\n  0 = N 0 0\n  3 = E solo\n}\n"))))
_out.write(json.dumps({"steps": steps, "mods": mods, "use": use}) + "\n")
_out.flush()
"""


def modules():
    return sorted(p.stem for p in (fw.REPO / "chartparse").glob("*.py") if p.stem != "__init__")


FORMS = ["module", "stmt", "from", "dunder"]


PRES = ["decimal-strict", "no-stdio", "duck-stdio", "logging-set-up", "warnings-error", "elsewhere", "namesake", "bad-locale"]


def run_order(order, flags=(), form="module", path=None, pre=""):
    # always compile from source (compile-time warnings exist only then): no bytecode is read or written
    env = dict(os.environ, PYTHONPATH=str(path or fw.REPO), PYTHONDONTWRITEBYTECODE="1", PYTHONPYCACHEPREFIX="/nonexistent/chartparse-verif-no-cache")
    if pre == "bad-locale":
        # a locale name the host does not have (ssh forwarding LANG into a minimal container): the interpreter starts normally
        env.update(LC_ALL="xx_XX.UTF-8", LANG="xx_XX.UTF-8")
    p = subprocess.run(["/venv/bin/python", *flags, "-c", SCRIPT, json.dumps(order), form, pre], stdout=subprocess.PIPE,
                       stderr=subprocess.PIPE, env=env, timeout=120)
    try:
        return json.loads(p.stdout.decode().strip().splitlines()[-1])
    except Exception:  # noqa: BLE001
        return {"steps": ["fail:crash"], "mods": {}, "stderr": p.stderr.decode()[-400:]}


def midx_(mods, o):
    return mods.index(o[0]) * 5 + mods.index(o[1])


def zipped_package(tmp):
    """the package as a zip archive on sys.path (zipapp / pex style deployment); sources only"""
    import zipfile
    z = os.path.join(tmp, "bundle.zip")
    with zipfile.ZipFile(z, "w") as zf:
        for p in sorted((fw.REPO / "chartparse").iterdir()):
            if p.is_file() and not p.name.endswith(".pyc"):
                zf.write(p, "chartparse/" + p.name)
    return z


def slice(ctx: fw.Ctx) -> fw.Outcome:
    out = fw.Outcome(RULE)
    mods = modules()
    rng = ctx.sub("orders")
    orders = [[m] for m in mods] + [list(p) for p in itertools.permutations(mods, 2)]
    for _ in range(ctx.n(40, 2000)):
        k = rng.randint(3, len(mods))
        orders.append(rng.sample(mods, k))
    for _ in range(ctx.n(5, 100)):
        o = mods[:]
        rng.shuffle(o)
        orders.append(o)
    # reference: chart first (the order the test-suite uses), then everything
    ref_order = ["chart"] + [m for m in mods if m != "chart"]
    ref = run_order(ref_order)
    # how the import is written is not part of the order: `import chartparse.x`, `from chartparse import x`, importlib, __import__
    forms = [FORMS[(i + ctx.seed) % 4] if len(o) != 2 else FORMS[(midx_(mods, o) + ctx.seed) % 4] for i, o in enumerate(orders)]
    with ThreadPoolExecutor(ctx.jobs) as ex:
        results = list(ex.map(lambda of: run_order(of[0], (), of[1]), zip(orders, forms)))
    midx = {m: i for i, m in enumerate(mods)}
    try:
        model = driver.run([f"imports {','.join(str(midx[m]) for m in o)}" for o in orders])
    except Exception as e:  # noqa: BLE001
        model = [None] * len(orders)
        out.notes.append(f"model driver unavailable: {e}")
    out.exhaustive = True  # first imports and ordered pairs are complete
    # the interpreter's own switches are part of "a fresh interpreter": every first import also under -O and -OO
    flagged = [([m], fl, FORMS[(i + j) % 4], None) for j, fl in enumerate((("-O",), ("-OO",), ("-W", "error"), ("-X", "warn_default_encoding", "-W", "error"), ("-X", "dev", "-W", "error"), ("-B", "-bb"))) for i, m in enumerate(mods)]
    # every module first, every way of writing the import (4 x 12, complete)
    flagged += [([m], (), f, None) for f in FORMS[1:] for m in mods]
    # … and as a star import: first, and after each other module in turn (the names a module exports exist whenever it is imported)
    flagged += [([m], (), "star", None) for m in mods] + [([mods[(i + 1 + ctx.seed) % len(mods)], m], (), "star", None) for i, m in enumerate(mods)]
    # every ordered pair with the first import made by a helper thread that has ended (12 x 11, complete)
    flagged += [([a, b], (), "thread", None) for a in mods for b in mods if a != b]
    # every module first in a process its client has already configured (decimal context, standard streams, logging, warnings, cwd)
    flagged += [([m], (), FORMS[(i + j) % 4], None, pre) for j, pre in enumerate(PRES) for i, m in enumerate(mods)]
    import shutil
    import tempfile
    tmp = tempfile.mkdtemp(prefix="chartparse-verif-zip-")
    try:
        z = zipped_package(tmp)
        flagged += [([m], (), FORMS[i % 4], z) for i, m in enumerate(mods)]
        with ThreadPoolExecutor(ctx.jobs) as ex:
            fres = list(ex.map(lambda of: run_order(*of), flagged))
    finally:
        shutil.rmtree(tmp, ignore_errors=True)
    for (o, fl, form, zp, *pre), r in zip(flagged, fres):
        fl = tuple(fl) + (("form=" + form,) if form != "module" else ()) + (("zip",) if zp else ()) + (("client=" + pre[0],) if pre else ())
        ok = all(s_ == "ok" for s_ in r["steps"]) and len(r["steps"]) == len(o)
        unusable = [u for u in r.get("use", []) if u[1] != "ok"]
        out.case(",".join(o) + "".join(fl), True, None, tags=["first-import" + "".join(fl)])
        if not ok or unusable:
            out.violation("flag-" + "".join(fl) + o[0], f"python {' '.join(fl)}: first import of chartparse.{o[0]} " + (f"fails ({r['steps'][-1]})" if not ok else f"leaves {unusable[0][0]} unusable: {unusable[0][1]}"),
                          {"op": "imports", "order": o, "flags": [x for x in fl if x.startswith("-") or x in ("error", "dev", "warn_default_encoding")], "form": form, "zip": bool(zp), "pre": pre[0] if pre else ""},
                          observed=r["steps"], promised="importable first under any interpreter switches, import form and package location")
    for o, r, m, form in zip(orders, results, model, forms):
        key = ",".join(o)
        ok = all(s == "ok" for s in r["steps"]) and len(r["steps"]) == len(o)
        out.case(key, len(o) >= 2, {"order": o, "steps": r["steps"]} if len(o) in (1, 12) else None,
                 tags=[f"len{min(len(o), 4)}", "ok" if ok else "fail"])
        replay = {"op": "imports", "order": o, "form": form}
        unusable = [u for u in r.get("use", []) if u[1] != "ok"]
        if not ok:
            out.violation("order-" + key, f"import order {o} fails at step {len(r['steps'])} ({r['steps'][-1]})",
                          replay, observed=r["steps"], promised="every import succeeds")
        elif unusable:
            out.violation("use-" + key, f"after import order {o} every import succeeded but {unusable[0][0]} cannot be used: {unusable[0][1]}",
                          replay, observed=unusable[:3], promised="an imported module works whatever was or was not imported before it")
        else:
            # same names bound to the same objects as in the reference order
            for mod, ns in r["mods"].items():
                rns = ref["mods"].get(mod)
                if rns is not None and ns != rns:
                    diff = {k: (ns.get(k), rns.get(k)) for k in set(ns) | set(rns) if ns.get(k) != rns.get(k)}
                    out.violation("ns-" + key + "-" + mod,
                                  f"after import order {o} module {mod} binds names differently from the reference order",
                                  replay, observed=str(diff)[:500], promised="identical namespaces")
                    break
                stale = [k for k, d in ns.items() if d[0] == "obj" and d[-1] is False]
                if stale:
                    out.violation("stale-" + key + "-" + mod, f"after import order {o} module {mod} holds stale objects {stale}",
                                  replay, observed=stale, promised="names bound to the defining module's current objects")
                    break
        if m is not None:
            out.traces += 1
            msteps = m.split(" | ")[0].split(" ")
            mok = all(s == "ok" for s in msteps)
            # the model stops at the first failure; compare success and the failing position
            ipos = next((i for i, s in enumerate(r["steps"]) if s != "ok"), None)
            mpos = next((i for i, s in enumerate(msteps) if s != "ok"), None)
            if ok != mok or ipos != mpos:
                out.corr_mismatch(f"import order {o}", replay, impl=r["steps"], model=m)
            elif ok and "good=true" not in m:
                out.corr_mismatch(f"import order {o}: model says state not good", replay, impl="ok", model=m)
    return out


def replay(ctx: fw.Ctx, data: dict):
    if data.get("zip"):
        import shutil
        import tempfile
        tmp = tempfile.mkdtemp(prefix="chartparse-verif-zip-")
        try:
            r = run_order(data["order"], tuple(data.get("flags", ())), data.get("form", "module"), zipped_package(tmp))
        finally:
            shutil.rmtree(tmp, ignore_errors=True)
    else:
        r = run_order(data["order"], tuple(data.get("flags", ())), data.get("form", "module"), None, data.get("pre", ""))
    ok = all(s == "ok" for s in r["steps"]) and len(r["steps"]) == len(data["order"])
    unusable = [u for u in r.get("use", []) if u[1] != "ok"]
    return (not ok) or bool(unusable), [r["steps"], unusable[:2]]
