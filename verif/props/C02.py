"""C02 — one note event per tick; lanes are exactly the lanes written."""
from __future__ import annotations

from .. import gen
from .. import framework as fw
from . import inst_common as ic

GEN_SECTIONS = ["Regexes", "Tables", "Unicode"]
TRUSTED = [
    "Lean 4 kernel; axioms ⊆ {propext, Classical.choice, Quot.sound}",
    "hand model of the grouping loop and Note.from_parsed_datas; generated Note / NoteTrackIndex tables and kind order",
    "tied by whole-chart differential execution; CPython list/enum semantics",
]
ASSUMPTIONS = ["N-line ticks non-decreasing in file order (well-formed section)"]
RULE = ("instrument sections with all 32 lane sets (each exhaustively at first / middle / last position per run), tick gaps "
        "incl. 1, S/E/garbage lines interleaved between the N lines of one tick, flags; promised: the generator's "
        "(tick → lane set) list; non-trivial = some group has ≥ 2 lines; distinct by chart text")


def project(notes):
    return [(n["tick"], n["lanes"]) for n in notes]


def slice(ctx: fw.Ctx) -> fw.Outcome:
    out = fw.Outcome(RULE)
    rng = ctx.sub("c02")
    p = ic.prof(phrases=0.7)
    cases = []
    # enumerated: every lane set (incl. open) at first, middle and last position
    allsets = [None] + [[l for l in range(5) if m >> l & 1] for m in range(1, 32)]
    for pos in range(3):
        for ls in allsets:
            src = gen.rand_src(rng, p)
            if not src.tracks:
                src.tracks.append(gen.TrackSrc(rng.randrange(10), rng.randrange(4), [], [], []))
            tr = src.tracks[0]
            while len(tr.groups) < 3:
                t = (tr.groups[-1].tick + rng.choice([1, 7, 100])) if tr.groups else 0
                tr.groups.append(gen.NoteGroup(t, {rng.randrange(5): 0}))
            g = tr.groups[[0, len(tr.groups) // 2, -1][pos]]
            if ls is None:
                g.lanes, g.open_len = {}, 0
            else:
                g.lanes, g.open_len = {l: 0 for l in ls}, None
            if pos == 0:
                g.forced = False
            cases.append((src, gen.render(src, rng, p)))
    for _ in range(ctx.n(150, 15_000)):
        src = gen.rand_src(rng, p)
        cases.append((src, gen.render(src, rng, p)))
    cases += ic.far_cases(rng, ic.prof(garbage=0.0, exotic_pad=0.0, exotic_digits=0.0))  # ticks and lengths beyond 2^53, adjacent ticks
    ic.run(ctx, out, cases, project, lambda tl: [(t["tick"], t["lanes"]) for t in tl], "note ticks and lanes",
           lambda src: any(len(g.lanes) + g.tap + g.forced >= 2 for tr in src.tracks for g in tr.groups))
    ic.stable_under_reads(ctx, out, cases, "note events")
    return out


def replay(ctx, data):
    return ic.replay_chart(data, lambda notes: [[n["tick"], n["lanes"]] for n in notes])
