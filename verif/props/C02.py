"""C02 — one note event per tick; lanes are exactly the lanes written."""
from __future__ import annotations

from .. import common, gen, impl
from .. import framework as fw
from . import inst_common as ic

GEN_SECTIONS = ["Regexes", "Tables", "Unicode"]
LEAVES = {'LoopGroups': [], 'ComposeLoopGroups': [], 'LoopLanes': [], 'LoopTracks': []}
IMP = ['buildNoteEvents', 'noteFromParsedDatas', 'noteFromParsedData', 'instrumentFromChartLines', 'instrumentParseData']  # functions dumped as terms of the imperative embedding, run against CPython on every run
TRUSTED = [
    "Lean 4 kernel; axioms ⊆ {propext, Classical.choice, Quot.sound}",
    "hand model of the grouping loop and Note.from_parsed_datas; generated Note / NoteTrackIndex tables and kind order",
    "tied by whole-chart differential execution; CPython list/enum semantics",
]
ASSUMPTIONS = ["N-line ticks non-decreasing in file order (well-formed section)"]
RULE = ("instrument sections with all 32 lane sets (each exhaustively at first / middle / last position per run), tick gaps "
        "incl. 1, S/E/garbage lines interleaved between the N lines of one tick, flags; promised: the generator's "
        "(tick → lane set) list; non-trivial = some group has ≥ 2 lines; distinct by chart text")


def project(notes):
    return [(n["tick"], n["lanes"]) for n in notes]


def slice(ctx: fw.Ctx) -> fw.Outcome:
    out = fw.Outcome(RULE)
    rng = ctx.sub("c02")
    p = ic.prof(phrases=0.7)
    cases = []
    # enumerated: every lane set (incl. open) at first, middle and last position
    allsets = [None] + [[l for l in range(5) if m >> l & 1] for m in range(1, 32)]
    for pos in range(3):
        for ls in allsets:
            src = gen.rand_src(rng, p)
            if not src.tracks:
                src.tracks.append(gen.TrackSrc(rng.randrange(10), rng.randrange(4), [], [], []))
            tr = src.tracks[0]
            while len(tr.groups) < 3:
                t = (tr.groups[-1].tick + rng.choice([1, 7, 100])) if tr.groups else 0
                tr.groups.append(gen.NoteGroup(t, {rng.randrange(5): 0}))
            g = tr.groups[[0, len(tr.groups) // 2, -1][pos]]
            if ls is None:
                g.lanes, g.open_len = {}, 0
            else:
                g.lanes, g.open_len = {l: 0 for l in ls}, None
            if pos == 0:
                g.forced = False
            cases.append((src, gen.render(src, rng, p)))
    for _ in range(ctx.n(150, 15_000)):
        src = gen.rand_src(rng, p)
        cases.append((src, gen.render(src, rng, p)))
    cases += ic.far_cases(rng, ic.prof(garbage=0.0, exotic_pad=0.0, exotic_digits=0.0))  # ticks and lengths beyond 2^53, adjacent ticks
    # several instruments and difficulties with their sections in any file order (also interleaved: A-easy, B-easy, A-expert, B-expert)
    pm = ic.prof(phrases=0.3, max_tracks=6, shuffle_sections=1.0, max_groups=5)
    for _ in range(ctx.n(40, 4000)):
        src = gen.rand_src(rng, pm)
        if len(src.tracks) >= 2 and rng.random() < 0.6:
            a_, b_ = src.tracks[0], src.tracks[1]
            for tr_, (i_, d_) in zip(src.tracks[:4], [(a_.inst, 0), (b_.inst if b_.inst != a_.inst else (a_.inst + 1) % 10, 0), (a_.inst, 3),
                                                      (b_.inst if b_.inst != a_.inst else (a_.inst + 1) % 10, 3)]):
                tr_.inst, tr_.diff = i_, d_
            src.tracks = src.tracks[:4]
            cases.append((src, gen.render(src, rng, ic.prof(phrases=0.3, max_tracks=6, shuffle_sections=0.0, max_groups=5))))  # written in exactly this interleaved order
        else:
            cases.append((src, gen.render(src, rng, pm)))
    cases += ic.revisit_cases(rng, ic.prof(garbage=0.0, flags=0.0), ctx.n(12, 1200))
    cases += ic.blank_line_cases(rng, ic.prof(garbage=0.0, phrases=0.4), ctx.n(25, 2500))
    ic.run(ctx, out, cases, project, lambda tl: [(t["tick"], t["lanes"]) for t in tl], "note ticks and lanes",
           lambda src: any(len(g.lanes) + g.tap + g.forced >= 2 for tr in src.tracks for g in tr.groups))
    ic.stable_under_reads(ctx, out, cases, "note events")
    long_sections(ctx, out)
    by_path(ctx, out, [R.text for _, R in cases[-40:]])
    from .. import direct as _direct
    _direct.run(ctx, out, 'instrument', ic.prof(flags=0.5, garbage=0.0, exotic_pad=0.25))  # the section's own public parser, given the lines between the braces (padding and all), builds the same track
    return out


def by_path(ctx, out, texts):
    """the file read by path, one lane digit changed in it by a save that keeps the file's size and times, read by path again: the
    second reading has the lanes the file has now (no line of the file as it stands is dropped in favour of what it said before)"""
    import os
    import re
    import tempfile
    from pathlib import Path

    from chartparse.chart import Chart
    done = 0
    with tempfile.TemporaryDirectory() as td:
        for k, old in enumerate(texts):
            m = re.search(r"(?m)^(\s*\d+ = N )([0-4])( \d+\s*)$", old)
            if not m or done >= ctx.n(3, 30) or impl.run_chart(old).startswith("E "):
                continue
            done += 1
            p = Path(td) / f"c{k}.chart"
            p.write_bytes(old.encode("utf-8"))
            try:
                Chart.from_filepath(p)
            except Exception:  # noqa: BLE001
                continue
            new = old[: m.start(2)] + str((int(m.group(2)) + 1) % 5) + old[m.end(2):]
            st = os.stat(p)
            p.write_bytes(new.encode("utf-8"))
            os.utime(p, ns=(st.st_atime_ns, st.st_mtime_ns))
            try:
                x = impl.dump_chart(Chart.from_filepath(p), [])
            except Exception as e:  # noqa: BLE001
                x = impl.err_name(e)
            ref = impl.run_chart(new)
            lanes = lambda dump: ([(key, [(n["tick"], n["lanes"]) for n in tr.get("notes", [])]) for key, tr in sorted(gen.parse_dump(dump)["tracks"].items())]  # noqa: E731
                                  if not dump.startswith("E ") else dump)
            out.case("path" + fw.h(new), True, None, tags=["by-path-resaved"])
            if lanes(x) != lanes(ref):
                out.violation("path-" + fw.h(new), "a file whose lane digit was changed in place (same size, same times) and read by path again does not have the lanes it has now",
                              {"op": "path-resave", "old": old, "new": new}, observed=common.short(str(lanes(x))), promised=common.short(str(lanes(ref))))


def _replay_path(data):
    import os
    import tempfile
    from pathlib import Path

    from chartparse.chart import Chart
    with tempfile.TemporaryDirectory() as td:
        p = Path(td) / "c.chart"
        p.write_bytes(data["old"].encode("utf-8"))
        Chart.from_filepath(p)
        st = os.stat(p)
        p.write_bytes(data["new"].encode("utf-8"))
        os.utime(p, ns=(st.st_atime_ns, st.st_mtime_ns))
        x = impl.dump_chart(Chart.from_filepath(p), [])
    ref = impl.run_chart(data["new"])
    f = lambda dump: [(key, [(n["tick"], n["lanes"]) for n in tr.get("notes", [])]) for key, tr in sorted(gen.parse_dump(dump)["tracks"].items())]  # noqa: E731
    return f(x) != f(ref), common.short(str(f(x)))


def long_text(nticks, lanes, every):
    body = "".join("".join(f"  {7 * k} = N {l} 0\n" for l in lanes) + (f"  {7 * k} = S 2 3\n" if k % every == 0 else "") for k in range(nticks))
    return "[Song]\n{\n  Resolution = 192\n}\n[SyncTrack]\n{\n  0 = TS 4\n  0 = B 120000\n}\n[Events]\n{\n}\n[ExpertSingle]\n{\n" + body + "}\n"


def long_sections(ctx, out):
    """sections whose line count passes the sizes at which buffers, counters and "sane maximum" limits sit (2^8, 2^12, 2^16 lines; thorough:
    2^18 too): one event per written tick, the written lanes, to the very last line — against the text itself"""
    ins, dif = impl.enums()
    sizes = [(90, [0, 1, 2], 50), (1400, [1, 3, 4], 100), (22000, [0, 1, 2], 100)] + ([(90000, [2, 3, 4], 1000)] if ctx.tier == "thorough" else [])
    for nticks, lanes, every in sizes:
        text = long_text(nticks, lanes, every)
        rp = {"op": "long", "nticks": nticks, "lanes": lanes, "every": every}
        out.case("L" + fw.h(rp), True, {"lines": text.count("\n")}, tags=["long-section"])
        c, e, _ = impl.parse(text)
        if c is None:
            out.violation("long-" + fw.h(rp), f"a well-formed section of {text.count(chr(10))} lines raised {impl.err_name(e)}", rp, observed=impl.err_name(e), promised="parses")
            continue
        ev = c.instrument_tracks[ins[0]][dif[3]].note_events
        want_l = "".join("1" if l in lanes else "0" for l in range(5))
        got = [(n.tick, "".join(str(b) for b in n.note.value)) for n in ev]
        want = [(7 * k, want_l) for k in range(nticks)]
        if got != want:
            k = next((i for i, (a, b) in enumerate(zip(got, want)) if a != b), min(len(got), len(want)))
            out.violation("long-" + fw.h(rp), f"a section of {text.count(chr(10))} lines: {len(got)} note events for {nticks} written ticks; first difference at event #{k}: "
                          f"{got[k] if k < len(got) else None} vs written {want[k] if k < len(want) else None}", rp,
                          observed=[len(got), got[k] if k < len(got) else None], promised=[nticks, want[k] if k < len(want) else None])


def replay(ctx, data):
    if data.get("op") == "direct-section":
        from .. import direct as _direct
        return _direct.replay(data)
    if data.get("op") == "path-resave":
        return _replay_path(data)
    if data.get("op") == "long":
        o = fw.Outcome("")
        ins, dif = impl.enums()
        c, e, _ = impl.parse(long_text(data["nticks"], data["lanes"], data["every"]))
        if c is None:
            return True, impl.err_name(e)
        ev = c.instrument_tracks[ins[0]][dif[3]].note_events
        want_l = "".join("1" if l in data["lanes"] else "0" for l in range(5))
        got = [(n.tick, "".join(str(b) for b in n.note.value)) for n in ev]
        return got != [(7 * k, want_l) for k in range(data["nticks"])], f"{len(got)} events"
    return ic.replay_chart(data, lambda notes: [[n["tick"], n["lanes"]] for n in notes])
