"""C05 — star-power membership of notes is exact and half-open."""
from __future__ import annotations

import itertools

from .. import common, driver, gen, impl
from .. import framework as fw
from . import C01
from . import inst_common as ic

GEN_SECTIONS = ["Tables", "Regexes", "Unicode"]
# leaf functions whose ASTs are dumped from /repo and proved equal to the hand model (lean/Chartparse/Tie/Phrase.lean)
LEAVES = {'Phrase': ['tickadd', 'after', 'during'], 'ComposeInst': [], 'LoopSp': [], 'ComposeLoopSp': []}
IMP = ['computeStarPowerData']  # functions dumped as terms of the imperative embedding, run against CPython on every run
TRUSTED = [
    "leaf ties: Py.evalBody (embedded Python subset, validated against CPython and the real functions every run) + the AST dump",
    "Lean 4 kernel; axioms ⊆ {propext, Quot.sound}",
    "hand model of _compute_star_power_data with the carried cursor (incl. the loop variable that leaks out of the `for`)",
    "tied by differential execution of the real track builder",
]
ASSUMPTIONS = ["phrases ordered by start tick (ties, zero lengths, nesting and overlap allowed); note ticks non-decreasing"]
RULE = ("(a) exhaustive small scope: every phrase list with ≤ 3 phrases (quick: ≤ 2) on a 0..6 tick grid ordered by start × "
        "every note-tick subset of the grid, through the real InstrumentTrack.from_chart_lines vs model vs first-covering-"
        "phrase; (b) whole charts with adjacent / nested / overlapping / zero-length phrases and notes on start−1, start, "
        "end−1, end; non-trivial = a note inside or on the edge of a phrase; distinct by (phrases, notes)")


def track_from_lines(lines):
    from chartparse.instrument import Difficulty, Instrument, InstrumentTrack

    be = C01.build_bpm_events(192, [(0, 120000)])
    return InstrumentTrack.from_chart_lines(Instrument.GUITAR, Difficulty.EXPERT, lines, be)


def _chunk(args):
    plists, grid = args
    res = []
    for ps in plists:
        for m in range(1, 1 << len(grid)):
            ticks = [t for k, t in enumerate(grid) if m >> k & 1]
            lines = [f"  {t} = S 2 {l}" for t, l in ps] + [f"  {t} = N 0 0" for t in ticks]
            try:
                tr = track_from_lines(lines)
                i = [None if n.star_power_data is None else n.star_power_data.star_power_event_index for n in tr.note_events]
            except Exception as e:  # noqa: BLE001
                i = impl.err_name(e)
            want = [gen.sp_truth(list(ps), t) for t in ticks]
            res.append((ps, ticks, i, want))
    return res


def exhaustive(ctx, out):
    grid = list(range(0, 7))
    maxp = 2 if ctx.tier == "quick" else 3
    phr = [(t, l) for t in grid for l in range(0, 7 - t + 1)]
    plists = []
    for k in range(0, maxp + 1):
        for ps in itertools.combinations_with_replacement(phr, k):
            if all(ps[i][0] <= ps[i + 1][0] for i in range(len(ps) - 1)):
                plists.append(ps)
                if len(ps) == 2 and ps[0][0] == ps[1][0] and ps[0] != ps[1]:
                    plists.append((ps[1], ps[0]))  # ties in the other order
    if ctx.tier == "quick":
        rng = ctx.sub("ex")
        plists = rng.sample(plists, 60)
        grid = grid[:6]
        # always: a phrase written twice (or three times) and a later one — the index counts written phrases, not distinct ones
        plists += [((a, l), (a, l), (b, m)) for a, l, b, m in ((0, 1, 2, 2), (0, 0, 0, 3), (1, 2, 3, 2), (0, 2, 1, 4), (2, 1, 4, 1))]
        plists += [((0, 1), (0, 1), (0, 1), (3, 2)), ((0, 1), (2, 1), (2, 1), (4, 1))]
    step = max(1, len(plists) // (ctx.jobs * 4))
    chunks = [(plists[i:i + step], grid) for i in range(0, len(plists), step)]
    results = [r for c in common.parallel(ctx, _chunk, chunks) for r in c]
    # model on a sample (all in quick)
    rng = ctx.sub("sample")
    sample = results if len(results) <= 20000 else rng.sample(results, 20000)
    reqs = [f"spdata {','.join(f'{t}:{l}' for t, l in ps) or '-'} {','.join(map(str, ticks))}" for ps, ticks, _, _ in sample]
    mod = driver.run_parallel(reqs)
    sm = {(ps, tuple(ticks)): m for (ps, ticks, _, _), m in zip(sample, mod)}
    for ps, ticks, i, want in results:
        rp = {"op": "sp", "phrases": [list(p) for p in ps], "ticks": ticks}
        inside = any(t <= x <= t + l for t, l in ps for x in ticks)
        out.case(fw.h(rp), inside, rp if out.evaluations % 3001 == 5 else None, tags=[f"p{len(ps)}"])
        if i != want:
            out.violation("sp-" + fw.h(rp), f"phrases {list(ps)}, notes {ticks}: star-power indices {i}, first covering phrase {want}",
                          rp, observed=i, promised=want)
        m = sm.get((ps, tuple(ticks)))
        if m is not None:
            out.traces += 1
            im = " ".join("~" if v is None else str(v) for v in i) if isinstance(i, list) else i
            if im != m:
                out.corr_mismatch(f"star power of notes {ticks} under {list(ps)}", rp, impl=im, model=m)
    out.exhaustive = True


def charts(ctx, out):
    rng = ctx.sub("charts")
    cases = []
    for _ in range(ctx.n(120, 12_000)):
        p = ic.prof(phrases=1.0, garbage=0.0)
        src = gen.rand_src(rng, p)
        cases.append((src, gen.render(src, rng, p)))
    cases += ic.far_cases(rng, ic.prof(garbage=0.0, exotic_pad=0.0, exotic_digits=0.0))  # ticks and lengths beyond 2^53, adjacent ticks
    def consistent(dx, src, R, rp):
        # the index a note carries points into the track's own public phrase list: that phrase, as stored, covers the note (half-open)
        # and no earlier stored phrase does; a note without an index is covered by no stored phrase
        for k, v in dx["tracks"].items():
            stored = [(t, ln) for t, ln, *_ in v.get("sps", [])]
            for n in v.get("notes", []):
                w = gen.sp_truth(stored, n["tick"])
                if n["sp"] != w:
                    out.violation("self-" + fw.h(R.text), f"track {k}: note at tick {n['tick']} carries star-power index {n['sp']}, but among the track's own stored phrases "
                                  f"{stored[:6]} the first one covering that tick is {w}", {**rp, "selfcheck": True}, observed=n["sp"], promised=w)
                    return
    ic.run(ctx, out, cases, lambda notes: [(n["tick"], n["sp"]) for n in notes],
           lambda tl: [(t["tick"], t["sp"]) for t in tl], "star-power indices",
           lambda src: any(gen.sp_truth(tr.phrases, g.tick) is not None for tr in src.tracks for g in tr.groups), also=consistent)


def slice(ctx: fw.Ctx) -> fw.Outcome:
    out = fw.Outcome(RULE)
    exhaustive(ctx, out)
    charts(ctx, out)
    from .. import direct as _direct
    _direct.run(ctx, out, 'instrument', ic.prof(flags=0.5, garbage=0.0, exotic_pad=0.25))  # the section's own public parser, given the lines between the braces (padding and all), builds the same track
    return out


def replay(ctx, data):
    if data.get("op") == "direct-section":
        from .. import direct as _direct
        return _direct.replay(data)
    if data["op"] == "sp":
        ps = [tuple(p) for p in data["phrases"]]
        r = _chunk(([ps], []))  # no notes from grid; run explicitly below
        lines = [f"  {t} = S 2 {l}" for t, l in ps] + [f"  {t} = N 0 0" for t in data["ticks"]]
        try:
            tr = track_from_lines(lines)
            i = [None if n.star_power_data is None else n.star_power_data.star_power_event_index for n in tr.note_events]
        except Exception as e:  # noqa: BLE001
            i = impl.err_name(e)
        want = [gen.sp_truth(ps, t) for t in data["ticks"]]
        return i != want, str(i)
    if data.get("selfcheck"):
        d = gen.parse_dump(impl.run_chart(data["text"]))
        if d["err"] is not None:
            return True, d["err"]
        for k, v in d["tracks"].items():
            stored = [(t, ln) for t, ln, *_ in v.get("sps", [])]
            for n in v.get("notes", []):
                if n["sp"] != gen.sp_truth(stored, n["tick"]):
                    return True, f"note {n['tick']} index {n['sp']} stored {stored[:6]}"
        return False, "consistent"
    return ic.replay_chart(data, lambda notes: [[n["tick"], n["sp"]] for n in notes])
