"""C11 — look-up hints are invisible; timestamps are never silently misplaced."""
from __future__ import annotations

import itertools
from datetime import timedelta

from .. import common, driver, gen, impl
from .. import framework as fw
from . import C01

GEN_SECTIONS = ["Tables"]
# the hint scan's AST is dumped from /repo and proved equal to the hand model's indexOfProximal (lean/Chartparse/Tie/Scan.lean)
LEAVES = {'Scan': 'scan', 'TsAt': ['tsat', 'between', 'timeadd'], 'Compose': [], 'LoopEvents': [], 'ComposeLoopEvents': [], 'LoopGlue': [], 'LoopStamp': []}
IMP = ['dataToEvents', 'noteFromParsedData', 'specialFromParsedData', 'trackEventFromParsedData', 'globalEventFromParsedData', 'anchorFromParsedData', 'timeSignatureFromParsedData']  # functions dumped as terms of the imperative embedding, run against CPython on every run
TRUSTED = C01.TRUSTED + ["generated kind orders (the chains are per kind)"]
ASSUMPTIONS = ["hints 0…len (negative hints would use Python negative indexing and are not claimed)"]
RULE = ("(a) exhaustive: every tempo map with ≤ 4 events on a small tick grid × every tick × every hint 0..len+1 through the "
        "real timestamp_at_tick(start_iteration_index=h) vs model; promised: hint ≤ governing index ⇒ the un-hinted answer, "
        "else ValueError; (b) whole charts whose body lines are sorted, partially sorted or shuffled: ValueError, or every "
        "stored timestamp/index equals the un-hinted query; non-trivial = hint > 0 or a section not in tick order; distinct "
        "by (map, tick, hint) / chart text")
US = timedelta(microseconds=1)


def gov(tempo, tick):
    g = None
    for i, (t, _) in enumerate(tempo):
        if t <= tick:
            g = i
    return g


def exhaustive(ctx, out):
    grid = [0, 1, 2, 5, 9]
    ns = [120000, 60000, 7]
    res = 3
    maps_ = []
    for k in range(1, 5):
        for ticks in itertools.combinations(grid[1:], k - 1):
            tempo = [(0, ns[0])] + [(t, ns[(i + 1) % 3]) for i, t in enumerate(ticks)]
            maps_.append(tempo)
    rng = ctx.sub("maps")
    # long maps too (scan-length dependent behaviour): 10–40 tempo events
    for k in ([12, 25] if ctx.tier == "quick" else [10, 11, 12, 16, 20, 25, 33, 40] * 3):
        t, tempo = 0, []
        for i in range(k):
            tempo.append((t, rng.choice([120000, 60000, 90000, 150000])))
            t += rng.randint(1, 9)
        maps_.append(tempo)
    # tempo changes beyond 2^31 / 2^32 ticks: the governing event is found by the ticks as written, not by their low 32 bits
    for far in (2**31 - 2, 2**32 + 192, 2**33 + 5):
        maps_.append([(0, 120000), (far, 90000), (far + rng.choice([1, 7, 19200]), 150000)])
    if ctx.tier == "thorough":
        for _ in range(3000):
            maps_.append(C01.rand_map(rng, 8)[1])
    reqs, meta = [], []
    for mi, tempo in enumerate(maps_):
        be = C01.build_bpm_events(res, tempo)
        if mi % 2 == 1:
            be = C01.rebuilt_publicly(be)  # a map a client assembled itself answers the same
        last = tempo[-1][0]
        around = [x for t, _ in tempo for x in (t - 1, t, t + 1)] + [192, 1000, 768000, last % 2**32, last % 2**32 + 5] if last > 2**30 else []
        for tick in list(range(-1, min(last, 10) + 3)) + [last - 1, last, last + 1, last + 100] + around:
            try:
                ts0, idx0 = be.timestamp_at_tick(tick)
                want0 = f"{ts0 // US} {idx0}"
            except Exception as e:  # noqa: BLE001
                want0 = impl.err_name(e)
            for h in (range(0, len(tempo) + 2) if len(tempo) <= 6 else [0, 1, 2, len(tempo) - 10, len(tempo) - 9, len(tempo) - 2, len(tempo) - 1, len(tempo)]):
                if h < 0:
                    continue
                try:
                    ts, idx = be.timestamp_at_tick(tick, start_iteration_index=h)
                    i = f"{ts // US} {idx}"
                except ValueError:
                    i = "E ValueError"
                except Exception as e:  # noqa: BLE001
                    i = impl.err_name(e)
                reqs.append(f"tsat {res} {','.join(f'{t}:{n}' for t, n in tempo)} {tick} {h}")
                meta.append((tempo, tick, h, i, want0))
        del be  # the map is released before the next one is built: whatever the library remembers about it must die with it
    mod = driver.run_parallel(reqs)
    for (tempo, tick, h, i, want), m in zip(meta, mod):
        rp = {"op": "hint", "res": res, "tempo": tempo, "tick": tick, "hint": h}
        g = gov(tempo, tick)
        out.case(fw.h(rp), h > 0, {"tempo": tempo, "tick": tick, "hint": h, "impl": i} if h > 0 and len(tempo) > 2 else None,
                 tags=[f"h{min(h, 3)}", "reject" if i.startswith("E") else "ok"])
        out.traces += 1
        if i != m:
            out.corr_mismatch(f"timestamp_at_tick({tick}, hint={h}) on {tempo}", rp, impl=i, model=m)
        # promise
        if g is not None and h <= g:
            if i != want or (not want.startswith("E") and int(want.split(" ")[1]) != g):
                what = (f"hint {h} ≤ governing index {g} changed the answer for tick {tick}: {i} vs un-hinted {want}" if i != want else
                        f"tick {tick} is governed by tempo event {g} (the last one at or before it), the query — hinted {h} and un-hinted alike — answers {want}")
                out.violation("hint-" + fw.h(rp), what, rp, observed=i, promised=f"{want} (index {g})")
        else:
            if i != "E ValueError":
                out.violation("hint-" + fw.h(rp), f"hint {h} beyond the governing event ({g}) of tick {tick} was not rejected: {i}",
                              rp, observed=i, promised="ValueError")
    out.exhaustive = True


def recycled(ctx, out):
    """maps that look alike from far away — same number of tempo events, same first and last tick, another tick in the middle — built,
    queried and released in turn many times (a freed object's address is handed to the next one): each answers for its own ticks"""
    rng = ctx.sub("recycled")
    res = 192
    for rnd in range(ctx.n(4, 60)):
        mid = sorted(rng.sample(range(100, 900), 2))
        A = [(0, 120000), (mid[0], 60000), (1000, 90000)]
        B = [(0, 120000), (mid[1], 60000), (1000, 90000)]
        for k in range(ctx.n(150, 600)):
            tempo = A if k % 2 == 0 else B
            be = C01.build_bpm_events(res, tempo)
            tick = rng.choice([mid[0], mid[1], mid[0] - 1, mid[1] - 1, (mid[0] + mid[1]) // 2, 999, 1000])
            g = gov(tempo, tick)
            out.case(fw.h(["rc", rnd, k]), True, None, tags=["recycled-address"])
            bad = None
            for h in (0, g):
                try:
                    ts, idx = be.timestamp_at_tick(tick, start_iteration_index=h)
                    if idx != g:
                        bad = f"hint {h}: governing index {idx}, the last tempo event at or before tick {tick} is #{g}"
                except Exception as e:  # noqa: BLE001
                    bad = f"hint {h} ≤ governing index {g} raised {impl.err_name(e)}"
            del be
            if bad:
                out.violation("recycled-" + fw.h([A, B, k, tick]), f"after {k} maps built and released in turn, the map {tempo} answers for tick {tick}: {bad}",
                              {"op": "recycled", "A": A, "B": B, "rounds": k + 1, "tick": tick}, observed=bad, promised=f"index {g}")
                break


def charts(ctx, out):
    rng = ctx.sub("charts")
    prof = gen.Profile(max_tempo=6, garbage=0.0, unknown_sections=0.0, meta_fields=0.0, max_events=8)
    cases = []
    for _ in range(ctx.n(200, 20_000)):
        src = gen.rand_src(rng, prof)
        R = gen.render(src, rng, prof, garbage=False)
        mode = rng.choice(["sorted", "swap", "shuffle"])
        text = R.text
        if mode != "sorted":
            # disturb the order of body lines inside sections (never the braces / headers)
            lines = R.lines[:]
            idx = [i for i, l in enumerate(lines) if " = " in l and not l.lstrip().startswith(("[",)) and "Resolution" not in l
                   and not any(l.lstrip().startswith(p) for p in [f[1] for f in gen.FIELDS])]
            secs = []
            cur = []
            for i in idx:
                if cur and i != cur[-1] + 1:
                    secs.append(cur)
                    cur = []
                cur.append(i)
            if cur:
                secs.append(cur)
            for sidx in secs:
                body = [lines[i] for i in sidx]
                if mode == "swap" and len(body) >= 2:
                    a, b_ = rng.sample(range(len(body)), 2)
                    body[a], body[b_] = body[b_], body[a]
                elif mode == "shuffle":
                    rng.shuffle(body)
                for i, l in zip(sidx, body):
                    lines[i] = l
            text = R.newline.join(lines) + R.newline
        cases.append((src, text, mode))
    a, b = common.run_charts([(t, None) for _, t, _ in cases])
    for (src, text, mode), x, y in zip(cases, a, b):
        dx, dy = gen.parse_dump(x), gen.parse_dump(y)
        rp = {**common.chart_replay(text), "res": src.res, "tempo": src.tempo}
        out.case("C" + fw.h(text), mode != "sorted", None, tags=["chart-" + mode, common.status(dx)[:12]])
        out.traces += 1
        px = common.all_events(dx) if dx["err"] is None else dx["err"]
        py = common.all_events(dy) if dy["err"] is None else dy["err"]
        if px != py:
            out.corr_mismatch(f"{mode} chart", rp, impl=str(px)[:300], model=str(py)[:300])
        bad = check(x, src.res, src.tempo)
        if bad:
            out.violation("chart-" + fw.h(text), bad, rp, observed=bad, promised="ValueError, or every stored timestamp equals the un-hinted query")


def check(x, res, tempo):
    """ValueError, or every stored timestamp / index equals the un-hinted query for its tick"""
    if x.startswith("E "):
        return None if x == "E ValueError" else f"raised {x}"
    d = gen.parse_dump(x)
    # the tempo events of the parsed chart itself define the query (shuffled B lines may have been rejected above)
    bpm = [(t, r) for t, r, _ in d["bpm"]]
    try:
        be = C01.build_bpm_events(res, [(t, n) for t, n in sorted(tempo)])
    except Exception:  # noqa: BLE001
        return None
    if [(e.tick) for e in be] != [t for t, _ in bpm]:
        return None
    for kind, tick, ts, idx in common.all_events(d):
        if kind == "B":
            continue
        ts0, idx0 = be.timestamp_at_tick(tick)
        if (ts0 // US, idx0) != (ts, idx):
            return f"{kind} event at tick {tick} stores ({ts} µs, index {idx}) but the un-hinted query gives ({ts0 // US} µs, index {idx0})"
    # … and the time at which a note ends is the un-hinted query for the tick at which it ends (its own tick plus its longest lane)
    for key, tr in sorted(d["tracks"].items()):
        for n in tr.get("notes", []):
            sus = n["sus"]
            lens = [int(sus[1:])] if sus.startswith("S") else [int(v) for v in sus[1:].split(":") if v != "~"]
            if not lens:
                continue
            te = n["tick"] + max(lens)
            ts1 = be.timestamp_at_tick_no_optimize_return(te)
            if ts1 // US != n["end"]:
                return f"the note at tick {n['tick']} ends at tick {te}; it stores the end time {n['end']} µs but the un-hinted query for that tick gives {ts1 // US} µs"
    return None


PROBE = r"""
import sys, json
sys.path.insert(0, sys.argv[1]); sys.path.insert(0, sys.argv[2])
import chartparse.chart
from verif.props import C11
print(json.dumps(C11.answers(json.load(sys.stdin))))
"""


def answers(cases):
    """every (tick, hint) query of every map: [µs, index] or 'VE' — run in-process and, identically, in interpreters started with
    other switches"""
    from datetime import timedelta
    us = timedelta(microseconds=1)
    res_ = []
    for res, tempo, qs in cases:
        be = C01.build_bpm_events(res, [tuple(t) for t in tempo])
        row = []
        for tick, h in qs:
            try:
                ts, idx = be.timestamp_at_tick(tick, start_iteration_index=h)
                row.append([ts // us, idx])
            except ValueError:
                row.append("VE")
            except Exception as e:  # noqa: BLE001
                row.append("X:" + type(e).__name__)
        res_.append(row)
    return res_


def switches(ctx, out):
    """a hint beyond the governing event is refused — also when the interpreter runs with -O / -OO (checks written as assertions
    or under `if __debug__` vanish there) or with warnings as errors"""
    import json
    import subprocess
    rng = ctx.sub("switches")
    cases = []
    for _ in range(ctx.n(25, 1500)):
        res, tempo = C01.rand_map(rng, rng.choice([2, 3, 5]))
        last = tempo[-1][0]
        qs = []
        for _ in range(12):
            tk = rng.choice([t for t, _ in tempo] + [max(0, t - 1) for t, _ in tempo] + [rng.randint(0, last + 50), -1])
            qs.append((tk, rng.randint(0, len(tempo))))
        cases.append((res, tempo, qs))
    here = answers(cases)
    for flags in (("-O",), ("-OO",), ("-W", "error")):
        p = subprocess.run(["/venv/bin/python", *flags, "-c", PROBE, str(fw.REPO), str(fw.ROOT)], input=json.dumps(cases).encode(),
                           stdout=subprocess.PIPE, stderr=subprocess.PIPE, timeout=600)
        try:
            there = json.loads(p.stdout.decode().strip().splitlines()[-1])
        except Exception:  # noqa: BLE001
            out.violation("switch-" + flags[-1], f"python {' '.join(flags)}: the query probe crashed: {p.stderr.decode()[-300:]}",
                          {"op": "switches", "flags": list(flags), "cases": cases[:3]}, observed="crash", promised="same answers as with default switches")
            continue
        for (res, tempo, qs), a, b in zip(cases, here, there):
            out.case("W" + fw.h([flags, res, tempo, qs]), True, None, tags=["switch" + flags[-1]])
            if a != b:
                k = next(i for i, (x, y) in enumerate(zip(a, b)) if x != y)
                out.violation("switch-" + fw.h([flags, res, tempo, qs[k]]), f"python {' '.join(flags)}: timestamp_at_tick({qs[k][0]}, start_iteration_index={qs[k][1]}) on "
                              f"res={res} map={tempo[:5]} answers {b[k]}, with default switches {a[k]}",
                              {"op": "switches", "flags": list(flags), "cases": [[res, tempo, [qs[k]]]]}, observed=str(b[k]), promised=str(a[k]))
                break


def slice(ctx: fw.Ctx) -> fw.Outcome:
    out = fw.Outcome(RULE)
    recycled(ctx, out)
    exhaustive(ctx, out)
    charts(ctx, out)
    switches(ctx, out)
    return out


def replay(ctx: fw.Ctx, data: dict):
    if data.get("op") == "recycled":
        A, B = [tuple(x) for x in data["A"]], [tuple(x) for x in data["B"]]
        for k in range(max(600, data["rounds"])):
            tempo = A if k % 2 == 0 else B
            be = C01.build_bpm_events(192, tempo)
            for tick in (data["tick"], A[1][0], B[1][0]):
                g = gov(tempo, tick)
                try:
                    if be.timestamp_at_tick(tick)[1] != g:
                        return True, f"round {k}: tick {tick} index != {g}"
                except Exception as e:  # noqa: BLE001
                    return True, impl.err_name(e)
            del be
        return False, "every map answered for its own ticks"
    if data.get("op") == "hint":
        tempo = [tuple(t) for t in data["tempo"]]
        g = gov(tempo, data["tick"])
        for be in (C01.build_bpm_events(data["res"], tempo), C01.rebuilt_publicly(C01.build_bpm_events(data["res"], tempo))):
            try:
                ts, idx = be.timestamp_at_tick(data["tick"], start_iteration_index=data["hint"])
                got = (ts // US, idx)
            except ValueError:
                got = "VE"
            ok = (got == "VE") if (g is None or data["hint"] > g) else (got != "VE" and got[1] == g and got[0] == be.timestamp_at_tick(data["tick"])[0] // US)
            if not ok:
                return True, str(got)
        return False, "as promised"
    if data.get("op") == "switches":
        import json
        import subprocess
        cases = data["cases"]
        here = answers(cases)
        p = subprocess.run(["/venv/bin/python", *data["flags"], "-c", PROBE, str(fw.REPO), str(fw.ROOT)], input=json.dumps(cases).encode(),
                           stdout=subprocess.PIPE, stderr=subprocess.PIPE, timeout=600)
        try:
            there = json.loads(p.stdout.decode().strip().splitlines()[-1])
        except Exception:  # noqa: BLE001
            return True, p.stderr.decode()[-200:]
        return here != there, f"{there} vs {here}"
    if data["op"] == "hint":
        tempo = [tuple(x) for x in data["tempo"]]
        be = C01.build_bpm_events(data["res"], tempo)
        g = gov(tempo, data["tick"])
        try:
            ts, idx = be.timestamp_at_tick(data["tick"], start_iteration_index=data["hint"])
            i = f"{ts // US} {idx}"
        except ValueError:
            i = "E ValueError"
        if g is not None and data["hint"] <= g:
            ts0, idx0 = be.timestamp_at_tick(data["tick"])
            return i != f"{ts0 // US} {idx0}", i
        return i != "E ValueError", i
    if data["op"] == "chart":
        x = impl.run_chart(data["text"])
        bad = check(x, data["res"], [tuple(t) for t in data["tempo"]])
        return bad is not None, str(bad)
    return None, "unknown replay op"
