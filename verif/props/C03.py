"""C03 — sustains, end tick, end time and last-note-end are faithful to the lines."""
from __future__ import annotations

from fractions import Fraction

from .. import common, gen, impl
from .. import framework as fw
from . import inst_common as ic

GEN_SECTIONS = ["Regexes", "Tables", "Unicode"]
# arithmetic leaf functions whose ASTs are dumped from /repo and proved equal to the hand model (lean/Chartparse/Tie/<X>.lean)
LEAVES = {'Secs': 'secs', 'LoopSustain': [], 'LoopGlue': [], 'LoopLastEnd': []}
IMP = ['longestSustain', 'refinedSustainTuple', 'complexSustain', 'lastNoteEndTimestamp']  # functions dumped as terms of the imperative embedding, run against CPython on every run
TRUSTED = [
    "leaf ties: Py.evalBody (embedded Python subset, validated against CPython on random expressions and against the real leaf functions every run) + the AST dump",
    "Lean 4 kernel; axioms ⊆ {propext, Classical.choice, Quot.sound}",
    "hand model of complex_sustain_from_parsed_datas / _refined_sustain_tuple / _longest_sustain / end tick / "
    "last_note_end_timestamp; generated is_5_note table",
    "tied by whole-chart differential execution",
]
ASSUMPTIONS = ["each lane at most once per tick; an open line is the only non-flag line of its tick",
               "flag line written before a sustained open line: listed known finding `flag-before-open` (the open note's length "
               "is reported as 0); every other layout is checked"]
RULE = ("all 31 lane subsets × length patterns {equal, partly zero, all different} (all present/zero/non-zero patterns "
        "exhaustively in thorough), flags, sustains spanning tempo changes, longest sustain not on the last note, empty "
        "tracks; promised: written sustain shape, longest, end tick's tempo-map time (C01 tolerance), last-note-end = max; "
        "non-trivial = a tuple sustain or a sustain crossing a tempo change; distinct by chart text")
TOL = Fraction(1, 2) + Fraction(1, 1000)


def project(notes):
    return [(n["tick"], n["sus"]) for n in notes]


def extra_checks(ctx, out, cases):
    """end timestamps and last-note-end on the real chart objects (longest_sustain / end_tick are read too)"""
    ins, dif = None, None
    for src, R in cases:
        c, e, _ = impl.parse(R.text)
        if c is None:
            continue
        ins, dif = impl.enums()
        for tr in src.tracks:
            real = c.instrument_tracks.get(ins[tr.inst], {}).get(dif[tr.diff])
            if real is None:
                continue
            rp = {**common.chart_replay(R.text), "extra": True}
            ends = []
            for g, n in zip(tr.groups, real.note_events):
                lg = gen.longest_truth(g)
                if n.longest_sustain != lg or n.end_tick != g.tick + lg:
                    out.violation("chart-" + fw.h(R.text), f"note at tick {g.tick}: longest_sustain {n.longest_sustain} / end_tick {n.end_tick}, "
                                  f"written maximum {lg}", rp, observed=[n.longest_sustain, n.end_tick], promised=[lg, g.tick + lg])
                    break
                exu, gi = gen.exact_us(src.res, src.tempo, g.tick + lg)
                et = impl.us(n.end_timestamp)
                if exu < 10**12 and abs(et - exu) > (gi + 1) * TOL:
                    out.violation("chart-" + fw.h(R.text), f"note at tick {g.tick}: end timestamp {et} µs, tempo-map time of end tick {float(exu):.3f}",
                                  rp, observed=et, promised=float(exu))
                    break
                if n.end_timestamp < n.timestamp:
                    out.violation("chart-" + fw.h(R.text), f"note at tick {g.tick} ends before it starts", rp)
                    break
                ends.append(n.end_timestamp)
            else:
                last = real.last_note_end_timestamp
                want = max(ends) if ends else None
                if len(real.note_events) == len(tr.groups) and last != want:
                    out.violation("chart-" + fw.h(R.text), f"last_note_end_timestamp {last} ≠ max end timestamp {want}", rp,
                                  observed=str(last), promised=str(want))


HEAD = "[Song]\n{\n  Resolution = 192\n}\n[SyncTrack]\n{\n  0 = TS 4\n  0 = B 120000\n  96 = B 60000\n}\n[Events]\n{\n}\n[ExpertSingle]\n{\n  0 = N 1 0\n"


def open_with_flags(ctx, out):
    """an open note with its flag lines in every position relative to the open line. Promised: the open note's own written
    length, end tick = tick + length. The layout 'flag line(s) first, then a sustained open line' is the listed known finding
    `flag-before-open` (key below); anything else observed on these inputs is reported under its own key."""
    import itertools
    ins, dif = impl.enums()
    texts = []
    for flags in ([5], [6], [5, 6]):
        for ln in (0, 100, 480):
            for order in set(itertools.permutations([7] + flags)):
                body = "".join(f"  48 = N {i} {ln if i == 7 else 0}\n" for i in order)
                text = HEAD + body + "  700 = N 2 0\n}\n"
                rp = {"op": "openflags", "text": text, "len": ln}
                texts.append((text, rp))
                c, e, _ = impl.parse(text)
                flag_first = order[0] != 7
                out.case("O" + fw.h(text), ln > 0, None, tags=["open+flags", "flag-first" if flag_first else "open-first"])
                if c is None:
                    out.violation("openflags-" + fw.h(text), f"open note with flags raised {impl.err_name(e)}", rp, observed=impl.err_name(e), promised="parses")
                    continue
                n = c.instrument_tracks[ins[0]][dif[3]].note_events[1]
                obs = [str(n.sustain), n.longest_sustain, n.end_tick]
                want = [str(ln), ln, 48 + ln]
                # whatever length the event reports, it is consistent with itself: end tick = tick + longest, end time = time of that tick
                exu, gi = gen.exact_us(192, [(0, 120000), (96, 60000)], n.end_tick)
                if n.end_tick != n.tick + n.longest_sustain or abs(impl.us(n.end_timestamp) - exu) > (gi + 1) * TOL:
                    out.violation("openflags-self-" + fw.h(text), f"open note with flag lines {list(order)}: reports longest sustain {n.longest_sustain} and end tick {n.end_tick}, "
                                  f"but its end time {impl.us(n.end_timestamp)} µs is not the time of that tick ({float(exu):.1f} µs)", {**rp, "self": True},
                                  observed=impl.us(n.end_timestamp), promised=float(exu))
                    continue
                if obs != want:
                    known = flag_first and ln > 0 and obs == ["0", 0, 48]
                    out.violation("flag-before-open" if known else "openflags-" + fw.h(text),
                                  f"open note written with length {ln} after flag line(s) {list(order)}: sustain/longest/end tick {obs}, written {want}",
                                  rp, observed=obs, promised=want)
    # a lane written twice at one tick (not a layout the statement describes — nothing is promised about *which* length counts):
    # the event is still consistent with itself across a tempo change
    for l1, l2 in ((400, 50), (50, 400), (0, 300), (300, 0)):
        for extra in ("", "  48 = N 2 50\n"):
            text = HEAD + f"  48 = N 1 {l1}\n  48 = N 1 {l2}\n" + extra + "  700 = N 2 0\n}\n"
            c, e, _ = impl.parse(text)
            out.case("W" + fw.h(text), True, None, tags=["lane-twice"])
            if c is None:
                continue
            n = c.instrument_tracks[ins[0]][dif[3]].note_events[1]
            exu, gi = gen.exact_us(192, [(0, 120000), (96, 60000)], n.end_tick)
            if n.end_tick != n.tick + n.longest_sustain or abs(impl.us(n.end_timestamp) - exu) > (gi + 1) * TOL:
                out.violation("twice-" + fw.h(text), f"lane written twice (lengths {l1}, {l2}): the event reports longest sustain {n.longest_sustain}, end tick {n.end_tick}, "
                              f"but its end time {impl.us(n.end_timestamp)} µs is not the time of that tick ({float(exu):.1f} µs)",
                              {"op": "openflags", "text": text, "len": n.longest_sustain, "self": True}, observed=impl.us(n.end_timestamp), promised=float(exu))
            texts.append((text, {"op": "chart", "text": text, "want": None}))
    # lane lines followed by an open-index line at the same tick (an "open chord" as some converters write it): the event is the note of
    # its lanes — the open index names no lane — and its sustain reports those lanes' written lengths, whatever length the open line carries
    for lanes_ in ([(0, 192)], [(1, 96), (2, 0)], [(0, 50), (4, 50)], [(3, 0)]):
        for l7 in (0, 300):
            for flag_ in ("", "  48 = N 6 0\n"):
                body = "".join(f"  48 = N {i} {ln}\n" for i, ln in lanes_) + flag_ + f"  48 = N 7 {l7}\n"
                text = HEAD + body + "  700 = N 2 0\n}\n"
                rp = {"op": "openflags", "text": text, "len": max(ln for _, ln in lanes_)}
                texts.append((text, {"op": "chart", "text": text, "want": None}))
                lens_ = {ln for _, ln in lanes_}
                mx_ = max(lens_)
                rp["want"] = [str(mx_) if len(lens_) == 1 else str(tuple(dict(lanes_).get(i) for i in range(5))), mx_, 48 + mx_]
                c, e, _ = impl.parse(text)
                out.case("L7" + fw.h(text), True, None, tags=["lanes-then-open"])
                if c is None:
                    out.violation("lanesopen-" + fw.h(text), f"lane lines followed by an open-index line raised {impl.err_name(e)}", rp, observed=impl.err_name(e), promised="parses")
                    continue
                n = c.instrument_tracks[ins[0]][dif[3]].note_events[1]
                lens = {ln for _, ln in lanes_}
                want_s = str(lens.pop()) if len(lens) == 1 else str(tuple(dict(lanes_).get(i) for i in range(5)))
                mx = max(ln for _, ln in lanes_)
                obs, want = [str(n.sustain), n.longest_sustain, n.end_tick], [want_s, mx, 48 + mx]
                if obs != want:
                    out.violation("lanesopen-" + fw.h(text), f"lanes {lanes_} followed by `N 7 {l7}`: sustain/longest/end tick {obs}, the lanes' written lengths give {want}",
                                  rp, observed=obs, promised=want)
    # the model must agree with the code on every one of these layouts (the finding included)
    a, b = common.run_charts([(t, None) for t, _ in texts])
    for (t, rp), x, y in zip(texts, a, b):
        out.traces += 1
        if common.framing_proj(x) != common.framing_proj(y) or project_all(x) != project_all(y):
            out.corr_mismatch("open note with flags", rp, impl=common.short(str(project_all(x))), model=common.short(str(project_all(y))))


def project_all(dump):
    d = gen.parse_dump(dump)
    if d["err"] is not None:
        return d["err"]
    return {k: project(v["notes"]) for k, v in d["tracks"].items()}


def slice(ctx: fw.Ctx) -> fw.Outcome:
    out = fw.Outcome(RULE)
    rng = ctx.sub("c03")
    open_with_flags(ctx, out)
    p = ic.prof(max_tempo=4, garbage=0.0)
    cases = []
    subsets = [[l for l in range(5) if m >> l & 1] for m in range(1, 32)]
    for ls in subsets:
        pats = ["equal", "partly", "different"] if ctx.tier == "quick" else ["equal", "partly", "different"] * 4
        for pat in pats:
            src = gen.rand_src(rng, p)
            if not src.tracks:
                src.tracks.append(gen.TrackSrc(rng.randrange(10), rng.randrange(4), [], [], []))
            tr = src.tracks[0]
            t = (tr.groups[-1].tick + 50) if tr.groups else rng.choice([0, 10])
            ln = rng.randint(1, 900)
            if pat == "equal":
                lens = {l: ln for l in ls}
            elif pat == "partly":
                lens = {l: (ln if i % 2 == 0 else 0) for i, l in enumerate(ls)}
            else:
                lens = {l: ln + 37 * i for i, l in enumerate(ls)}
            tr.groups.append(gen.NoteGroup(t, lens, tap=rng.random() < 0.2))
            if rng.random() < 0.5:  # longest sustain not on the last note
                tr.groups.append(gen.NoteGroup(t + 5, {rng.randrange(5): 0}))
            cases.append((src, gen.render(src, rng, p)))
    # small scope, complete: every chord with every lane absent or written with a length 0..3 (5^5 − 1 chords), one track, twice
    # (in enumeration order and shuffled: what a chord reports is a function of its own lines)
    import itertools
    chords = [pat for pat in itertools.product((None, 0, 1, 2, 3), repeat=5) if any(x is not None for x in pat)]
    for shuffled in (False, True):
        order = chords[:]
        if shuffled:
            rng.shuffle(order)
        src = gen.rand_src(rng, p)
        src.res, src.meta["resolution"] = 192, 192
        src.tempo, src.tss, src.anchors, src.gevents, src.unknown = [(0, 120000), (7000, 90000)], [(0, 4, None)], [], [], []
        src.tracks = [gen.TrackSrc(0, 3, [gen.NoteGroup(10 * k, {l: v for l, v in enumerate(pat) if v is not None}) for k, pat in enumerate(order)], [], [])]
        pp = ic.prof(garbage=0.0, exotic_pad=0.0, exotic_digits=0.0)
        cases.append((src, gen.render(src, rng, pp, garbage=False)))
    # tempi so fast that a short sustain lasts less than a microsecond: the end time is still the tempo-map time of the end tick
    for bpm in (999999999, 960000000, 500000001):
        src = gen.rand_src(rng, p)
        src.res, src.meta["resolution"] = 192, 192
        src.tempo, src.tss, src.anchors, src.gevents, src.unknown = [(0, bpm)], [(0, 4, None)], [], [], []
        src.tracks = [gen.TrackSrc(0, 3, [gen.NoteGroup(10 * k, {k % 5: 1 + k % 4, (k + 1) % 5: k % 3}) for k in range(12)], [], [])]
        cases.append((src, gen.render(src, rng, ic.prof(garbage=0.0, exotic_pad=0.0, exotic_digits=0.0), garbage=False)))
    if ctx.tier == "thorough":
        # all 3^5 − 1 present/zero/non-zero patterns
        for pat in itertools.product((None, 0, 1), repeat=5):
            if all(x is None for x in pat):
                continue
            src = gen.rand_src(rng, p)
            src.tracks = [gen.TrackSrc(0, 3, [gen.NoteGroup(10, {l: (0 if v == 0 else 100 + l) for l, v in enumerate(pat) if v is not None})], [], [])]
            cases.append((src, gen.render(src, rng, p)))
    for _ in range(ctx.n(100, 10_000)):
        src = gen.rand_src(rng, p)
        cases.append((src, gen.render(src, rng, p)))
    # tracks whose every note ends at time zero (one unsustained note / tap chord at tick 0)
    for lanes in ({0: 0}, {1: 0, 3: 0}):
        src = gen.rand_src(rng, p)
        src.tracks = [gen.TrackSrc(2, 1, [gen.NoteGroup(0, dict(lanes), tap=len(lanes) > 1)], [], [])]
        cases.append((src, gen.render(src, rng, p)))
    # mirror chords: the same lane set and the same lengths *in written order*, assigned to the lanes the other way round
    for la, lb in ((0, 1), (1, 3), (0, 4), (2, 3)):
        for l1, l2 in ((100, 50), (7, 300)):
            body = f"  0 = N {la} {l1}\n  0 = N {lb} {l2}\n  768 = N {lb} {l1}\n  768 = N {la} {l2}\n  1536 = N {la} {l1}\n  1536 = N {lb} {l2}\n"
            text = ("[Song]\n{\n  Resolution = 192\n}\n[SyncTrack]\n{\n  0 = TS 4\n  0 = B 120000\n}\n[Events]\n{\n}\n[ExpertSingle]\n{\n" + body + "}\n")
            c, e, _ = impl.parse(text)
            out.case("Mi" + fw.h(text), True, None, tags=["mirror-chords"])
            if c is None:
                out.violation("mirror-" + fw.h(text), f"mirror chords raised {impl.err_name(e)}", common.chart_replay(text), observed=impl.err_name(e), promised="parses")
                continue
            ins_, dif_ = impl.enums()
            got = [impl.show_sustain(n.sustain) for n in c.instrument_tracks[ins_[0]][dif_[3]].note_events]
            def tup(x, y):
                return "T" + ":".join(str({la: x, lb: y}.get(k, "~")) for k in range(5))
            want = [tup(l1, l2), tup(l2, l1), tup(l1, l2)]
            if got != want:
                out.violation("mirror-" + fw.h(text), f"chords on lanes {la},{lb} written ({l1},{l2}), then the other way round, then again: sustains {got}, written {want}",
                              {**common.chart_replay(text), "mirror": want}, observed=got, promised=want)
    # empty track
    src = gen.rand_src(rng, p)
    src.tracks = [gen.TrackSrc(1, 2, [], [(0, 5)], [])]
    cases.append((src, gen.render(src, rng, p)))
    cases += ic.far_cases(rng, ic.prof(garbage=0.0, exotic_pad=0.0, exotic_digits=0.0))  # ticks and lengths beyond 2^53, adjacent ticks
    ic.run(ctx, out, cases, project, lambda tl: [(t["tick"], t["sus"]) for t in tl], "sustain shapes",
           lambda src: any(gen.sustain_truth(g).startswith("T") for tr in src.tracks for g in tr.groups))
    extra_checks(ctx, out, cases)
    ic.stable_under_reads(ctx, out, cases, "sustains")
    from .. import direct as _direct
    _direct.run(ctx, out, 'instrument', ic.prof(flags=0.5, garbage=0.0, exotic_pad=0.25))  # the section's own public parser, given the lines between the braces (padding and all), builds the same track
    return out


def replay(ctx, data):
    if data.get("op") == "direct-section":
        from .. import direct as _direct
        return _direct.replay(data)
    if data.get("op") == "openflags":
        c, e, _ = impl.parse(data["text"])
        if c is None:
            return True, impl.err_name(e)
        ins, dif = impl.enums()
        n = c.instrument_tracks[ins[0]][dif[3]].note_events[1]
        obs = [str(n.sustain), n.longest_sustain, n.end_tick]
        if data.get("self"):
            exu, gi = gen.exact_us(192, [(0, 120000), (96, 60000)], n.end_tick)
            return n.end_tick != n.tick + n.longest_sustain or abs(impl.us(n.end_timestamp) - exu) > (gi + 1) * TOL, [obs, impl.us(n.end_timestamp)]
        if "want" in data:
            return obs != data["want"], obs
        return obs != [str(data["len"]), data["len"], 48 + data["len"]], obs
    if data.get("mirror"):
        c, e, _ = impl.parse(data["text"])
        if c is None:
            return True, impl.err_name(e)
        ins_, dif_ = impl.enums()
        got = [impl.show_sustain(n.sustain) for n in c.instrument_tracks[ins_[0]][dif_[3]].note_events]
        return got != data["mirror"], got
    if data.get("extra"):
        return None, "re-run the slice: end-time checks need the generator structure"
    return ic.replay_chart(data, lambda notes: [[n["tick"], n["sus"]] for n in notes])
