"""C03 — sustains, end tick, end time and last-note-end are faithful to the lines."""
from __future__ import annotations

from fractions import Fraction

from .. import common, gen, impl
from .. import framework as fw
from . import inst_common as ic

GEN_SECTIONS = ["Regexes", "Tables", "Unicode"]
TRUSTED = [
    "Lean 4 kernel; axioms ⊆ {propext, Classical.choice, Quot.sound}",
    "hand model of complex_sustain_from_parsed_datas / _refined_sustain_tuple / _longest_sustain / end tick / "
    "last_note_end_timestamp; generated is_5_note table",
    "tied by whole-chart differential execution",
]
ASSUMPTIONS = ["canonical layout inside a tick: each lane at most once; an open line is first and the only non-flag line"]
RULE = ("all 31 lane subsets × length patterns {equal, partly zero, all different} (all present/zero/non-zero patterns "
        "exhaustively in thorough), flags, sustains spanning tempo changes, longest sustain not on the last note, empty "
        "tracks; promised: written sustain shape, longest, end tick's tempo-map time (C01 tolerance), last-note-end = max; "
        "non-trivial = a tuple sustain or a sustain crossing a tempo change; distinct by chart text")
TOL = Fraction(1, 2) + Fraction(1, 1000)


def project(notes):
    return [(n["tick"], n["sus"]) for n in notes]


def extra_checks(ctx, out, cases):
    """end timestamps and last-note-end on the real chart objects (longest_sustain / end_tick are read too)"""
    ins, dif = None, None
    for src, R in cases:
        c, e, _ = impl.parse(R.text)
        if c is None:
            continue
        ins, dif = impl.enums()
        for tr in src.tracks:
            real = c.instrument_tracks.get(ins[tr.inst], {}).get(dif[tr.diff])
            if real is None:
                continue
            rp = {**common.chart_replay(R.text), "extra": True}
            ends = []
            for g, n in zip(tr.groups, real.note_events):
                lg = gen.longest_truth(g)
                if n.longest_sustain != lg or n.end_tick != g.tick + lg:
                    out.violation("chart-" + fw.h(R.text), f"note at tick {g.tick}: longest_sustain {n.longest_sustain} / end_tick {n.end_tick}, "
                                  f"written maximum {lg}", rp, observed=[n.longest_sustain, n.end_tick], promised=[lg, g.tick + lg])
                    break
                exu, gi = gen.exact_us(src.res, src.tempo, g.tick + lg)
                et = impl.us(n.end_timestamp)
                if exu < 10**12 and abs(et - exu) > (gi + 1) * TOL:
                    out.violation("chart-" + fw.h(R.text), f"note at tick {g.tick}: end timestamp {et} µs, tempo-map time of end tick {float(exu):.3f}",
                                  rp, observed=et, promised=float(exu))
                    break
                if n.end_timestamp < n.timestamp:
                    out.violation("chart-" + fw.h(R.text), f"note at tick {g.tick} ends before it starts", rp)
                    break
                ends.append(n.end_timestamp)
            else:
                last = real.last_note_end_timestamp
                want = max(ends) if ends else None
                if len(real.note_events) == len(tr.groups) and last != want:
                    out.violation("chart-" + fw.h(R.text), f"last_note_end_timestamp {last} ≠ max end timestamp {want}", rp,
                                  observed=str(last), promised=str(want))


def slice(ctx: fw.Ctx) -> fw.Outcome:
    out = fw.Outcome(RULE)
    rng = ctx.sub("c03")
    p = ic.prof(max_tempo=4, garbage=0.0)
    cases = []
    subsets = [[l for l in range(5) if m >> l & 1] for m in range(1, 32)]
    for ls in subsets:
        pats = ["equal", "partly", "different"] if ctx.tier == "quick" else ["equal", "partly", "different"] * 4
        for pat in pats:
            src = gen.rand_src(rng, p)
            if not src.tracks:
                src.tracks.append(gen.TrackSrc(rng.randrange(10), rng.randrange(4), [], [], []))
            tr = src.tracks[0]
            t = (tr.groups[-1].tick + 50) if tr.groups else rng.choice([0, 10])
            ln = rng.randint(1, 900)
            if pat == "equal":
                lens = {l: ln for l in ls}
            elif pat == "partly":
                lens = {l: (ln if i % 2 == 0 else 0) for i, l in enumerate(ls)}
            else:
                lens = {l: ln + 37 * i for i, l in enumerate(ls)}
            tr.groups.append(gen.NoteGroup(t, lens, tap=rng.random() < 0.2))
            if rng.random() < 0.5:  # longest sustain not on the last note
                tr.groups.append(gen.NoteGroup(t + 5, {rng.randrange(5): 0}))
            cases.append((src, gen.render(src, rng, p)))
    if ctx.tier == "thorough":
        # all 3^5 − 1 present/zero/non-zero patterns
        import itertools
        for pat in itertools.product((None, 0, 1), repeat=5):
            if all(x is None for x in pat):
                continue
            src = gen.rand_src(rng, p)
            src.tracks = [gen.TrackSrc(0, 3, [gen.NoteGroup(10, {l: (0 if v == 0 else 100 + l) for l, v in enumerate(pat) if v is not None})], [], [])]
            cases.append((src, gen.render(src, rng, p)))
    for _ in range(ctx.n(100, 10_000)):
        src = gen.rand_src(rng, p)
        cases.append((src, gen.render(src, rng, p)))
    # tracks whose every note ends at time zero (one unsustained note / tap chord at tick 0)
    for lanes in ({0: 0}, {1: 0, 3: 0}):
        src = gen.rand_src(rng, p)
        src.tracks = [gen.TrackSrc(2, 1, [gen.NoteGroup(0, dict(lanes), tap=len(lanes) > 1)], [], [])]
        cases.append((src, gen.render(src, rng, p)))
    # empty track
    src = gen.rand_src(rng, p)
    src.tracks = [gen.TrackSrc(1, 2, [], [(0, 5)], [])]
    cases.append((src, gen.render(src, rng, p)))
    ic.run(ctx, out, cases, project, lambda tl: [(t["tick"], t["sus"]) for t in tl], "sustain shapes",
           lambda src: any(gen.sustain_truth(g).startswith("T") for tr in src.tracks for g in tr.groups))
    extra_checks(ctx, out, cases)
    ic.stable_under_reads(ctx, out, cases, "sustains")
    return out


def replay(ctx, data):
    if data.get("extra"):
        return None, "re-run the slice: end-time checks need the generator structure"
    return ic.replay_chart(data, lambda notes: [[n["tick"], n["sus"]] for n in notes])
