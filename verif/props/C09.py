"""C09 — global events are classified lyric / section / text with verbatim values."""
from __future__ import annotations

from .. import common, gen, impl
from .. import framework as fw
from . import line_common as lc

GEN_SECTIONS = ["Unicode", "Regexes", "Tables"]
LEAVES = {'LoopTracks': []}
IMP = ['globalEventsFromChartLines', 'globalEventsParseData']  # functions dumped as terms of the imperative embedding, run against CPython on every run
TRUSTED = [
    "Lean 4 kernel; axioms ⊆ {propext, Classical.choice, Quot.sound}",
    "translator: the three quoted-event patterns and the recorded kind order of the events section",
    "regex engine + dispatcher model; tied by differential execution of lines and of whole events sections",
]
ASSUMPTIONS = ["values free of line breaks"]
RULE = ("event texts over {quote, blank, '=', brackets, non-ASCII, 'lyric', 'section', 'lyric␠', 'section␠'} ∪ random, each as a "
        "line through the three recognisers and as mixed-kind whole sections; promised: 'lyric␠v' ↦ lyric v, 'section␠v' ↦ "
        "section v (verbatim, inner quotes allowed), other quote-free text ↦ text; exactly one list, own tick, file order; "
        "non-trivial = tricky text (quotes / prefixes / blanks); distinct by text")


def classify(txt: str):
    """the promise: (kind, value) or None when nothing is promised (other text containing quotes)"""
    if txt.startswith("lyric "):
        return "lyric", txt[len("lyric "):]
    if txt.startswith("section "):
        return "section", txt[len("section "):]
    if '"' not in txt:
        return "text", txt
    return None


def texts(rng, n):
    out = []
    for _ in range(n):
        r = rng.random()
        if r < 0.6:
            t = "".join(rng.choice(gen.TEXT_ATOMS) for _ in range(rng.randint(0, 5)))
        elif r < 0.8:
            t = rng.choice(["lyric ", "section "]) + "".join(rng.choice(gen.TEXT_ATOMS) for _ in range(rng.randint(0, 4)))
        else:
            t = rng.choice(["end", "end", "[end]", "coda", "solo", "soloend", "ENABLE_CHART_DYNAMICS", "music_start", "music_end",   # names games give a meaning
                            "la", "Intro 1", "phrase_start", "lyric", "section", "lyricx", "lyric\tx", "sectionIntro", " lyric x",
                            "Lyric x", "Section 2 starts", "LYRIC video on", "SECTION", "ſection x", "lyric  two", "section \"A\"", "lyric \"", "lyric a\" ", "\"", "", " "])
        out.append(t.replace("\n", ""))
    return out


def slice(ctx: fw.Ctx) -> fw.Outcome:
    out = fw.Outcome(RULE)
    rng = ctx.sub("c09")
    prof = gen.Profile(exotic_pad=0.3, exotic_digits=0.2)
    cases = []
    for txt in texts(rng, ctx.n(700, 70_000)):
        t = rng.choice([0, rng.randint(0, 5000), rng.randint(0, 10**12)])
        line = f"{gen.pad(rng, prof)}{gen.num(rng, prof, t)} = E \"{txt}\"{gen.pad(rng, prof, '')}"
        pr = classify(txt)
        tricky = any(a in txt for a in ('"', "lyric", "section", "  ", "\t"))
        # dispatch order lyric, section, text: the first recogniser that accepts wins
        if pr is not None:
            kind, val = pr
            cases.append((kind, line, f"ev{lc.KIND_ID[kind]} {t} {impl.cps(val)}", tricky, "canonical"))
        for kind in ("lyric", "section", "text"):
            if pr is None or kind != pr[0]:
                cases.append((kind, line, None, tricky, "other-kind"))
    lc.run(ctx, out, cases)
    sections(ctx, out)
    from .. import direct
    direct.run(ctx, out, 'events', gen.Profile(max_tracks=0, max_events=12, unknown_sections=0.0, meta_fields=0.0, tricky_text=0.6, exotic_pad=0.2, exotic_digits=0.1))  # every way of handing the section's lines over decodes the same
    return out


def sections(ctx, out):
    """whole events sections with mixed kinds: one list each, own tick, file order"""
    rng = ctx.sub("sections")
    prof = gen.Profile(max_tracks=0, max_events=14, garbage=0.1, unknown_sections=0.0, meta_fields=0.0, tricky_text=0.6, max_tempo=2)
    cases = []
    for k_ in range(ctx.n(150, 15_000)):
        src = gen.rand_src(rng, prof)
        if k_ % 8 == 0 and len(src.gevents) >= 2:
            # a name some game gives a meaning to, as the whole text of an event in the middle of the section: one more text event
            j_ = rng.randint(1, len(src.gevents) - 1)
            src.gevents.insert(j_, (src.gevents[j_][0], rng.choice(["text", "text", "section", "lyric"]), rng.choice(["end", "end", "[end]", "coda", "music_end"])))
        cases.append((src, gen.render(src, rng, prof)))
    # any line order: on a single-tempo chart every order of the events lines is accepted, and each list keeps file order
    for _ in range(ctx.n(60, 6000)):
        src = gen.rand_src(rng, prof)
        src.tempo = src.tempo[:1]
        if len(src.gevents) < 3:
            src.gevents += [(rng.randint(0, 3000), *gen.rand_text(rng, prof)) for _ in range(4)]
        rng.shuffle(src.gevents)
        cases.append((src, gen.render(src, rng, prof)))
    # long sections (loop-length-dependent behaviour): several hundred lines, text events in the majority
    for _ in range(ctx.n(4, 80)):
        src = gen.rand_src(rng, prof)
        t = 0
        src.gevents = []
        for _ in range(rng.randint(300, 900)):
            t += rng.randint(0, 50)
            kind, val = gen.rand_text(rng, prof)
            if rng.random() < 0.6:
                kind, val = "text", val.replace('"', "")
                if val.startswith(("lyric ", "section ")):
                    val = "_" + val
            src.gevents.append((t, kind, val))
        cases.append((src, gen.render(src, rng, prof)))
    a, b = common.run_charts([(R.text, None) for _, R in cases])
    for (src, R), x, y in zip(cases, a, b):
        dx, dy = gen.parse_dump(x), gen.parse_dump(y)
        rp = common.chart_replay(R.text)
        truth = {k: [(t, impl.cps(v)) for t, kk, v in src.gevents if kk == k] for k in ("text", "section", "lyric")}
        pj = lambda d: {"text": [(e[0], e[3]) for e in d.get("TX", [])], "section": [(e[0], e[3]) for e in d.get("SE", [])],
                        "lyric": [(e[0], e[3]) for e in d.get("LY", [])]} if d["err"] is None else d["err"]
        kinds = {k for _, k, _ in src.gevents}
        out.case("S" + fw.h(R.text), len(kinds) >= 2, None, tags=["events-section"])
        out.traces += 1
        if pj(dx) != pj(dy):
            out.corr_mismatch("events section", rp, impl=common.short(str(pj(dx))), model=common.short(str(pj(dy))))
        if pj(dx) != truth:
            out.violation("events-" + fw.h(R.text), "global events are not classified as written", {**rp, "truth": truth},
                          observed=common.short(str(pj(dx))), promised=common.short(str(truth)))
        elif pj(dy) != truth:
            out.model_bug("events section", rp, model=common.short(str(pj(dy))), promised=common.short(str(truth)))


def replay(ctx, data):
    if data.get("op") == "direct-section":
        from .. import direct
        return direct.replay(data)
    if data["op"] == "line":
        return lc.replay(data)
    if data["op"] == "chart":
        x = impl.run_chart(data["text"])
        if x.startswith("E "):
            return True, x
        d = gen.parse_dump(x)
        got = {"text": [[e[0], e[3]] for e in d.get("TX", [])], "section": [[e[0], e[3]] for e in d.get("SE", [])],
               "lyric": [[e[0], e[3]] for e in d.get("LY", [])]}
        tr = {k: [list(e) for e in v] for k, v in data["truth"].items()}
        return got != tr, common.short(str(got))
    return None, "unknown replay op"
