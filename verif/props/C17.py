"""C17 — parsing is a pure function of the text, free of history and schedule (partial: see DESIGN)."""
from __future__ import annotations

import json
import os
import subprocess
import sys
import threading
from concurrent.futures import ThreadPoolExecutor

from .. import common, driver, gen, impl
from .. import framework as fw

GEN_SECTIONS = ["State"]
TRUSTED = [
    "Lean 4 kernel; axioms ⊆ {propext, Quot.sound}",
    "translator: AST + live scan inventory of process-wide mutable state (lru_cache users with purity verdict, module/class "
    "level containers and writes to them, mutable defaults, global/nonlocal writes)",
    "memoisation model (sound tables, any eviction, any interleaving of atomic cached calls); tied by histories, threads and "
    "fresh-interpreter parses of the same texts",
    "not exhibited: atomicity of lru_cache's C implementation under the GIL, logging locks, interpreter start-up state",
]
ASSUMPTIONS = ["shared state = the generated inventory; cached calls are atomic", "partial: schedules are sampled on the real runtime, proved on the model"]
RULE = ("a corpus of valid and invalid charts (incl. > 128 distinct sustain tuples and > 128 distinct resolutions, to force LRU "
        "eviction) parsed (a) each in a fresh interpreter = reference, (b) in seeded in-process orders with repetitions, "
        "(c) by 2–8 threads concurrently with a 1 µs switch interval; every result must equal its reference and the model's "
        "pure result; cached functions vs their __wrapped__ originals; non-trivial = history position ≥ 2; distinct by "
        "(history prefix hash, text)")

FRESH = r"""
import sys, json
sys.path.insert(0, sys.argv[1]); sys.path.insert(0, sys.argv[2])
from verif import impl
texts = json.load(sys.stdin)
def one(t, w):
    try:
        return impl.run_observed(t, w)
    except BaseException as ex:  # what the chart turned into cannot even be observed: that is its observation
        return "UNOBSERVABLE " + type(ex).__name__ + ": " + str(ex)[:80]
print(json.dumps([one(t, w) for t, w in texts]))
"""


def observed(text, want=None):
    try:
        return impl.run_observed(text, want)
    except BaseException as ex:  # noqa: BLE001
        return "UNOBSERVABLE " + type(ex).__name__ + ": " + str(ex)[:80]


def reverse_within_ticks(text):
    import re
    nl = "\r\n" if "\r\n" in text else "\n"
    out, run, cur = [], [], None
    for l in text.split(nl):
        m = re.match(r"\s*(\d+) = [NSE] ", l)
        t = m.group(1) if m else None
        if t is not None and t == cur:
            run.append(l)
            continue
        out += run[::-1]
        run, cur = ([l], t) if t is not None else ([], None)
        if t is None:
            out.append(l)
    out += run[::-1]
    return nl.join(out)


def fresh(cases, flags=(), env_extra=None):
    env = dict(os.environ)
    env.update(env_extra or {})
    p = subprocess.run(["/venv/bin/python", *flags, "-c", FRESH, str(fw.REPO), str(fw.ROOT)], input=json.dumps(cases).encode(),
                       stdout=subprocess.PIPE, stderr=subprocess.PIPE, env=env, timeout=600)
    try:
        return json.loads(p.stdout.decode().strip().splitlines()[-1])
    except Exception:  # noqa: BLE001  the interpreter died: every chart of the batch is unobservable there
        return ["UNOBSERVABLE interpreter died: " + p.stderr.decode(errors="replace")[-120:].replace("\n", " ")] * len(cases)


def corpus(ctx):
    rng = ctx.sub("corpus")
    prof = gen.Profile(max_tracks=3, max_groups=8, meta_fields=0.5, dup_fields=0.35)
    cases = []
    for _ in range(ctx.n(24, 300)):
        src = gen.rand_src(rng, prof)
        R = gen.render(src, rng, prof)
        text = R.text
        if rng.random() < 0.3:  # invalid ones too
            from .C18 import mutate
            text = R.newline.join(mutate(rng, R.lines))
        want = None if rng.random() < 0.7 else [(rng.randrange(10), rng.randrange(4)) for _ in range(2)] + [(t.inst, t.diff) for t in src.tracks[:1]]
        if rng.random() < 0.25:
            # one of a few selections shared by many charts of the corpus (a batch job with one selection object)
            want = rng.choice([[(0, 3)], [(0, 3), (4, 3)], [(2, 2), (0, 0)], [(1, 3), (0, 2)]])
        cases.append((text, want))
    # twins that are "the same chart" to a careless cache key: the text respelled under Unicode normal forms, other blanks, other case
    # inside values. Each is its own text with its own fresh-interpreter reference; in a history they follow each other.
    import re
    import unicodedata
    base = [c for c in cases if c[0].isprintable() or True][:5]
    base.append(("[Song]\n{\n  Resolution = 192\n  Name = \"Caf\u00e9 \u212bngstr\u00f6m \ufb01n\"\n  Artist = \"\u30cf\u3099nd \uff21\"\n  Charter = \"Zo\u00eb\"\n}\n"
                 "[SyncTrack]\n{\n  0 = TS 4\n  0 = B 120123\n  192 = B 98765\n}\n[Events]\n{\n  0 = E \"section Caf\u00e9\"\n  96 = E \"lyric \u00e9\u0301-\"\n"
                 "  192 = E \"\u00c5 text\"\n}\n[ExpertSingle]\n{\n  0 = N 0 0\n  96 = E \u00e9\n  96 = N 1 10\n  200 = N 0 0\n  200 = N 7 0\n  300 = N 7 5\n  300 = N 2 9\n  300 = N 6 0\n"
                 "  400 = N 3 0\n  400 = N 1 0\n  400 = N 5 0\n  500 = S 2 10\n  500 = S 2 20\n}\n", None))
    cases.append(base[-1])
    respells = (lambda t: unicodedata.normalize("NFD", t), lambda t: unicodedata.normalize("NFC", t), lambda t: unicodedata.normalize("NFKC", t),
                lambda t: re.sub(r"(?m)$", "  ", t), lambda t: re.sub(r"(?m)^  ", "\t", t),
                lambda t: re.sub(r'"[^"\n]*"', lambda m: m.group().swapcase(), t), lambda t: re.sub(r"[\u200b-\u200f\u2060\ufeff]", "", t),
                # numbers respelled the way other number parsers read them: a decimal point, leading zeros
                lambda t: re.sub(r"(?m)^(\s*\d+ = [NS] \d+ )(\d+)$", r"\g<1>\g<2>.0", t), lambda t: re.sub(r"(?m)^(\s*)(\d+) = ", r"\g<1>000\g<2> = ", t),
                lambda t: re.sub(r"(?m)^(\s*\d+ = [NS] \d+ )(\d+)$", r"\g<1>00\g<2>", t),
                # the lines of every tick in the opposite order (what one order gives must not be remembered for the other)
                reverse_within_ticks)
    # kind by kind, so that the reference parses (a few charts per fresh interpreter, in corpus order) never put two spellings of one
    # chart into the same interpreter; in the first history every twin still comes after its original
    def pad():
        while len(cases) % 6:
            cases.append(("[Song]\n{\n  Resolution = %d\n}\n[SyncTrack]\n{\n  0 = TS 4\n  0 = B 120000\n}\n[Events]\n{\n}\n" % (1000 + len(cases)), None))
    pad()
    for respell in respells:
        for text, want in base:
            tw = respell(text)
            if tw != text and (tw, want) not in cases:
                cases.append((tw, want))
        pad()
    # one set of sustain tuples — one and two lanes, lengths at the rungs where packed or hashed keys run out of room — in one chart in
    # this order and in another chart reversed: if two different tuples ever share a remembered answer, one of the two charts differs
    # from its fresh parse
    rungs = [0, 1, 96, 4094, 4095, 4096, 4192, 65535, 65536, 2**31, 2**32 + 96]
    tuples = [{a: x} for a in range(5) for x in rungs] + [{a: x, b: y} for a in range(5) for b in range(a + 1, 5) for x in rungs[:9] for y in rungs[1:9]]
    for order in (tuples, tuples[::-1]):
        src = gen.ChartSrc(192, {"resolution": 192}, [(0, 120000)], [(0, 4, None)], [], [], [gen.TrackSrc(0, 3, [gen.NoteGroup(10 * k, dict(ls)) for k, ls in enumerate(order)], [], [])])
        cases.append((gen.render(src, rng, gen.Profile(garbage=0, exotic_pad=0, exotic_digits=0)).text, None))
        pad()
    # two long tracks whose N 5 lines mean the same thing whatever else is being parsed at the same moment
    for tag in ("ExpertSingle", "ExpertDrums", "HardDrums", "ExpertDoubleBass"):
        body = "  0 = N 0 0\n" + "".join(f"  {10 * k} = N {k % 5} 0\n  {10 * k} = N 5 0\n" + ("  %d = S 0 1\n" % (10 * k) if k % 40 == 0 else "") for k in range(1, 260))
        cases.append(("[Song]\n{\n  Resolution = 192\n}\n[SyncTrack]\n{\n  0 = TS 4\n  0 = B 120000\n}\n[Events]\n{\n}\n[" + tag + "]\n{\n" + body + "}\n", None))
    # one selection object, charts that have the wanted track, only an easier difficulty of it, or only another instrument
    head = "[Song]\n{\n  Resolution = 192\n}\n[SyncTrack]\n{\n  0 = TS 4\n  0 = B 120000\n}\n[Events]\n{\n}\n"
    sec_ = lambda tag, k: f"[{tag}]\n{{\n  {k} = N 0 0\n  {k + 50} = N 1 0\n}}\n"  # noqa: E731
    for tags in (["ExpertSingle", "HardSingle"], ["HardSingle"], ["MediumSingle", "ExpertDoubleBass"], ["ExpertSingle", "HardSingle", "EasySingle"], ["ExpertDrums"]):
        cases.append((head + "".join(sec_(t, 10 * (j + 1)) for j, t in enumerate(tags)), [(0, 3)]))
        cases.append((head + "".join(sec_(t, 10 * (j + 2)) for j, t in enumerate(tags)), [(0, 3), (4, 3)]))
    # … in this order too: three parses of a chart lacking the wanted track (whatever way the selection list is handed over, one of them
    # gets the application's shared list), then — in reference interpreters of their own — charts that have that track and more
    pad()
    for _ in range(3):
        cases.append((head + sec_("HardSingle", 30) + sec_("EasySingle", 35), [(0, 3)]))
    pad()
    cases.append((head + sec_("ExpertSingle", 40) + sec_("HardSingle", 50) + sec_("EasySingle", 60), [(0, 3)]))
    pad()
    cases.append((head + sec_("HardSingle", 45) + sec_("ExpertSingle", 55) + sec_("MediumSingle", 65), [(0, 3)]))
    pad()
    # charts whose sync section lacks its tick-0 signature and / or tempo: always the same answer, first time and every time after
    for body in (["  0 = B 120000", "  5 = TS 3"], ["  0 = TS 4", "  7 = B 90000"], ["  3 = TS 4", "  9 = B 90000"], ["  0 = B 100000"], ["  0 = TS 6"]):
        for k in range(2):
            cases.append(("[Song]\n{\n  Resolution = 192\n}\n[SyncTrack]\n{\n" + "\n".join(body) + "\n}\n[Events]\n{\n" + ("  1 = E \"x\"\n" * k)
                          + "}\n[ExpertSingle]\n{\n  0 = N 0 0\n}\n", None))
    # different (tempo, resolution) pairs with the same number of ticks per minute — the same tempo-map arithmetic reached two ways:
    # whichever of them a process meets first, each chart's times are its own
    for pairs in (((480, 43008), (192, 107520)), ((96, 240000), (192, 120000), (384, 60000)), ((125, 153600), (192, 100000))):
        for res_, n_ in pairs:
            notes_ = "".join(f"  {k} = N {k % 5} 0\n" for k in range(0, 6000, 16))
            cases.append((f"[Song]\n{{\n  Resolution = {res_}\n}}\n[SyncTrack]\n{{\n  0 = TS 4\n  0 = B {n_}\n}}\n[Events]\n{{\n}}\n[ExpertSingle]\n{{\n{notes_}}}\n", None))
            pad()  # each in a reference interpreter of its own: the reference parse of one never follows the other
    # charts whose events coincide in tick, time and length while their tempo maps differ in shape (a tempo change whose effect has
    # cancelled out by the shared tick; the same tempo written again): what one chart's event remembers of its tempo map is not the other's
    track_ = "[ExpertSingle]\n{\n  768 = N 0 0\n  768 = S 2 384\n  768 = E solo\n  1536 = N 1 0\n  1536 = S 2 96\n  1536 = E soloend\n  2304 = N 2 0\n  2304 = S 2 0\n}\n"
    ev_ = "[Events]\n{\n  768 = E \"section a\"\n  768 = E \"lyric b\"\n  768 = E \"c\"\n  1536 = E \"section d\"\n  1536 = E \"lyric e\"\n  1536 = E \"f\"\n}\n"
    pad()
    for sync_ in (["0 = B 120000"], ["0 = B 240000", "384 = B 80000"], ["0 = B 120000", "192 = B 120000", "384 = B 120000"], ["0 = B 80000", "384 = B 240000"],
                  ["0 = B 120000", "768 = B 120000", "1536 = B 120000"], ["0 = B 120000"]):
        cases.append(("[Song]\n{\n  Resolution = 192\n}\n[SyncTrack]\n{\n  0 = TS 4\n  768 = TS 3\n  1536 = TS 6 3\n" + "".join(f"  {l}\n" for l in sync_) + "}\n" + ev_ + track_, None))
        pad()
    # > 128 distinct sustain tuples in one chart, and > 128 distinct resolutions over tiny charts
    groups = [gen.NoteGroup(10 * k, {0: k + 1, 1: 2 * k + 3}) for k in range(160)]
    src = gen.ChartSrc(192, {"resolution": 192}, [(0, 120000)], [(0, 4, None)], [], [], [gen.TrackSrc(0, 3, groups, [], [])])
    cases.append((gen.render(src, rng, gen.Profile(garbage=0, exotic_pad=0, exotic_digits=0)).text, None))
    for r in range(150):
        src = gen.ChartSrc(50 + r, {"resolution": 50 + r}, [(0, 120000)], [(0, 4, None)], [], [],
                           [gen.TrackSrc(0, 3, [gen.NoteGroup(0, {0: 0}), gen.NoteGroup((50 + r) // 3 + (r % 2), {1: 0})], [], [])])
        cases.append((gen.render(src, rng, gen.Profile(garbage=0, exotic_pad=0, exotic_digits=0)).text, None))
    return cases


def slice(ctx: fw.Ctx) -> fw.Outcome:
    out = fw.Outcome(RULE)
    cases = corpus(ctx)
    jobs = ctx.jobs
    # (a) reference: fresh interpreters (several texts per interpreter would share history; one interpreter per small batch
    #     of *distinct* charts, and a second, differently grouped pass to cross-check the batches themselves)
    per = 6
    batches = [cases[i:i + per] for i in range(0, len(cases), per)]
    with ThreadPoolExecutor(jobs) as ex:
        ref = [r for b in ex.map(fresh, batches) for r in b]
    singles_idx = ctx.sub("singles").sample(range(len(cases)), min(len(cases), ctx.n(8, 120)))
    # the single parses also vary the interpreter's own switches: the result is a function of the text, not of -O / -OO
    switches = [(), ("-O",), ("-OO",), ("-W", "error")]
    with ThreadPoolExecutor(jobs) as ex:
        singles = list(ex.map(lambda jk: fresh([cases[jk[1]]], switches[jk[0] % 4])[0], enumerate(singles_idx)))
    for j, (k, s) in enumerate(zip(singles_idx, singles)):
        sw = " ".join(switches[j % 4]) or "default switches"
        out.case("F" + fw.h(cases[k]), False, None, tags=["fresh-single" + "".join(switches[j % 4])])
        if s != ref[k]:
            out.violation("fresh-" + fw.h(cases[k]), f"a chart parsed alone in a fresh interpreter ({sw}) differs from the same chart parsed after others in another fresh interpreter",
                          {"op": "history", "cases": [list(c) for c in batches[k // per][: k % per + 1]], "switches": list(switches[j % 4])}, observed=s[:200], promised=ref[k][:200])
    # The Lean side of C17 is the memoisation argument and the state inventory; the whole-chart model is *not* compared here:
    # a change to what a parse computes is another property's business, C17 is about the same text giving the same result.
    # (b) in-process histories
    rng = ctx.sub("hist")
    for hno in range(ctx.n(6, 60)):
        order = [rng.randrange(len(cases)) for _ in range(rng.randint(20, 120))]
        if hno == 0:
            order = list(range(len(cases))) + order  # everything once: > 128 keys per memo table inside one history
        for pos, k in enumerate(order):
            x = observed(*cases[k])
            out.case(fw.h([hno, pos, k]), pos >= 1, {"history": hno, "position": pos, "chart": k, "outcome": x[:30]} if pos == 5 else None,
                     tags=["history", x.split("|")[0][:14]])
            if x != ref[k]:
                p_, q_ = fw.first_diff(ref[k], x)
                out.violation("hist-" + fw.h([order[: pos + 1]]), f"chart #{k} parsed at position {pos} of a history differs from its fresh-interpreter parse: {p_!r} vs {q_!r}",
                              {"op": "history", "cases": [list(cases[j]) for j in order[: pos + 1]]}, observed=q_, promised=p_)
                break
    # (c) threads
    old = sys.getswitchinterval()
    sys.setswitchinterval(1e-6)
    try:
        # the long tracks full of `N 5` lines (guitar, bass, two drum difficulties), each parsed again and again by a thread of its own:
        # whatever one instrument's parse switches on or off for its own duration must not be seen by the other's
        long5 = [k for k, (t, w) in enumerate(cases) if t.count(" = N 5 0") > 200]
        focused = [[[long5[i % len(long5)]] * 3 for i in range(4)] for _ in range(ctx.n(2, 20))] if len(long5) >= 2 else []
        for tno in range(ctx.n(4, 40) + len(focused)):
            nthreads = rng.randint(2, 8)
            plan = [[rng.randrange(len(cases)) for _ in range(rng.randint(5, 25))] for _ in range(nthreads)]
            if tno >= ctx.n(4, 40):
                plan = focused[tno - ctx.n(4, 40)]
                nthreads = len(plan)
            results = [None] * nthreads

            def work(i):
                results[i] = [observed(*cases[k]) for k in plan[i]]
            ths = [threading.Thread(target=work, args=(i,)) for i in range(nthreads)]
            for t in ths:
                t.start()
            for t in ths:
                t.join()
            for i in range(nthreads):
                for k, x in zip(plan[i], results[i] or []):
                    out.case(fw.h(["thr", tno, i, k]), True, None, tags=[f"threads{nthreads}"])
                    if x != ref[k]:
                        p_, q_ = fw.first_diff(ref[k], x)
                        out.violation("thr-" + fw.h([tno, i, k]), f"chart #{k} parsed concurrently by {nthreads} threads differs from its fresh parse: {p_!r} vs {q_!r}",
                                      {"op": "threads", "plan": plan, "cases": [list(c) for c in cases]}, observed=q_, promised=p_)
    finally:
        sys.setswitchinterval(old)
    paths(ctx, out, cases)
    hash_seeds(ctx, out)
    try:
        wrapped(ctx, out)
    except (AttributeError, ImportError, TypeError) as ex:  # the private functions are gone, renamed or no longer functools-wrapped: nothing to compare
        out.notes.append(f"memoised-vs-unmemoised comparison skipped: {ex}")
    return out


PATH_FRESH = r"""
import sys, json
sys.path.insert(0, sys.argv[1]); sys.path.insert(0, sys.argv[2])
from pathlib import Path
from verif import impl
from chartparse.chart import Chart
path, want = json.load(sys.stdin)
impl.install_capture()
try:
    c = Chart.from_filepath(Path(path), want_tracks=impl.want_arg(want))
    print(json.dumps(impl.dump_chart(c, [])))
except Exception as e:
    print(json.dumps(impl.err_name(e)))
"""


def paths(ctx, out, cases):
    """the same files read by path several times in one process with different selections (and after a rewrite of the file),
    each compared with a fresh-interpreter read of the same (file, selection)"""
    import tempfile
    from pathlib import Path

    from chartparse.chart import Chart

    rng = ctx.sub("paths")
    impl.install_capture()
    with tempfile.TemporaryDirectory() as td:
        files = []
        for k in range(3):
            text = next(t for t, w in cases[rng.randrange(len(cases)):] + cases if not impl.run_chart(t).startswith("E ") and "|T " in impl.run_chart(t))
            p = Path(td) / f"f{k}.chart"
            p.write_text(text, encoding="utf-8")
            present = sorted(gen.parse_dump(impl.run_chart(text))["tracks"].keys())
            files.append((p, present))
        plan = []
        for _ in range(ctx.n(12, 120)):
            p, present = rng.choice(files)
            want = rng.choice([None, [], present[:1], present[1:], [list(k) for k in present], [[rng.randrange(10), rng.randrange(4)]]])
            plan.append((p, None if want is None else [tuple(k) for k in want]))
        for pos, (p, want) in enumerate(plan):
            try:
                c = Chart.from_filepath(p, want_tracks=impl.want_arg(want))
                x = impl.dump_chart(c, [])
            except Exception as e:  # noqa: BLE001
                x = impl.err_name(e)
            pr = subprocess.run(["/venv/bin/python", "-c", PATH_FRESH, str(fw.REPO), str(fw.ROOT)], input=json.dumps([str(p), want]).encode(),
                                stdout=subprocess.PIPE, stderr=subprocess.PIPE, timeout=120)
            ref = json.loads(pr.stdout.decode().strip().splitlines()[-1])
            out.case(fw.h(["path", pos, str(p.name), want]), pos >= 1, None, tags=["path-history"])
            if x != ref:
                p_, q_ = fw.first_diff(ref, x)
                out.violation("path-" + fw.h([pos, p.name, want]), f"Chart.from_filepath({p.name}, want_tracks={want}) at position {pos} of a history differs from a fresh-interpreter "
                              f"read of the same file and selection: {p_[:100]!r} vs {q_[:100]!r}",
                              {"op": "path-history", "text": p.read_text(encoding='utf-8'), "plan": [[w] for _, w in plan[: pos + 1]]}, observed=q_, promised=p_)
                break
        # the files are saved again the way editors do it (a temporary file moved over the path), in place, and by truncating: the path
        # now names other text, and reading it gives what that text gives
        import os
        texts = [p.read_text(encoding="utf-8") for p, _ in files]
        for k, (p, present) in enumerate(files):
            new = texts[(k + 1) % len(files)]
            if k % 3 == 0:
                tmp = p.with_suffix(".tmp")
                tmp.write_text(new, encoding="utf-8")
                os.replace(tmp, p)
            elif k % 3 == 1:
                with open(p, "r+", encoding="utf-8") as f:
                    f.seek(0)
                    f.write(new)
                    f.truncate()
            else:
                p.unlink()
                p.write_text(new, encoding="utf-8")
            try:
                x = impl.dump_chart(Chart.from_filepath(p), [])
            except Exception as e:  # noqa: BLE001
                x = impl.err_name(e)
            ref = impl.run_chart(new).split("|W ")[0]
            out.case(fw.h(["resave", k]), True, None, tags=["path-resaved"])
            if x.split("|W ")[0] != ref:
                p_, q_ = fw.first_diff(ref, x.split("|W ")[0])
                out.violation("resave-" + fw.h([k, new]), f"a file saved again ({['moved over the path', 'rewritten in place', 'deleted and written'][k % 3]}) and read by path gives "
                              f"{q_[:100]!r}, its text read from a stream {p_[:100]!r}", {"op": "resave", "old": texts[k], "new": new, "how": k % 3}, observed=q_, promised=p_)


        # … and a save that leaves the file's size and modification time as they were (one lane digit changed by a tool that restores
        # the times, or within the clock's granularity): the path names other text all the same
        import re as _re
        for k, (p, present) in enumerate(files):
            old = p.read_text(encoding="utf-8")
            try:
                Chart.from_filepath(p)
            except Exception:  # noqa: BLE001
                continue
            m = _re.search(r"(?m)^(\s*\d+ = N )([0-4])( \d+\s*)$", old)
            if not m:
                continue
            new = old[: m.start(2)] + str((int(m.group(2)) + 1) % 5) + old[m.end(2):]
            st = os.stat(p)
            with open(p, "r+", encoding="utf-8") as f:
                f.write(new)
            os.utime(p, ns=(st.st_atime_ns, st.st_mtime_ns))
            try:
                x = impl.dump_chart(Chart.from_filepath(p), [])
            except Exception as e:  # noqa: BLE001
                x = impl.err_name(e)
            ref = impl.run_chart(new).split("|W ")[0]
            out.case(fw.h(["resave-same-stamp", k]), True, None, tags=["path-resaved"])
            if x.split("|W ")[0] != ref:
                p_, q_ = fw.first_diff(ref, x.split("|W ")[0])
                out.violation("resave-" + fw.h([k, new, "stamp"]), f"a file saved again with the same size and modification time and read by path gives "
                              f"{q_[:100]!r}, its text read from a stream {p_[:100]!r}", {"op": "resave", "old": old, "new": new, "how": 3}, observed=q_, promised=p_)


def hash_seeds(ctx, out):
    """a fresh interpreter is a fresh interpreter whatever its string-hash seed: the same text and selection (several wanted tracks, in
    several orders, as list and as tuple) under PYTHONHASHSEED 0, 1, 2, 3 and 'random' give one and the same observation"""
    head = "[Song]\n{\n  Resolution = 192\n}\n[SyncTrack]\n{\n  0 = TS 4\n  0 = B 120000\n}\n[Events]\n{\n  10 = E \"section a\"\n}\n"
    sec_ = lambda tag, k: f"[{tag}]\n{{\n  {k} = N 0 0\n  {k + 50} = N 1 0\n  {k + 50} = S 2 10\n}}\n"  # noqa: E731
    text = head + "".join(sec_(t, 10 * (j + 1)) for j, t in enumerate(["ExpertSingle", "HardSingle", "ExpertDrums", "ExpertDoubleBass", "EasyKeyboard"]))
    sels = [None, [(0, 3), (0, 2), (4, 3), (2, 3), (5, 0)], [(5, 0), (2, 3), (4, 3), (0, 2), (0, 3)], [(4, 3), (0, 3)], [(0, 3), (4, 3), (0, 3)]]
    batch = [(text, w) for w in sels]
    ref = None
    for seed in ("0", "1", "2", "3", "random"):
        got = fresh(batch, env_extra={"PYTHONHASHSEED": seed})
        for (t, w), x in zip(batch, got):
            out.case(fw.h(["hashseed", seed, w]), True, None, tags=["hash-seed"])
        if ref is None:
            ref = got
            continue
        for (t, w), x, r in zip(batch, got, ref):
            if x != r:
                p_, q_ = fw.first_diff(r, x)
                out.violation("hashseed-" + fw.h([seed, w]), f"the same text and selection {w} observed in fresh interpreters with PYTHONHASHSEED=0 and ={seed} differ: {p_[:100]!r} vs {q_[:100]!r}",
                              {"op": "hashseed", "text": t, "want": w, "seed": seed}, observed=q_, promised=p_)
                return


def wrapped(ctx, out):
    """memoised functions against their originals"""
    from chartparse.instrument import Note, NoteTrackIndex, _refined_sustain_tuple
    from chartparse.tick import NoteDuration, note_duration_to_ticks

    rng = ctx.sub("wrapped")
    for _ in range(ctx.n(400, 20000)):
        r = rng.randint(1, 5000)
        d = rng.choice(list(NoteDuration))
        a, b = note_duration_to_ticks(r, d), note_duration_to_ticks.__wrapped__(r, d)
        tup = tuple(rng.choice([None, 0, rng.randint(0, 9)]) for _ in range(5))
        c, e = _refined_sustain_tuple(tup), _refined_sustain_tuple.__wrapped__(tup)
        out.case(fw.h(["w", r, d.name, tup]), True, None, tags=["wrapped"])
        out.traces += 1
        if a != b or c != e:
            out.violation("wrapped-" + fw.h([r, d.name, tup]), f"memoised result differs from the original function: {a}/{b} {c}/{e}",
                          {"op": "wrapped", "r": r, "d": d.name, "tup": tup}, observed=[a, c], promised=[b, e])
    for n in [m for m in Note if isinstance(m.value, tuple)]:
        if n.is_chord() != Note.is_chord.__wrapped__(n):
            out.violation("wrapped-chord-" + n.name, "Note.is_chord differs from its original", {"op": "wrapped-enum", "name": n.name})
    for n in [m for m in NoteTrackIndex if isinstance(m.value, int)]:
        if n.is_5_note() != NoteTrackIndex.is_5_note.__wrapped__(n):
            out.violation("wrapped-5-" + n.name, "NoteTrackIndex.is_5_note differs from its original", {"op": "wrapped-enum", "name": n.name})


def replay(ctx, data):
    if data.get("op") == "hashseed":
        w = data["want"]
        w = None if w is None else [tuple(k) for k in w]
        a = fresh([(data["text"], w)], env_extra={"PYTHONHASHSEED": "0"})[0]
        b = fresh([(data["text"], w)], env_extra={"PYTHONHASHSEED": str(data["seed"])})[0]
        return a != b, str(fw.first_diff(a, b))[:300]
    if data.get("op") == "resave":
        import os
        import tempfile
        from pathlib import Path

        from chartparse.chart import Chart
        with tempfile.TemporaryDirectory() as td:
            p = Path(td) / "f.chart"
            p.write_text(data["old"], encoding="utf-8")
            try:
                Chart.from_filepath(p)
            except Exception:  # noqa: BLE001
                pass
            if data.get("how") == 3:
                st = os.stat(p)
                with open(p, "r+", encoding="utf-8") as f:
                    f.write(data["new"])
                os.utime(p, ns=(st.st_atime_ns, st.st_mtime_ns))
            else:
                tmp = p.with_suffix(".tmp")
                tmp.write_text(data["new"], encoding="utf-8")
                os.replace(tmp, p)
            try:
                x = impl.dump_chart(Chart.from_filepath(p), [])
            except Exception as e:  # noqa: BLE001
                x = impl.err_name(e)
        ref = impl.run_chart(data["new"]).split("|W ")[0]
        return x.split("|W ")[0] != ref, str(fw.first_diff(ref, x))[:300]
    if data["op"] == "history":
        cases = [(c[0], c[1]) for c in data["cases"]]
        last = None
        for c in cases:
            last = observed(*c)
        ref = fresh([cases[-1]])[0]
        return last != ref, str(fw.first_diff(ref, last))
    return None, "re-run the slice"
