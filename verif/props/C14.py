"""C14 — unrecognised lines are skipped locally; each line is claimed at most once."""
from __future__ import annotations

import copy
import random

from .. import common, gen, impl
from .. import framework as fw
from . import line_common as lc

GEN_SECTIONS = ["Unicode", "Regexes", "Tables"]
LEAVES = {'LoopDispatch': [], 'ComposeLoopDispatch': []}
IMP = ['parseDataFromChartLines']  # functions dumped as terms of the imperative embedding, run against CPython on every run
TRUSTED = [
    "Lean 4 kernel; axioms ⊆ {propext, Classical.choice, Quot.sound}",
    "translator: the nine recognisers and the recorded kind orders",
    "hand model of parse_data_from_chart_lines (first match wins, else one warning); tied by whole-chart differential "
    "execution with warnings compared",
]
ASSUMPTIONS = ["disjointness is claimed for the sync and instrument kinds only (the events section is order-dependent by design, C09)"]
RULE = ("sections with garbage, foreign-section lines and unsupported indices inserted at every position and multiplicity; "
        "promised: data + warnings = body lines of the recognised sections, every parsed event unchanged by the insertions, "
        "one warning per skipped line; random / mutated strings through all recognisers of a section: at most one accepts; "
        "non-trivial = ≥ 1 unparsable line; distinct by chart text / string")

# (line, sections in which the documented format makes it parsable) — decided from the format, never by the code under test
# strings that are more than one line to `str.splitlines` (form feed, vertical tab, FS / GS / RS, NEL, LS, PS): each piece is a line of
# the file — every piece below is unparsable in every section
SPLIT = [("junk\x0cmore junk", set()), ("  96 = E \"lyric he\u2028llo\"", set()), ("  5 = N 0\x0b 0", set()), ("  7 = S 2\x1c 5", set()), ("x\x1dy\x1ez", set()),
         ("  9 = B 12x\x85000", set()), ("  3 = TS\u2029 4", set()), ("tail\x0c", set())]
FOREIGN = SPLIT + [("  0 = B 120000", {"sync"}), ("  0 = TS 4", {"sync"}), ("  0 = A 5", {"sync"}), ("  0 = N 0 0", {"instrument"}),
           ("  0 = S 2 5", {"instrument"}), ("  0 = E solo", {"instrument"}), ("  0 = E \"lyric x\"", {"events"}),
           ("  0 = E \"x\"", {"events", "instrument"}), ("  Resolution = 192", set()), ("  Name = \"x\"", set()), ("garbage", set()),
           ("", set()), ("  ", set()), ("  0 = S 64 10", set()), ("  0 = N 8 0", set()), ("  0 = N 9 48", set()), ("  0 = E two words", set()),
           ("[Header]", set()), ("  0 = N 10 0", set()), ("  0 = S 0 5", set()), ("  0 = TS", set()), ("  0 = B x", set()),
           ("  }", set()), ("} ", set()), ("\t{", set()), (" { ", set()), ("{}", set()),
           # characters that mean something to string formatting / logging / regex engines
           ("  100% = B 120000", set()), ("  0 = X %s", set()), ("%d %s %(line)s", set()), ("  0 = N %d 0", set()), ("{0} {} {line}", set()),
           ("  0 = E \"lyric 100% sure\"", {"events"}), ("  0 = B 50%", set()), ("  768 = ", set()), ("768 =   ", set()), ("  768 =", set()), (" = ", set()), ("=", set()), ("  5 = N", set()), ("  5 = E", set()), ("\\d+ = N \\d \\d", set()), ("  0 = N 0 0 % note", set()),
           # an anchor line ends with its number: blanks after it make it a line of no documented shape (unlike B / TS / N / S / E lines)
           ("  960 = A 2500000 ", set()), ("  5 = A 7\t", set()), ("0 = A 0\u3000", set())]


def body_count(R):
    return sum(len(b) for t, b in R.sections if t in ("SyncTrack", "Events") or t not in ("Song",) and any(t == gen.header_tag(i, d) for i in range(10) for d in range(4)))


def claimed_count(d):
    n = len(d["bpm"]) + len(d["ts"]) + len(d["anchor"]) + len(d["TX"]) + len(d["SE"]) + len(d["LY"])
    return n


def slice(ctx: fw.Ctx) -> fw.Outcome:
    out = fw.Outcome(RULE)
    rng = ctx.sub("c14")
    prof = gen.Profile(garbage=0.0, unknown_sections=0.0, max_tracks=2, shuffle_sections=0.0, crlf=0.0)
    items = []
    for _ in range(ctx.n(120, 12_000)):
        src = gen.rand_src(rng, prof)
        seed = rng.randrange(1 << 30)
        base = gen.render(src, random.Random(seed), prof, garbage=False, newline="\n")
        # insert unparsable lines (w.r.t. the section they go to) at random positions and multiplicities
        secs = [(t, b[:]) for t, b in base.sections]
        ins = 0
        inserted = []
        for t, b in secs:
            if t == "Song":
                continue
            sec = "sync" if t == "SyncTrack" else "events" if t == "Events" else "instrument"
            for _ in range(rng.choice([0, 1, 1, 2, 5, 5, 20, 45, 120, 260])):
                g, parsable_in = rng.choice(FOREIGN)
                if sec in parsable_in:
                    continue  # parsable here by the documented format: not garbage for this section
                b.insert(rng.randint(0, len(b)), g)
                pieces = (g + "\n").splitlines()  # a string holding one of Python's other line boundaries is several lines of the file
                ins += len(pieces)
                inserted += pieces
        lines = []
        for t, b in secs:
            # foreign lines between a header and its brace belong to no section: nothing is parsed from them, nothing is reported
            gap = [rng.choice(FOREIGN)[0] for _ in range(rng.randint(1, 2))] if rng.random() < 0.25 else []
            gap = [g for g in gap if not g.startswith("[") and g.strip() not in ("{", "}", "{}")]
            lines += [f"[{t}]"] + gap + ["{"] + b + ["}"]
        items.append((src, base, "\n".join(lines) + "\n", ins, inserted))
    texts = []
    for src, base, gtext, ins, inserted in items:
        texts += [(base.text, None), (gtext, None)]
    a, b = common.run_charts(texts)
    for k, (src, base, gtext, ins, inserted) in enumerate(items):
        x0, x1 = a[2 * k], a[2 * k + 1]
        y0, y1 = b[2 * k], b[2 * k + 1]
        rp = {"op": "garbage", "base": base.text, "with_garbage": gtext, "inserted": ins}
        out.case("G" + fw.h(gtext), ins > 0, {"inserted": ins} if ins else None, tags=["garbage", f"ins{min(ins, 5)}"])
        out.traces += 2
        for x, y, t in ((x0, y0, base.text), (x1, y1, gtext)):
            if common.framing_proj(x) != common.framing_proj(y):
                p_, q_ = fw.first_diff(x, y)
                out.corr_mismatch("chart with unparsable lines", common.chart_replay(t), impl=p_, model=q_)
        if x0.startswith("E "):
            out.violation("chart-" + fw.h(base.text), f"well-formed chart raised {x0}", common.chart_replay(base.text), observed=x0, promised="parses")
            continue
        d0, d1 = gen.parse_dump(x0), gen.parse_dump(x1)
        # conservation on the chart as generated (every body line canonical): each line of [SyncTrack] / [Events], and each S / E line of
        # an instrument section, is exactly one datum of its kind — nothing silently dropped, nothing doubled — and nothing is reported
        secs0 = dict(base.sections)
        n_sync, n_ev = len(secs0.get("SyncTrack", [])), len(secs0.get("Events", []))
        got_sync = len(d0["bpm"]) + len(d0["ts"]) + len(d0["anchor"])
        got_ev = len(d0["TX"]) + len(d0["SE"]) + len(d0["LY"])
        # … and of its own kind: as many text / section / lyric events as lines of that shape were written (whatever was parsed before)
        kinds_w = [sum(1 for _, k_, _ in src.gevents if k_ == kk) for kk in ("text", "section", "lyric")]
        kinds_g = [len(d0["TX"]), len(d0["SE"]), len(d0["LY"])]
        if got_ev == n_ev and kinds_g != kinds_w and n_ev == len(src.gevents):
            out.violation("conserve-" + fw.h(base.text), f"[Events] of canonical lines: written text / section / lyric = {kinds_w}, parsed {kinds_g}",
                          {**common.chart_replay(base.text), "conserve": [n_sync, n_ev, 0]}, observed=kinds_g, promised=kinds_w)
            continue
        want_se = sum(len(t.phrases) + len(t.tevents) for t in src.tracks)
        got_se = sum(len(v.get("sps", [])) + len(v.get("tes", [])) for v in d0["tracks"].values())
        dup_tracks = len({(t.inst, t.diff) for t in src.tracks}) != len(src.tracks)
        if (got_sync, got_ev) != (n_sync, n_ev) or (not dup_tracks and got_se != want_se) or d0["unparsable"] != 0:
            out.violation("conserve-" + fw.h(base.text), f"a chart of canonical lines only: [SyncTrack] has {n_sync} lines and yields {got_sync} events, [Events] {n_ev} lines and {got_ev} events, "
                          f"instrument sections {want_se} S / E lines and {got_se} events, {d0['unparsable']} lines reported unparsable",
                          {**common.chart_replay(base.text), "conserve": [n_sync, n_ev, want_se]}, observed=[got_sync, got_ev, got_se, d0["unparsable"]], promised=[n_sync, n_ev, want_se, 0])
            continue
        if x1.startswith("E ") or x1.split("|W ")[0] != x0.split("|W ")[0]:
            p_, q_ = fw.first_diff(x0, x1)
            out.violation("local-" + fw.h(rp), f"inserting {ins} unparsable lines changed parsed events: {p_!r} vs {q_!r}", rp, observed=q_, promised=p_)
        elif d1["unparsable"] != d0["unparsable"] + ins or d0["unparsable"] != 0:
            out.violation("warn-" + fw.h(rp), f"{ins} unparsable lines inserted, {d1['unparsable'] - d0['unparsable']} warnings more ({d0['unparsable']} before)",
                          rp, observed=d1["unparsable"], promised=d0["unparsable"] + ins)
        elif inserted:
            # each skipped line is *reported*: a warning naming that very line, as often as it was inserted
            msgs = [m for n_, m in (impl.parse(gtext)[2] or []) if n_ == "chartparse.track"]
            for g in set(inserted):
                if sum(1 for m in msgs if g in m) < inserted.count(g):
                    out.violation("named-" + fw.h(rp), f"unparsable line {g!r} inserted {inserted.count(g)}× is named by "
                                  f"{sum(1 for m in msgs if g in m)} warnings", {**rp, "line": g, "times": inserted.count(g)},
                                  observed=[m[:80] for m in msgs[:3]], promised="one warning naming the line per insertion")
                    break
    long_sections(ctx, out)
    disjoint(ctx, out)
    return out


def long_sections(ctx, out):
    """sections longer than the sizes at which batching, buffering and "sane maximum" code changes gear (2^14, 2^15, 2^16 lines): a few
    unparsable lines inserted at the start, around each such boundary and at the end change no event and are each reported once"""
    ins_, dif_ = impl.enums()
    for n in ([16500, 33000] if ctx.tier == "quick" else [16500, 33000, 66000, 140000]):
        body = [f"  {3 * k} = N {k % 5} 0" for k in range(n)]
        for k in range(0, n, 997):
            body.insert(k, f"  {3 * k} = S 2 1")
        head = "[Song]\n{\n  Resolution = 192\n}\n[SyncTrack]\n{\n  0 = TS 4\n  0 = B 120000\n}\n[Events]\n{\n}\n[ExpertSingle]\n{\n"
        base = head + "\n".join(body) + "\n}\n"
        spots = sorted({0, 1, len(body) - 1} | {b + d for b in (2**14, 2**15, 2**16, 2**17) for d in (-2, -1, 0, 1, 2) if b + d < len(body)})
        bad = body[:]
        for j, sp in enumerate(reversed(spots)):
            bad.insert(sp, f"garbage line {j}")
        rp = {"op": "long", "n": n}
        out.case("Lg" + fw.h(rp), True, {"lines": len(bad)}, tags=["long-section"])
        res = []
        for text in (base, head + "\n".join(bad) + "\n}\n"):
            c, e, w = impl.parse(text)
            if c is None:
                res.append((impl.err_name(e), 0, 0))
                continue
            tr = c.instrument_tracks[ins_[0]][dif_[3]]
            unp = sum(1 for name, msg in w if name == "chartparse.track" and msg.startswith("unparsable line"))
            res.append(([(e_.tick, "".join(str(b) for b in e_.note.value)) for e_ in tr.note_events], len(tr.star_power_events), unp))
        (n0, s0, u0), (n1, s1, u1) = res
        want_notes = [(3 * k, "".join("1" if l == k % 5 else "0" for l in range(5))) for k in range(n)]
        if n0 != want_notes or u0 != 0:
            k = next((i for i, (a, b) in enumerate(zip(n0, want_notes)) if a != b), min(len(n0), len(want_notes))) if isinstance(n0, list) else 0
            out.violation("long-" + fw.h(rp), f"a section of {len(body)} canonical lines: {len(n0) if isinstance(n0, list) else n0} note events for {n} N lines "
                          f"(first difference at #{k}), {u0} lines reported", rp, observed=[len(n0) if isinstance(n0, list) else n0, u0], promised=[n, 0])
        elif n1 != n0 or s1 != s0 or u1 != len(spots):
            out.violation("long-" + fw.h(rp), f"{len(spots)} unparsable lines inserted into a section of {len(body)} lines (at its start, end and around 2^14, 2^15 …): "
                          f"{len(n1) if isinstance(n1, list) else n1} note events (before: {len(n0)}), {s1} phrases (before: {s0}), {u1} warnings", rp,
                          observed=[len(n1) if isinstance(n1, list) else n1, s1, u1], promised=[len(n0), s0, len(spots)])


def disjoint(ctx, out):
    rng = ctx.sub("disjoint")
    prof = gen.Profile(exotic_pad=0.3, exotic_digits=0.3)
    seeds = []
    for _ in range(ctx.n(600, 60_000)):
        t = gen.num(rng, prof, rng.randint(0, 9999))
        v = gen.num(rng, prof, rng.randint(0, 9999))
        seeds.append(rng.choice([f"  {t} = N {rng.randint(0, 9)} {v}", f"  {t} = S 2 {v}", f"  {t} = E {rng.choice(gen.WORDS)}", f"  {t} = B {v}",
                                 f"  {t} = TS {v}", f"  {t} = TS {v} {rng.randint(0, 9)}", f"  {t} = A {v}", f"  {t} = E N", f"  {t} = E 2", f"  {t} = E B"]))
    strings = seeds + [lc.mutate(rng, s) for s in seeds] + [lc.random_string(rng) for _ in range(len(seeds) // 2)]
    groups = (("instrument", ["note", "sp", "te"]), ("sync", ["bpm", "ts", "anchor"]))
    cases = []
    for s in strings:
        for gname, kinds in groups:
            acc = [k for k in kinds if lc.line_impl(k, s) != "none"]
            out.case("D" + fw.h([gname, s]), len(acc) == 1, None, tags=[f"{gname}-claimed-by-{len(acc)}"])
            if len(acc) > 1:
                out.violation("disjoint-" + fw.h([gname, s]), f"string {s!r} is claimed by two {gname} kinds: {acc}",
                              {"op": "disjoint", "line": s, "kinds": kinds}, observed=acc, promised="at most one kind")
            for k in kinds:
                cases.append((k, s, None, False, "disjoint-corr"))
    lc.run(ctx, out, cases[: ctx.n(4000, 200_000)])


def replay(ctx, data):
    if data.get("op") == "long":
        o = fw.Outcome("")

        class _C:  # noqa: N801
            tier = "thorough" if data["n"] > 33000 else "quick"
        long_sections(_C, o)
        return any(v["replay"].get("n") == data["n"] for v in o.violations), str([v["what"][:120] for v in o.violations][:2])
    if data.get("conserve"):
        d = gen.parse_dump(impl.run_chart(data["text"]))
        if d["err"] is not None:
            return True, d["err"]
        got = [len(d["bpm"]) + len(d["ts"]) + len(d["anchor"]), len(d["TX"]) + len(d["SE"]) + len(d["LY"]),
               sum(len(v.get("sps", [])) + len(v.get("tes", [])) for v in d["tracks"].values())]
        return got != list(data["conserve"]) or d["unparsable"] != 0, str(got + [d["unparsable"]])
    if data["op"] == "garbage":
        x0, x1 = impl.run_chart(data["base"]), impl.run_chart(data["with_garbage"])
        if x1.startswith("E ") or x1.split("|W ")[0] != x0.split("|W ")[0]:
            return True, str(fw.first_diff(x0, x1))
        d0, d1 = gen.parse_dump(x0), gen.parse_dump(x1)
        if d1["unparsable"] != d0["unparsable"] + data["inserted"]:
            return True, f"warnings {d0['unparsable']} -> {d1['unparsable']}"
        if "line" in data:
            msgs = [m for n_, m in (impl.parse(data["with_garbage"])[2] or []) if n_ == "chartparse.track"]
            k = sum(1 for m in msgs if data["line"] in m)
            return k < data["times"], f"{k} warnings name the line"
        return False, f"warnings {d0['unparsable']} -> {d1['unparsable']}"
    if data["op"] == "disjoint":
        acc = [k for k in data["kinds"] if lc.line_impl(k, data["line"]) != "none"]
        return len(acc) > 1, str(acc)
    if data["op"] == "line":
        return lc.replay(data)
    if data["op"] == "chart":
        x = impl.run_chart(data["text"])
        return x.startswith("E "), x[:200]
    return None, "unknown replay op"
