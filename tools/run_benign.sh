#!/bin/bash
# Every kept behaviour-preserving refactoring (benign/<id>/patch.diff), all 20 quick checks each, in isolated copies
# (tools/par_benign.sh), JOBS at a time. Expected: "all 20 held" for each; anything else is a false alarm of the machinery.
cd "$(dirname "$0")/.." || exit 2
ls ${@:-benign/*/patch.diff} | xargs -P ${JOBS:-6} -L 1 tools/par_benign.sh
