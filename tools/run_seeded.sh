#!/bin/bash
# Re-run every kept seeded change against the check(s) recorded as catching it. Expected: exit 1 with a concrete replay.
# usage: tools/run_seeded.sh [id ...]      (default: all)
cd "$(dirname "$0")/.." || exit 2
ids=${@:-$(ls seeded)}
fail=0
for id in $ids; do
  d=seeded/$id
  git -C /repo apply "$PWD/$d/patch.diff" || { echo "$id: patch does not apply"; fail=1; continue; }
  for pid in $(python3 -c "import json;print(' '.join(json.load(open('$d/meta.json'))['caught_by']))"); do
    out=$(./check $pid --tier quick 2>&1); rc=$?
    line=$(echo "$out" | grep -m1 'VIOLATION' | cut -c1-110)
    if [ $rc -eq 1 ] && ! echo "$line" | grep -q no-failing-input-found; then echo "$id $pid caught: $line"
    else echo "$id $pid NOT CAUGHT WITH INPUT rc=$rc $line"; fail=1; fi
  done
  git -C /repo checkout -q -- .
done
exit $fail
