"""One-off helper used while porting: restate theorems of Proofs/ in a Props file as
`theorem NEW : ∀ binders, statement := @Orig`, so that the full statement is visible in Props/."""
import re, sys, pathlib
LEAN = pathlib.Path(__file__).resolve().parent.parent / "lean" / "Chartparse" / "Proofs"

def extract(file, name):
    src = (LEAN / (file + ".lean")).read_text()
    m = re.search(r"(/--(?:(?!-/).)*-/\s*)?^theorem\s+" + re.escape(name) + r"\b", src, flags=re.S | re.M)
    if not m:
        raise SystemExit(f"{file}.{name} not found")
    doc = m.group(1) or ""
    i = m.end()
    # find ':=' at depth 0
    depth = 0; j = i
    while j < len(src):
        c = src[j]
        if c in "([{⟨": depth += 1
        elif c in ")]}⟩": depth -= 1
        elif src.startswith(":=", j) and depth == 0: break
        j += 1
    sig = src[i:j].strip()
    # split binders / statement at first depth-0 ':'
    depth = 0; k = 0
    while k < len(sig):
        c = sig[k]
        if c in "([{⟨": depth += 1
        elif c in ")]}⟩": depth -= 1
        elif c == ":" and depth == 0 and not sig.startswith(":=", k): break
        k += 1
    binders = sig[:k].strip(); stmt = sig[k + 1:].strip()
    return doc, binders, stmt

def restate(file, name, new, ns, extra_binders=""):
    doc, binders, stmt = extract(file, name)
    b = (extra_binders + " " + binders).strip()
    body = f"∀ {b},\n    {stmt}" if b else stmt
    return f"{doc}theorem {new} :\n    {body} :=\n  @{ns}.{name}\n"

if __name__ == "__main__":
    file, name, new, ns = sys.argv[1:5]
    print(restate(file, name, new, ns, sys.argv[5] if len(sys.argv) > 5 else ""))
