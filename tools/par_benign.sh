#!/bin/bash
# One behaviour-preserving refactoring, all 20 quick checks, in an isolated copy of /verif against an isolated worktree of /repo.
# usage: par_benign.sh <diff file>      expected: "all 20 held"
f=$(readlink -f $1); id=$(basename $(dirname $f)); [ "$(basename $f)" = patch.diff ] || id=$id-$(basename $f .diff)
pv=/tmp/pv/$id; pr=/tmp/pr/$id
mkdir -p /tmp/pv /tmp/pr
rm -rf $pv; rsync -a --exclude .git --exclude replays --exclude seeded --exclude benign ${SRC:-/verif}/ $pv/
git -C /repo worktree remove --force $pr 2>/dev/null
git -C /repo worktree add -q --detach $pr HEAD && git -C $pr apply $f || { echo "[$id] cannot prepare repo copy"; exit 2; }
bad=""
for i in $(seq -w 1 20); do
  out=$(cd $pv && VERIF_REPO=$pr ./check C$i --tier quick 2>&1); rc=$?
  if [ $rc -ne 0 ]; then bad="$bad C$i(rc=$rc: $(echo "$out" | grep -m1 'VIOLATION\|infrastructure\|model bug' | cut -c1-200))"; fi
done
echo "$id: ${bad:-all 20 held}"
git -C /repo worktree remove --force $pr; rm -rf $pv
