#!/bin/bash
# one kept seeded change, in isolation: expects exit 1 with a concrete replay from each check listed in meta.json
d=$1; id=$(basename $d)
pv=/tmp/pv/$id; pr=/tmp/pr/$id
mkdir -p /tmp/pv /tmp/pr
rm -rf $pv; rsync -a --exclude .git --exclude replays --exclude seeded --exclude benign ${SRC:-/verif}/ $pv/
git -C /repo worktree remove --force $pr 2>/dev/null
git -C /repo worktree add -q --detach $pr HEAD && git -C $pr apply /verif/$d/patch.diff || { echo "$id: cannot prepare repo copy"; exit 2; }
for pid in $(python3 -c "import json;print(' '.join(json.load(open('/verif/$d/meta.json'))['caught_by']))"); do
  out=$(cd $pv && VERIF_REPO=$pr ./check $pid --tier quick 2>&1); rc=$?
  line=$(echo "$out" | grep -m1 'VIOLATION' | cut -c1-110)
  if [ $rc -eq 1 ] && ! echo "$line" | grep -q no-failing-input-found; then echo "$id $pid caught: $line"
  else echo "$id $pid NOT CAUGHT WITH INPUT rc=$rc $line"; fi
done
git -C /repo worktree remove --force $pr; rm -rf $pv
