#!/bin/bash
# all kept seeded changes (or the given seeded/<id> dirs) in parallel isolation; prints one line per (change, check)
cd "$(dirname "$0")/.." || exit 2
ls -d ${@:-seeded/*} | xargs -P ${JOBS:-8} -L 1 tools/par_seeded_one.sh
