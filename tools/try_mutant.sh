#!/bin/bash
# usage: try_mutant.sh <worktree dir> <m1|m2> <check ids...>
# 1. confirm in the scratch worktree: tests unchanged, demo fails with the change and passes without
# 2. apply to /repo, run the given checks (quick unless TIER=thorough), revert /repo
wt=$1; m=$2; shift 2
cd $wt || exit 2
git checkout -q -- chartparse
/venv/bin/python demo_$m.py >/dev/null 2>&1; clean=$?
git apply $m.diff || { echo "patch does not apply"; exit 2; }
tests=$(/venv/bin/python -m pytest -q -p no:cacheprovider 2>&1 | tail -1)
/venv/bin/python demo_$m.py >/dev/null 2>&1; mutated=$?
git checkout -q -- chartparse
echo "[$wt $m] demo clean rc=$clean mutated rc=$mutated ; tests: $tests"
cd /verif
git -C /repo apply $wt/$m.diff || { echo "patch does not apply to /repo"; exit 2; }
for pid in "$@"; do
  out=$(./check $pid --tier ${TIER:-quick} 2>&1); rc=$?
  echo "   $pid rc=$rc $(echo "$out" | grep -m1 'VIOLATION\|held\|infrastructure' | cut -c1-160)"
  echo "$out" | grep -v VIOLATION | grep "^$pid:" | head -2 | cut -c1-260 | sed 's/^/      /'
done
git -C /repo checkout -q -- .
