"""keep_mutant.py <Cxx> <m1|m2> <caught_by> <missed_before_fix: yes|no> <needs...>  -> /verif/seeded/<Cxx>-<m>/"""
import json, pathlib, shutil, sys
pid, m, caught, missed = sys.argv[1:5]
needs = " ".join(sys.argv[5:])
import os
WT = os.environ.get("WT", "/tmp/wt")
TAG = os.environ.get("TAG", "")
src = pathlib.Path(f"{WT}/{pid}")
dst = pathlib.Path(f"/verif/seeded/{pid}-{TAG}{m}")
dst.mkdir(parents=True, exist_ok=True)
shutil.copy(src / f"{m}.diff", dst / "patch.diff")
demo = (src / f"demo_{m}.py").read_text().replace(f"{WT}/{pid}", "/repo")
(dst / "demo.py").write_text(demo)
meta = {"id": f"{pid}-{TAG}{m}", "breaks_property": pid, "needs_to_manifest": needs,
        "confirmed": "in a scratch worktree: existing suite unchanged (251 passed + the known always-failing test), demo exits non-zero with "
                     "the change and 0 without; then applied to /repo (git apply), checks run, reverted (git checkout -- .)",
        "ran": f"tools/try_mutant.sh {WT}/{pid} {m} {caught.split(',')[0]}",
        "caught_by": caught.split(","), "missed_before_strengthening": missed == "yes",
        "origin": "independent sub-agent given only the property text and a scratch worktree"}
(dst / "meta.json").write_text(json.dumps(meta, indent=1) + "\n")
print("kept", dst)
