"""Writes /verif/MANIFEST.json (kept in the repo so the per-property texts live in one place)."""
import json, pathlib
ROOT = pathlib.Path(__file__).resolve().parent.parent
P = {
 "C01": ("§8 C01", "Lean: per-segment float64/timedelta error bound (seg_bound), accumulation over any linked tempo map (tsRec_close), identification of the code-shaped query with the walk (tsAt_eq_tsRec) and of a successful build with the accumulation recurrence (build_linked) — for every resolution, map and tick inside the property's envelope. Tie: bit-exact differential execution of fl / timedelta / secs / timestamp_at_tick and whole charts vs the model, plus an exact Fraction oracle with the theorem's tolerance.",
         "proof + correspondence (differential) + exact-arithmetic oracle"),
 "C02": ("§8 C02", "Lean: the grouping loop loses, duplicates and moves nothing (groups_flatten), every group is non-empty and single-tick, one event per distinct tick in strictly increasing order, lane l set iff a line names it. Tie: whole-chart differential execution against the model and the generator's (tick → lane set) truth, all 32 lane sets at first/middle/last position per run.",
         "proof + correspondence (differential) + generator truth"),
 "C03": ("§8 C03", "Lean: refine/fill lemmas for the sustain shape (scalar when lanes agree or open, tuple otherwise, flags never contribute). Tie: whole-chart differential execution; end tick, end time (C01 tolerance) and last-note-end checked on the real objects.",
         "proof + correspondence (differential) + generator truth"),
 "C04": ("§8 C04", "Lean: round(fl(res/3)) = ⌊(2res+3)/6⌋ for every res < 2^50 (float error analysis) and the decision procedure equals the rule as stated for every threshold, tick, lane lists, flags and predecessor; forced first note ⇒ ValueError. Tie: exhaustive differential execution of the real _compute_hopo_state (all 1024 pairs × flags × boundary distances per resolution in thorough) vs model vs rule; float64 witness at resolution 2^53 is a listed known finding.",
         "proof + correspondence (exhaustive differential per resolution)"),
 "C05": ("§8 C05", "Lean: complete proof that the carried cursor computes the first covering phrase (half-open) for every phrase list ordered by start and every non-decreasing note list. Tie: exhaustive small-scope differential execution of the real track builder vs model vs first-covering truth, plus whole charts.",
         "proof + correspondence (exhaustive small scope)"),
 "C06": ("§8 C06", "Lean: splitlines of LF- and CRLF-terminated renderings are the lines; the scanner frames every well-formed section (later duplicates replace in place). Tie: regenerated header table / required tags / break table; differential execution over section permutations, newline styles, BOM through real files, unknown sections, missing sections, malformed framing.",
         "proof + regenerated tables + correspondence (differential, metamorphic relations)"),
 "C07": ("§8 C07", "Lean: acceptance with exact captures and soundness (⇔) of the N recogniser, acceptance of the E recogniser, int() round trip — for all digit strings, paddings and Unicode digit scripts; theorems are about templates whose normal form equals that of the regenerated recognisers (obligation by decide). Tie: regexes and Unicode tables regenerated from the running interpreter; engine vs re.match on generated lines, near-misses and all code points.",
         "proof over regenerated recognisers + correspondence (differential)"),
 "C08": ("§8 C08", "Lean: every n in [1, 2^52) decodes to fl(n/1000) and passes the three-decimal validation; an accepted value within half a thousandth of n/1000 is the nearest float; TS recogniser acceptance (2 and 3 captures) transported to the regenerated pattern; kernel-checked witness that the originally shipped decode rejected 1118 (defect fixed by a fix: commit). Tie: every n ≤ 2·10^4 (quick) / 10^7 (thorough) through the real BPMEvent, lines and whole charts vs model vs nearest-float truth.",
         "proof + correspondence (exhaustive range, differential)"),
 "C09": ("§8 C09", "Lean: lyric recogniser accepts 'lyric␠v' with v verbatim (inner quotes and blanks included) by a priority argument. Tie: regenerated patterns and kind order; lines through all three recognisers and mixed-kind sections vs model vs classification truth.",
         "proof + regenerated kind order + correspondence (differential)"),
 "C10": ("§8 C10", "Lean: multiword field value verbatim for any field name and non-empty value; a matching line starts with blanks + its own field name; two different field names never match the same string (non-interference for all strings). Tie: regenerated 24 recognisers, processing functions and defaults; [Song] sections with tricky values, permutations, foreign lines vs model vs truth.",
         "proof + regenerated field table + correspondence (differential)"),
 "C11": ("§8 C11", "Lean: hint invariance, hint rejection, governing-index specification, success ⇒ un-hinted answer, and the chain theorem for body lines in ANY order (ValueError or every stored index is the un-hinted one). Tie: exhaustive small maps × ticks × hints and shuffled sections vs model vs un-hinted query.",
         "proof + correspondence (exhaustive small scope, differential)"),
 "C12": ("§8 C12", "Lean: time is non-decreasing for every linked tempo map and every pair of ticks (no envelope); strictly increasing inside the C01 envelope when n·res ≤ 3·10^10. Tie: ascending sweeps across tempo changes and whole charts vs model; float64 witness at ticks ≈ 2·10^16 is a listed known finding for strictness.",
         "proof + correspondence (differential)"),
 "C13": ("§8 C13", "Lean over the model's routing loop: a selection yields exactly the selected tracks of the unrestricted routing (same order, identical), an empty selection parses nothing and cannot fail, the body of a non-selected or foreign section cannot affect the result, metadata/sync/events never depend on the selection. Tie: charts × selections × replaced bodies vs model vs filter-of-unrestricted-parse.",
         "proof + correspondence (differential, metamorphic relations)"),
 "C14": ("§8 C14", "Lean: conservation (data + warnings = lines), locality of unparsable lines, order-freedom of classification under pairwise disjointness — for abstract line/datum types, instantiated by the model's dispatcher. Tie: garbage insertion at random positions/multiplicities with warnings compared; random/mutated strings claimed by at most one kind.",
         "proof + correspondence (differential, metamorphic relations)"),
 "C15": ("§8 C15", "Lean: every failure of the tempo-map build is a ValueError; a built map satisfies every trust condition (contrapositive = every corruption clause at every position); negative ticks and non-positive tempo never yield a time. Tie: fault enumeration — every single corruption at every position of generated charts — vs model with the exact exception class.",
         "proof + fault enumeration with correspondence"),
 "C16": ("§8 C16", "Lean: closedness of the count, non-positive interval ⇒ ValueError, value within 3·2^-53 of count/seconds. Tie: calls in all argument forms with bounds coinciding with note times vs model (exact ratio) vs Fraction truth.",
         "proof + correspondence (differential)"),
 "C17": ("§8 C17", "PARTIAL. Lean: programs over sound memo tables compute their pure results under any eviction and any interleaving of atomic cached calls; obligation on the regenerated inventory of process-wide state (only pure, fully keyed memo tables; no written containers, mutable defaults or global writes). Not exhibited by the model: GIL-level atomicity of lru_cache, logging, interpreter start-up. Tie: histories with > 128 keys per table, threads with 1 µs switch interval, fresh interpreters.",
         "proof (memoisation argument) + regenerated state inventory + history/thread/fresh-process correspondence"),
 "C18": ("§8 C18", "Lean: C18_total — for every text and selection the whole-chart model returns a chart or a documented error; every internal failure point (IndexError, KeyError, UnboundLocalError sites) is unreachable. PARTIAL for rendering: str()/repr() are exercised on every parsed chart and event, not modelled. Tie: malformed stream (mutations, fragment soup) with the three-valued outcome vs model.",
         "proof (totality of the model) + correspondence (differential on malformed inputs)"),
 "C19": ("§8 C19", "PARTIAL. Lean: with a non-inserting track map no read-only operation sequence changes the observation; obligation on the regenerated class inventory (map does not auto-insert — probed; classes with cached properties are frozen dataclasses comparing by fields); shipped defaultdict behaviour refuted by decide (defect fixed by a fix: commit). Not exhibited: Python's object model itself. Tie: random op sequences on real charts with full observation and twin equality after every op.",
         "proof (container state machine) + regenerated class inventory + op-sequence correspondence"),
 "C20": ("§8 C20", "Lean: reflective proof — a closure check over the import graph regenerated from the AST of all 12 modules, proved sound once for every import sequence (any length, repetitions) and evaluated by the kernel (decide +kernel): every import succeeds, no partially initialised module, canonical bindings, identical namespaces whatever the order. The circular-import defect made the obligation false (fixed by a fix: commit). Tie: fresh interpreters for all 12 first-imports, all 132 ordered pairs and sampled permutations.",
         "reflective proof over regenerated import graph + fresh-interpreter correspondence"),
}
NOTE = ("Trusted base: Lean 4.33 kernel (thorough tier also leanchecker); axioms ⊆ {propext, Classical.choice, Quot.sound}, audited by "
        "#print axioms on every run; no sorry/admit/own axiom/native_decide/bv_decide. The translator (verif/translate.py) and the "
        "correspondence check (differential testing, coverage in the evidence) tie the model to /repo's working tree; CPython "
        "(IEEE-754, re, int, splitlines, timedelta, dict, dataclasses, lru_cache, import system) is modelled, not verified.")
m = {
 "version": 1,
 "setup_cmd": "./check --setup",
 "hooks": {"guard": "CHARTPARSE_VERIF", "enable": "no hooks are needed: every observation point is public API or introspection",
           "baseline_off_cmd": "cd /repo && /venv/bin/python -m pytest -ra -q -p no:cacheprovider --timeout=900 --continue-on-collection-errors",
           "source_commits": [], "add_only": True},
 "engines": [{"name": "lean-model", "path": "lean/", "serves_properties": sorted(P), "kind_free_text": "Lean 4 model + theorems (lake), native line-protocol driver"},
             {"name": "harness", "path": "verif/", "serves_properties": sorted(P), "kind_free_text": "translator, generators with ground truth, correspondence and failing-input search"}],
 "checks": [], "not_applicable": [],
 "notes": "quick ≤ ~1 min per property in steady state (C20 ~45 s when the import graph changed: kernel evaluation); thorough ≤ ~10 min on 16 cores. Exit 2 = infrastructure problem.",
}
for pid in sorted(P):
    ref, text, tech = P[pid]
    m["checks"].append({"property_id": pid, "quick_cmd": f"./check {pid} --tier quick", "thorough_cmd": f"./check {pid} --tier thorough",
                        "evidence_file": f"evidence/{pid}.json", "replay_cmd_template": f"./check {pid} --replay {{path}}", "engine": "lean-model",
                        "level_claimed": {"category": "proof", "text": text, "design_ref": ref}, "level_note": NOTE, "technique": tech})
(ROOT / "MANIFEST.json").write_text(json.dumps(m, indent=1, ensure_ascii=False) + "\n")
print("ok", len(m["checks"]))
