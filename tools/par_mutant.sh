#!/bin/bash
# Evaluate one seeded change in isolation: a private copy of /verif (own Lean build dir, own evidence) run against a private
# worktree of /repo with the change applied (VERIF_REPO). /repo and /verif themselves are not touched, so many can run at once.
# usage: par_mutant.sh <worktree dir holding mN.diff/demo_mN.py> <m1|m2> <check ids...>
wt=$1; m=$2; shift 2
id=$(basename $wt)-$m
pv=/tmp/pv/$id; pr=/tmp/pr/$id
mkdir -p /tmp/pv /tmp/pr
# 1. confirm in the agent's own worktree: tests unchanged, demo fails with the change and passes without
cd $wt || exit 2
git checkout -q -- chartparse
/venv/bin/python demo_$m.py >/dev/null 2>&1; clean=$?
git apply $m.diff || { echo "[$id] patch does not apply"; exit 2; }
tests=$(/venv/bin/python -m pytest -q -p no:cacheprovider 2>&1 | tail -1)
/venv/bin/python demo_$m.py >/dev/null 2>&1; mutated=$?
git checkout -q -- chartparse
# 2. isolated copies
rm -rf $pv; rsync -a --exclude .git --exclude replays --exclude seeded --exclude benign ${SRC:-/verif}/ $pv/
git -C /repo worktree remove --force $pr 2>/dev/null
git -C /repo worktree add -q --detach $pr HEAD && git -C $pr apply $wt/$m.diff || { echo "[$id] cannot prepare repo copy"; exit 2; }
res=""
for pid in "$@"; do
  out=$(cd $pv && VERIF_REPO=$pr ./check $pid --tier ${TIER:-quick} 2>&1); rc=$?
  res="$res\n   $pid rc=$rc $(echo "$out" | grep -m1 'VIOLATION\|held\|infrastructure' | cut -c1-170)\n      $(echo "$out" | grep -v VIOLATION | grep "^$pid:" | head -1 | cut -c1-260)"
done
echo -e "[$id] demo clean rc=$clean mutated rc=$mutated ; tests: $tests$res"
git -C /repo worktree remove --force $pr; rm -rf $pv
