import Chartparse.Proofs.RouteProofs
/-! C06 on the model: unrecognised sections only add a report; the order of sections does not matter. -/
namespace Chartparse
open Tempo Inst Meta

abbrev RouteOut := List RoutedTrack × Nat × List Str

/-- what one section contributes to a successful routing: tracks, unparsable lines, unhandled reports -/
def stepData (res : Int) (evs : List BpmEv) (sel : Nat × Nat → Bool) (s : Str × List Str) : Option RouteOut :=
  match routeOf s.1 with
  | some k =>
    if sel (k.1, k.2.1) then
      match parseTrack res evs s.2 with
      | .ok t => some ([⟨(k.1, k.2.1), (k.2.2.1, k.2.2.2), t.1⟩], t.2, [])
      | .error _ => none
    else some ([], 0, [])
  | none => some ([], 0, if Gen.requiredTags.contains s.1 then [] else [s.1])

def prepend (d rr : RouteOut) : RouteOut := (d.1 ++ rr.1, d.2.1 + rr.2.1, d.2.2 ++ rr.2.2)

theorem route_cons (res : Int) (evs : List BpmEv) (sel : Nat × Nat → Bool) (s : Str × List Str) (rest : Sections) (r : RouteOut) :
    routeTracks res evs sel (s :: rest) = .ok r ↔
      ∃ d rr, stepData res evs sel s = some d ∧ routeTracks res evs sel rest = .ok rr ∧ r = prepend d rr := by
  obtain ⟨tag, lines⟩ := s
  simp only [routeTracks, stepData]
  cases hr : routeOf tag with
  | none =>
    simp only []
    constructor
    · intro h
      obtain ⟨rr, hrr, hk⟩ := bind_ok h
      injection hk with hk
      refine ⟨_, rr, rfl, hrr, ?_⟩
      rw [← hk]; unfold prepend
      cases Gen.requiredTags.contains tag <;> simp
    · rintro ⟨d, rr, hd, hrr, rfl⟩
      injection hd with hd; subst hd
      rw [hrr, ok_bind]; unfold prepend
      cases Gen.requiredTags.contains tag <;> simp
  | some k =>
    simp only []
    by_cases hs : sel (k.1, k.2.1) = true
    · rw [if_pos hs, if_pos hs]
      cases ht : parseTrack res evs lines with
      | error e =>
        simp only []
        constructor
        · intro h; cases h
        · rintro ⟨d, rr, hd, _⟩; cases hd
      | ok t =>
        simp only [ok_bind]
        constructor
        · intro h
          obtain ⟨rr, hrr, hk⟩ := bind_ok h
          injection hk with hk
          exact ⟨_, rr, rfl, hrr, by rw [← hk]; simp [prepend]⟩
        · rintro ⟨d, rr, hd, hrr, rfl⟩
          injection hd with hd; subst hd
          rw [hrr, ok_bind]; simp [prepend]
    · rw [if_neg hs, if_neg hs]
      constructor
      · intro h; exact ⟨_, r, rfl, h, by simp [prepend]⟩
      · rintro ⟨d, rr, hd, hrr, rfl⟩
        injection hd with hd; subst hd
        rw [hrr]; simp [prepend]

/-- equality up to the order of tracks and of reports -/
def RouteEq (r r' : RouteOut) : Prop := r.1.Perm r'.1 ∧ r.2.1 = r'.2.1 ∧ r.2.2.Perm r'.2.2

theorem prepend_congr (d : RouteOut) {r r' : RouteOut} (h : RouteEq r r') : RouteEq (prepend d r) (prepend d r') :=
  ⟨List.Perm.append_left _ h.1, by simp [prepend, h.2.1], List.Perm.append_left _ h.2.2⟩

theorem prepend_comm (d1 d2 r : RouteOut) : RouteEq (prepend d1 (prepend d2 r)) (prepend d2 (prepend d1 r)) := by
  refine ⟨?_, ?_, ?_⟩
  · simp only [prepend, ← List.append_assoc]
    exact List.Perm.append_right _ List.perm_append_comm
  · simp only [prepend]; omega
  · simp only [prepend, ← List.append_assoc]
    exact List.Perm.append_right _ List.perm_append_comm

/-- **C06 (section order, routing)**: for any permutation of the sections, a successful routing stays successful with
    the same tracks (as a multiset), the same number of unparsable lines and the same unhandled reports (as a multiset) -/
theorem route_perm (res : Int) (evs : List BpmEv) (sel : Nat × Nat → Bool) {secs secs' : Sections} (hp : secs.Perm secs') :
    ∀ r : RouteOut, routeTracks res evs sel secs = .ok r →
      ∃ r' : RouteOut, routeTracks res evs sel secs' = .ok r' ∧ RouteEq r r' := by
  induction hp with
  | nil => intro r h; exact ⟨r, h, List.Perm.refl _, rfl, List.Perm.refl _⟩
  | cons s _ ih =>
    intro r h
    obtain ⟨d, rr, hd, hrr, rfl⟩ := (route_cons _ _ _ _ _ _).mp h
    obtain ⟨rr', hrr', he⟩ := ih rr hrr
    exact ⟨prepend d rr', (route_cons _ _ _ _ _ _).mpr ⟨d, rr', hd, hrr', rfl⟩, prepend_congr d he⟩
  | swap s1 s2 l =>
    intro r h
    obtain ⟨d2, r2, hd2, hr2, rfl⟩ := (route_cons _ _ _ _ _ _).mp h
    obtain ⟨d1, r1, hd1, hr1, rfl⟩ := (route_cons _ _ _ _ _ _).mp hr2
    refine ⟨prepend d1 (prepend d2 r1), ?_, prepend_comm d2 d1 r1⟩
    exact (route_cons _ _ _ _ _ _).mpr ⟨d1, _, hd1, (route_cons _ _ _ _ _ _).mpr ⟨d2, r1, hd2, hr1, rfl⟩, rfl⟩
  | trans _ _ ih1 ih2 =>
    intro r h
    obtain ⟨r1, h1, e1⟩ := ih1 r h
    obtain ⟨r2, h2, e2⟩ := ih2 r1 h1
    exact ⟨r2, h2, e1.1.trans e2.1, e1.2.1.trans e2.2.1, e1.2.2.trans e2.2.2⟩

/-- **C06 (unknown sections, routing)**: inserting a section whose tag is neither a known header nor a required tag
    changes nothing but the reports: same tracks, same unparsable count, one more unhandled report -/
theorem route_unknown (res : Int) (evs : List BpmEv) (sel : Nat × Nat → Bool) (pre post : Sections) (tag : Str) (body : List Str)
    (hu : routeOf tag = none) (hreq : Gen.requiredTags.contains tag = false) :
    ∀ r : RouteOut, routeTracks res evs sel (pre ++ post) = .ok r →
      ∃ r' : RouteOut, routeTracks res evs sel (pre ++ (tag, body) :: post) = .ok r' ∧ r'.1 = r.1 ∧ r'.2.1 = r.2.1 ∧
        r'.2.2.Perm (tag :: r.2.2) := by
  have hstep : stepData res evs sel (tag, body) = some ([], 0, [tag]) := by
    simp only [stepData, hu, hreq]; rfl
  induction pre with
  | nil =>
    intro r h
    refine ⟨prepend ([], 0, [tag]) r, (route_cons _ _ _ _ _ _).mpr ⟨_, r, hstep, h, rfl⟩, ?_, ?_, ?_⟩ <;> simp [prepend]
  | cons s rest ih =>
    intro r h
    obtain ⟨d, rr, hd, hrr, rfl⟩ := (route_cons _ _ _ _ _ _).mp h
    obtain ⟨rr', hrr', e1, e2, p3⟩ := ih rr hrr
    refine ⟨prepend d rr', (route_cons _ _ _ _ _ _).mpr ⟨d, rr', hd, hrr', rfl⟩, ?_, ?_, ?_⟩
    · simp [prepend, e1]
    · simp [prepend, e2]
    · simp only [prepend]
      exact (List.Perm.append_left _ p3).trans List.perm_middle

/-- looking a required tag up is blind to sections with other tags -/
theorem lookup_insert (pre post : Sections) (tag t : Str) (body : List Str) (hne : (tag == t) = false) :
    lookup (pre ++ (tag, body) :: post) t = lookup (pre ++ post) t := by
  unfold lookup
  rw [List.find?_append, List.find?_append]
  simp only [List.find?_cons, hne]

theorem any_insert (pre post : Sections) (tag t : Str) (body : List Str) (hne : (tag == t) = false) :
    (pre ++ (tag, body) :: post).any (·.1 == t) = (pre ++ post).any (·.1 == t) := by
  simp [List.any_append, hne]

/-- **C06 (unknown sections, metadata / sync / events)**: the selection-independent part of the parse is blind to a
    section whose tag is not a required tag -/
theorem shared_unknown (pre post : Sections) (tag : Str) (body : List Str)
    (hreq : ∀ t ∈ Gen.requiredTags, (tag == t) = false) :
    parseShared (pre ++ (tag, body) :: post) = parseShared (pre ++ post) := by
  have h3 : Gen.requiredTags.length = 3 := by decide
  have hmem : ∀ i, i < 3 → tagAt i ∈ Gen.requiredTags := by
    intro i hi
    unfold tagAt
    rw [List.getD_eq_getElem?_getD, List.getElem?_eq_getElem (by omega)]
    simp
  unfold parseShared
  have hall : (Gen.requiredTags.all fun t => (pre ++ (tag, body) :: post).any (·.1 == t)) =
      (Gen.requiredTags.all fun t => (pre ++ post).any (·.1 == t)) := by
    apply Bool.eq_iff_iff.mpr
    simp only [List.all_eq_true]
    constructor
    · intro h t ht; rw [← any_insert pre post tag t body (hreq t ht)]; exact h t ht
    · intro h t ht; rw [any_insert pre post tag t body (hreq t ht)]; exact h t ht
  rw [hall, lookup_insert _ _ _ _ _ (hreq _ (hmem 0 (by omega))), lookup_insert _ _ _ _ _ (hreq _ (hmem 1 (by omega))),
    lookup_insert _ _ _ _ _ (hreq _ (hmem 2 (by omega)))]

end Chartparse
