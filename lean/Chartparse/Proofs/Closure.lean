/-! Generic reflective soundness used by C20: a Boolean closure check implies a property of every run. -/
namespace Chartparse.Closure

variable {σ : Type} [DecidableEq σ]

def runSeq (step : σ → Nat → Option σ) : σ → List Nat → Option σ
  | s, [] => some s
  | s, m :: ms => match step s m with
    | some s' => runSeq step s' ms
    | none => none

/-- `R` contains the initial state, every state of `R` is good, and `R` is closed under every move `< n` -/
def closedOK (step : σ → Nat → Option σ) (good : σ → Bool) (init : σ) (n : Nat) (R : List σ) : Bool :=
  R.contains init && R.all fun s => good s && (List.range n).all fun m =>
    match step s m with
    | some s' => R.contains s'
    | none => false

theorem closed_sound (step : σ → Nat → Option σ) (good : σ → Bool) (init : σ) (n : Nat) (R : List σ)
    (h : closedOK step good init n R = true) (seq : List Nat) (hseq : ∀ m ∈ seq, m < n) :
    ∃ s, runSeq step init seq = some s ∧ s ∈ R ∧ good s = true := by
  unfold closedOK at h
  rw [Bool.and_eq_true, List.all_eq_true] at h
  obtain ⟨hinit, hall⟩ := h
  have hinit' : init ∈ R := by simpa using hinit
  -- generalise over the starting state inside R
  suffices H : ∀ s, s ∈ R → ∃ s', runSeq step s seq = some s' ∧ s' ∈ R ∧ good s' = true from H init hinit'
  induction seq with
  | nil =>
    intro s hs
    have := hall s hs
    rw [Bool.and_eq_true] at this
    exact ⟨s, rfl, hs, this.1⟩
  | cons m ms ih =>
    intro s hs
    have hs' := hall s hs
    rw [Bool.and_eq_true, List.all_eq_true] at hs'
    have hm := hs'.2 m (by simp; exact hseq m (by simp))
    unfold runSeq
    cases hstep : step s m with
    | none => rw [hstep] at hm; cases hm
    | some s' =>
      rw [hstep] at hm
      simp only []
      exact ih (fun m' hm' => hseq m' (by simp [hm'])) s' (by simpa using hm)

end Chartparse.Closure

