import Chartparse.Model.Regex
/-! `int()` of a `\d+` capture, and its round trip with decimal rendering (C07/C08: "exactly those integers"). -/
namespace Chartparse.Rx
open Chartparse

/-- decimal rendering, most significant digit first (`fuel` ≥ number of digits) -/
def render : Nat → Nat → Str
  | 0, _ => []
  | fuel + 1, n => if n < 10 then [48 + n] else render fuel (n / 10) ++ [48 + n % 10]

theorem digitVal_ascii (d : Nat) (h : d < 10) : digitVal (48 + d) = d := by
  have : Gen.digitRanges.find? (fun r => r.1 ≤ 48 + d && 48 + d ≤ r.2) = some (48, 57) := by
    simp only [Gen.digitRanges, List.find?]
    have : (decide (48 ≤ 48 + d) && decide (48 + d ≤ 57)) = true := by simp; omega
    rw [this]
  simp only [digitVal, this]
  omega

theorem intOf_append (a : Str) (c : Nat) : intOf (a ++ [c]) = intOf a * 10 + digitVal c := by
  simp [intOf, List.foldl_append]

/-- the round trip: any `n`, any sufficient fuel -/
theorem intOf_render (fuel n : Nat) (h : n < 10 ^ fuel) : intOf (render fuel n) = n := by
  induction fuel generalizing n with
  | zero => simp at h; subst h; rfl
  | succ f ih =>
    simp only [render]
    by_cases hn : n < 10
    · rw [if_pos hn]
      simp [intOf, digitVal_ascii n hn]
    · rw [if_neg hn, intOf_append, digitVal_ascii _ (Nat.mod_lt _ (by omega))]
      have : n / 10 < 10 ^ f := by
        rw [Nat.div_lt_iff_lt_mul (by omega)]; rw [Nat.pow_succ] at h; omega
      rw [ih _ this]; omega

/-- leading zeros do not change the value -/
theorem intOf_lead0 (ds : Str) : intOf (48 :: ds) = intOf ds := by
  have h0 : digitVal 48 = 0 := digitVal_ascii 0 (by omega)
  simp [intOf, h0]

example : intOf (cp "0800") = 800 := by decide
example : intOf [1635, 1633] = 31 := by decide        -- Arabic-Indic digits, as `int("٣١")`

end Chartparse.Rx
