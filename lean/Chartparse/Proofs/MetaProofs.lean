import Chartparse.Model.Metadata
/-! C10 over the metadata model: order independence, required field, defaults. Core Lean only. -/
namespace Chartparse.Meta
open Chartparse

theorem findSome_none {α β} (f : α → Option β) (l : List α) (h : ∀ x ∈ l, f x = none) : l.findSome? f = none := by
  induction l with
  | nil => rfl
  | cons a as ih =>
    simp only [List.findSome?_cons, h a (by simp)]
    exact ih (fun x hx => h x (by simp [hx]))

/-- if one element is the only one `f` accepts, `findSome?` returns its image wherever it stands -/
theorem findSome_unique {α β} (f : α → Option β) (l : List α) (x0 : α) (v : β) (hmem : x0 ∈ l) (hv : f x0 = some v)
    (huniq : ∀ x ∈ l, (f x).isSome = true → x = x0) : l.findSome? f = some v := by
  induction l with
  | nil => cases hmem
  | cons a as ih =>
    simp only [List.findSome?_cons]
    cases hfa : f a with
    | some w =>
      have : a = x0 := huniq a (by simp) (by simp [hfa])
      subst this
      rw [hv] at hfa; injection hfa with hfa; subst hfa; rfl
    | none =>
      simp only []
      have hne : x0 ≠ a := by intro h; subst h; rw [hv] at hfa; cases hfa
      have hmem' : x0 ∈ as := by
        rcases List.mem_cons.mp hmem with h | h
        · exact absurd h hne
        · exact h
      exact ih hmem' (fun x hx hs => huniq x (by simp [hx]) hs)

/-- C10, order independence for one recogniser: with at most one matching line (up to equality), any permutation
    of the lines yields the same value -/
theorem findSome_perm {α β} (f : α → Option β) {l l' : List α} (hp : l.Perm l')
    (huniq : ∀ x ∈ l, ∀ y ∈ l, (f x).isSome = true → (f y).isSome = true → x = y) :
    l.findSome? f = l'.findSome? f := by
  by_cases hex : ∃ x ∈ l, (f x).isSome = true
  · obtain ⟨x0, hx0, hs⟩ := hex
    obtain ⟨v, hv⟩ := Option.isSome_iff_exists.mp hs
    rw [findSome_unique f l x0 v hx0 hv (fun x hx h => huniq x hx x0 hx0 h hs)]
    rw [findSome_unique f l' x0 v (hp.mem_iff.mp hx0) hv
      (fun x hx h => huniq x (hp.mem_iff.mpr hx) x0 hx0 h hs)]
  · have hnone : ∀ x ∈ l, f x = none := by
      intro x hx
      cases hfx : f x with
      | none => rfl
      | some w => exact absurd ⟨x, hx, by simp [hfx]⟩ hex
    rw [findSome_none f l hnone, findSome_none f l' (fun x hx => hnone x (hp.mem_iff.mpr hx))]

theorem firstMatch_perm (re : Re) {l l' : List Str} (hp : l.Perm l')
    (huniq : ∀ x ∈ l, ∀ y ∈ l, ((re.matchGroups x).bind (grp · 1)).isSome = true →
      ((re.matchGroups y).bind (grp · 1)).isSome = true → x = y) :
    firstMatch re l = firstMatch re l' := by
  unfold firstMatch; exact findSome_perm _ hp huniq

theorem parseField_perm (f : String × Str × Nat × Gen.Default) {l l' : List Str} (hp : l.Perm l')
    (huniq : ∀ x ∈ l, ∀ y ∈ l, (((reOfField f.1).matchGroups x).bind (grp · 1)).isSome = true →
      (((reOfField f.1).matchGroups y).bind (grp · 1)).isSome = true → x = y) :
    parseField l f = parseField l' f := by
  unfold parseField; rw [firstMatch_perm _ hp huniq]

theorem parseFields_perm (fs : List (String × Str × Nat × Gen.Default)) {l l' : List Str} (hp : l.Perm l')
    (huniq : ∀ f ∈ fs, ∀ x ∈ l, ∀ y ∈ l, (((reOfField f.1).matchGroups x).bind (grp · 1)).isSome = true →
      (((reOfField f.1).matchGroups y).bind (grp · 1)).isSome = true → x = y) :
    parseFields l fs = parseFields l' fs := by
  induction fs with
  | nil => rfl
  | cons f rest ih =>
    simp only [parseFields]
    rw [parseField_perm f hp (huniq f (by simp)), ih (fun g hg => huniq g (by simp [hg]))]

/-- C10: the whole metadata is independent of the order of the [Song] lines when no field has two lines -/
theorem parseMeta_perm {l l' : List Str} (hp : l.Perm l')
    (huniq : ∀ f ∈ Gen.fields, ∀ x ∈ l, ∀ y ∈ l, (((reOfField f.1).matchGroups x).bind (grp · 1)).isSome = true →
      (((reOfField f.1).matchGroups y).bind (grp · 1)).isSome = true → x = y) :
    parseMeta l = parseMeta l' := parseFields_perm Gen.fields hp huniq

/-- a field whose recogniser matches no line takes its default; the required one raises MissingRequiredField -/
theorem parseField_absent (lines : List Str) (f : String × Str × Nat × Gen.Default)
    (h : ∀ l ∈ lines, (reOfField f.1).matchGroups l = none) : parseField lines f = ofDefault f.2.2.2 := by
  unfold parseField firstMatch
  rw [findSome_none _ _ (fun l hl => by rw [h l hl]; rfl)]

/-- a field whose only matching line is `l0` gets that line's value through its processing function -/
theorem parseField_present (lines : List Str) (f : String × Str × Nat × Gen.Default) (l0 : Str) (v : Str)
    (hmem : l0 ∈ lines) (hv : ((reOfField f.1).matchGroups l0).bind (grp · 1) = some v)
    (huniq : ∀ x ∈ lines, (((reOfField f.1).matchGroups x).bind (grp · 1)).isSome = true → x = l0) :
    parseField lines f = process f.2.2.1 v := by
  unfold parseField firstMatch
  rw [findSome_unique _ lines l0 v hmem hv huniq]

end Chartparse.Meta
