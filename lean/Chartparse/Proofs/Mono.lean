import Chartparse.Proofs.SegUs
import Mathlib.Tactic.IntervalCases
namespace Chartparse.F64

theorem rhe_le_of_le_int (x : Rat) (k : Int) (h : x ≤ k) : rhe x ≤ k := by
  -- rounding never crosses an integer
  unfold rhe
  have h1 : ((x.floor : Int) : Rat) ≤ x := Rat.floor_le x
  have h2 : x < (x.floor : Rat) + 1 := by
    have := Rat.lt_floor_add_one x; push_cast at this; exact this
  have hfk : x.floor ≤ k := by
    have : ((x.floor : Int) : Rat) ≤ (k : Rat) := le_trans h1 h
    exact_mod_cast this
  simp only []
  split_ifs with ha hb hc
  · exact hfk
  · -- fractional part > 1/2, so x is not an integer and floor < k
    have : x.floor < k := by
      by_contra hcon
      have hk : k = x.floor := le_antisymm (not_lt.mp hcon) hfk
      rw [hk] at h; linarith
    omega
  · exact hfk
  · have : x.floor < k := by
      by_contra hcon
      have hk : k = x.floor := le_antisymm (not_lt.mp hcon) hfk
      rw [hk] at h
      have : x - (x.floor : Rat) = 1/2 := le_antisymm (not_lt.mp hb) (not_lt.mp ha)
      linarith
    omega

theorem le_rhe_of_int_le (x : Rat) (k : Int) (h : (k : Rat) ≤ x) : k ≤ rhe x := by
  unfold rhe
  have hkf : k ≤ x.floor := by
    have := Rat.le_floor_iff.mpr h
    exact this
  simp only []
  split_ifs <;> omega

theorem rhe_mono {x y : Rat} (h : x ≤ y) : rhe x ≤ rhe y := by
  -- compare through the integers between them
  by_cases hxy : rhe x ≤ y.floor
  · exact le_trans hxy (le_rhe_of_int_le y y.floor (Rat.floor_le y))
  · -- then ⌊y⌋ < rhe x ≤ ⌊x⌋ + 1 ≤ ⌊y⌋ + 1, so both lie in the same unit interval
    have hx1 : rhe x ≤ x.floor + 1 := by
      apply rhe_le_of_le_int
      have := Rat.lt_floor_add_one x; push_cast at this ⊢; linarith
    have hff : x.floor ≤ y.floor := by
      apply Rat.le_floor_iff.mpr; exact le_trans (Rat.floor_le x) h
    have hfe : x.floor = y.floor := by omega
    have hrx : rhe x = x.floor + 1 := by omega
    unfold rhe at hrx ⊢
    simp only [] at hrx ⊢
    rw [← hfe]
    split_ifs at hrx with a1 a2 a3 <;> split_ifs with b1 b2 b3 <;> first | omega | (exfalso; linarith) | skip
    all_goals (exfalso; simp_all; omega)

end Chartparse.F64

namespace Chartparse.F64

theorem pow2_lt_pow2 {a b : Int} (h : a < b) : pow2 a < pow2 b := by
  unfold pow2; exact zpow_lt_zpow_right₀ (by norm_num) h

theorem pow2_le_pow2 {a b : Int} (h : a ≤ b) : pow2 a ≤ pow2 b := by
  unfold pow2; exact zpow_le_zpow_right₀ (by norm_num) h

theorem pow2_add (a b : Int) : pow2 (a + b) = pow2 a * pow2 b := by
  unfold pow2; exact zpow_add₀ (by norm_num) a b

theorem pow2_52 : pow2 52 = 4503599627370496 := by unfold pow2; norm_num
theorem pow2_53 : pow2 53 = 9007199254740992 := by unfold pow2; norm_num

theorem ilog2_mono {x y : Rat} (hx : 0 < x) (h : x ≤ y) : ilog2 x ≤ ilog2 y := by
  obtain ⟨x1, _⟩ := ilog2_spec x hx
  obtain ⟨_, y2⟩ := ilog2_spec y (lt_of_lt_of_le hx h)
  by_contra hcon
  have : ilog2 y + 1 ≤ ilog2 x := by omega
  have := pow2_le_pow2 this
  linarith

/-- the significand stays in [2^52, 2^53] after rounding -/
theorem fl_bounds (x : Rat) (hx : 0 < x) : pow2 (ilog2 x) ≤ fl x ∧ fl x ≤ pow2 (ilog2 x + 1) := by
  obtain ⟨h1, h2⟩ := ilog2_spec x hx
  unfold fl
  rw [if_neg (not_le.mpr hx)]
  simp only []
  set e := ilog2 x
  have hq : 0 < pow2 (e - 52) := pow2_pos _
  have e1 : pow2 e = 4503599627370496 * pow2 (e - 52) := by
    have : e = 52 + (e - 52) := by ring
    conv_lhs => rw [this, pow2_add, pow2_52]
  have e2 : pow2 (e + 1) = 9007199254740992 * pow2 (e - 52) := by
    have : e + 1 = 53 + (e - 52) := by ring
    conv_lhs => rw [this, pow2_add, pow2_53]
  have m1 : (4503599627370496 : Rat) ≤ x / pow2 (e - 52) := by
    rw [le_div_iff₀ hq]; linarith
  have m2 : x / pow2 (e - 52) ≤ (9007199254740992 : Rat) := by
    rw [div_le_iff₀ hq]; linarith
  have r1 : (4503599627370496 : Int) ≤ rhe (x / pow2 (e - 52)) :=
    le_rhe_of_int_le _ _ (by push_cast; exact m1)
  have r2 : rhe (x / pow2 (e - 52)) ≤ (9007199254740992 : Int) :=
    rhe_le_of_le_int _ _ (by push_cast; exact m2)
  have r1' : (4503599627370496 : Rat) ≤ (rhe (x / pow2 (e - 52)) : Rat) := by exact_mod_cast r1
  have r2' : (rhe (x / pow2 (e - 52)) : Rat) ≤ (9007199254740992 : Rat) := by exact_mod_cast r2
  constructor
  · rw [e1]; exact mul_le_mul_of_nonneg_right r1' hq.le
  · rw [e2]; exact mul_le_mul_of_nonneg_right r2' hq.le

theorem fl_nonneg (x : Rat) : 0 ≤ fl x := by
  by_cases hx : 0 < x
  · exact le_trans (pow2_pos _).le (fl_bounds x hx).1
  · unfold fl; rw [if_pos (not_lt.mp hx)]

theorem fl_mono {x y : Rat} (h : x ≤ y) : fl x ≤ fl y := by
  by_cases hx : 0 < x
  · have hy : 0 < y := lt_of_lt_of_le hx h
    have he := ilog2_mono hx h
    rcases lt_or_eq_of_le he with hlt | heq
    · calc fl x ≤ pow2 (ilog2 x + 1) := (fl_bounds x hx).2
        _ ≤ pow2 (ilog2 y) := pow2_le_pow2 (by omega)
        _ ≤ fl y := (fl_bounds y hy).1
    · unfold fl
      rw [if_neg (not_le.mpr hx), if_neg (not_le.mpr hy)]
      simp only []
      rw [heq]
      have hq : 0 < pow2 (ilog2 y - 52) := pow2_pos _
      apply mul_le_mul_of_nonneg_right _ hq.le
      have : rhe (x / pow2 (ilog2 y - 52)) ≤ rhe (y / pow2 (ilog2 y - 52)) :=
        rhe_mono (div_le_div_of_nonneg_right h hq.le)
      exact_mod_cast this
  · have : fl x = 0 := by unfold fl; rw [if_pos (not_lt.mp hx)]
    rw [this]; exact fl_nonneg y

end Chartparse.F64
