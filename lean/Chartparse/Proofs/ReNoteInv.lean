import Chartparse.Proofs.ReLyric
namespace Chartparse.Rx
open Chartparse

theorem exec_cat {α} (a b : Re) (k : Str → Caps → Option α) (r : Str) (cs : Caps) :
    (Re.cat a b).exec k r cs = a.exec (fun r1 cs1 => b.exec k r1 cs1) r cs := rfl
theorem exec_group {α} (i : Nat) (a : Re) (k : Str → Caps → Option α) (r : Str) (cs : Caps) :
    (Re.group i a).exec k r cs =
      a.exec (fun r1 cs1 => k r1 ((i, r.take (r.length - r1.length)) :: cs1)) r cs := rfl
theorem exec_star {α} (g : Bool) (s : CSet) (k : Str → Caps → Option α) (r : Str) (cs : Caps) :
    (Re.star g s).exec k r cs = starExec g s (fun r1 => k r1 cs) r := rfl
theorem exec_eps {α} (k : Str → Caps → Option α) (r : Str) (cs : Caps) : Re.eps.exec k r cs = k r cs := rfl

theorem lits_inv {α} (l : Str) (k : Str → Caps → Option α) (r : Str) (cs : Caps) (v : α)
    (h : (lits l).exec k r cs = some v) : ∃ rest, r = l ++ rest ∧ k rest cs = some v := by
  induction l generalizing r with
  | nil => exact ⟨r, rfl, h⟩
  | cons c t ih =>
    simp only [lits, List.foldr] at h
    rw [exec_cat] at h
    obtain ⟨c', t', hr, hc, hk⟩ := chr_inv (.lit c) _ r cs v h
    obtain ⟨rest, ht, hk'⟩ := ih t' hk
    have : c' = c := by simpa using hc
    subst this
    exact ⟨rest, by rw [hr, ht]; rfl, hk'⟩

theorem eol_inv {α} (k : Str → Caps → Option α) (r : Str) (cs : Caps) (v : α)
    (h : Re.eol.exec k r cs = some v) : (r = [] ∨ r = [10]) ∧ k r cs = some v := by
  simp only [Re.exec] at h
  split at h
  · rename_i hr; exact ⟨hr, h⟩
  · cases h

theorem plusLazy_inv {α} (s : CSet) (k : Str → Caps → Option α) (r : Str) (cs : Caps) (v : α)
    (h : (plusLazy s).exec k r cs = some v) :
    ∃ pre rest, r = pre ++ rest ∧ pre ≠ [] ∧ AllIn s pre ∧ k rest cs = some v := by
  simp only [plusLazy] at h
  rw [exec_cat] at h
  obtain ⟨c, t, hr, hc, hk⟩ := chr_inv s _ r cs v h
  rw [exec_star] at hk
  obtain ⟨pre, rest, ht, hpre, hk'⟩ := starExec_inv false s _ t v hk
  refine ⟨c :: pre, rest, by rw [hr, ht]; rfl, by simp, ?_, hk'⟩
  intro x hx
  rcases List.mem_cons.mp hx with rfl | hx
  · exact hc
  · exact hpre x hx

/-- C07, converse direction: whatever the N recogniser accepts has the shape of an N line, and the
    captures are the corresponding substrings -/
theorem note_sound (s : Str) (caps : Caps) (h : noteRe.matchGroups s = some caps) :
    ∃ p t i l q, s = p ++ (t ++ ([32,61,32,78,32] ++ (i :: 32 :: (l ++ q)))) ∧
      AllIn .space p ∧ AllIn .digit t ∧ t ≠ [] ∧ (48 ≤ i ∧ i ≤ 55) ∧ AllIn .digit l ∧ l ≠ [] ∧ AllIn .space q ∧
      caps = [(3, l), (2, [i]), (1, t)] := by
  unfold Re.matchGroups noteRe at h
  rw [exec_cat, exec_star] at h
  obtain ⟨p, r1, hs, hp, h⟩ := starExec_inv _ _ _ _ _ h
  rw [exec_cat, exec_group] at h
  obtain ⟨t, r2, hr1, ht0, ht, h⟩ := plusLazy_inv _ _ _ _ _ h
  rw [exec_cat] at h
  obtain ⟨r3, hr2, h⟩ := lits_inv _ _ _ _ _ h
  rw [exec_cat, exec_group] at h
  obtain ⟨i, r4, hr3, hi, h⟩ := chr_inv _ _ _ _ _ h
  rw [exec_cat] at h
  obtain ⟨r5, hr4, h⟩ := lits_inv _ _ _ _ _ h
  rw [exec_cat, exec_group] at h
  obtain ⟨l, r6, hr5, hl0, hl, h⟩ := plusLazy_inv _ _ _ _ _ h
  rw [exec_cat, exec_star] at h
  obtain ⟨q, r7, hr6, hq, h⟩ := starExec_inv _ _ _ _ _ h
  obtain ⟨hr7, h⟩ := eol_inv _ _ _ _ h
  injection h with h
  have hi' : 48 ≤ i ∧ i ≤ 55 := by simpa [CSet.test] using hi
  -- the unmatched tail (nothing, or one final newline) is whitespace too
  have hq' : AllIn .space (q ++ r7) := by
    intro x hx
    rcases List.mem_append.mp hx with hx | hx
    · exact hq x hx
    · rcases hr7 with rfl | rfl
      · cases hx
      · simp at hx; subst hx; decide
  refine ⟨p, t, i, l, q ++ r7, ?_, hp, ht, ht0, hi', hl, hl0, hq', ?_⟩
  · rw [hs, hr1, hr2, hr3, hr4, hr5, hr6]; simp
  · rw [← h]
    subst hs hr1 hr2 hr3 hr4 hr5 hr6
    simp
end Chartparse.Rx
