import Chartparse.Proofs.Bridge
/-! C01, composed: from the written `(tick, n)` pairs, through the code-shaped `buildMap` and the un-hinted
    `tsAt`, to the exact tempo-map time — one statement about the functions the driver executes. -/
namespace Chartparse.Tempo
open Chartparse Chartparse.F64

/-- the tempo map as the code builds it from the integers written after `B` -/
def mapOf (res : Nat) (pairs : List (Nat × Nat)) : M (List BpmEv) :=
  buildMap (res : Int) (pairs.map fun p => (p.1, decodeBpm p.2))

def pureEv (p : Nat × Nat) : EvN := ⟨p.1, p.2, 0⟩

/-- exact tempo-map time (µs) of tick `t`: Σ ticks·60·10⁶·1000 / (n·res) over the segments traversed -/
def exactUs (res : Nat) (pairs : List (Nat × Nat)) (t : Nat) : Rat := exactRec res (pairs.map pureEv) t
/-- number of tempo segments traversed up to tick `t` (= governing index + 1) -/
def segments (pairs : List (Nat × Nat)) (t : Nat) : Nat := segsRec (pairs.map pureEv) t

theorem buildFrom_shape (res : Int) (p : BpmEv) (raw : List (Nat × Rat)) (es : List BpmEv)
    (h : buildFrom res p raw = .ok es) : es.map (fun e => (e.tick, e.bpm)) = raw := by
  induction raw generalizing p es with
  | nil => simp [buildFrom] at h; subst h; rfl
  | cons tb rest ih =>
    obtain ⟨t, b⟩ := tb
    simp only [buildFrom] at h
    split at h
    · cases h
    · cases hs : secs (t - p.tick) p.bpm res with
      | error e => rw [hs] at h; cases h
      | ok s =>
        rw [hs] at h
        simp only [] at h
        cases hb : buildFrom res ⟨t, b, p.ts + usOfSeconds s⟩ rest with
        | error e => rw [hb] at h; cases h
        | ok es' =>
          rw [hb] at h
          injection h with h; subst h
          simp [ih _ _ hb]

/-- what a successful `buildMap` guarantees: first tick 0 at time 0, positive resolution, the written ticks and
    decoded tempos in order, and the accumulation recurrence between consecutive events -/
theorem buildMap_shape (res : Int) (raw : List (Nat × Rat)) (evs : List BpmEv) (h : buildMap res raw = .ok evs) :
    0 < res ∧ evs.map (fun e => (e.tick, e.bpm)) = raw ∧ Linked res.toNat evs ∧
    ∃ e rest, evs = e :: rest ∧ e.tick = 0 ∧ e.ts = 0 := by
  unfold buildMap at h
  cases raw with
  | nil => simp only [] at h; split at h <;> cases h
  | cons tb rest =>
    obtain ⟨t, b⟩ := tb
    simp only [] at h
    cases hb : buildFrom res ⟨t, b, 0⟩ rest with
    | error e => rw [hb] at h; cases h
    | ok es =>
      rw [hb] at h
      simp only [] at h
      split at h
      · cases h
      · split at h
        · cases h
        · rename_i h1 h2
          injection h with h; subst h
          refine ⟨by omega, ?_, build_linked res _ _ _ hb, ⟨t, b, 0⟩, es, rfl, ?_, rfl⟩
          · simp [buildFrom_shape _ _ _ _ hb]
          · simpa using h2

def zipEv (pairs : List (Nat × Nat)) (evs : List BpmEv) : List EvN :=
  List.zipWith (fun p e => (⟨p.1, p.2, e.ts⟩ : EvN)) pairs evs

theorem zipEv_toEv (pairs : List (Nat × Nat)) (evs : List BpmEv)
    (h : evs.map (fun e => (e.tick, e.bpm)) = pairs.map (fun p => (p.1, decodeBpm p.2))) :
    (zipEv pairs evs).map EvN.toEv = evs := by
  induction pairs generalizing evs with
  | nil => cases evs with
    | nil => rfl
    | cons e es => simp at h
  | cons p ps ih =>
    cases evs with
    | nil => simp at h
    | cons e es =>
      simp only [List.map_cons, List.cons.injEq, Prod.mk.injEq] at h
      obtain ⟨⟨h1, h2⟩, h3⟩ := h
      simp only [zipEv, List.zipWith_cons_cons, List.map_cons, EvN.toEv]
      have := ih es h3
      unfold zipEv at this
      rw [this]
      congr 1
      cases e
      simp only [decodeBpm] at h2
      simp_all

/-- the exact time and the segment count do not look at the stored timestamps -/
theorem exactRec_zip (res : Nat) (pairs : List (Nat × Nat)) (evs : List BpmEv) (hl : pairs.length = evs.length) (t : Nat) :
    exactRec res (zipEv pairs evs) t = exactRec res (pairs.map pureEv) t ∧
    segsRec (zipEv pairs evs) t = segsRec (pairs.map pureEv) t := by
  induction pairs generalizing evs with
  | nil => cases evs <;> simp [zipEv, exactRec, segsRec]
  | cons p ps ih =>
    cases evs with
    | nil => simp at hl
    | cons e es =>
      cases ps with
      | nil =>
        cases es with
        | nil => simp [zipEv, exactRec, segsRec, pureEv]
        | cons _ _ => simp at hl
      | cons q qs =>
        cases es with
        | nil => simp at hl
        | cons f fs =>
          have := ih (f :: fs) (by simpa using hl)
          simp only [zipEv, List.zipWith_cons_cons, List.map_cons, exactRec, segsRec, pureEv] at this ⊢
          obtain ⟨h1, h2⟩ := this
          constructor
          · split
            · rfl
            · rw [h1]
          · split
            · rfl
            · rw [h2]

theorem headTs_zip (pairs : List (Nat × Nat)) (evs : List BpmEv) (e : BpmEv) (rest : List BpmEv) (he : evs = e :: rest)
    (hl : pairs.length = evs.length) : headTs (zipEv pairs evs) = e.ts := by
  subst he
  cases pairs with
  | nil => simp at hl
  | cons p ps => simp [zipEv, headTs]

/-- **C01 (query)**: for every resolution ≥ 1, every list of written `(tick, n)` pairs with `n ≥ 1` that the code
    accepts as a tempo map, every tick whose exact time is below 10⁶ s: the un-hinted public query returns a timestamp
    within `(½ + 10⁻³) µs` per tempo segment traversed of the exact tempo-map time. -/
theorem C01_query (res : Nat) (hres : 1 ≤ res) (pairs : List (Nat × Nat)) (hn : ∀ p ∈ pairs, 1 ≤ p.2)
    (evs : List BpmEv) (hb : mapOf res pairs = .ok evs) (t : Nat) (x : Int) (g : Nat)
    (hq : tsAt (res : Int) evs (t : Int) 0 = .ok (x, g)) (hE : exactUs res pairs t < 1000000000000) :
    |(x : Rat) - exactUs res pairs t| ≤ (segments pairs t : Rat) * (1/2 + 1/1000) := by
  unfold mapOf at hb
  obtain ⟨hr, hshape, hlink, e, rest, he, het, hets⟩ := buildMap_shape _ _ _ hb
  have hlen : pairs.length = evs.length := by
    have := congrArg List.length hshape
    simpa using this.symm
  have hz := zipEv_toEv pairs evs hshape
  have hrec := (tsAt_eq_tsRec (res : Int) hr evs t (by
    intro e' r' h'; rw [he] at h'; injection h' with h1 _; subst h1; omega)).1 x g hq
  simp only [Int.toNat_natCast] at hrec hlink
  rw [← hz] at hrec hlink
  have hn' : ∀ a ∈ zipEv pairs evs, 1 ≤ a.n := by
    intro a ha
    unfold zipEv at ha
    obtain ⟨i, hi, hget⟩ := List.getElem_of_mem ha
    simp only [List.getElem_zipWith] at hget
    rw [← hget]
    simp only [List.length_zipWith] at hi
    exact hn _ (List.getElem_mem _)
  obtain ⟨h1, h2⟩ := exactRec_zip res pairs evs hlen t
  have hclose := tsRec_close res hres (zipEv pairs evs) hn' hlink t x hrec (by rw [h1]; exact hE)
  rw [headTs_zip pairs evs e rest he hlen, hets, h1, h2] at hclose
  simpa [exactUs, segments] using hclose

theorem fl_zero : fl 0 = 0 := by simp [fl]
theorem secsFromTicks_zero (b : Rat) (r : Nat) : secsFromTicks 0 b r = 0 := by
  unfold secsFromTicks
  simp [fl_zero]
theorem usOfSeconds_zero : usOfSeconds 0 = 0 := by decide +kernel

/-- **C01 (zero)**: tick 0 is exactly time zero, with governing index 0 -/
theorem C01_zero (res : Nat) (pairs : List (Nat × Nat)) (evs : List BpmEv) (hb : mapOf res pairs = .ok evs)
    (x : Int) (g : Nat) (hq : tsAt (res : Int) evs 0 0 = .ok (x, g)) : x = 0 := by
  unfold mapOf at hb
  obtain ⟨hr, _, hlink, e, rest, he, het, hets⟩ := buildMap_shape _ _ _ hb
  have hrec := (tsAt_eq_tsRec (res : Int) hr evs 0 (by
    intro e' r' h'; rw [he] at h'; injection h' with h1 _; subst h1; omega)).1 x g hq
  subst he
  cases rest with
  | nil =>
    simp only [tsRec, het] at hrec
    split at hrec
    · injection hrec with hrec
      rw [← hrec, hets]
      simp [secsFromTicks_zero, usOfSeconds_zero]
    · cases hrec
  | cons f fs =>
    have hlt : e.tick < f.tick := by cases hlink with | cons _ _ _ h _ _ _ => exact h
    simp only [tsRec] at hrec
    rw [if_pos (by omega)] at hrec
    split at hrec
    · injection hrec with hrec
      rw [← hrec, hets, het]
      simp [secsFromTicks_zero, usOfSeconds_zero]
    · cases hrec

end Chartparse.Tempo
