import Chartparse.Model.Regex
namespace Chartparse.Rx
open Chartparse

def plusLazy (s : CSet) : Re := .cat (.chr s) (.star false s)

/-- hand-written template of the N recogniser (proof-friendly shape); `Props/C07` shows the regenerated
    recogniser has the same normal form -/
def noteRe : Re :=
  .cat (.star false .space) <| .cat (.group 1 (plusLazy .digit)) <| .cat (lits [32, 61, 32, 78, 32]) <|
  .cat (.group 2 (.chr (.range 48 55))) <| .cat (lits [32]) <| .cat (.group 3 (plusLazy .digit)) <|
  .cat (.star false .space) .eol

def AllIn (s : CSet) (l : Str) : Prop := ∀ c ∈ l, s.test c = true

theorem starExec_lazy_skip {α} (s : CSet) (k : Str → Option α) (pre rest : Str)
    (hpre : AllIn s pre)
    (hfail : ∀ i, i < pre.length → k (pre.drop i ++ rest) = none) :
    starExec false s k (pre ++ rest) = starExec false s k rest := by
  induction pre with
  | nil => rfl
  | cons c t ih =>
    have hc : s.test c = true := hpre c (by simp)
    have h0 : k (c :: (t ++ rest)) = none := by simpa using hfail 0 (by simp)
    simp only [List.cons_append, starExec, hc, if_true, Bool.false_eq_true, if_false, h0, Option.orElse]
    apply ih
    · intro c' hc'; exact hpre c' (by simp [hc'])
    · intro i hi; simpa using hfail (i+1) (by simpa using hi)

theorem starExec_lazy_stop {α} (s : CSet) (k : Str → Option α) (rest : Str) (v : α)
    (h : k rest = some v) : starExec false s k rest = some v := by
  cases rest with
  | nil => simpa [starExec] using h
  | cons c t => simp only [starExec]; split <;> simp [h, Option.orElse]

/-- lazy run then continue: the workhorse -/
theorem starExec_lazy_run {α} (s : CSet) (k : Str → Option α) (pre rest : Str) (v : α)
    (hpre : AllIn s pre)
    (hfail : ∀ c t, s.test c = true → k (c :: t) = none)
    (hk : k rest = some v) :
    starExec false s k (pre ++ rest) = some v := by
  rw [starExec_lazy_skip s k pre rest hpre]
  · exact starExec_lazy_stop s k rest v hk
  · intro i hi
    have : ∃ c t, pre.drop i = c :: t := by
      cases h : pre.drop i with
      | nil => simp at h; omega
      | cons c t => exact ⟨c, t, rfl⟩
    obtain ⟨c, t, hct⟩ := this
    rw [hct]
    apply hfail
    apply hpre
    have : c ∈ pre.drop i := by rw [hct]; simp
    exact List.mem_of_mem_drop this

theorem exec_lits {α} (l : Str) (k : Str → Caps → Option α) (rest : Str) (cs : Caps) :
    (lits l).exec k (l ++ rest) cs = k rest cs := by
  induction l with
  | nil => rfl
  | cons c t ih => simp [lits, Re.exec, CSet.test] at *; exact ih

def disjointRanges (a b : List (Nat × Nat)) : Bool :=
  a.all fun x => b.all fun y => x.2 < y.1 || y.2 < x.1

theorem disjointRanges_sound {a b : List (Nat × Nat)} (h : disjointRanges a b = true) (n : Nat)
    (ha : inRanges a n = true) : inRanges b n = false := by
  unfold inRanges at *
  rw [List.any_eq_true] at ha
  obtain ⟨x, hx, hxn⟩ := ha
  rw [Bool.eq_false_iff]; intro hb
  rw [List.any_eq_true] at hb
  obtain ⟨y, hy, hyn⟩ := hb
  unfold disjointRanges at h
  rw [List.all_eq_true] at h
  have := h x hx
  rw [List.all_eq_true] at this
  have := this y hy
  simp at *; omega

theorem space_not_digit {n : Nat} (h : CSet.space.test n = true) : CSet.digit.test n = false :=
  disjointRanges_sound (by decide) n h

theorem digit_not_space {n : Nat} (h : CSet.digit.test n = true) : CSet.space.test n = false :=
  disjointRanges_sound (by decide) n h

end Chartparse.Rx
