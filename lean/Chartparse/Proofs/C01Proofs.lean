import Chartparse.Proofs.TempoProofs
import Chartparse.Proofs.SegUs
namespace Chartparse.Tempo
open Chartparse
open Chartparse.F64

/-- proof-side view of a tempo event: the integer written after `B` instead of the float -/
structure EvN where
  tick : Nat
  n : Nat
  ts : Int

def EvN.toEv (e : EvN) : BpmEv := ⟨e.tick, fl ((e.n : Rat) / 1000), e.ts⟩

/-- exact duration in microseconds of `Δ` ticks at `n/1000` BPM -/
def segUs (res : Nat) (Δ n : Nat) : Rat := 1000000 * ((Δ : Rat) * 60000 / ((n : Rat) * (res : Rat)))

/-- exact tempo-map time (µs) from the head event to tick `t`, and the number of roundings on the way -/
def exactRec (res : Nat) : List EvN → Nat → Rat
  | [], _ => 0
  | [e], t => segUs res (t - e.tick) e.n
  | p :: e :: es, t =>
    if t < e.tick then segUs res (t - p.tick) p.n
    else segUs res (e.tick - p.tick) p.n + exactRec res (e :: es) t

def segsRec : List EvN → Nat → Nat
  | [], _ => 0
  | [_], _ => 1
  | _ :: e :: es, t => if t < e.tick then 1 else 1 + segsRec (e :: es) t

theorem segUs_nonneg (res Δ n : Nat) : 0 ≤ segUs res Δ n := by unfold segUs; positivity

theorem exactRec_nonneg (res : Nat) (evs : List EvN) (t : Nat) : 0 ≤ exactRec res evs t := by
  induction evs with
  | nil => simp [exactRec]
  | cons p rest ih =>
    cases rest with
    | nil => simp only [exactRec]; exact segUs_nonneg ..
    | cons e es =>
      simp only [exactRec]
      split_ifs
      · exact segUs_nonneg ..
      · have := segUs_nonneg res (e.tick - p.tick) p.n; linarith

theorem seg_bound' (res Δ n : Nat) (hn : 1 ≤ n) (hres : 1 ≤ res) (hE : segUs res Δ n < 1000000000000) :
    |(usOfSeconds (secsFromTicks Δ (fl ((n : Rat) / 1000)) res) : Rat) - segUs res Δ n| ≤ 1/2 + 1/1000 := by
  unfold segUs at hE ⊢
  apply seg_bound Δ n res hn hres
  linarith

def headTs : List EvN → Int
  | [] => 0
  | e :: _ => e.ts

/-- C01: the walked timestamp is within (½ + 10⁻³) µs per rounding of the exact tempo-map time -/
theorem tsRec_close (res : Nat) (hres : 1 ≤ res) (evs : List EvN) (hn : ∀ e ∈ evs, 1 ≤ e.n)
    (hl : Linked res (evs.map EvN.toEv)) :
    ∀ t x, tsRec res (evs.map EvN.toEv) t = some x →
      exactRec res evs t < 1000000000000 →
      |((x - headTs evs : Int) : Rat) - exactRec res evs t| ≤ (segsRec evs t : Rat) * (1/2 + 1/1000) := by
  induction evs with
  | nil => intro t x hx; simp [tsRec] at hx
  | cons e0 rest0 ih =>
    intro t x hx hE
    cases rest0 with
    | nil =>
      simp only [List.map, tsRec, EvN.toEv] at hx
      split_ifs at hx
      injection hx with hx; subst hx
      simp only [exactRec, segsRec, headTs] at hE ⊢
      have := seg_bound' res (t - e0.tick) e0.n (hn e0 (by simp)) hres hE
      have e : ((e0.ts + usOfSeconds (secsFromTicks (t - e0.tick) (fl ((e0.n : Rat) / 1000)) res) - e0.ts : Int) : Rat)
          = (usOfSeconds (secsFromTicks (t - e0.tick) (fl ((e0.n : Rat) / 1000)) res) : Rat) := by
        push_cast; ring
      rw [e]; simpa using this
    | cons e es =>
      simp only [List.map, tsRec, EvN.toEv] at hx
      simp only [exactRec, segsRec, headTs] at hE ⊢
      by_cases hte : t < e.tick
      · rw [if_pos hte] at hx hE ⊢
        rw [if_pos hte]
        split_ifs at hx
        injection hx with hx; subst hx
        have := seg_bound' res (t - e0.tick) e0.n (hn e0 (by simp)) hres hE
        have e' : ((e0.ts + usOfSeconds (secsFromTicks (t - e0.tick) (fl ((e0.n : Rat) / 1000)) res) - e0.ts : Int) : Rat)
            = (usOfSeconds (secsFromTicks (t - e0.tick) (fl ((e0.n : Rat) / 1000)) res) : Rat) := by
          push_cast; ring
        rw [e']; simpa using this
      · rw [if_neg hte] at hx hE ⊢
        rw [if_neg hte]
        -- the linked recurrence gives the next event's timestamp
        have hl' : Linked res (e.toEv :: es.map EvN.toEv) := by
          cases hl with
          | cons _ _ _ _ _ _ h => exact h
        have hts : e.ts = e0.ts + usOfSeconds (secsFromTicks (e.tick - e0.tick) (fl ((e0.n : Rat) / 1000)) res) := by
          cases hl with
          | cons _ _ _ _ _ h _ => exact h
        have hnn := exactRec_nonneg res (e :: es) t
        have hs0 := segUs_nonneg res (e.tick - e0.tick) e0.n
        have hseg := seg_bound' res (e.tick - e0.tick) e0.n (hn e0 (by simp)) hres (by linarith)
        have hrec := ih (fun a ha => hn a (by simp [ha])) (by simpa using hl') t x
          (by simpa [EvN.toEv] using hx) (by linarith)
        simp only [headTs] at hrec
        rw [abs_le] at hseg hrec ⊢
        have ets : ((x - e0.ts : Int) : Rat) = ((x - e.ts : Int) : Rat)
            + (usOfSeconds (secsFromTicks (e.tick - e0.tick) (fl ((e0.n : Rat) / 1000)) res) : Rat) := by
          rw [hts]; push_cast; ring
        rw [ets]
        push_cast at hrec ⊢
        obtain ⟨s1, s2⟩ := hseg
        obtain ⟨r1, r2⟩ := hrec
        constructor <;> linarith

end Chartparse.Tempo
