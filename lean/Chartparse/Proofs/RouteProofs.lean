import Chartparse.Model.Chart
/-! C13 / C06 over the model's routing loop (`routeTracks`, `parseSections`). Core Lean only. -/
namespace Chartparse
open Tempo Inst Meta

theorem bind_ok {α β} {x : M α} {f : α → M β} {b : β} (h : (x >>= f) = .ok b) : ∃ a, x = .ok a ∧ f a = .ok b := by
  cases x with
  | error e => cases h
  | ok a => exact ⟨a, rfl, h⟩

theorem ok_bind {α β} (a : α) (f : α → M β) : ((.ok a : M α) >>= f) = f a := rfl

/-- C13: a selection returns exactly the selected tracks of the unrestricted parse, each identical, in the same
    order, and the same unhandled-section reports -/
theorem route_restrict (res : Int) (evs : List BpmEv) (ws : List (Nat × Nat)) (secs : Sections)
    (full : List RoutedTrack × Nat × List Str)
    (h : routeTracks res evs (selOf none) secs = .ok full) :
    ∃ n, routeTracks res evs (selOf (some ws)) secs = .ok (full.1.filter (fun t => ws.contains t.key), n, full.2.2) := by
  induction secs generalizing full with
  | nil =>
    simp only [routeTracks] at h
    injection h with h; subst h
    exact ⟨0, rfl⟩
  | cons s rest ih =>
    obtain ⟨tag, lines⟩ := s
    simp only [routeTracks] at h ⊢
    cases hr : routeOf tag with
    | none =>
      rw [hr] at h
      simp only [] at h ⊢
      obtain ⟨rr, hrr, hk⟩ := bind_ok h
      injection hk with hk; subst hk
      obtain ⟨n, hn⟩ := ih rr hrr
      refine ⟨n, ?_⟩
      rw [hn, ok_bind]
    | some r =>
      rw [hr] at h
      simp only [] at h ⊢
      have hnone : selOf none (r.1, r.2.1) = true := rfl
      rw [if_pos hnone] at h
      obtain ⟨t, ht, hk⟩ := bind_ok h
      obtain ⟨rr, hrr, hk2⟩ := bind_ok hk
      injection hk2 with hk2; subst hk2
      obtain ⟨n, hn⟩ := ih rr hrr
      have hsel : selOf (some ws) (r.1, r.2.1) = ws.contains (r.1, r.2.1) := rfl
      by_cases hw : selOf (some ws) (r.1, r.2.1) = true
      · rw [if_pos hw, ht, ok_bind, hn, ok_bind]
        refine ⟨t.2 + n, ?_⟩
        rw [hsel] at hw
        simp only [List.filter_cons, hw, if_true]
      · rw [if_neg hw, hn]
        refine ⟨n, ?_⟩
        rw [hsel] at hw
        simp only [List.filter_cons, hw, Bool.false_eq_true, if_false]

/-- an empty selection parses no track, so it cannot fail, and yields no tracks -/
theorem route_empty (res : Int) (evs : List BpmEv) (secs : Sections) :
    ∃ u, routeTracks res evs (selOf (some [])) secs = .ok ([], 0, u) := by
  induction secs with
  | nil => exact ⟨[], rfl⟩
  | cons s rest ih =>
    obtain ⟨tag, lines⟩ := s
    obtain ⟨u, hu⟩ := ih
    simp only [routeTracks]
    cases hr : routeOf tag with
    | none =>
      simp only []
      rw [hu, ok_bind]
      exact ⟨_, rfl⟩
    | some r =>
      simp only []
      have hsel : selOf (some []) (r.1, r.2.1) = false := rfl
      rw [if_neg (by rw [hsel]; simp)]
      exact ⟨u, hu⟩

/-- C13: the body of a section that is not a selected track cannot affect the routing result -/
theorem route_isolate (res : Int) (evs : List BpmEv) (sel : Nat × Nat → Bool) (pre post : Sections) (tag : Str)
    (b b' : List Str)
    (h : ∀ r, routeOf tag = some r → sel (r.1, r.2.1) = false) :
    routeTracks res evs sel (pre ++ (tag, b) :: post) = routeTracks res evs sel (pre ++ (tag, b') :: post) := by
  induction pre with
  | nil =>
    simp only [List.nil_append, routeTracks]
    cases hr : routeOf tag with
    | none => rfl
    | some r =>
      simp only []
      rw [if_neg (by rw [h r hr]; simp), if_neg (by rw [h r hr]; simp)]
  | cons s rest ih =>
    obtain ⟨t, bd⟩ := s
    simp only [List.cons_append, routeTracks, ih]

/-- metadata, sync track and global events never depend on the selection -/
theorem sections_shared (secs : Sections) (w w' : Option (List (Nat × Nat))) (c c' : Chart)
    (h : parseSections secs w = .ok c) (h' : parseSections secs w' = .ok c') :
    c.metad = c'.metad ∧ c.res = c'.res ∧ c.sync = c'.sync ∧ c.events = c'.events := by
  unfold parseSections at h h'
  obtain ⟨sh, hsh, hk⟩ := bind_ok h
  obtain ⟨sh', hsh', hk'⟩ := bind_ok h'
  rw [hsh] at hsh'; injection hsh' with e; subst e
  obtain ⟨tr, _, hc⟩ := bind_ok hk
  obtain ⟨tr', _, hc'⟩ := bind_ok hk'
  injection hc with hc; injection hc' with hc'
  subst hc; subst hc'
  exact ⟨rfl, rfl, rfl, rfl⟩

/-- C13 at chart level: if the unrestricted parse succeeds, so does every restricted one, and its tracks are the
    selected tracks of the unrestricted routing, folded into the same map -/
theorem sections_restrict (secs : Sections) (ws : List (Nat × Nat)) (c : Chart)
    (h : parseSections secs none = .ok c) :
    ∃ c' sh full, parseSections secs (some ws) = .ok c' ∧ parseShared secs = .ok sh ∧
      routeTracks sh.res sh.sync.bpms (selOf none) secs = .ok full ∧
      c.tracks = full.1.foldl putTrack [] ∧
      c'.tracks = (full.1.filter (fun t => ws.contains t.key)).foldl putTrack [] ∧
      c'.metad = c.metad ∧ c'.sync = c.sync ∧ c'.events = c.events ∧ c'.unhandled = c.unhandled := by
  unfold parseSections at h ⊢
  obtain ⟨sh, hsh, hk⟩ := bind_ok h
  obtain ⟨full, hfull, hc⟩ := bind_ok hk
  injection hc with hc; subst hc
  obtain ⟨n, hn⟩ := route_restrict sh.res sh.sync.bpms ws secs full hfull
  refine ⟨⟨sh.metad, sh.res, sh.sync, sh.events, (full.1.filter (fun t => ws.contains t.key)).foldl putTrack [],
    sh.unparsable + n, full.2.2⟩, sh, full, ?_, hsh, hfull, rfl, rfl, rfl, rfl, rfl, rfl⟩
  rw [hsh, ok_bind, hn, ok_bind]

end Chartparse
