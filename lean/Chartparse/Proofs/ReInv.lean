import Chartparse.Proofs.ReNote
namespace Chartparse.Rx
open Chartparse

/-- inversion for a star (either greediness): some split of the input made the continuation succeed -/
theorem starExec_inv {α} (g : Bool) (s : CSet) (k : Str → Option α) (input : Str) (v : α)
    (h : starExec g s k input = some v) :
    ∃ pre rest, input = pre ++ rest ∧ AllIn s pre ∧ k rest = some v := by
  induction input with
  | nil => exact ⟨[], [], rfl, (by intro c hc; cases hc), (by simpa [starExec] using h)⟩
  | cons c t ih =>
    simp only [starExec] at h
    by_cases hc : s.test c = true
    · simp only [hc, if_true] at h
      have : k (c :: t) = some v ∨ starExec g s k t = some v := by
        cases g <;> simp only [Bool.false_eq_true, if_false, if_true, Option.orElse] at h
        · cases hk : k (c :: t) with
          | some a => rw [hk] at h; simp at h; left; rw [h]
          | none => rw [hk] at h; right; simpa using h
        · cases hs : starExec true s k t with
          | some a => rw [hs] at h; simp at h; right; rw [h]
          | none => rw [hs] at h; left; simpa using h
      rcases this with hk | hs
      · exact ⟨[], c :: t, rfl, (by intro x hx; cases hx), hk⟩
      · obtain ⟨pre, rest, e, hpre, hk⟩ := ih hs
        refine ⟨c :: pre, rest, by simp [e], ?_, hk⟩
        intro x hx
        rcases List.mem_cons.mp hx with rfl | hx
        · exact hc
        · exact hpre x hx
    · simp only [hc, Bool.false_eq_true, if_false] at h
      exact ⟨[], c :: t, rfl, (by intro x hx; cases hx), h⟩

theorem chr_inv {α} (s : CSet) (k : Str → Caps → Option α) (r : Str) (cs : Caps) (v : α)
    (h : (Re.chr s).exec k r cs = some v) : ∃ c t, r = c :: t ∧ s.test c = true ∧ k t cs = some v := by
  cases r with
  | nil => simp [Re.exec] at h
  | cons c t =>
    simp only [Re.exec] at h
    by_cases hc : s.test c = true
    · exact ⟨c, t, rfl, hc, by simpa [hc] using h⟩
    · simp [hc] at h

end Chartparse.Rx
