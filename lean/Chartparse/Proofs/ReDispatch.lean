import Chartparse.Proofs.ReDisjoint
import Chartparse.Proofs.DispatchProofs
/-! C09: which of the three quoted-event recognisers can accept a given line — the literal after ` = ` must be a prefix
    of what follows; hence a text that does not start with `lyric ` / `section ` is only ever a text event. -/
namespace Chartparse.Rx
open Chartparse

/-- if an event recogniser accepts `blanks ++ digits ++ " = " ++ X`, then its literal is a prefix of `X` -/
theorem ev_match_shape (lit : Str) (pl : Re) (p t X : Str) (caps : Caps)
    (hp : AllIn .space p) (ht : AllIn .digit t) (ht0 : t ≠ [])
    (h : (evRe lit pl).matchGroups (p ++ (t ++ (32 :: 61 :: 32 :: X))) = some caps) : ∃ rest, X = lit ++ rest := by
  obtain ⟨p', t', r', hs, hp', ht', ht0'⟩ := ev_prefix _ _ _ _ h
  obtain ⟨d, t1, rfl⟩ := List.exists_cons_of_ne_nil ht0
  obtain ⟨d', t1', rfl⟩ := List.exists_cons_of_ne_nil ht0'
  have hd : CSet.space.test d = false := digit_not_space (ht d (by simp))
  have hd' : CSet.space.test d' = false := digit_not_space (ht' d' (by simp))
  simp only [List.cons_append] at hs
  obtain ⟨_, e2⟩ := run_unique .space p p' d d' _ _ hp hp' hd hd' hs
  have e3 : (d :: t1) ++ 32 :: (61 :: 32 :: X) = (d' :: t1') ++ 32 :: (61 :: 32 :: (lit ++ r')) := by
    simpa using e2
  obtain ⟨_, e4⟩ := run_unique .digit (d :: t1) (d' :: t1') 32 32 _ _ ht ht' digit_ne_space32 digit_ne_space32 e3
  simp at e4
  exact ⟨r', e4⟩

/-- a recogniser whose literal is not a prefix of what follows ` = ` rejects the line -/
theorem ev_reject (lit : Str) (pl : Re) (p t X : Str) (hp : AllIn .space p) (ht : AllIn .digit t) (ht0 : t ≠ [])
    (hno : ¬ ∃ rest, X = lit ++ rest) : (evRe lit pl).matchGroups (p ++ (t ++ (32 :: 61 :: 32 :: X))) = none := by
  cases h : (evRe lit pl).matchGroups (p ++ (t ++ (32 :: 61 :: 32 :: X))) with
  | none => rfl
  | some caps => exact absurd (ev_match_shape lit pl p t X caps hp ht ht0 h) hno

/-- **C07, named rejections**: lines of another letter never produce a datum of this kind — `S 64 …` is not star power
    (its literal is `S 2 `), `N …` is not a track event, `B …` is not a note, … -/
theorem ev_reject_other_letter (a b : Nat) (lit lit' : Str) (pl : Re) (p t rest : Str)
    (hp : AllIn .space p) (ht : AllIn .digit t) (ht0 : t ≠ []) (hab : a ≠ b) :
    (evRe (a :: lit) pl).matchGroups (p ++ (t ++ (32 :: 61 :: 32 :: (b :: lit') ++ rest))) = none := by
  have := ev_reject (a :: lit) pl p t ((b :: lit') ++ rest) hp ht ht0 (by
    rintro ⟨r, hr⟩
    simp only [List.cons_append, List.cons.injEq] at hr
    exact hab hr.1.symm)
  simpa using this

end Chartparse.Rx
