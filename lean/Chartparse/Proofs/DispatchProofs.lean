import Chartparse.Model.Dispatch
/-! Model of `parse_data_from_chart_lines` and the C14 theorems (core Lean only). -/
namespace Chartparse.Dsp

/-- conservation: every line is claimed exactly once or reported exactly once -/
theorem conserve {σ δ} (kinds : List (Kind σ δ)) (lines : List σ) :
    dataCount (parseData kinds lines) + (warnings (parseData kinds lines)).length = lines.length := by
  induction lines with
  | nil => rfl
  | cons l ls ih =>
    unfold parseData dataCount warnings at *
    simp only [List.map_cons]
    cases h : classify kinds l 0 with
    | none => simp [List.filter_cons, List.filterMap_cons] at ih ⊢; omega
    | some r => simp [List.filter_cons, List.filterMap_cons] at ih ⊢; omega

/-- locality: an unparsable line anywhere changes no kind's data and adds exactly one warning -/
theorem local_garbage {σ δ} (kinds : List (Kind σ δ)) (l1 l2 : List σ) (g : σ)
    (hg : classify kinds g 0 = none) (k : Nat) :
    dataOf (parseData kinds (l1 ++ g :: l2)) k = dataOf (parseData kinds (l1 ++ l2)) k ∧
    (warnings (parseData kinds (l1 ++ g :: l2))).length = (warnings (parseData kinds (l1 ++ l2))).length + 1 := by
  unfold parseData dataOf warnings
  simp only [List.map_append, List.map_cons, List.filterMap_append, List.filterMap_cons, hg,
    List.length_append, List.length_cons]
  constructor
  · trivial
  · omega

/-- if at most one kind accepts any line, the order in which kinds are tried is irrelevant for the datum -/
theorem classify_unique {σ δ} (kinds : List (Kind σ δ)) (line : σ) (i j : Nat) (d : δ)
    (hdisj : ∀ (a b : Nat) (ka kb : Kind σ δ), kinds[a]? = some ka → kinds[b]? = some kb →
      (ka line).isSome → (kb line).isSome → a = b)
    (hj : ∃ kj, kinds[j]? = some kj ∧ kj line = some d) :
    classify kinds line i = some (i + j, d) := by
  induction kinds generalizing i j with
  | nil => obtain ⟨kj, h, _⟩ := hj; simp at h
  | cons k ks ih =>
    obtain ⟨kj, hkj, hd⟩ := hj
    cases j with
    | zero =>
      simp at hkj; subst hkj
      simp [classify, hd]
    | succ j =>
      have hk : k line = none := by
        cases hkl : k line with
        | none => rfl
        | some x =>
          have := hdisj 0 (j + 1) k kj (by simp) hkj (by simp [hkl]) (by simp [hd])
          omega
      simp only [classify, hk]
      rw [ih (i + 1) j (fun a b ka kb ha hb sa sb => by
            have := hdisj (a + 1) (b + 1) ka kb (by simpa using ha) (by simpa using hb) sa sb
            omega)
          ⟨kj, by simpa using hkj, hd⟩]
      congr 2; omega

end Chartparse.Dsp
