import Chartparse.Proofs.ReField
namespace Chartparse.Rx
open Chartparse

/-- C10: whatever a field recogniser accepts starts (after blanks) with `<Name> = ` -/
theorem field_prefix (vs : CSet) (name : Str) (s : Str) (caps : Caps) (h : (fieldRe vs name).matchGroups s = some caps) :
    ∃ p rest, s = p ++ (name ++ [32, 61, 32]) ++ rest ∧ AllIn .space p := by
  unfold Re.matchGroups fieldRe at h
  rw [exec_cat, exec_star] at h
  obtain ⟨p, r1, hs, hp, h⟩ := starExec_inv _ _ _ _ _ h
  rw [exec_cat] at h
  obtain ⟨r2, hr1, _⟩ := lits_inv _ _ _ _ _ h
  exact ⟨p, r2, by rw [hs, hr1]; simp, hp⟩

/-- a run of blanks followed by a non-blank: the split point is determined -/
theorem blank_prefix_unique (p p' : Str) (a a' : Nat) (t t' : Str)
    (hp : AllIn .space p) (hp' : AllIn .space p') (ha : CSet.space.test a = false) (ha' : CSet.space.test a' = false)
    (h : p ++ a :: t = p' ++ a' :: t') : p = p' ∧ a :: t = a' :: t' := by
  induction p generalizing p' with
  | nil =>
    cases p' with
    | nil => exact ⟨rfl, by simpa using h⟩
    | cons c q =>
      simp at h
      have : CSet.space.test c = true := hp' c (by simp)
      rw [← h.1] at this; rw [this] at ha; cases ha
  | cons c q ih =>
    cases p' with
    | nil =>
      simp at h
      have : CSet.space.test c = true := hp c (by simp)
      rw [h.1] at this; rw [this] at ha'; cases ha'
    | cons c' q' =>
      simp at h
      obtain ⟨h1, h2⟩ := ih q' (fun x hx => hp x (by simp [hx])) (fun x hx => hp' x (by simp [hx])) h.2
      exact ⟨by rw [h.1, h1], h2⟩

/-- C10, non-interference: a line claimed by one field is never claimed by a field with another name.
    Names are non-empty, start with a non-blank and contain no blank (an obligation on the generated table). -/
theorem field_disjoint (a a' : Nat) (n n' : Str) (s : Str) (c c' : Caps)
    (ha : CSet.space.test a = false) (ha' : CSet.space.test a' = false)
    (hn : ∀ x ∈ a :: n, x ≠ 32) (hn' : ∀ x ∈ a' :: n', x ≠ 32)
    (vs vs' : CSet) (h : (fieldRe vs (a :: n)).matchGroups s = some c) (h' : (fieldRe vs' (a' :: n')).matchGroups s = some c') :
    a :: n = a' :: n' := by
  obtain ⟨p, r, hs, hp⟩ := field_prefix _ _ _ _ h
  obtain ⟨p', r', hs', hp'⟩ := field_prefix _ _ _ _ h'
  have e : p ++ a :: (n ++ [32, 61, 32] ++ r) = p' ++ a' :: (n' ++ [32, 61, 32] ++ r') := by
    have := hs.symm.trans hs'
    simpa [List.append_assoc] using this
  obtain ⟨_, e2⟩ := blank_prefix_unique p p' a a' _ _ hp hp' ha ha' e
  -- both names are the maximal blank-free prefix of the same string
  have key : ∀ (m m' : Str) (t t' : Str), (∀ x ∈ m, x ≠ 32) → (∀ x ∈ m', x ≠ 32) →
      m ++ 32 :: t = m' ++ 32 :: t' → m = m' := by
    intro m
    induction m with
    | nil =>
      intro m' t t' _ hm' he
      cases m' with
      | nil => rfl
      | cons x xs => simp at he; exact absurd he.1.symm (hm' x (by simp))
    | cons x xs ih =>
      intro m' t t' hm hm' he
      cases m' with
      | nil => simp at he; exact absurd he.1 (hm x (by simp))
      | cons y ys =>
        simp at he
        rw [he.1, ih ys t t' (fun z hz => hm z (by simp [hz])) (fun z hz => hm' z (by simp [hz])) he.2]
  have e3 : (a :: n) ++ 32 :: ([61, 32] ++ r) = (a' :: n') ++ 32 :: ([61, 32] ++ r') := by
    simpa [List.append_assoc] using e2
  exact key _ _ _ _ hn hn' e3

end Chartparse.Rx
