import Chartparse.Proofs.Seg
namespace Chartparse.F64

theorem usOfSeconds_err (s : Rat) (hs : 0 ≤ s) :
    |(usOfSeconds s : Rat) - 1000000 * s| ≤ 1/2 + 1000000 * u := by
  unfold usOfSeconds
  have h1 : ((s.floor : Int) : Rat) ≤ s := Rat.floor_le s
  have h2 : s < (s.floor : Rat) + 1 := by
    have := Rat.lt_floor_add_one s; push_cast at this; exact this
  have hu := u_pos
  simp only []
  split_ifs with hf
  · have : s = (s.floor : Rat) := by linarith
    push_cast
    rw [abs_le]; constructor <;> nlinarith
  · have hfpos : 0 < s - (s.floor : Rat) := lt_of_le_of_ne (by linarith) (Ne.symm hf)
    have hf1 : s - (s.floor : Rat) < 1 := by linarith
    have hx : 0 < 1000000 * (s - (s.floor : Rat)) := by positivity
    have hfl := fl_rel_err _ hx
    rw [pow2_neg53, abs_le] at hfl
    have hr := rhe_err ((s.floor : Rat) * 1000000 + fl (1000000 * (s - (s.floor : Rat))))
    rw [abs_le] at hr ⊢
    obtain ⟨a1, a2⟩ := hfl
    obtain ⟨b1, b2⟩ := hr
    have hb : 1000000 * (s - (s.floor : Rat)) * u ≤ 1000000 * u := by nlinarith
    constructor <;> nlinarith

/-- per-segment bound of C01: microseconds of the computed duration vs the exact duration -/
theorem seg_bound (Δ n res : Nat) (hn : 1 ≤ n) (hres : 1 ≤ res)
    (hE : (Δ : Rat) * 60000 / ((n : Rat) * (res : Rat)) < 1000000) :
    |(usOfSeconds (secsFromTicks Δ (fl ((n : Rat) / 1000)) res) : Rat)
        - 1000000 * ((Δ : Rat) * 60000 / ((n : Rat) * (res : Rat)))| ≤ 1/2 + 1/1000 := by
  rcases Nat.eq_zero_or_pos Δ with h0 | hΔ
  · subst h0
    have : secsFromTicks 0 (fl ((n : Rat) / 1000)) res = 0 := by
      unfold secsFromTicks; simp [fl]
    rw [this]
    have h0 : (0 : Rat).floor = 0 := by decide
    simp [usOfSeconds, h0]
    norm_num
  · have hR := secs_R Δ n res hΔ hn hres
    set S := (Δ : Rat) * 60000 / ((n : Rat) * (res : Rat)) with hS
    set s := secsFromTicks Δ (fl ((n : Rat) / 1000)) res with hs
    have hSpos : 0 < S := by
      have : (0 : Rat) < Δ := by exact_mod_cast hΔ
      have : (0 : Rat) < n := by exact_mod_cast hn
      have : (0 : Rat) < res := by exact_mod_cast hres
      rw [hS]; positivity
    obtain ⟨r1, r2⟩ := hR
    have hu := u_pos
    have hspos : 0 ≤ s := by
      have : 0 < 1 - 7005 / 1000 * u := by unfold u; norm_num
      nlinarith
    have hus := usOfSeconds_err s hspos
    rw [abs_le] at hus ⊢
    obtain ⟨c1, c2⟩ := hus
    have k1 : S * (7005 / 1000 * u) ≤ 1000000 * (7005 / 1000 * u) := by
      apply mul_le_mul_of_nonneg_right hE.le; positivity
    have k2 : 1000000 * (1000000 * (7005 / 1000 * u)) + 1000000 * u ≤ 1 / 1000 := by unfold u; norm_num
    constructor <;> nlinarith

end Chartparse.F64
