import Chartparse.Proofs.ChainProofs
import Chartparse.Proofs.RouteProofs
/-! C15 lifted to the sync-track builder and the whole chart: every clause of "untrustworthy tempo data is rejected",
    as a property of what `buildSync` / `parseSections` return. -/
namespace Chartparse
open Tempo Inst Meta F64

/-- the chain never fails with anything but ValueError -/
theorem chain_err (res : Int) (evs : List BpmEv) (ticks : List Nat) (h : Nat) (e : PyErr)
    (herr : chain res evs ticks h = .error e) : e = .valueError := by
  induction ticks generalizing h with
  | nil => cases herr
  | cons t ts ih =>
    unfold chain at herr
    cases hq : tsAt res evs (t : Int) h with
    | error e' =>
      rw [hq] at herr
      injection herr with herr; subst herr
      exact tsAt_err _ _ _ _ _ hq
    | ok r =>
      rw [hq] at herr
      cases hc : chain res evs ts r.2 with
      | error e' =>
        have : (Except.ok r >>= fun r => chain res evs ts r.2 >>= fun rest => Except.ok (r :: rest)) = Except.error e' := by
          show (chain res evs ts r.2 >>= fun rest => Except.ok (r :: rest)) = _
          rw [hc]; rfl
        rw [this] at herr; injection herr with herr; subst herr
        exact ih _ hc
      | ok rest =>
        have : (Except.ok r >>= fun r => chain res evs ts r.2 >>= fun rest => Except.ok (r :: rest)) = Except.ok (r :: rest) := by
          show (chain res evs ts r.2 >>= fun rest => Except.ok (r :: rest)) = _
          rw [hc]; rfl
        rw [this] at herr; cases herr

/-- **C15**: whatever is wrong with the sync data, the failure is a ValueError -/
theorem buildSync_err (res : Int) (bd : List (Nat × Rat)) (td : List (Nat × Nat × Option Nat)) (ad : List (Nat × Nat))
    (e : PyErr) (h : buildSync res bd td ad = .error e) : e = .valueError := by
  unfold buildSync at h
  by_cases hv : bd.all (fun tb => validBpm tb.2) = true
  · rw [if_pos hv] at h
    cases hb : buildMap res bd with
    | error e' =>
      rw [hb] at h; injection h with h; subst h; exact buildMap_err _ _ _ hb
    | ok bpms =>
      rw [hb] at h
      simp only [ok_bind] at h
      cases hc : chain res bpms (td.map (·.1)) 0 with
      | error e' => rw [hc] at h; injection h with h; subst h; exact chain_err _ _ _ _ _ hc
      | ok tsts =>
        rw [hc] at h
        simp only [ok_bind] at h
        split at h
        · injection h with h; exact h.symm
        · split at h
          · injection h with h; exact h.symm
          · cases h
  · rw [if_neg hv] at h
    injection h with h; exact h.symm

/-- **C15**: a sync track that was built satisfies every trust condition the property lists — positive resolution, a tempo
    at tick 0, strictly increasing tempo ticks (at every position), every tempo passing the three-decimal validation, a
    time signature at tick 0 -/
theorem buildSync_ok (res : Int) (bd : List (Nat × Rat)) (td : List (Nat × Nat × Option Nat)) (ad : List (Nat × Nat))
    (s : Sync) (h : buildSync res bd td ad = .ok s) :
    0 < res ∧ (∃ b rest, bd = (0, b) :: rest) ∧ (s.bpms.map (·.tick)).Pairwise (· < ·) ∧
    s.bpms.map (fun e => (e.tick, e.bpm)) = bd ∧ (∀ tb ∈ bd, validBpm tb.2 = true) ∧
    (∃ u l rest, td = (0, u, l) :: rest) := by
  unfold buildSync at h
  by_cases hv : bd.all (fun tb => validBpm tb.2) = true
  · rw [if_pos hv] at h
    obtain ⟨bpms, hb, h⟩ := bind_ok h
    obtain ⟨tsts, _, h⟩ := bind_ok h
    split at h
    · cases h
    · split at h
      · cases h
      · rename_i hne hhead
        injection h with h; subst h
        obtain ⟨h1, _, h3, h4, h5⟩ := buildMap_ok _ _ _ hb
        refine ⟨h1, h3, h4, h5, by simpa [List.all_eq_true] using hv, ?_⟩
        cases td with
        | nil => simp at hne
        | cons x rest =>
          obtain ⟨t, u, l⟩ := x
          simp at hhead
          exact ⟨u, l, rest, by rw [hhead]⟩
  · rw [if_neg hv] at h; cases h

/-- **C15 at chart level**: a chart that parsed has a positive resolution and a tempo map with strictly increasing ticks
    starting at tick 0 — so every timestamp in it came out of a trustworthy map -/
theorem parseSections_trust (secs : Sections) (want : Option (List (Nat × Nat))) (c : Chart)
    (h : parseSections secs want = .ok c) :
    0 < c.res ∧ (c.sync.bpms.map (·.tick)).Pairwise (· < ·) ∧ (∃ e rest, c.sync.bpms = e :: rest ∧ e.tick = 0) ∧
    (∃ e rest, c.sync.tss = e :: rest ∧ e.tick = 0) := by
  unfold parseSections at h
  obtain ⟨sh, hsh, h⟩ := bind_ok h
  obtain ⟨tr, _, h⟩ := bind_ok h
  injection h with h; subst h
  unfold parseShared at hsh
  split at hsh
  · cases hsh
  · obtain ⟨songLines, _, hsh⟩ := bind_ok hsh
    obtain ⟨metad, _, hsh⟩ := bind_ok hsh
    obtain ⟨syncLines, _, hsh⟩ := bind_ok hsh
    obtain ⟨sy, hsy, hsh⟩ := bind_ok hsh
    obtain ⟨evLines, _, hsh⟩ := bind_ok hsh
    obtain ⟨ev, _, hsh⟩ := bind_ok hsh
    injection hsh with hsh; subst hsh
    unfold parseSync at hsy
    obtain ⟨s, hs, hsy⟩ := bind_ok hsy
    injection hsy with hsy; subst hsy
    obtain ⟨h1, ⟨b, rest, hbd⟩, h3, h4, _, ⟨u, l, trest, htd⟩⟩ := buildSync_ok _ _ _ _ _ hs
    refine ⟨h1, h3, ?_, ?_⟩
    · cases hb : s.bpms with
      | nil => rw [hb] at h4; rw [hbd] at h4; simp at h4
      | cons e es =>
        rw [hb, hbd] at h4
        simp only [List.map_cons, List.cons.injEq, Prod.mk.injEq] at h4
        exact ⟨e, es, rfl, h4.1.1⟩
    · -- the time-signature events are the zip of the data with their timestamps: same length, same ticks
      unfold buildSync at hs
      split at hs
      · obtain ⟨bpms, _, hs⟩ := bind_ok hs
        obtain ⟨tsts, hts, hs⟩ := bind_ok hs
        split at hs
        · cases hs
        · split at hs
          · cases hs
          · injection hs with hs; subst hs
            rw [htd] at hts ⊢
            simp only [List.map_cons] at hts
            unfold chain at hts
            obtain ⟨r, _, hts⟩ := bind_ok hts
            obtain ⟨rs, _, hts⟩ := bind_ok hts
            injection hts with hts; subst hts
            exact ⟨_, _, rfl, rfl⟩
      · cases hs

end Chartparse
