import Chartparse.Proofs.NpsProofs
import Chartparse.Proofs.RouteProofs
/-! C16 / C03 on the rate query and `last_note_end_timestamp` of the model. -/
namespace Chartparse.Inst
open Chartparse

theorem foldl_max_spec (l : List NoteEv) (m0 : Int) :
    m0 ≤ l.foldl (fun m x => if m < x.endTs then x.endTs else m) m0 ∧
    (∀ n ∈ l, n.endTs ≤ l.foldl (fun m x => if m < x.endTs then x.endTs else m) m0) ∧
    (l.foldl (fun m x => if m < x.endTs then x.endTs else m) m0 = m0 ∨
      ∃ n ∈ l, n.endTs = l.foldl (fun m x => if m < x.endTs then x.endTs else m) m0) := by
  induction l generalizing m0 with
  | nil => exact ⟨Int.le_refl _, (fun n hn => by cases hn), Or.inl rfl⟩
  | cons a as ih =>
    simp only [List.foldl_cons]
    obtain ⟨h1, h2, h3⟩ := ih (if m0 < a.endTs then a.endTs else m0)
    have hstep : m0 ≤ (if m0 < a.endTs then a.endTs else m0) ∧ a.endTs ≤ (if m0 < a.endTs then a.endTs else m0) := by
      split <;> constructor <;> omega
    refine ⟨by omega, ?_, ?_⟩
    · intro n hn
      rcases List.mem_cons.mp hn with rfl | hn
      · omega
      · exact h2 n hn
    · rcases h3 with h3 | ⟨n, hn, he⟩
      · by_cases hlt : m0 < a.endTs
        · right; exact ⟨a, by simp, by rw [h3, if_pos hlt]⟩
        · left; rw [h3, if_neg hlt]
      · right; exact ⟨n, by simp [hn], he⟩

/-- **C03 (last note end)**: absent exactly when the track has no notes; otherwise the maximum end timestamp over all
    its notes (attained by one of them) -/
theorem lastNoteEnd_spec (ns : List NoteEv) :
    (lastNoteEnd ns = none ↔ ns = []) ∧
    ∀ m, lastNoteEnd ns = some m → (∀ n ∈ ns, n.endTs ≤ m) ∧ ∃ n ∈ ns, n.endTs = m := by
  cases ns with
  | nil => exact ⟨⟨fun _ => rfl, fun _ => rfl⟩, by intro m h; cases h⟩
  | cons e es =>
    refine ⟨⟨fun h => by simp [lastNoteEnd] at h, fun h => by cases h⟩, ?_⟩
    intro m h
    simp only [lastNoteEnd, Option.some.injEq] at h
    obtain ⟨h1, h2, h3⟩ := foldl_max_spec es e.endTs
    rw [h] at h1 h2 h3
    refine ⟨?_, ?_⟩
    · intro n hn
      rcases List.mem_cons.mp hn with rfl | hn
      · exact h1
      · exact h2 n hn
    · rcases h3 with h3 | ⟨n, hn, he⟩
      · exact ⟨e, by simp, h3.symm⟩
      · exact ⟨n, by simp [hn], he⟩

end Chartparse.Inst

namespace Chartparse.Rate
open Chartparse Chartparse.Inst Chartparse.Tempo Chartparse.F64

/-- **C16**: an absent track raises ValueError -/
theorem nps_absent (c : Chart) (key : Nat × Nat) (s e : Bound) (h : findTrack c key = none) :
    notesPerSecond c key s e = .error .valueError := by
  unfold notesPerSecond; rw [h]

/-- **C16**: a track without notes raises ValueError -/
theorem nps_empty (c : Chart) (key : Nat × Nat) (s e : Bound) (tr : Track) (h : findTrack c key = some tr)
    (hn : tr.notes = []) : notesPerSecond c key s e = .error .valueError := by
  unfold notesPerSecond; rw [h]; simp [hn]

/-- **C16**: otherwise the answer is the closed-interval count over the interval length, with the bounds resolved as the
    statement says: omitted start ↦ time zero, omitted end ↦ the track's last note end, a tick ↦ its un-hinted
    tempo-map time, a timestamp ↦ itself -/
theorem nps_value_of_bounds (c : Chart) (key : Nat × Nat) (s e : Bound) (tr : Track) (h : findTrack c key = some tr)
    (hn : tr.notes ≠ []) :
    ∃ last, lastNoteEnd tr.notes = some last ∧
      notesPerSecond c key s e = (bounds c last s e >>= fun se => npsCore (tr.notes.map (·.ts)) se.1 se.2) := by
  unfold notesPerSecond; rw [h]
  cases hl : lastNoteEnd tr.notes with
  | none => exact absurd ((lastNoteEnd_spec tr.notes).1.1 hl) hn
  | some last =>
    refine ⟨last, rfl, ?_⟩
    have : tr.notes.isEmpty = false := by
      cases hnn : tr.notes with
      | nil => exact absurd hnn hn
      | cons _ _ => rfl
    simp only [this, Bool.false_eq_true, if_false, hl]

theorem bounds_spec (c : Chart) (last : Int) :
    bounds c last .omitted .omitted = .ok (0, last) ∧
    (∀ a, bounds c last (.time a) .omitted = .ok (a, last)) ∧
    (∀ a b, bounds c last (.time a) (.time b) = .ok (a, b)) ∧
    (∀ a x g, tsAt c.res c.sync.bpms a 0 = .ok (x, g) → bounds c last (.tick a) .omitted = .ok (x, last)) ∧
    (∀ a b x g y g', tsAt c.res c.sync.bpms a 0 = .ok (x, g) → tsAt c.res c.sync.bpms b 0 = .ok (y, g') →
      bounds c last (.tick a) (.tick b) = .ok (x, y)) ∧
    (∀ b y g', tsAt c.res c.sync.bpms b 0 = .ok (y, g') → bounds c last .omitted (.tick b) = .ok (0, y)) := by
  refine ⟨rfl, fun _ => rfl, fun _ _ => rfl, ?_, ?_, ?_⟩
  · intro a x g h; simp only [bounds, h]; rfl
  · intro a b x g y g' h h'; simp only [bounds, h, h']; rfl
  · intro b y g' h; simp only [bounds, h]; rfl

/-- every failure of the rate query inside the typed overloads is a ValueError -/
theorem npsCore_err (notes : List Int) (s e : Int) (err : PyErr) (h : npsCore notes s e = .error err) : err = .valueError := by
  unfold npsCore at h
  split at h
  · injection h with h; exact h.symm
  · cases h

end Chartparse.Rate
