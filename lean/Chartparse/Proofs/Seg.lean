import Chartparse.Proofs.Chain
namespace Chartparse.F64

theorem u_pos : 0 < u := by unfold u; norm_num
theorem R_eps_lt_one {k : Rat} (hk : k ≤ 100) (hk0 : 0 ≤ k) : k * u < 1 := by unfold u; nlinarith

/-- seven roundings: the computed seconds are within 7.005·2⁻⁵³ (relative) of the exact value -/
theorem secs_R (Δ n res : Nat) (hΔ : 1 ≤ Δ) (hn : 1 ≤ n) (hres : 1 ≤ res) :
    R (7005 / 1000 * u) (secsFromTicks Δ (fl ((n : Rat) / 1000)) res)
      ((Δ : Rat) * 60000 / ((n : Rat) * (res : Rat))) := by
  have hΔ' : (0 : Rat) < Δ := by exact_mod_cast hΔ
  have hn' : (0 : Rat) < n := by exact_mod_cast hn
  have hr' : (0 : Rat) < res := by exact_mod_cast hres
  have hu := u_pos
  have hB : (0 : Rat) < (n : Rat) / 1000 := by positivity
  -- 1: bpm, 2: resolution
  have r1 : R u (fl ((n : Rat) / 1000)) ((n : Rat) / 1000) := fl_R _ hB
  have r2 : R u (fl (res : Rat)) (res : Rat) := fl_R _ hr'
  have hu1 : u < 1 := by unfold u; norm_num
  -- 3: product, rounded
  have hP : (0 : Rat) < (n : Rat) / 1000 * res := by positivity
  have r3a := R_mul hB hr' hu.le hu1 hu.le hu1 r1 r2
  have e3a : u + u + u * u < 1 := by unfold u; norm_num
  have r3 := R_fl hP (by positivity) e3a r3a
  have r3' : R (3001 / 1000 * u) (fl (fl ((n : Rat) / 1000) * fl (res : Rat))) ((n : Rat) / 1000 * res) :=
    R_mono hP.le (by unfold u; norm_num) r3
  -- 4: divided by 60, rounded
  have hQ : (0 : Rat) < (n : Rat) / 1000 * res / 60 := by positivity
  have r4a := R_div_const (c := 60) (by norm_num) r3'
  have e4 : 3001 / 1000 * u < 1 := by unfold u; norm_num
  have r4 := R_fl hQ (by positivity) e4 r4a
  have r4' : R (4002 / 1000 * u) (fl (fl (fl ((n : Rat) / 1000) * fl (res : Rat)) / 60)) ((n : Rat) / 1000 * res / 60) :=
    R_mono hQ.le (by unfold u; norm_num) r4
  -- 5: reciprocal, rounded
  have hI : (0 : Rat) < 1 / ((n : Rat) / 1000 * res / 60) := by positivity
  have e5 : 4002 / 1000 * u < 1 := by unfold u; norm_num
  have r5a := R_inv hQ (by positivity) e5 r4'
  have r5a' : R (4003 / 1000 * u) (1 / fl (fl (fl ((n : Rat) / 1000) * fl (res : Rat)) / 60)) (1 / ((n : Rat) / 1000 * res / 60)) :=
    R_mono hI.le (by unfold u; norm_num) r5a
  have e5' : 4003 / 1000 * u < 1 := by unfold u; norm_num
  have r5 := R_fl hI (by positivity) e5' r5a'
  have r5' : R (5004 / 1000 * u) (fl (1 / fl (fl (fl ((n : Rat) / 1000) * fl (res : Rat)) / 60))) (1 / ((n : Rat) / 1000 * res / 60)) :=
    R_mono hI.le (by unfold u; norm_num) r5
  -- 6: ticks, 7: final product, rounded
  have r6 : R u (fl (Δ : Rat)) (Δ : Rat) := fl_R _ hΔ'
  have e7 : 5004 / 1000 * u < 1 := by unfold u; norm_num
  have hS : (0 : Rat) < (Δ : Rat) * (1 / ((n : Rat) / 1000 * res / 60)) := by positivity
  have r7a := R_mul hΔ' hI hu.le hu1 (by positivity) e7 r6 r5'
  have e7a : u + 5004 / 1000 * u + u * (5004 / 1000 * u) < 1 := by unfold u; norm_num
  have r7 := R_fl hS (by positivity) e7a r7a
  have r7' := R_mono hS.le (show _ ≤ 7005 / 1000 * u by unfold u; norm_num) r7
  have hEq : (Δ : Rat) * (1 / ((n : Rat) / 1000 * res / 60)) = (Δ : Rat) * 60000 / ((n : Rat) * (res : Rat)) := by
    field_simp; ring
  unfold secsFromTicks
  rw [← hEq]
  exact r7'

end Chartparse.F64
