import Chartparse.Proofs.RouteProofs
import Chartparse.Proofs.StarPower
import Chartparse.Proofs.InstProofs
import Chartparse.Proofs.Group
import Chartparse.Proofs.ChainProofs
/-! The note builder of the model (`buildNote`, `buildNotes`) specified field by field, and the track-level corollaries
    of C02 / C03 / C04 / C05 / C11 on the functions the driver executes. -/
namespace Chartparse.Inst
open Chartparse Chartparse.Tempo

def gtick (g : List NDatum) : Nat := (g.head?.map (·.tick)).getD 0

/-- what one successful `buildNote` returned, field by field -/
structure NoteSpec (res : Int) (evs : List BpmEv) (sps : List Phrase) (g : List NDatum) (prev : Option NoteEv)
    (bidx sidx : Nat) (r : NoteEv × Nat × Nat) : Prop where
  hg : g ≠ []
  tick : r.1.tick = gtick g
  lanes : r.1.lanes = lanes g
  sustain : complexSustain g = .ok r.1.sustain
  hopo : hopoState (tripletThreshold res) (gtick g) (Inst.lanes g) (g.any fun d => d.idx == 6) (g.any fun d => d.idx == 5)
      (prevOf prev) = .ok r.1.hopo
  sp : spData (gtick g) sps sidx = .ok (r.1.sp, r.2.2)
  ts : tsAt res evs (gtick g) bidx = .ok (r.1.ts, r.1.idx)
  nextHint : r.2.1 = r.1.idx
  endTs : ∃ lg g', longest r.1.sustain = .ok lg ∧ tsAt res evs ((gtick g + lg : Nat) : Int) r.1.idx = .ok (r.1.endTs, g')

theorem buildNote_spec (res : Int) (evs : List BpmEv) (sps : List Phrase) (g : List NDatum) (prev : Option NoteEv)
    (bidx sidx : Nat) (r : NoteEv × Nat × Nat) (h : buildNote res evs sps g prev bidx sidx = .ok r) :
    NoteSpec res evs sps g prev bidx sidx r := by
  cases g with
  | nil => simp [buildNote] at h
  | cons first rest =>
    simp only [buildNote] at h
    obtain ⟨sus, hsus, h⟩ := bind_ok h
    obtain ⟨r1, hr1, h⟩ := bind_ok h
    obtain ⟨hp, hhp, h⟩ := bind_ok h
    obtain ⟨r2, hr2, h⟩ := bind_ok h
    obtain ⟨lg, hlg, h⟩ := bind_ok h
    obtain ⟨r3, hr3, h⟩ := bind_ok h
    injection h with h; subst h
    exact ⟨by simp, rfl, rfl, hsus, hhp, by rw [show gtick (first :: rest) = first.tick from rfl, hr2],
      by rw [show gtick (first :: rest) = first.tick from rfl, hr1], rfl, lg, r3.2, hlg,
      by rw [show gtick (first :: rest) = first.tick from rfl, hr3]⟩

/-- the notes a successful `buildNotes` returned, linked group by group -/
inductive NotesOf (res : Int) (evs : List BpmEv) (sps : List Phrase) :
    List (List NDatum) → Option NoteEv → Nat → Nat → List NoteEv → Prop
  | nil (prev b s) : NotesOf res evs sps [] prev b s []
  | cons (g gs prev b s r ns) : NoteSpec res evs sps g prev b s r →
      NotesOf res evs sps gs (some r.1) r.2.1 r.2.2 ns → NotesOf res evs sps (g :: gs) prev b s (r.1 :: ns)

theorem buildNotes_spec (res : Int) (evs : List BpmEv) (sps : List Phrase) (gs : List (List NDatum))
    (prev : Option NoteEv) (b s : Nat) (ns : List NoteEv) (h : buildNotes res evs sps gs prev b s = .ok ns) :
    NotesOf res evs sps gs prev b s ns := by
  induction gs generalizing prev b s ns with
  | nil => simp [buildNotes] at h; subst h; exact NotesOf.nil _ _ _
  | cons g gs ih =>
    simp only [buildNotes] at h
    obtain ⟨r, hr, h⟩ := bind_ok h
    obtain ⟨rest, hrest, h⟩ := bind_ok h
    injection h with h; subst h
    exact NotesOf.cons g gs prev b s r rest (buildNote_spec _ _ _ _ _ _ _ _ hr) (ih _ _ _ _ hrest)

/-- **C02 (track)**: one note per group, at the group's tick, with exactly the group's lanes -/
theorem notes_ticks_lanes {res evs sps gs prev b s ns} (h : NotesOf res evs sps gs prev b s ns) :
    ns.map (·.tick) = gs.map gtick ∧ ns.map (·.lanes) = gs.map lanes := by
  induction h with
  | nil => exact ⟨rfl, rfl⟩
  | cons g gs prev b s r ns hs _ ih =>
    obtain ⟨i1, i2⟩ := ih
    refine ⟨?_, ?_⟩
    · simp only [List.map_cons, i1, hs.tick]
    · simp only [List.map_cons, i2, hs.lanes]

/-- **C03 (track)**: every note's sustain is `complex_sustain` of its own group -/
theorem notes_sustain {res evs sps gs prev b s ns} (h : NotesOf res evs sps gs prev b s ns) :
    gs.map complexSustain = ns.map (fun n => .ok n.sustain) := by
  induction h with
  | nil => rfl
  | cons g gs prev b s r ns hs _ ih => simp only [List.map_cons, ih, hs.sustain]

/-- **C05 (track)**: the star-power data of the notes is the threaded cursor run over their ticks -/
theorem notes_sp {res evs sps gs prev b s ns} (h : NotesOf res evs sps gs prev b s ns) :
    run sps (ns.map (·.tick)) s = some (ns.map (·.sp)) := by
  induction h with
  | nil => rfl
  | cons g gs prev b s r ns hs _ ih =>
    simp only [List.map_cons, run]
    rw [hs.tick, hs.sp]
    simp only []
    rw [ih]; rfl

/-- **C05 (track, final form)**: phrases ordered by start tick, notes in non-decreasing tick order ⇒ every note carries
    the index of the first phrase covering its tick (half-open), or nothing -/
theorem C05_track (res : Int) (evs : List BpmEv) (sps : List Phrase) (gs : List (List NDatum)) (ns : List NoteEv)
    (h : buildNotes res evs sps gs none 0 0 = .ok ns)
    (hs : sps.Pairwise (fun a b => a.tick ≤ b.tick)) (hts : (ns.map (·.tick)).Pairwise (· ≤ ·)) :
    ns.map (·.sp) = ns.map (fun n => firstCovering n.tick sps) := by
  have h1 := notes_sp (buildNotes_spec _ _ _ _ _ _ _ _ h)
  rw [C05 sps hs _ hts] at h1
  injection h1 with h1
  rw [← h1]; simp

/-- **C04 (track)**: the first note is a tap or a strum, every later note follows the rule as stated, relative to its
    predecessor in the track -/
theorem notes_hopo {res evs sps gs prev b s ns} (h : NotesOf res evs sps gs prev b s ns) :
    ∀ i (hi : i < ns.length) (hg : i < gs.length),
      hopoState (tripletThreshold res) ns[i].tick ns[i].lanes (gs[i].any fun d => d.idx == 6) (gs[i].any fun d => d.idx == 5)
        (prevOf (if i = 0 then prev else ns[i - 1]?)) = .ok ns[i].hopo := by
  induction h with
  | nil => intro i hi; cases hi
  | cons g gs prev b s r ns hs _ ih =>
    intro i hi hg
    cases i with
    | zero =>
      simp only [List.getElem_cons_zero, if_true]
      rw [hs.tick, hs.lanes]; exact hs.hopo
    | succ j =>
      simp only [List.getElem_cons_succ]
      have := ih j (by simpa using hi) (by simpa using hg)
      rw [if_neg (by omega)]
      simp only [Nat.add_sub_cancel]
      cases j with
      | zero => simpa using this
      | succ k =>
        rw [if_neg (by omega)] at this
        simpa using this

/-- **C11 (notes)**: on a map with strictly increasing ticks, every note's stored start time and governing index are
    those of the un-hinted query for its tick — whatever hints the builder threaded -/
theorem notes_ts {res evs sps gs prev b s ns} (h : NotesOf res evs sps gs prev b s ns)
    (hsorted : (evs.map (·.tick)).Pairwise (· < ·)) :
    ∀ n ∈ ns, tsAt res evs (n.tick : Int) 0 = .ok (n.ts, n.idx) := by
  induction h with
  | nil => intro n hn; cases hn
  | cons g gs prev b s r ns hs _ ih =>
    intro n hn
    rcases List.mem_cons.mp hn with rfl | hn
    · rw [hs.tick]; exact tsAt_hint_indep res evs hsorted _ _ _ hs.ts
    · exact ih n hn

end Chartparse.Inst
