import Chartparse.Proofs.Hint
/-! C15 over the tempo-map model: every failure is a `ValueError`; success implies every trust condition. -/
namespace Chartparse.Tempo
open Chartparse
open Chartparse.F64

theorem secs_err {ticks : Nat} {bpm : Rat} {res : Int} {e : PyErr} (h : secs ticks bpm res = .error e) :
    e = .valueError := by
  unfold secs at h
  split at h
  · injection h with h; exact h.symm
  · split at h
    · injection h with h; exact h.symm
    · cases h

theorem buildFrom_err (res : Int) (p : BpmEv) (raw : List (Nat × Rat)) (e : PyErr)
    (h : buildFrom res p raw = .error e) : e = .valueError := by
  induction raw generalizing p with
  | nil => simp [buildFrom] at h
  | cons tb rest ih =>
    obtain ⟨t, b⟩ := tb
    simp only [buildFrom] at h
    split at h
    · injection h with h; exact h.symm
    · cases hs : secs (t - p.tick) p.bpm res with
      | error e' => rw [hs] at h; simp only [] at h; injection h with h; subst h; exact secs_err hs
      | ok s =>
        rw [hs] at h; simp only [] at h
        cases hb : buildFrom res ⟨t, b, p.ts + usOfSeconds s⟩ rest with
        | error e' => rw [hb] at h; simp only [] at h; injection h with h; subst h; exact ih _ hb
        | ok es => rw [hb] at h; cases h

/-- whatever is wrong with the tempo data, the failure is a `ValueError` -/
theorem buildMap_err (res : Int) (raw : List (Nat × Rat)) (e : PyErr) (h : buildMap res raw = .error e) :
    e = .valueError := by
  unfold buildMap at h
  cases raw with
  | nil => simp only [] at h; split at h <;> (injection h with h; exact h.symm)
  | cons tb rest =>
    obtain ⟨t, b⟩ := tb
    simp only [] at h
    cases hb : buildFrom res ⟨t, b, 0⟩ rest with
    | error e' => rw [hb] at h; simp only [] at h; injection h with h; subst h; exact buildFrom_err _ _ _ _ hb
    | ok es =>
      rw [hb] at h; simp only [] at h
      split at h
      · injection h with h; exact h.symm
      · split at h
        · injection h with h; exact h.symm
        · cases h

/-- strictly increasing ticks are necessary at every position -/
theorem buildFrom_ticks (res : Int) (p : BpmEv) (raw : List (Nat × Rat)) (es : List BpmEv)
    (h : buildFrom res p raw = .ok es) : (p.tick :: es.map (·.tick)).Pairwise (· < ·) ∧
      es.map (fun e => (e.tick, e.bpm)) = raw := by
  induction raw generalizing p es with
  | nil => simp [buildFrom] at h; subst h; simp
  | cons tb rest ih =>
    obtain ⟨t, b⟩ := tb
    simp only [buildFrom] at h
    split at h
    · cases h
    · rename_i hlt
      cases hs : secs (t - p.tick) p.bpm res with
      | error e' => rw [hs] at h; cases h
      | ok s =>
        rw [hs] at h; simp only [] at h
        cases hb : buildFrom res ⟨t, b, p.ts + usOfSeconds s⟩ rest with
        | error e' => rw [hb] at h; cases h
        | ok es' =>
          rw [hb] at h; simp only [] at h; injection h with h; subst h
          obtain ⟨i1, i2⟩ := ih _ _ hb
          simp only [List.map_cons] at i1 ⊢
          refine ⟨?_, by simp [i2]⟩
          rw [List.pairwise_cons]
          refine ⟨?_, i1⟩
          intro x hx
          rw [List.pairwise_cons] at i1
          rcases List.mem_cons.mp hx with rfl | hx
          · omega
          · have := i1.1 x hx; omega

/-- a map that was built satisfies every condition C15 lists -/
theorem buildMap_ok (res : Int) (raw : List (Nat × Rat)) (evs : List BpmEv) (h : buildMap res raw = .ok evs) :
    0 < res ∧ raw ≠ [] ∧ (∃ b rest, raw = (0, b) :: rest) ∧
    (evs.map (·.tick)).Pairwise (· < ·) ∧ evs.map (fun e => (e.tick, e.bpm)) = raw := by
  unfold buildMap at h
  cases raw with
  | nil => simp only [] at h; split at h <;> cases h
  | cons tb rest =>
    obtain ⟨t, b⟩ := tb
    simp only [] at h
    cases hb : buildFrom res ⟨t, b, 0⟩ rest with
    | error e' => rw [hb] at h; cases h
    | ok es =>
      rw [hb] at h; simp only [] at h
      split at h
      · cases h
      · rename_i hres
        split at h
        · cases h
        · rename_i ht
          injection h with h; subst h
          obtain ⟨i1, i2⟩ := buildFrom_ticks _ _ _ _ hb
          have ht0 : t = 0 := by
            cases Nat.decEq t 0 with
            | isTrue h => exact h
            | isFalse h => exact absurd h ht
          subst ht0
          refine ⟨by omega, by simp, ⟨b, rest, rfl⟩, by simpa using i1, by simp [i2]⟩

theorem index_negative (ticks : List Nat) (tick : Int) (hint : Nat) (h : tick < 0) :
    indexOfProximal ticks tick hint = .error .valueError := by
  unfold indexOfProximal
  by_cases hlen : ticks.length ≤ hint
  · rw [if_pos hlen]
  · rw [if_neg hlen]
    have hlt : hint < ticks.length := by omega
    rw [List.getElem?_eq_getElem hlt]
    simp only []
    rw [if_pos (by omega)]

/-- no time for a negative tick, and no time under a non-positive tempo -/
theorem tsAt_negative (res : Int) (evs : List BpmEv) (tick : Int) (hint : Nat) (h : tick < 0) :
    tsAt res evs tick hint = .error .valueError := by
  unfold tsAt
  rw [index_negative _ _ _ h]

theorem tsAt_ok_bpm (res : Int) (evs : List BpmEv) (tick : Int) (hint : Nat) (x : Int) (g : Nat)
    (h : tsAt res evs tick hint = .ok (x, g)) : ∃ ev, evs[g]? = some ev ∧ 0 < ev.bpm ∧ 0 < res := by
  unfold tsAt at h
  cases hi : indexOfProximal (evs.map (·.tick)) tick hint with
  | error e => rw [hi] at h; cases h
  | ok g' =>
    rw [hi] at h; simp only [] at h
    cases he : evs[g']? with
    | none => rw [he] at h; cases h
    | some ev =>
      rw [he] at h; simp only [] at h
      cases hs : secs (tick - ev.tick).natAbs ev.bpm res with
      | error e => rw [hs] at h; cases h
      | ok s =>
        rw [hs] at h; simp only [] at h
        injection h with h; injection h with h1 h2; subst h2
        unfold secs at hs
        split at hs
        · cases hs
        · rename_i hb
          split at hs
          · cases hs
          · rename_i hr
            exact ⟨ev, he, by
              cases Rat.instDecidableLe ev.bpm 0 with
              | isTrue h => exact absurd h hb
              | isFalse h => exact Rat.not_le.mp h, by omega⟩

end Chartparse.Tempo
