import Chartparse.Proofs.ReDispatch
/-! Soundness (the ⇒ direction) of every event recogniser in `evRe` form: what it accepts has the documented shape and
    the captures are the corresponding substrings. Together with the acceptance theorems of `ReLine` this is an exact
    characterisation (⇔) of the recognisers' languages and captures. -/
namespace Chartparse.Rx
open Chartparse

/-- the trailing `\s*?$`: blanks, then the end of the line (or one final line feed) -/
theorem tail_inv {α} (k : Str → Caps → Option α) (r : Str) (cs : Caps) (v : α) (h : tailRe.exec k r cs = some v) :
    ∃ q r', r = q ++ r' ∧ AllIn .space q ∧ (r' = [] ∨ r' = [10]) ∧ k r' cs = some v := by
  unfold tailRe at h
  rw [exec_cat, exec_star] at h
  obtain ⟨q, r', hr, hq, h⟩ := starExec_inv _ _ _ _ _ h
  obtain ⟨he, hk⟩ := eol_inv _ _ _ _ h
  exact ⟨q, r', hr, hq, he, hk⟩

theorem lf_space : CSet.space.test 10 = true := by decide

/-- the unmatched remainder after `$` is blank too, so padding ++ remainder is one run of blanks -/
theorem tail_all_space (q r' : Str) (hq : AllIn .space q) (hr : r' = [] ∨ r' = [10]) : AllIn .space (q ++ r') := by
  intro x hx
  rcases List.mem_append.mp hx with hx | hx
  · exact hq x hx
  · rcases hr with rfl | rfl
    · cases hx
    · simp at hx; subst hx; exact lf_space

theorem group_plusLazy_inv {α} (g : Nat) (s : CSet) (k : Str → Caps → Option α) (r : Str) (cs : Caps) (v : α)
    (h : (Re.group g (plusLazy s)).exec k r cs = some v) :
    ∃ pre rest, r = pre ++ rest ∧ pre ≠ [] ∧ AllIn s pre ∧ k rest ((g, pre) :: cs) = some v := by
  rw [exec_group] at h
  obtain ⟨pre, rest, hr, h0, hpre, hk⟩ := plusLazy_inv _ _ _ _ _ h
  refine ⟨pre, rest, hr, h0, hpre, ?_⟩
  have : List.take (r.length - rest.length) r = pre := by
    rw [hr]; simp
  rw [this] at hk; exact hk

theorem group_star_inv {α} (g : Nat) (s : CSet) (k : Str → Caps → Option α) (r : Str) (cs : Caps) (v : α)
    (h : (Re.group g (.star false s)).exec k r cs = some v) :
    ∃ pre rest, r = pre ++ rest ∧ AllIn s pre ∧ k rest ((g, pre) :: cs) = some v := by
  rw [exec_group, exec_star] at h
  obtain ⟨pre, rest, hr, hpre, hk⟩ := starExec_inv _ _ _ _ _ h
  refine ⟨pre, rest, hr, hpre, ?_⟩
  have : List.take (r.length - rest.length) r = pre := by
    rw [hr]; simp
  rw [this] at hk; exact hk

/-- the common head, soundly: an accepted string is blanks, the tick digits, ` = `, the literal, and the payload accepted
    the rest with the tick recorded as group 1 -/
theorem ev_sound {α} (lit : Str) (payload : Re) (k : Str → Caps → Option α) (s : Str) (v : α)
    (h : (evRe lit payload).exec k s [] = some v) :
    ∃ p t rest, s = p ++ (t ++ ((32 :: 61 :: 32 :: lit) ++ rest)) ∧ AllIn .space p ∧ AllIn .digit t ∧ t ≠ [] ∧
      payload.exec k rest [(1, t)] = some v := by
  unfold evRe at h
  rw [exec_cat, exec_star] at h
  obtain ⟨p, r1, hs, hp, h⟩ := starExec_inv _ _ _ _ _ h
  rw [exec_cat] at h
  obtain ⟨t, r2, hr1, ht0, ht, h⟩ := group_plusLazy_inv _ _ _ _ _ _ h
  rw [exec_cat] at h
  obtain ⟨r3, hr2, h⟩ := lits_inv _ _ _ _ _ h
  exact ⟨p, t, r3, by rw [hs, hr1, hr2], hp, ht, ht0, h⟩

theorem digitsTail_sound (g : Nat) (r : Str) (cs caps : Caps)
    (h : (digitsTail g).exec (fun _ cs => some cs) r cs = some caps) :
    ∃ l q, r = l ++ q ∧ AllIn .digit l ∧ l ≠ [] ∧ AllIn .space q ∧ caps = (g, l) :: cs := by
  unfold digitsTail at h
  rw [exec_cat] at h
  obtain ⟨l, r1, hr, hl0, hl, h⟩ := group_plusLazy_inv _ _ _ _ _ _ h
  obtain ⟨q, r', hr1, hq, he, hk⟩ := tail_inv _ _ _ _ h
  injection hk with hk
  exact ⟨l, q ++ r', by rw [hr, hr1], hl, hl0, tail_all_space q r' hq he, hk.symm⟩

theorem digitsEol_sound (g : Nat) (r : Str) (cs caps : Caps)
    (h : (digitsEol g).exec (fun _ cs => some cs) r cs = some caps) :
    ∃ l r', r = l ++ r' ∧ AllIn .digit l ∧ l ≠ [] ∧ (r' = [] ∨ r' = [10]) ∧ caps = (g, l) :: cs := by
  unfold digitsEol at h
  rw [exec_cat] at h
  obtain ⟨l, r1, hr, hl0, hl, h⟩ := group_plusLazy_inv _ _ _ _ _ _ h
  obtain ⟨he, hk⟩ := eol_inv _ _ _ _ h
  injection hk with hk
  exact ⟨l, r1, hr, hl, hl0, he, hk.symm⟩

theorem quotedTail_sound (s : CSet) (r : Str) (cs caps : Caps)
    (h : (quotedTail s).exec (fun _ cs => some cs) r cs = some caps) :
    ∃ v q, r = v ++ 34 :: q ∧ AllIn s v ∧ AllIn .space q ∧ caps = (2, v) :: cs := by
  unfold quotedTail at h
  rw [exec_cat] at h
  obtain ⟨v, r1, hr, hv, h⟩ := group_star_inv _ _ _ _ _ _ h
  rw [exec_cat] at h
  obtain ⟨c, r2, hr1, hc, h⟩ := chr_inv _ _ _ _ _ h
  obtain ⟨q, r', hr2, hq, he, hk⟩ := tail_inv _ _ _ _ h
  injection hk with hk
  have hc' : c = 34 := by simpa [CSet.test] using hc
  subst hc'
  exact ⟨v, q ++ r', by rw [hr, hr1, hr2], hv, tail_all_space q r' hq he, hk.symm⟩

theorem tePayload_sound (r : Str) (cs caps : Caps)
    (h : tePayload.exec (fun _ cs => some cs) r cs = some caps) :
    ∃ w q, r = w ++ q ∧ AllIn (.notLit 32) w ∧ AllIn .space q ∧ caps = (2, w) :: cs := by
  unfold tePayload at h
  rw [exec_cat] at h
  obtain ⟨w, r1, hr, hw, h⟩ := group_star_inv _ _ _ _ _ _ h
  obtain ⟨q, r', hr1, hq, he, hk⟩ := tail_inv _ _ _ _ h
  injection hk with hk
  exact ⟨w, q ++ r', by rw [hr, hr1], hw, tail_all_space q r' hq he, hk.symm⟩

/-! ### soundness of the templates -/

theorem sp_sound (s : Str) (caps : Caps) (h : spT.matchGroups s = some caps) :
    ∃ p t l q, s = p ++ (t ++ ([32, 61, 32, 83, 32, 50, 32] ++ (l ++ q))) ∧ AllIn .space p ∧ AllIn .digit t ∧ t ≠ [] ∧
      AllIn .digit l ∧ l ≠ [] ∧ AllIn .space q ∧ caps = [(2, l), (1, t)] := by
  rw [matchGroups_eq] at h; unfold spT at h
  obtain ⟨p, t, rest, hs, hp, ht, ht0, hpl⟩ := ev_sound _ _ _ _ _ h
  obtain ⟨l, q, hr, hl, hl0, hq, hc⟩ := digitsTail_sound _ _ _ _ hpl
  exact ⟨p, t, l, q, by rw [hs, hr], hp, ht, ht0, hl, hl0, hq, hc⟩

theorem bpm_sound (s : Str) (caps : Caps) (h : bpmT.matchGroups s = some caps) :
    ∃ p t l q, s = p ++ (t ++ ([32, 61, 32, 66, 32] ++ (l ++ q))) ∧ AllIn .space p ∧ AllIn .digit t ∧ t ≠ [] ∧
      AllIn .digit l ∧ l ≠ [] ∧ AllIn .space q ∧ caps = [(2, l), (1, t)] := by
  rw [matchGroups_eq] at h; unfold bpmT at h
  obtain ⟨p, t, rest, hs, hp, ht, ht0, hpl⟩ := ev_sound _ _ _ _ _ h
  obtain ⟨l, q, hr, hl, hl0, hq, hc⟩ := digitsTail_sound _ _ _ _ hpl
  exact ⟨p, t, l, q, by rw [hs, hr], hp, ht, ht0, hl, hl0, hq, hc⟩

theorem anchor_sound (s : Str) (caps : Caps) (h : anchorT.matchGroups s = some caps) :
    ∃ p t l r', s = p ++ (t ++ ([32, 61, 32, 65, 32] ++ (l ++ r'))) ∧ AllIn .space p ∧ AllIn .digit t ∧ t ≠ [] ∧
      AllIn .digit l ∧ l ≠ [] ∧ (r' = [] ∨ r' = [10]) ∧ caps = [(2, l), (1, t)] := by
  rw [matchGroups_eq] at h; unfold anchorT at h
  obtain ⟨p, t, rest, hs, hp, ht, ht0, hpl⟩ := ev_sound _ _ _ _ _ h
  obtain ⟨l, r', hr, hl, hl0, he, hc⟩ := digitsEol_sound _ _ _ _ hpl
  exact ⟨p, t, l, r', by rw [hs, hr], hp, ht, ht0, hl, hl0, he, hc⟩

theorem te_sound (s : Str) (caps : Caps) (h : teEv.matchGroups s = some caps) :
    ∃ p t w q, s = p ++ (t ++ ([32, 61, 32, 69, 32] ++ (w ++ q))) ∧ AllIn .space p ∧ AllIn .digit t ∧ t ≠ [] ∧
      AllIn (.notLit 32) w ∧ AllIn .space q ∧ caps = [(2, w), (1, t)] := by
  rw [matchGroups_eq] at h; unfold teEv at h
  obtain ⟨p, t, rest, hs, hp, ht, ht0, hpl⟩ := ev_sound _ _ _ _ _ h
  obtain ⟨w, q, hr, hw, hq, hc⟩ := tePayload_sound _ _ _ hpl
  exact ⟨p, t, w, q, by rw [hs, hr], hp, ht, ht0, hw, hq, hc⟩

theorem text_sound (s : Str) (caps : Caps) (h : textT.matchGroups s = some caps) :
    ∃ p t v q, s = p ++ (t ++ ([32, 61, 32, 69, 32, 34] ++ (v ++ 34 :: q))) ∧ AllIn .space p ∧ AllIn .digit t ∧ t ≠ [] ∧
      AllIn (.notLit 34) v ∧ AllIn .space q ∧ caps = [(2, v), (1, t)] := by
  rw [matchGroups_eq] at h; unfold textT at h
  obtain ⟨p, t, rest, hs, hp, ht, ht0, hpl⟩ := ev_sound _ _ _ _ _ h
  obtain ⟨v, q, hr, hv, hq, hc⟩ := quotedTail_sound _ _ _ _ hpl
  exact ⟨p, t, v, q, by rw [hs, hr], hp, ht, ht0, hv, hq, hc⟩

theorem lyric_sound (s : Str) (caps : Caps) (h : lyricT.matchGroups s = some caps) :
    ∃ p t v q, s = p ++ (t ++ ([32, 61, 32, 69, 32, 34, 108, 121, 114, 105, 99, 32] ++ (v ++ 34 :: q))) ∧ AllIn .space p ∧
      AllIn .digit t ∧ t ≠ [] ∧ AllIn .any v ∧ AllIn .space q ∧ caps = [(2, v), (1, t)] := by
  rw [matchGroups_eq] at h; unfold lyricT at h
  obtain ⟨p, t, rest, hs, hp, ht, ht0, hpl⟩ := ev_sound _ _ _ _ _ h
  obtain ⟨v, q, hr, hv, hq, hc⟩ := quotedTail_sound _ _ _ _ hpl
  exact ⟨p, t, v, q, by rw [hs, hr], hp, ht, ht0, hv, hq, hc⟩

theorem section_sound (s : Str) (caps : Caps) (h : sectionT.matchGroups s = some caps) :
    ∃ p t v q, s = p ++ (t ++ ([32, 61, 32, 69, 32, 34, 115, 101, 99, 116, 105, 111, 110, 32] ++ (v ++ 34 :: q))) ∧
      AllIn .space p ∧ AllIn .digit t ∧ t ≠ [] ∧ AllIn .any v ∧ AllIn .space q ∧ caps = [(2, v), (1, t)] := by
  rw [matchGroups_eq] at h; unfold sectionT at h
  obtain ⟨p, t, rest, hs, hp, ht, ht0, hpl⟩ := ev_sound _ _ _ _ _ h
  obtain ⟨v, q, hr, hv, hq, hc⟩ := quotedTail_sound _ _ _ _ hpl
  exact ⟨p, t, v, q, by rw [hs, hr], hp, ht, ht0, hv, hq, hc⟩

end Chartparse.Rx

namespace Chartparse.Rx
open Chartparse

theorem opt_greedy_inv {α} (a : Re) (k : Str → Caps → Option α) (r : Str) (cs : Caps) (v : α)
    (h : (Re.opt true a).exec k r cs = some v) : a.exec k r cs = some v ∨ k r cs = some v := by
  rw [exec_opt_greedy] at h
  cases ha : a.exec k r cs with
  | some w => rw [ha] at h; simp [Option.orElse] at h; left; rw [h]
  | none => rw [ha] at h; right; simpa [Option.orElse] using h

/-- C08, converse direction for the TS recogniser: two or three numbers, a single blank before the optional third -/
theorem ts_sound (s : Str) (caps : Caps) (h : tsEv.matchGroups s = some caps) :
    ∃ p t u, AllIn .space p ∧ AllIn .digit t ∧ t ≠ [] ∧ AllIn .digit u ∧ u ≠ [] ∧
      ((∃ q, s = p ++ (t ++ ([32, 61, 32, 84, 83, 32] ++ (u ++ q))) ∧ AllIn .space q ∧ caps = [(2, u), (1, t)]) ∨
       (∃ l q, s = p ++ (t ++ ([32, 61, 32, 84, 83, 32] ++ (u ++ (32 :: (l ++ q))))) ∧ AllIn .digit l ∧ l ≠ [] ∧ AllIn .space q ∧
          caps = [(3, l), (2, u), (1, t)])) := by
  rw [matchGroups_eq] at h; unfold tsEv at h
  obtain ⟨p, t, rest, hs, hp, ht, ht0, hpl⟩ := ev_sound _ _ _ _ _ h
  unfold tsPayload at hpl
  rw [exec_cat] at hpl
  obtain ⟨u, r1, hr, hu0, hu, hpl⟩ := group_plusLazy_inv _ _ _ _ _ _ hpl
  rw [exec_cat] at hpl
  refine ⟨p, t, u, hp, ht, ht0, hu, hu0, ?_⟩
  rcases opt_greedy_inv _ _ _ _ _ hpl with hopt | hno
  · right
    rw [exec_cat] at hopt
    obtain ⟨c, r2, hr1, hc, hopt⟩ := chr_inv _ _ _ _ _ hopt
    have hc' : c = 32 := by simpa [CSet.test] using hc
    subst hc'
    obtain ⟨l, r3, hr2, hl0, hl, hopt⟩ := group_plusLazy_inv _ _ _ _ _ _ hopt
    obtain ⟨q, r', hr3, hq, he, hk⟩ := tail_inv _ _ _ _ hopt
    injection hk with hk
    exact ⟨l, q ++ r', by rw [hs, hr, hr1, hr2, hr3], hl, hl0, tail_all_space q r' hq he, hk.symm⟩
  · left
    obtain ⟨q, r', hr1, hq, he, hk⟩ := tail_inv _ _ _ _ hno
    injection hk with hk
    exact ⟨q ++ r', by rw [hs, hr, hr1], tail_all_space q r' hq he, hk.symm⟩

/-- **C07, named rejection**: `<tick> = E two words` — a word, a U+0020 blank, then anything containing a non-blank — is
    never a track event -/
theorem te_two_words_rejected (p t w1 w2 : Str) (hp : AllIn .space p) (ht : AllIn .digit t) (ht0 : t ≠ [])
    (hw2 : ∃ x ∈ w2, CSet.space.test x = false) :
    teEv.matchGroups (p ++ (t ++ ([32, 61, 32, 69, 32] ++ (w1 ++ 32 :: w2)))) = none := by
  cases h : teEv.matchGroups (p ++ (t ++ ([32, 61, 32, 69, 32] ++ (w1 ++ 32 :: w2)))) with
  | none => rfl
  | some caps =>
    exfalso
    obtain ⟨p', t', w, q, hs, hp', ht', ht0', hw, hq, _⟩ := te_sound _ _ h
    obtain ⟨d, t1, rfl⟩ := List.exists_cons_of_ne_nil ht0
    obtain ⟨d', t1', rfl⟩ := List.exists_cons_of_ne_nil ht0'
    have hd : CSet.space.test d = false := digit_not_space (ht d (by simp))
    have hd' : CSet.space.test d' = false := digit_not_space (ht' d' (by simp))
    simp only [List.cons_append] at hs
    obtain ⟨_, e2⟩ := run_unique .space p p' d d' _ _ hp hp' hd hd' hs
    have e3 : (d :: t1) ++ 32 :: (61 :: 32 :: 69 :: 32 :: (w1 ++ 32 :: w2)) = (d' :: t1') ++ 32 :: (61 :: 32 :: 69 :: 32 :: (w ++ q)) := by
      simpa using e2
    obtain ⟨_, e4⟩ := run_unique .digit (d :: t1) (d' :: t1') 32 32 _ _ ht ht' digit_ne_space32 digit_ne_space32 e3
    simp at e4
    -- w1 ++ 32 :: w2 = w ++ q with no U+0020 in w and only blanks in q: impossible when w2 holds a non-blank
    obtain ⟨x, hx, hxs⟩ := hw2
    have hxq : x ∈ w ++ q := by rw [← e4]; simp [hx]
    rcases List.append_eq_append_iff.mp e4 with ⟨a', h1, h2⟩ | ⟨c', h1, h2⟩
    · -- w = w1 ++ a', 32 :: w2 = a' ++ q
      cases a' with
      | nil =>
        simp at h2
        have := hq x (by rw [← h2]; simp [hx])
        rw [hxs] at this; cases this
      | cons y ys =>
        simp at h2
        have h32 : (32 : Nat) ∈ w := by rw [h1]; simp [h2.1]
        have := hw 32 h32
        simp [CSet.test] at this
    · -- w1 = w ++ c', q = c' ++ 32 :: w2
      have := hq x (by rw [h2]; simp [hx])
      rw [hxs] at this; cases this

end Chartparse.Rx
