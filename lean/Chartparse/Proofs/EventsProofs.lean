import Chartparse.Proofs.TrackProofs
import Chartparse.Proofs.SyncProofs
/-! C11 "consequently" / C01 "on every event": in a chart that parsed, every stored timestamp and governing index of
    every event kind equals the un-hinted query for the event's tick. -/
namespace Chartparse
open Tempo Inst Meta

/-- zipping data with the chain's answers: same ticks, and each answer is the un-hinted query -/
theorem zip_chain_spec {α} (res : Int) (evs : List BpmEv) (hs : (evs.map (·.tick)).Pairwise (· < ·))
    (l : List α) (tick : α → Nat) (out : List (Int × Nat)) (h : chain res evs (l.map tick) 0 = .ok out) :
    out.length = l.length ∧ ∀ i (hi : i < l.length) (ho : i < out.length), tsAt res evs (tick l[i] : Int) 0 = .ok out[i] := by
  rcases chain_any_order_ts res evs hs (l.map tick) 0 with herr | ⟨out', hout, hlen, hall⟩
  · rw [herr] at h; cases h
  · rw [hout] at h; injection h with h; subst h
    refine ⟨by simpa using hlen, ?_⟩
    intro i hi ho
    have := hall i (by simpa using hi) ho
    simpa using this

/-- **C11 / C01 for text, section, lyric and track events** -/
theorem buildValEvs_spec (res : Int) (evs : List BpmEv) (hs : (evs.map (·.tick)).Pairwise (· < ·))
    (l : List (Nat × Str)) (out : List ValEv) (h : buildValEvs res evs l = .ok out) :
    out.map (fun e => (e.tick, e.value)) = l ∧ ∀ e ∈ out, tsAt res evs (e.tick : Int) 0 = .ok (e.ts, e.idx) := by
  unfold buildValEvs at h
  obtain ⟨ts, hts, h⟩ := bind_ok h
  injection h with h; subst h
  obtain ⟨hlen, hall⟩ := zip_chain_spec res evs hs l (·.1) ts hts
  constructor
  · apply List.ext_getElem
    · simp [hlen]
    · intro i h1 h2
      simp
  · intro e he
    obtain ⟨i, hi, hget⟩ := List.getElem_of_mem he
    simp only [List.length_map, List.length_zip] at hi
    have hil : i < l.length := by omega
    have hio : i < ts.length := by omega
    simp only [List.getElem_map, List.getElem_zip] at hget
    rw [← hget]
    exact hall i hil hio

/-- **C11 / C01 for the global events of a parsed chart**: every text, section and lyric event carries exactly the
    un-hinted query's timestamp and governing index for its tick -/
theorem chart_events_ts (secs : Sections) (want : Option (List (Nat × Nat))) (c : Chart) (h : parseSections secs want = .ok c) :
    ∀ e, (e ∈ c.events.texts ∨ e ∈ c.events.sections ∨ e ∈ c.events.lyrics) →
      tsAt c.res c.sync.bpms (e.tick : Int) 0 = .ok (e.ts, e.idx) := by
  obtain ⟨_, hsorted, _, _⟩ := parseSections_trust secs want c h
  unfold parseSections at h
  obtain ⟨sh, hsh, h⟩ := bind_ok h
  obtain ⟨tr, _, h⟩ := bind_ok h
  injection h with h; subst h
  unfold parseShared at hsh
  split at hsh
  · cases hsh
  · obtain ⟨songLines, _, hsh⟩ := bind_ok hsh
    obtain ⟨metad, _, hsh⟩ := bind_ok hsh
    obtain ⟨syncLines, _, hsh⟩ := bind_ok hsh
    obtain ⟨sy, _, hsh⟩ := bind_ok hsh
    obtain ⟨evLines, _, hsh⟩ := bind_ok hsh
    obtain ⟨ev, hev, hsh⟩ := bind_ok hsh
    injection hsh with hsh; subst hsh
    unfold parseEvents at hev
    obtain ⟨texts, ht, hev⟩ := bind_ok hev
    obtain ⟨sections, hse, hev⟩ := bind_ok hev
    obtain ⟨lyrics, hl, hev⟩ := bind_ok hev
    injection hev with hev; subst hev
    intro e he
    rcases he with he | he | he
    · exact (buildValEvs_spec _ _ hsorted _ _ ht).2 e he
    · exact (buildValEvs_spec _ _ hsorted _ _ hse).2 e he
    · exact (buildValEvs_spec _ _ hsorted _ _ hl).2 e he

/-- **C11 / C01 for a track built on a trustworthy map**: notes (start), star-power phrases and track events -/
theorem buildTrack_ts (res : Int) (evs : List BpmEv) (hs : (evs.map (·.tick)).Pairwise (· < ·))
    (nd : List NDatum) (sd : List Phrase) (td : List (Nat × Str)) (t : Track) (h : buildTrack res evs nd sd td = .ok t) :
    (∀ n ∈ t.notes, tsAt res evs (n.tick : Int) 0 = .ok (n.ts, n.idx)) ∧
    (∀ e ∈ t.sps, tsAt res evs (e.tick : Int) 0 = .ok (e.ts, e.idx)) ∧
    (∀ e ∈ t.tes, tsAt res evs (e.tick : Int) 0 = .ok (e.ts, e.idx)) ∧
    t.sps.map (fun e => (⟨e.tick, e.len⟩ : Phrase)) = sd ∧ t.tes.map (fun e => (e.tick, e.value)) = td := by
  unfold buildTrack at h
  obtain ⟨spts, hsp, h⟩ := bind_ok h
  obtain ⟨tets, hte, h⟩ := bind_ok h
  obtain ⟨notes, hn, h⟩ := bind_ok h
  injection h with h; subst h
  obtain ⟨hlen1, hall1⟩ := zip_chain_spec res evs hs sd (·.tick) spts hsp
  obtain ⟨hlen2, hall2⟩ := zip_chain_spec res evs hs td (·.1) tets hte
  refine ⟨notes_ts (buildNotes_spec _ _ _ _ _ _ _ _ hn) hs, ?_, ?_, ?_, ?_⟩
  · intro e he
    obtain ⟨i, hi, hget⟩ := List.getElem_of_mem he
    simp only [List.length_map, List.length_zip] at hi
    simp only [List.getElem_map, List.getElem_zip] at hget
    rw [← hget]
    exact hall1 i (by omega) (by omega)
  · intro e he
    obtain ⟨i, hi, hget⟩ := List.getElem_of_mem he
    simp only [List.length_map, List.length_zip] at hi
    simp only [List.getElem_map, List.getElem_zip] at hget
    rw [← hget]
    exact hall2 i (by omega) (by omega)
  · apply List.ext_getElem
    · simp [hlen1]
    · intro i h1 h2; simp
  · apply List.ext_getElem
    · simp [hlen2]
    · intro i h1 h2; simp

end Chartparse
