import Chartparse.Proofs.Hint
import Chartparse.Proofs.UsMono
namespace Chartparse.Tempo
open Chartparse
open Chartparse.F64

/-- consecutive tempo events are linked by the accumulation recurrence -/
inductive Linked (res : Nat) : List BpmEv → Prop
  | single (e : BpmEv) : Linked res [e]
  | cons (p e : BpmEv) (es : List BpmEv) : p.tick < e.tick → 0 < p.bpm →
      e.ts = p.ts + usOfSeconds (secsFromTicks (e.tick - p.tick) p.bpm res) →
      Linked res (e :: es) → Linked res (p :: e :: es)

theorem secs_ok {ticks : Nat} {bpm : Rat} {res : Int} {s : Rat} (h : secs ticks bpm res = .ok s) :
    0 < bpm ∧ 0 < res ∧ s = secsFromTicks ticks bpm res.toNat := by
  unfold secs at h
  split_ifs at h with h1 h2
  injection h with h
  exact ⟨not_le.mp h1, not_le.mp h2, h.symm⟩

theorem build_linked (res : Int) (p : BpmEv) (raw : List (Nat × Rat)) (es : List BpmEv)
    (h : buildFrom res p raw = .ok es) : Linked res.toNat (p :: es) := by
  induction raw generalizing p es with
  | nil => simp [buildFrom] at h; subst h; exact Linked.single p
  | cons tb rest ih =>
    obtain ⟨t, b⟩ := tb
    simp only [buildFrom] at h
    split_ifs at h with hle
    cases hs : secs (t - p.tick) p.bpm res with
    | error e => rw [hs] at h; cases h
    | ok s =>
      rw [hs] at h
      simp only [] at h
      cases hb : buildFrom res ⟨t, b, p.ts + usOfSeconds s⟩ rest with
      | error e => rw [hb] at h; cases h
      | ok es' =>
        rw [hb] at h
        injection h with h; subst h
        obtain ⟨hbpm, _, hs'⟩ := secs_ok hs
        exact Linked.cons p ⟨t, b, p.ts + usOfSeconds s⟩ es' (by simpa using not_le.mp hle) hbpm
          (by simp [hs']) (ih _ _ hb)

/-- walk the list: the timestamp of a tick at or after the head event -/
def tsRec (res : Nat) : List BpmEv → Nat → Option Int
  | [], _ => none
  | [e], t => if 0 < e.bpm then some (e.ts + usOfSeconds (secsFromTicks (t - e.tick) e.bpm res)) else none
  | p :: e :: es, t =>
    if t < e.tick then
      (if 0 < p.bpm then some (p.ts + usOfSeconds (secsFromTicks (t - p.tick) p.bpm res)) else none)
    else tsRec res (e :: es) t

/-- a tick at or after the head event is never earlier than the head event -/
theorem tsRec_ge_head (res : Nat) (evs : List BpmEv) (hl : Linked res evs) :
    ∀ e rest, evs = e :: rest → ∀ t x, tsRec res evs t = some x → e.ts ≤ x := by
  induction hl with
  | single e0 =>
    intro e rest heq t x hx
    injection heq with h1 h2; subst h1
    simp only [tsRec] at hx
    split_ifs at hx
    injection hx with hx; subst hx
    have := usOfSeconds_nonneg (secsFromTicks_nonneg (t - e0.tick) e0.bpm res)
    omega
  | cons p e0 es hlt hb hts _ ih =>
    intro e rest heq t x hx
    injection heq with h1 h2; subst h1
    simp only [tsRec] at hx
    split_ifs at hx with h1 h2
    · injection hx with hx; subst hx
      have := usOfSeconds_nonneg (secsFromTicks_nonneg (t - p.tick) p.bpm res)
      omega
    · have := ih e0 es rfl t x hx
      have hn := usOfSeconds_nonneg (secsFromTicks_nonneg (e0.tick - p.tick) p.bpm res)
      omega

/-- C12: time is a non-decreasing function of tick (every linked map, every pair of ticks) -/
theorem tsRec_mono (res : Nat) (evs : List BpmEv) (hl : Linked res evs) :
    ∀ a b x y, a ≤ b → tsRec res evs a = some x → tsRec res evs b = some y → x ≤ y := by
  induction hl with
  | single e =>
    intro a b x y hab hx hy
    simp only [tsRec] at hx hy
    split_ifs at hx hy
    injection hx with hx; injection hy with hy; subst hx; subst hy
    have := usOfSeconds_mono (secsFromTicks_mono (show a - e.tick ≤ b - e.tick by omega) e.bpm res)
    omega
  | cons p e es hlt hb hts hrest ih =>
    intro a b x y hab hx hy
    simp only [tsRec] at hx hy
    by_cases hbe : b < e.tick
    · have hae : a < e.tick := by omega
      rw [if_pos hae] at hx; rw [if_pos hbe] at hy
      rw [if_pos hb] at hx hy
      injection hx with hx; injection hy with hy; subst hx; subst hy
      have := usOfSeconds_mono (secsFromTicks_mono (show a - p.tick ≤ b - p.tick by omega) p.bpm res)
      omega
    · rw [if_neg hbe] at hy
      by_cases hae : a < e.tick
      · rw [if_pos hae, if_pos hb] at hx
        injection hx with hx; subst hx
        have h1 := usOfSeconds_mono (secsFromTicks_mono (show a - p.tick ≤ e.tick - p.tick by omega) p.bpm res)
        have h2 := tsRec_ge_head res (e :: es) hrest e es rfl b y hy
        omega
      · rw [if_neg hae] at hx
        exact ih a b x y hab hx hy

end Chartparse.Tempo
