import Chartparse.Proofs.C01Compose
import Chartparse.Proofs.Strict
import Chartparse.Proofs.C15Proofs
/-! C11 / C12 lifted from tempo indices and list walks to the functions the model executes: `tsAt` with hints,
    the per-kind `chain`, and maps built by `buildMap`. -/
namespace Chartparse.Tempo
open Chartparse Chartparse.F64

theorem linked_head_lt (res : Nat) (p : BpmEv) (rest : List BpmEv) (hl : Linked res (p :: rest)) :
    ∀ e ∈ rest, p.tick < e.tick := by
  induction rest generalizing p with
  | nil => intro e he; cases he
  | cons q qs ih =>
    intro e he
    cases hl with
    | cons _ _ _ hlt _ _ hrest =>
      rcases List.mem_cons.mp he with rfl | he
      · exact hlt
      · have := ih q hrest e he; omega

/-- a linked map has strictly increasing ticks -/
theorem sorted_of_linked (res : Nat) (evs : List BpmEv) (hl : Linked res evs) :
    (evs.map (·.tick)).Pairwise (· < ·) := by
  induction evs with
  | nil => exact List.Pairwise.nil
  | cons p rest ih =>
    rw [List.map_cons, List.pairwise_cons]
    constructor
    · intro t ht
      obtain ⟨e, he, rfl⟩ := List.mem_map.mp ht
      exact linked_head_lt res p rest hl e he
    · cases rest with
      | nil => exact List.Pairwise.nil
      | cons q qs =>
        cases hl with
        | cons _ _ _ _ _ _ hrest => exact ih hrest

/-- C11: a successful hinted query is the un-hinted query -/
theorem tsAt_hint_indep (res : Int) (evs : List BpmEv) (hs : (evs.map (·.tick)).Pairwise (· < ·))
    (tick : Int) (h : Nat) (r : Int × Nat) (hok : tsAt res evs tick h = .ok r) : tsAt res evs tick 0 = .ok r := by
  unfold tsAt at hok ⊢
  cases hi : indexOfProximal (evs.map (·.tick)) tick h with
  | error e => rw [hi] at hok; cases hok
  | ok g =>
    rw [hi] at hok
    rw [ok_hint_indep hs hi]
    exact hok

/-- C11: a hint not beyond the governing event gives exactly the un-hinted answer (timestamp and index) -/
theorem tsAt_hint_invariant (res : Int) (evs : List BpmEv) (hs : (evs.map (·.tick)).Pairwise (· < ·))
    (tick : Int) (h : Nat) (hh : h < (before tick (evs.map (·.tick))).length) :
    tsAt res evs tick h = tsAt res evs tick 0 := by
  unfold tsAt
  rw [hint_invariant hs hh, hint_invariant hs (by omega)]

/-- C11: a hint beyond the governing event is rejected with ValueError -/
theorem tsAt_hint_reject (res : Int) (evs : List BpmEv) (hs : (evs.map (·.tick)).Pairwise (· < ·))
    (tick : Int) (h : Nat) (hh : (before tick (evs.map (·.tick))).length ≤ h) :
    tsAt res evs tick h = .error .valueError := by
  unfold tsAt
  rw [hint_reject hs hh]

/-- every failure of the query is a ValueError -/
theorem tsAt_err (res : Int) (evs : List BpmEv) (tick : Int) (h : Nat) (e : PyErr)
    (herr : tsAt res evs tick h = .error e) : e = .valueError := by
  unfold tsAt at herr
  cases hi : indexOfProximal (evs.map (·.tick)) tick h with
  | error e' =>
    rw [hi] at herr
    injection herr with herr; subst herr
    unfold indexOfProximal at hi
    by_cases hlen : (evs.map (·.tick)).length ≤ h
    · rw [if_pos hlen] at hi; injection hi with hi; exact hi.symm
    · rw [if_neg hlen] at hi
      rw [List.getElem?_eq_getElem (by omega)] at hi
      simp only [] at hi
      split at hi
      · injection hi with hi; exact hi.symm
      · cases hi
  | ok g =>
    rw [hi] at herr
    simp only [] at herr
    cases hg : evs[g]? with
    | none =>
      -- unreachable: the index is inside the list
      exfalso
      have hlt : g < (evs.map (·.tick)).length := by
        unfold indexOfProximal at hi
        by_cases hlen : (evs.map (·.tick)).length ≤ h
        · rw [if_pos hlen] at hi; cases hi
        · rw [if_neg hlen] at hi
          rw [List.getElem?_eq_getElem (by omega)] at hi
          simp only [] at hi
          split at hi
          · cases hi
          · injection hi with hi
            rw [scan_eq] at hi
            have := length_takeWhile_le' (fun (e : Nat) => decide ((e : Int) ≤ tick)) ((evs.map (·.tick)).drop (h + 1))
            unfold before at hi
            simp only [List.length_drop] at this
            omega
      simp only [List.length_map] at hlt
      rw [List.getElem?_eq_none_iff] at hg
      omega
    | some ev =>
      rw [hg] at herr
      simp only [] at herr
      cases hs : secs (tick - ↑ev.tick).natAbs ev.bpm res with
      | error e' =>
        rw [hs] at herr
        injection herr with herr; subst herr
        exact secs_err hs
      | ok s => rw [hs] at herr; cases herr

/-- **C11 (any line order)**: for the body lines of one kind in any order whatsoever — sorted, partially sorted,
    shuffled, with duplicates — building the events either raises ValueError or returns, for every line, exactly the
    timestamp and governing index of the un-hinted query for its tick -/
theorem chain_any_order_ts (res : Int) (evs : List BpmEv) (hs : (evs.map (·.tick)).Pairwise (· < ·))
    (ticks : List Nat) (h : Nat) :
    chain res evs ticks h = .error .valueError ∨
    ∃ out, chain res evs ticks h = .ok out ∧ out.length = ticks.length ∧
      ∀ i (hi : i < ticks.length) (ho : i < out.length), tsAt res evs (ticks[i] : Int) 0 = .ok out[i] := by
  induction ticks generalizing h with
  | nil => right; exact ⟨[], rfl, rfl, by intro i hi; cases hi⟩
  | cons t ts ih =>
    unfold chain
    cases hq : tsAt res evs (t : Int) h with
    | error e =>
      left
      rw [tsAt_err _ _ _ _ _ hq]; rfl
    | ok r =>
      rcases ih r.2 with herr | ⟨out, hout, hlen, hall⟩
      · left
        show (chain res evs ts r.2 >>= fun rest => Except.ok (r :: rest)) = _
        rw [herr]; rfl
      · right
        refine ⟨r :: out, ?_, by simp [hlen], ?_⟩
        · show (chain res evs ts r.2 >>= fun rest => Except.ok (r :: rest)) = _
          rw [hout]; rfl
        · intro i hi ho
          cases i with
          | zero => simpa using tsAt_hint_indep res evs hs t h r hq
          | succ i =>
            simp only [List.getElem_cons_succ]
            exact hall i (by simpa using hi) (by simpa using ho)

/-- **C12 (monotone)**: on any map the code builds, for any two ticks `a ≤ b`, the un-hinted query never goes back
    in time — no envelope, no bound on resolution, tempo or tick -/
theorem C12_mono (res : Nat) (raw : List (Nat × Rat)) (evs : List BpmEv) (hb : buildMap (res : Int) raw = .ok evs)
    (a b : Nat) (hab : a ≤ b) (x y : Int) (ga gb : Nat)
    (ha : tsAt (res : Int) evs (a : Int) 0 = .ok (x, ga)) (hbq : tsAt (res : Int) evs (b : Int) 0 = .ok (y, gb)) : x ≤ y := by
  obtain ⟨hr, _, hlink, e, rest, he, het, _⟩ := buildMap_shape _ _ _ hb
  have hhead : ∀ t : Nat, ∀ e' r', evs = e' :: r' → e'.tick ≤ t := by
    intro t e' r' h'; rw [he] at h'; injection h' with h1 _; subst h1; omega
  have h1 := (tsAt_eq_tsRec (res : Int) hr evs a (hhead a)).1 x ga ha
  have h2 := (tsAt_eq_tsRec (res : Int) hr evs b (hhead b)).1 y gb hbq
  exact tsRec_mono _ evs hlink a b x y hab h1 h2

/-- **C12 (equal ticks)**: the query is a function of the tick (whatever hints were used on the way) -/
theorem C12_equal (res : Int) (evs : List BpmEv) (hs : (evs.map (·.tick)).Pairwise (· < ·)) (tick : Int) (h h' : Nat)
    (r r' : Int × Nat) (hq : tsAt res evs tick h = .ok r) (hq' : tsAt res evs tick h' = .ok r') : r = r' := by
  have e1 := tsAt_hint_indep res evs hs tick h r hq
  have e2 := tsAt_hint_indep res evs hs tick h' r' hq'
  rw [e1] at e2; injection e2

/-- **C12 (strict)**: whenever every tick lasts at least two microseconds (`n·res ≤ 3·10¹⁰`, i.e. BPM × resolution ≤
    3·10⁷) and the exact time stays below 10⁶ s, the query is strictly increasing -/
theorem C12_strict (res : Nat) (hres : 1 ≤ res) (pairs : List (Nat × Nat)) (hn : ∀ p ∈ pairs, 1 ≤ p.2)
    (hslow : ∀ p ∈ pairs, p.2 * res ≤ 30000000000)
    (evs : List BpmEv) (hb : mapOf res pairs = .ok evs) (a b : Nat) (hab : a < b) (x y : Int) (ga gb : Nat)
    (ha : tsAt (res : Int) evs (a : Int) 0 = .ok (x, ga)) (hbq : tsAt (res : Int) evs (b : Int) 0 = .ok (y, gb))
    (hE : exactUs res pairs b < 1000000000000) : x < y := by
  unfold mapOf at hb
  obtain ⟨hr, hshape, hlink, e, rest, he, het, _⟩ := buildMap_shape _ _ _ hb
  have hlen : pairs.length = evs.length := by
    have := congrArg List.length hshape
    simpa using this.symm
  have hz := zipEv_toEv pairs evs hshape
  have hhead : ∀ t : Nat, ∀ e' r', evs = e' :: r' → e'.tick ≤ t := by
    intro t e' r' h'; rw [he] at h'; injection h' with h1 _; subst h1; omega
  have h1 := (tsAt_eq_tsRec (res : Int) hr evs a (hhead a)).1 x ga ha
  have h2 := (tsAt_eq_tsRec (res : Int) hr evs b (hhead b)).1 y gb hbq
  simp only [Int.toNat_natCast] at h1 h2 hlink
  rw [← hz] at h1 h2 hlink
  have hmem : ∀ a' ∈ zipEv pairs evs, ∃ p ∈ pairs, a'.n = p.2 := by
    intro a' ha'
    unfold zipEv at ha'
    obtain ⟨i, hi, hget⟩ := List.getElem_of_mem ha'
    simp only [List.getElem_zipWith] at hget
    simp only [List.length_zipWith] at hi
    exact ⟨pairs[i], List.getElem_mem _, by rw [← hget]⟩
  have hn' : ∀ a' ∈ zipEv pairs evs, 1 ≤ a'.n := by
    intro a' ha'; obtain ⟨p, hp, e'⟩ := hmem a' ha'; rw [e']; exact hn p hp
  have hslow' : ∀ a' ∈ zipEv pairs evs, a'.n * res ≤ 30000000000 := by
    intro a' ha'; obtain ⟨p, hp, e'⟩ := hmem a' ha'; rw [e']; exact hslow p hp
  have hheadz : ∀ e0 rest0, zipEv pairs evs = e0 :: rest0 → e0.tick ≤ a := by
    intro e0 rest0 h0
    have := congrArg (List.map EvN.toEv) h0
    rw [hz, he] at this
    simp only [List.map_cons] at this
    injection this with h1' _
    have : e.tick = e0.tick := by rw [h1']; rfl
    omega
  obtain ⟨hx1, _⟩ := exactRec_zip res pairs evs hlen b
  exact tsRec_strict res hres (zipEv pairs evs) hn' hslow' hlink a b x y hab hheadz h1 h2 (by rw [hx1]; exact hE)

end Chartparse.Tempo
