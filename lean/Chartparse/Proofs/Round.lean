import Chartparse.Proofs.UsMono
namespace Chartparse.F64

theorem rhe_eq_of_close (y : Rat) (k : Int) (h : |y - (k : Rat)| < 1/2) : rhe y = k := by
  rw [abs_lt] at h
  have h1 : ((k - 1 : Int) : Rat) ≤ y := by push_cast; linarith [h.1]
  have h2 : y ≤ ((k + 1 : Int) : Rat) := by push_cast; linarith [h.2]
  have e := rhe_err y
  rw [abs_le] at e
  -- rhe y is an integer within 1/2 of y, and y is within 1/2 of k
  have a1 : ((rhe y : Int) : Rat) - (k : Rat) < 1 := by linarith [e.2, h.2]
  have a2 : -1 < ((rhe y : Int) : Rat) - (k : Rat) := by linarith [e.1, h.1]
  have b1 : rhe y - k < 1 := by exact_mod_cast a1
  have b2 : -1 < rhe y - k := by exact_mod_cast a2
  omega

/-- C08 after the fix: every positive integer `n < 2^52` decodes to a float that passes the validation -/
theorem validBpm_nearest (n : Nat) (hn : 1 ≤ n) (hlt : n < 4503599627370496) :
    validBpm (fl ((n : Rat) / 1000)) = true := by
  have hpos : (0 : Rat) < (n : Rat) / 1000 := by
    have : (0 : Rat) < n := by exact_mod_cast hn
    positivity
  have hr := fl_rel_err _ hpos
  rw [pow2_neg53, abs_le] at hr
  have hnq : (n : Rat) < 4503599627370496 := by exact_mod_cast hlt
  have hclose : |1000 * fl ((n : Rat) / 1000) - ((n : Int) : Rat)| < 1/2 := by
    rw [abs_lt]; push_cast
    unfold u at hr
    constructor <;> nlinarith [hr.1, hr.2]
  have := rhe_eq_of_close _ _ hclose
  unfold validBpm round3
  rw [this]
  simp

/-- accepted values are exactly the nearest floats: if the validation passes and the value is within
    half a thousandth of `n/1000`, it *is* `fl (n/1000)` -/
theorem validBpm_exact (x : Rat) (n : Nat) (hv : validBpm x = true) (hc : |1000 * x - (n : Rat)| < 1/2) :
    x = fl ((n : Rat) / 1000) := by
  unfold validBpm round3 at hv
  have : rhe (1000 * x) = (n : Int) := rhe_eq_of_close _ _ (by simpa using hc)
  rw [this] at hv
  have := eq_of_beq hv
  rw [← this]; simp

/-- C04: `round(resolution / 3)` computed through binary64 is the nearest integer for every
    resolution below 2^50 -/
theorem threshold_float (res : Nat) (hlt : res < 1125899906842624) :
    noteDurationTicks res 3 = ((2 * res + 3) / 6 : Nat) := by
  unfold noteDurationTicks
  apply rhe_eq_of_close
  rcases Nat.eq_zero_or_pos res with h0 | hpos
  · subst h0; simp [fl]
  · have hq : (0 : Rat) < (res : Rat) / ((3 : Nat) : Rat) := by
      have : (0 : Rat) < res := by exact_mod_cast hpos
      positivity
    have hr := fl_rel_err _ hq
    rw [pow2_neg53, abs_le] at hr
    have hres : (res : Rat) < 1125899906842624 := by exact_mod_cast hlt
    -- the nearest integer k satisfies |res/3 - k| ≤ 1/3
    have hk1 : 6 * ((2 * res + 3) / 6) ≤ 2 * res + 3 := Nat.mul_div_le _ _
    have hk2 : 2 * res + 3 < 6 * ((2 * res + 3) / 6) + 6 := by
      have := Nat.lt_div_mul_add (a := 2 * res + 3) (b := 6) (by norm_num); omega
    -- 2*res+3 is odd, 6k is even: exclude the boundary cases
    have hk1' : 6 * ((2 * res + 3) / 6) + 1 ≤ 2 * res + 3 := by omega
    have hk2' : 2 * res + 3 + 1 ≤ 6 * ((2 * res + 3) / 6) + 6 := by omega
    set k := (2 * res + 3) / 6 with hk
    have q1 : (6 : Rat) * k + 1 ≤ 2 * res + 3 := by exact_mod_cast hk1'
    have q2 : (2 : Rat) * res + 3 + 1 ≤ 6 * k + 6 := by exact_mod_cast hk2'
    rw [abs_lt]
    push_cast at hr ⊢
    unfold u at hr
    constructor <;> nlinarith [hr.1, hr.2]

end Chartparse.F64
