import Chartparse.Model.Imp
/-! Big-step rules for `Imp.exec`: `Runs ext s env r` says that statement `s`, started in `env`, ends as `r` for every
    sufficiently large fuel. One rule per statement form; the loop rules are what the inductions in `Tie/Loop*.lean` use.
    Core Lean only. -/
namespace Chartparse.PyImp
open Chartparse

def Runs (ext : Ext) (s : Stmt) (env : Env) (r : Res) : Prop := ∃ N, ∀ m, N ≤ m → exec ext m s env = r

/-- a result is reached with some fuel bound; useful to turn `∀ m ≥ N` into the shape `k + 1` -/
theorem runs_intro {ext : Ext} {s : Stmt} {env : Env} {r : Res} (N : Nat)
    (h : ∀ k, N ≤ k + 1 → exec ext (k + 1) s env = r) : Runs ext s env r := by
  refine ⟨N + 1, fun m hm => ?_⟩
  obtain ⟨k, rfl⟩ : ∃ k, m = k + 1 := ⟨m - 1, by omega⟩
  exact h k (by omega)

theorem Runs.skip (ext : Ext) (env : Env) : Runs ext .skip env (.norm env) :=
  runs_intro 0 fun k _ => by simp [exec]

theorem Runs.brk (ext : Ext) (env : Env) : Runs ext .brk env (.brk env) :=
  runs_intro 0 fun k _ => by simp [exec]

theorem Runs.cont (ext : Ext) (env : Env) : Runs ext .cont env (.cont env) :=
  runs_intro 0 fun k _ => by simp [exec]

theorem Runs.raise (ext : Ext) (env : Env) (e : PyErr) : Runs ext (.raise e) env (.exc e env) :=
  runs_intro 0 fun k _ => by simp [exec]

theorem Runs.assign {ext : Ext} {env : Env} {x : String} {e : Expr} {v : Val} (h : evalExpr ext env e = .ok v) :
    Runs ext (.assign x e) env (.norm (setVar env x v)) :=
  runs_intro 0 fun k _ => by simp [exec, h]

theorem Runs.assign_err {ext : Ext} {env : Env} {x : String} {e : Expr} {err : PyErr} (h : evalExpr ext env e = .error err) :
    Runs ext (.assign x e) env (.exc err env) :=
  runs_intro 0 fun k _ => by simp [exec, h]

theorem Runs.ret {ext : Ext} {env : Env} {e : Expr} {v : Val} (h : evalExpr ext env e = .ok v) :
    Runs ext (.ret e) env (.ret v) :=
  runs_intro 0 fun k _ => by simp [exec, h]

theorem Runs.ret_err {ext : Ext} {env : Env} {e : Expr} {err : PyErr} (h : evalExpr ext env e = .error err) :
    Runs ext (.ret e) env (.exc err env) :=
  runs_intro 0 fun k _ => by simp [exec, h]

theorem Runs.unpack {ext : Ext} {env env' : Env} {xs : List String} {e : Expr} {v : Val} {l : List Val}
    (h : evalExpr ext env e = .ok v) (hs : seqOf v = some l) (hb : bindAll env xs l = some env') :
    Runs ext (.unpack xs e) env (.norm env') :=
  runs_intro 0 fun k _ => by simp [exec, h, hs, hb]

theorem Runs.unpack_err {ext : Ext} {env : Env} {xs : List String} {e : Expr} {err : PyErr} (h : evalExpr ext env e = .error err) :
    Runs ext (.unpack xs e) env (.exc err env) :=
  runs_intro 0 fun k _ => by simp [exec, h]

theorem Runs.append {ext : Ext} {env : Env} {x : String} {e : Expr} {nl : Val}
    (h : (lookup env x >>= fun l => evalExpr ext env e >>= fun v => appendVal l v) = .ok nl) :
    Runs ext (.append x e) env (.norm (setVar env x nl)) :=
  runs_intro 0 fun k _ => by simp [exec, h]

theorem Runs.append_err {ext : Ext} {env : Env} {x : String} {e : Expr} {err : PyErr}
    (h : (lookup env x >>= fun l => evalExpr ext env e >>= fun v => appendVal l v) = .error err) :
    Runs ext (.append x e) env (.exc err env) :=
  runs_intro 0 fun k _ => by simp [exec, h]

theorem Runs.setIdx {ext : Ext} {env : Env} {x : String} {i e : Expr} {nl : Val}
    (h : (evalExpr ext env e >>= fun v => lookup env x >>= fun l => evalExpr ext env i >>= fun k => setAt l k v) = .ok nl) :
    Runs ext (.setIdx x i e) env (.norm (setVar env x nl)) :=
  runs_intro 0 fun k _ => by simp [exec, h]

theorem Runs.setIdx_err {ext : Ext} {env : Env} {x : String} {i e : Expr} {err : PyErr}
    (h : (evalExpr ext env e >>= fun v => lookup env x >>= fun l => evalExpr ext env i >>= fun k => setAt l k v) = .error err) :
    Runs ext (.setIdx x i e) env (.exc err env) :=
  runs_intro 0 fun k _ => by simp [exec, h]

theorem Runs.setDefaultIdx {ext : Ext} {env : Env} {x : String} {k k2 e : Expr} {nm : Val}
    (h : (evalExpr ext env e >>= fun v => lookup env x >>= fun m => evalExpr ext env k >>= fun kv => evalExpr ext env k2 >>= fun kv2 =>
            setDefaultAt m kv kv2 v) = .ok nm) :
    Runs ext (.setDefaultIdx x k k2 e) env (.norm (setVar env x nm)) :=
  runs_intro 0 fun k _ => by simp [exec, h]

theorem Runs.setDefaultIdx_err {ext : Ext} {env : Env} {x : String} {k k2 e : Expr} {err : PyErr}
    (h : (evalExpr ext env e >>= fun v => lookup env x >>= fun m => evalExpr ext env k >>= fun kv => evalExpr ext env k2 >>= fun kv2 =>
            setDefaultAt m kv kv2 v) = .error err) :
    Runs ext (.setDefaultIdx x k k2 e) env (.exc err env) :=
  runs_intro 0 fun k _ => by simp [exec, h]

theorem Runs.warn_err {ext : Ext} {env : Env} {e : Expr} {err : PyErr}
    (h : (lookup env "$log" >>= fun l => evalExpr ext env e >>= fun v => appendVal l v) = .error err) :
    Runs ext (.warn e) env (.exc err env) :=
  runs_intro 0 fun k _ => by simp [exec, h]

theorem Runs.warn {ext : Ext} {env : Env} {e : Expr} {nl : Val}
    (h : (lookup env "$log" >>= fun l => evalExpr ext env e >>= fun v => appendVal l v) = .ok nl) :
    Runs ext (.warn e) env (.norm (setVar env "$log" nl)) :=
  runs_intro 0 fun k _ => by simp [exec, h]

theorem Runs.seq {ext : Ext} {a b : Stmt} {env env' : Env} {r : Res} (h1 : Runs ext a env (.norm env'))
    (h2 : Runs ext b env' r) : Runs ext (.seq a b) env r := by
  obtain ⟨N1, h1⟩ := h1
  obtain ⟨N2, h2⟩ := h2
  exact runs_intro (N1 + N2 + 1) fun k hk => by simp [exec, h1 k (by omega), h2 k (by omega)]

/-- the first statement does not fall through: the sequence ends as it does -/
theorem Runs.seq_stop {ext : Ext} {a b : Stmt} {env : Env} {r : Res} (h1 : Runs ext a env r)
    (hr : ∀ e, r ≠ .norm e) : Runs ext (.seq a b) env r := by
  obtain ⟨N1, h1⟩ := h1
  refine runs_intro (N1 + 1) fun k hk => ?_
  simp only [exec, h1 k (by omega)]

theorem Runs.ite_true {ext : Ext} {c : Expr} {a b : Stmt} {env : Env} {r : Res}
    (hc : evalExpr ext env c >>= truth = .ok true) (h : Runs ext a env r) : Runs ext (.ite c a b) env r := by
  obtain ⟨N, h⟩ := h
  exact runs_intro (N + 1) fun k hk => by simp [exec, hc, h k (by omega)]

theorem Runs.ite_false {ext : Ext} {c : Expr} {a b : Stmt} {env : Env} {r : Res}
    (hc : evalExpr ext env c >>= truth = .ok false) (h : Runs ext b env r) : Runs ext (.ite c a b) env r := by
  obtain ⟨N, h⟩ := h
  exact runs_intro (N + 1) fun k hk => by simp [exec, hc, h k (by omega)]

theorem Runs.ite_err {ext : Ext} {c : Expr} {a b : Stmt} {env : Env} {err : PyErr}
    (hc : evalExpr ext env c >>= truth = .error err) : Runs ext (.ite c a b) env (.exc err env) :=
  runs_intro 0 fun k _ => by simp [exec, hc]

theorem Runs.while_false {ext : Ext} {c : Expr} {b : Stmt} {env : Env}
    (hc : evalExpr ext env c >>= truth = .ok false) : Runs ext (.while c b) env (.norm env) :=
  runs_intro 0 fun k _ => by simp [exec, hc]

theorem Runs.while_err {ext : Ext} {c : Expr} {b : Stmt} {env : Env} {err : PyErr}
    (hc : evalExpr ext env c >>= truth = .error err) : Runs ext (.while c b) env (.exc err env) :=
  runs_intro 0 fun k _ => by simp [exec, hc]

/-- one more iteration: the body falls through (or `continue`s), then the loop goes on -/
theorem Runs.while_step {ext : Ext} {c : Expr} {b : Stmt} {env env' : Env} {r : Res}
    (hc : evalExpr ext env c >>= truth = .ok true) (hb : Runs ext b env (.norm env') ∨ Runs ext b env (.cont env'))
    (h : Runs ext (.while c b) env' r) : Runs ext (.while c b) env r := by
  obtain ⟨N2, h⟩ := h
  rcases hb with ⟨N1, hb⟩ | ⟨N1, hb⟩ <;>
    exact runs_intro (N1 + N2 + 1) fun k hk => by simp [exec, hc, hb k (by omega), h k (by omega)]

theorem Runs.while_break {ext : Ext} {c : Expr} {b : Stmt} {env env' : Env}
    (hc : evalExpr ext env c >>= truth = .ok true) (hb : Runs ext b env (.brk env')) :
    Runs ext (.while c b) env (.norm env') := by
  obtain ⟨N1, hb⟩ := hb
  exact runs_intro (N1 + 1) fun k hk => by simp [exec, hc, hb k (by omega)]

/-- the body returns or raises: so does the loop -/
theorem Runs.while_exit {ext : Ext} {c : Expr} {b : Stmt} {env : Env} {r : Res}
    (hc : evalExpr ext env c >>= truth = .ok true) (hb : Runs ext b env r)
    (hr : (∃ v, r = .ret v) ∨ (∃ e env', r = .exc e env')) : Runs ext (.while c b) env r := by
  obtain ⟨N1, hb⟩ := hb
  refine runs_intro (N1 + 1) fun k hk => ?_
  rcases hr with ⟨v, rfl⟩ | ⟨e, env', rfl⟩ <;> simp [exec, hc, hb k (by omega)]

theorem Runs.forIn_list {ext : Ext} {v : String} {e : Expr} {b orelse : Stmt} {env : Env} {sp : Val} {r : Res}
    (he : evalExpr ext env e = .ok (.list sp)) (h : Runs ext (.forVals v sp b orelse) env r) :
    Runs ext (.forIn v e b orelse) env r := by
  obtain ⟨N, h⟩ := h
  exact runs_intro (N + 1) fun k hk => by simp [exec, he, h k (by omega)]

theorem Runs.forIn_err {ext : Ext} {v : String} {e : Expr} {b orelse : Stmt} {env : Env} {err : PyErr}
    (he : evalExpr ext env e = .error err) : Runs ext (.forIn v e b orelse) env (.exc err env) :=
  runs_intro 0 fun k _ => by simp [exec, he]

theorem Runs.forVals_nil {ext : Ext} {v : String} {b orelse : Stmt} {env : Env} {r : Res}
    (h : Runs ext orelse env r) : Runs ext (.forVals v .nil b orelse) env r := by
  obtain ⟨N, h⟩ := h
  exact runs_intro (N + 1) fun k hk => by simp [exec, h k (by omega)]

theorem Runs.forVals_step {ext : Ext} {v : String} {x rest : Val} {b orelse : Stmt} {env env' : Env} {r : Res}
    (hb : Runs ext b (setVar env v x) (.norm env') ∨ Runs ext b (setVar env v x) (.cont env'))
    (h : Runs ext (.forVals v rest b orelse) env' r) : Runs ext (.forVals v (.cons x rest) b orelse) env r := by
  obtain ⟨N2, h⟩ := h
  rcases hb with ⟨N1, hb⟩ | ⟨N1, hb⟩ <;>
    exact runs_intro (N1 + N2 + 1) fun k hk => by simp [exec, hb k (by omega), h k (by omega)]

theorem Runs.forVals_break {ext : Ext} {v : String} {x rest : Val} {b orelse : Stmt} {env env' : Env}
    (hb : Runs ext b (setVar env v x) (.brk env')) : Runs ext (.forVals v (.cons x rest) b orelse) env (.norm env') := by
  obtain ⟨N1, hb⟩ := hb
  exact runs_intro (N1 + 1) fun k hk => by simp [exec, hb k (by omega)]

theorem Runs.forVals_exit {ext : Ext} {v : String} {x rest : Val} {b orelse : Stmt} {env : Env} {r : Res}
    (hb : Runs ext b (setVar env v x) r) (hr : (∃ w, r = .ret w) ∨ (∃ e env', r = .exc e env')) :
    Runs ext (.forVals v (.cons x rest) b orelse) env r := by
  obtain ⟨N1, hb⟩ := hb
  refine runs_intro (N1 + 1) fun k hk => ?_
  rcases hr with ⟨w, rfl⟩ | ⟨e, env', rfl⟩ <;> simp [exec, hb k (by omega)]

theorem Runs.try_pass {ext : Ext} {b h : Stmt} {kind : PyErr} {env : Env} {r : Res} (hb : Runs ext b env r)
    (hr : ∀ e env', r = .exc e env' → e ≠ kind) : Runs ext (.tryExcept b kind h) env r := by
  obtain ⟨N1, hb⟩ := hb
  refine runs_intro (N1 + 1) fun k hk => ?_
  simp only [exec, hb k (by omega)]
  cases r <;> simp_all

theorem Runs.try_catch {ext : Ext} {b h : Stmt} {kind : PyErr} {env env' : Env} {r : Res}
    (hb : Runs ext b env (.exc kind env')) (hh : Runs ext h env' r) : Runs ext (.tryExcept b kind h) env r := by
  obtain ⟨N1, hb⟩ := hb
  obtain ⟨N2, hh⟩ := hh
  exact runs_intro (N1 + N2 + 1) fun k hk => by simp [exec, hb k (by omega), hh k (by omega)]

/-- results are unique: whatever fuel the driver runs with, it sees this result or runs out -/
theorem Runs.unique {ext : Ext} {s : Stmt} {env : Env} {r r' : Res} (h : Runs ext s env r) (h' : Runs ext s env r') : r = r' := by
  obtain ⟨N, h⟩ := h
  obtain ⟨N', h'⟩ := h'
  rw [← h (N + N') (by omega), ← h' (N + N') (by omega)]

/-- a straight-line statement: `simp` runs it -/
theorem runs_of_exec {ext : Ext} {s : Stmt} {env : Env} {r : Res} (K : Nat) (h : ∀ k, exec ext (k + K) s env = r) :
    Runs ext s env r :=
  ⟨K, fun m hm => by obtain ⟨k, rfl⟩ : ∃ k, m = k + K := ⟨m - K, by omega⟩; exact h k⟩

/-! ### values -/

@[simp] theorem seqOf_list (l : List Val) : seqOf (.list (Val.ofList l)) = some l := by simp [seqOf]
@[simp] theorem seqOf_tup (l : List Val) : seqOf (.tup (Val.ofList l)) = some l := by simp [seqOf]

theorem ofList_eq_nil (l : List Val) : (Val.ofList l = .nil) = (l = []) := by
  cases l <;> simp [Val.ofList]

@[simp] theorem evalCmp_lt_int (x y : Int) : evalCmp .lt (.int x) (.int y) = .ok (.bool (decide (x < y))) := by
  simp [evalCmp, sameNumKind, numOf]
@[simp] theorem evalCmp_le_int (x y : Int) : evalCmp .le (.int x) (.int y) = .ok (.bool (decide (x ≤ y))) := by
  simp [evalCmp, sameNumKind, numOf]
@[simp] theorem evalCmp_gt_int (x y : Int) : evalCmp .gt (.int x) (.int y) = .ok (.bool (decide (y < x))) := by
  simp [evalCmp, sameNumKind, numOf]
@[simp] theorem evalCmp_ge_int (x y : Int) : evalCmp .ge (.int x) (.int y) = .ok (.bool (decide (y ≤ x))) := by
  simp [evalCmp, sameNumKind, numOf]
@[simp] theorem evalCmp_eq (a b : Val) : evalCmp .eq a b = .ok (.bool (a == b)) := by simp [evalCmp]
@[simp] theorem evalCmp_ne (a b : Val) : evalCmp .ne a b = .ok (.bool (a != b)) := by simp [evalCmp]

@[simp] theorem truth_bool (b : Bool) : truth (.bool b) = .ok b := rfl
@[simp] theorem truth_none : truth .none = .ok false := rfl

@[simp] theorem truth_list (l : List Val) : truth (.list (Val.ofList l)) = .ok (!l.isEmpty) := by
  cases l <;> simp [truth, Val.ofList]

@[simp] theorem lenVal_list (l : List Val) : lenVal (.list (Val.ofList l)) = .ok (.int l.length) := by
  simp [lenVal]

theorem normIdx_nat (i len : Nat) (h : i < len) : normIdx (i : Int) len = some i := by
  unfold normIdx
  have h1 : ¬ ((i : Int) < 0) := by omega
  simp [h1, h]

theorem indexVal_list_nat (l : List Val) (i : Nat) (h : i < l.length) :
    indexVal (.list (Val.ofList l)) (.int (i : Int)) = .ok l[i] := by
  simp [indexVal, normIdx_nat i l.length h, List.getElem?_eq_getElem h]

theorem indexVal_list_oob (l : List Val) (i : Nat) (h : l.length ≤ i) :
    indexVal (.list (Val.ofList l)) (.int (i : Int)) = .error (.internal "IndexError") := by
  have : normIdx (i : Int) l.length = none := by
    unfold normIdx
    have h1 : ¬ ((i : Int) < 0) := by omega
    have h2 : ¬ (i < l.length) := by omega
    simp [h1, h2]
  simp [indexVal, this]

theorem indexVal_last (l : List Val) (h : l ≠ []) :
    indexVal (.list (Val.ofList l)) (.int (-1)) = .ok (l.getLast h) := by
  have hl : 0 < l.length := List.length_pos_iff.mpr h
  have h1 : normIdx (-1) l.length = some (l.length - 1) := by
    unfold normIdx
    have h0 : ((-1 : Int) < 0) := by decide
    have h2 : ¬ ((-1 : Int) + (l.length : Int) < 0) := by omega
    have h3 : ((-1 : Int) + (l.length : Int)).toNat = l.length - 1 := by omega
    simp only [h0, if_true, h2, if_false, h3]
    simp; omega
  simp only [indexVal, seqOf_list, h1]
  rw [List.getElem?_eq_getElem (by omega)]
  simp [List.getLast_eq_getElem]

theorem sliceVal_list_nat (l : List Val) (a b : Nat) :
    sliceVal (.list (Val.ofList l)) (.int (a : Int)) (.int (b : Int)) = .ok (.list (Val.ofList ((l.take b).drop a))) := by
  have hc : ∀ k : Nat, clampIdx (k : Int) l.length = min k l.length := by
    intro k
    unfold clampIdx
    have h1 : ¬ ((k : Int) < 0) := by omega
    simp only [h1, if_false, Int.toNat_natCast]
    split <;> omega
  simp only [sliceVal, seqOf_list, boundOf, hc]
  congr 3
  have ht : List.take (min b l.length) l = List.take b l := by
    by_cases hb : b ≤ l.length
    · rw [Nat.min_eq_left hb]
    · rw [Nat.min_eq_right (by omega), List.take_of_length_le (Nat.le_refl _), List.take_of_length_le (by omega)]
  rw [ht]
  by_cases ha : a ≤ l.length
  · rw [Nat.min_eq_left ha]
  · have h1 : min a l.length = l.length := by omega
    rw [h1, List.drop_eq_nil_of_le (by simp; omega), List.drop_eq_nil_of_le (by simp; omega)]

/-! ### slots and generator helpers -/

theorem lookup_setVar_self (env : Env) (x : String) (v : Val) : lookup (setVar env x v) x = .ok v := by
  induction env with
  | nil => simp [setVar, lookup]
  | cons kv rest ih =>
    obtain ⟨y, w⟩ := kv
    simp only [setVar]
    by_cases h : (y == x) = true
    · simp [h, lookup]
    · have hb : (y == x) = false := by simpa using h
      simp only [hb, Bool.false_eq_true, if_false]
      simp only [lookup, List.find?, hb] at ih ⊢
      exact ih

theorem lookup_setVar_ne (env : Env) (x y : String) (v : Val) (h : (x == y) = false) : lookup (setVar env x v) y = lookup env y := by
  induction env with
  | nil => simp [setVar, lookup, List.find?, h]
  | cons kv rest ih =>
    obtain ⟨z, w⟩ := kv
    simp only [setVar]
    by_cases hz : (z == x) = true
    · have hzx : z = x := by simpa using hz
      subst hzx
      simp [hz, lookup, List.find?, h]
    · have hb : (z == x) = false := by simpa using hz
      simp only [hb, Bool.false_eq_true, if_false]
      by_cases hzy : (z == y) = true
      · simp [lookup, List.find?, hzy]
      · have hb2 : (z == y) = false := by simpa using hzy
        simp only [lookup, List.find?, hb2] at ih ⊢
        exact ih

theorem allM_pure (p : Val → Bool) (xs : List Val) : allM (fun x => .ok (p x)) xs = .ok (xs.all p) := by
  induction xs with
  | nil => rfl
  | cons x xs ih => simp only [allM, bind, Except.bind, ih, List.all_cons]; cases p x <;> simp

theorem anyM_pure (p : Val → Bool) (xs : List Val) : anyM (fun x => .ok (p x)) xs = .ok (xs.any p) := by
  induction xs with
  | nil => rfl
  | cons x xs ih => simp only [anyM, bind, Except.bind, ih, List.any_cons]; cases p x <;> simp

theorem compM_pure (c : Val → Bool) (e : Val → Val) (xs : List Val) :
    compM (fun x => .ok (c x)) (fun x => .ok (e x)) xs = .ok ((xs.filter c).map e) := by
  induction xs with
  | nil => rfl
  | cons x xs ih => simp only [compM, bind, Except.bind, ih, List.filter_cons]; cases c x <;> simp

theorem firstM_pure (c : Val → Bool) (e : Val → Val) (xs : List Val) :
    firstM (fun x => .ok (c x)) (fun x => .ok (e x)) xs = .ok ((xs.find? c).map e) := by
  induction xs with
  | nil => rfl
  | cons x xs ih => simp only [firstM, bind, Except.bind, ih, List.find?_cons]; cases c x <;> simp

/-! ### the function-call view -/

/-- what a call of the function `body` with this starting environment gives -/
def Returns (ext : Ext) (body : Stmt) (env : Env) (out : M Val) : Prop :=
  match out with
  | .ok v => Runs ext body env (.ret v) ∨ (v = .none ∧ ∃ e, Runs ext body env (.norm e))
  | .error err => ∃ e, Runs ext body env (.exc err e)

/-! ### straight-line code as a chain of binds -/

theorem Returns.seq_norm {ext : Ext} {a rest : Stmt} {env env' : Env} {out : M Val} (h1 : Runs ext a env (.norm env'))
    (h2 : Returns ext rest env' out) : Returns ext (.seq a rest) env out := by
  cases out with
  | error err =>
    obtain ⟨e, h2⟩ := h2
    exact ⟨e, Runs.seq h1 h2⟩
  | ok v =>
    rcases h2 with h2 | ⟨hv, e, h2⟩
    · exact Or.inl (Runs.seq h1 h2)
    · exact Or.inr ⟨hv, e, Runs.seq h1 h2⟩

/-- `x = e` followed by the rest of the body: the value of `e` is bound, an exception ends the call -/
theorem Returns.assign_bind {ext : Ext} {env : Env} {x : String} {e : Expr} {rest : Stmt} {f : Val → M Val} (r : M Val)
    (he : evalExpr ext env e = r) (h : ∀ v, r = .ok v → Returns ext rest (setVar env x v) (f v)) :
    Returns ext (.seq (.assign x e) rest) env (r >>= f) := by
  cases r with
  | error err => exact ⟨env, Runs.seq_stop (Runs.assign_err he) (by intro e; simp)⟩
  | ok v => exact Returns.seq_norm (Runs.assign he) (h v rfl)

/-- what `a, b = v` needs of `v` -/
def unpack2 (v : Val) : M (Val × Val) :=
  match seqOf v with
  | some [a, b] => .ok (a, b)
  | some _ => .error .valueError
  | none => .error (.internal "unsupported: unpacking a non-sequence")

theorem Returns.unpack2_bind {ext : Ext} {env : Env} {x y : String} {e : Expr} {rest : Stmt} {f : Val × Val → M Val} (r : M Val)
    (he : evalExpr ext env e = r) (h : ∀ a b, Returns ext rest (setVar (setVar env x a) y b) (f (a, b))) :
    Returns ext (.seq (.unpack [x, y] e) rest) env (r >>= fun v => unpack2 v >>= f) := by
  cases r with
  | error err => exact ⟨env, Runs.seq_stop (Runs.unpack_err he) (by intro e; simp)⟩
  | ok v =>
    simp only [bind, Except.bind, unpack2]
    cases hs : seqOf v with
    | none =>
      refine ⟨env, Runs.seq_stop (runs_intro 0 fun k _ => by simp [exec, he, hs]) (by intro e; simp)⟩
    | some l =>
      match l, hs with
      | [a, b], hs => exact Returns.seq_norm (Runs.unpack he hs (by simp [bindAll])) (h a b)
      | [], hs => exact ⟨env, Runs.seq_stop (runs_intro 0 fun k _ => by simp [exec, he, hs, bindAll]) (by intro e; simp)⟩
      | [_], hs => exact ⟨env, Runs.seq_stop (runs_intro 0 fun k _ => by simp [exec, he, hs, bindAll]) (by intro e; simp)⟩
      | _ :: _ :: _ :: _, hs => exact ⟨env, Runs.seq_stop (runs_intro 0 fun k _ => by simp [exec, he, hs, bindAll]) (by intro e; simp)⟩

/-- what `a, b, c = v` needs of `v` -/
def unpack3 (v : Val) : M (Val × Val × Val) :=
  match seqOf v with
  | some [a, b, c] => .ok (a, b, c)
  | some _ => .error .valueError
  | none => .error (.internal "unsupported: unpacking a non-sequence")

theorem Returns.unpack3_bind {ext : Ext} {env : Env} {x y z : String} {e : Expr} {rest : Stmt} {f : Val × Val × Val → M Val} (r : M Val)
    (he : evalExpr ext env e = r) (h : ∀ a b c, Returns ext rest (setVar (setVar (setVar env x a) y b) z c) (f (a, b, c))) :
    Returns ext (.seq (.unpack [x, y, z] e) rest) env (r >>= fun v => unpack3 v >>= f) := by
  cases r with
  | error err => exact ⟨env, Runs.seq_stop (Runs.unpack_err he) (by intro e; simp)⟩
  | ok v =>
    simp only [bind, Except.bind, unpack3]
    cases hs : seqOf v with
    | none =>
      refine ⟨env, Runs.seq_stop (runs_intro 0 fun k _ => by simp [exec, he, hs]) (by intro e; simp)⟩
    | some l =>
      match l, hs with
      | [a, b, c], hs => exact Returns.seq_norm (Runs.unpack he hs (by simp [bindAll])) (h a b c)
      | [], hs => exact ⟨env, Runs.seq_stop (runs_intro 0 fun k _ => by simp [exec, he, hs, bindAll]) (by intro e; simp)⟩
      | [_], hs => exact ⟨env, Runs.seq_stop (runs_intro 0 fun k _ => by simp [exec, he, hs, bindAll]) (by intro e; simp)⟩
      | [_, _], hs => exact ⟨env, Runs.seq_stop (runs_intro 0 fun k _ => by simp [exec, he, hs, bindAll]) (by intro e; simp)⟩
      | _ :: _ :: _ :: _ :: _, hs => exact ⟨env, Runs.seq_stop (runs_intro 0 fun k _ => by simp [exec, he, hs, bindAll]) (by intro e; simp)⟩

theorem Returns.ret_of {ext : Ext} {env : Env} {e : Expr} (r : M Val) (he : evalExpr ext env e = r) : Returns ext (.ret e) env r := by
  cases r with
  | error err => exact ⟨env, Runs.ret_err he⟩
  | ok v => exact Or.inl (Runs.ret he)

theorem Returns.raise (ext : Ext) (env : Env) (e : PyErr) : Returns ext (.raise e) env (.error e) := ⟨env, Runs.raise _ _ _⟩

/-- `if c: a else: b` as the last statement of a body -/
theorem Returns.ite {ext : Ext} {env : Env} {c : Expr} {a b : Stmt} {ra rb : M Val} (r : M Bool) (hc : evalExpr ext env c >>= truth = r)
    (ha : r = .ok true → Returns ext a env ra) (hb : r = .ok false → Returns ext b env rb) :
    Returns ext (.ite c a b) env (r >>= fun t => if t then ra else rb) := by
  cases r with
  | error err => exact ⟨env, Runs.ite_err hc⟩
  | ok t =>
    cases t with
    | true =>
      have := ha rfl
      simp only [bind, Except.bind, if_true]
      cases ra with
      | error e => obtain ⟨e'', this⟩ := this; exact ⟨e'', Runs.ite_true hc this⟩
      | ok v =>
        rcases this with this | ⟨hv, e, this⟩
        · exact Or.inl (Runs.ite_true hc this)
        · exact Or.inr ⟨hv, e, Runs.ite_true hc this⟩
    | false =>
      have := hb rfl
      simp only [bind, Except.bind, Bool.false_eq_true, if_false]
      cases rb with
      | error e => obtain ⟨e'', this⟩ := this; exact ⟨e'', Runs.ite_false hc this⟩
      | ok v =>
        rcases this with this | ⟨hv, e, this⟩
        · exact Or.inl (Runs.ite_false hc this)
        · exact Or.inr ⟨hv, e, Runs.ite_false hc this⟩

theorem ok_bind {α β : Type} (a : α) (f : α → M β) : ((Except.ok a : M α) >>= f) = f a := rfl
theorem err_bind {α β : Type} (e : PyErr) (f : α → M β) : ((Except.error e : M α) >>= f) = Except.error e := rfl

/-! ### blocks that fall through: the environment afterwards, or the exception -/

def Falls (ext : Ext) (s : Stmt) (env : Env) (r : M Env) : Prop :=
  match r with
  | .ok env' => Runs ext s env (.norm env')
  | .error e => ∃ env'', Runs ext s env (.exc e env'')

theorem Falls.skip (ext : Ext) (env : Env) : Falls ext .skip env (.ok env) := Runs.skip ext env

theorem Falls.assign {ext : Ext} {env : Env} {x : String} {e : Expr} (r : M Val) (he : evalExpr ext env e = r) :
    Falls ext (.assign x e) env (r.map fun v => setVar env x v) := by
  cases r with
  | error err => exact ⟨env, Runs.assign_err he⟩
  | ok v => exact Runs.assign he

theorem Falls.seq {ext : Ext} {a b : Stmt} {env : Env} {r : M Env} {g : Env → M Env} (h1 : Falls ext a env r)
    (h2 : ∀ env', r = .ok env' → Falls ext b env' (g env')) : Falls ext (.seq a b) env (r >>= g) := by
  cases r with
  | error err =>
    obtain ⟨e'', h1⟩ := h1
    exact ⟨e'', Runs.seq_stop h1 (by intro e; simp)⟩
  | ok env' =>
    have := h2 env' rfl
    simp only [bind, Except.bind]
    cases hg : g env' with
    | error err =>
      rw [hg] at this
      obtain ⟨e'', this⟩ := this
      exact ⟨e'', Runs.seq h1 this⟩
    | ok env2 =>
      rw [hg] at this
      exact Runs.seq h1 this

/-- `if c: raise E` -/
theorem Falls.guard {ext : Ext} {env : Env} {c : Expr} {E : PyErr} (r : M Bool) (hc : evalExpr ext env c >>= truth = r) :
    Falls ext (.ite c (.raise E) .skip) env (r >>= fun b => if b then .error E else .ok env) := by
  cases r with
  | error err => exact ⟨env, Runs.ite_err hc⟩
  | ok b =>
    cases b with
    | true => exact ⟨env, Runs.ite_true hc (Runs.raise _ _ _)⟩
    | false => exact Runs.ite_false hc (Runs.skip _ _)

theorem Falls.ite {ext : Ext} {env : Env} {c : Expr} {a b : Stmt} {ra rb : M Env} (r : M Bool) (hc : evalExpr ext env c >>= truth = r)
    (ha : r = .ok true → Falls ext a env ra) (hb : r = .ok false → Falls ext b env rb) :
    Falls ext (.ite c a b) env (r >>= fun t => if t then ra else rb) := by
  cases r with
  | error err => exact ⟨env, Runs.ite_err hc⟩
  | ok t =>
    cases t with
    | true =>
      have := ha rfl
      simp only [bind, Except.bind, if_true]
      cases ra with
      | error e => obtain ⟨e'', this⟩ := this; exact ⟨e'', Runs.ite_true hc this⟩
      | ok env' => exact Runs.ite_true hc this
    | false =>
      have := hb rfl
      simp only [bind, Except.bind, Bool.false_eq_true, if_false]
      cases rb with
      | error e => obtain ⟨e'', this⟩ := this; exact ⟨e'', Runs.ite_false hc this⟩
      | ok env' => exact Runs.ite_false hc this

/-- `try: x = e` / `except K: raise E'` -/
theorem Falls.try_assign {ext : Ext} {env : Env} {x : String} {e : Expr} {K E' : PyErr} (r : M Val) (he : evalExpr ext env e = r) :
    Falls ext (.tryExcept (.assign x e) K (.raise E')) env
      ((match r with | .error err => if err = K then (Except.error E' : M Val) else .error err | .ok v => .ok v).map fun v => setVar env x v) := by
  cases r with
  | ok v => exact Runs.try_pass (Runs.assign he) (by intro e env' h; simp at h)
  | error err =>
    by_cases hk : err = K
    · subst hk
      simp only [if_true, Except.map]
      exact ⟨env, Runs.try_catch (Runs.assign_err he) (Runs.raise _ _ _)⟩
    · simp only [hk, if_false, Except.map]
      exact ⟨env, Runs.try_pass (Runs.assign_err he) (by intro e env' h; simp at h; exact fun he => hk (h.1 ▸ he))⟩

theorem Returns.seq_falls {ext : Ext} {a rest : Stmt} {env : Env} {r : M Env} {f : Env → M Val} (h1 : Falls ext a env r)
    (h2 : ∀ env', r = .ok env' → Returns ext rest env' (f env')) : Returns ext (.seq a rest) env (r >>= f) := by
  cases r with
  | error err =>
    obtain ⟨e'', h1⟩ := h1
    exact ⟨e'', Runs.seq_stop h1 (by intro e; simp)⟩
  | ok env' => exact Returns.seq_norm h1 (h2 env' rfl)

theorem Falls.unpack2 {ext : Ext} {env : Env} {x y : String} {e : Expr} (r : M Val) (he : evalExpr ext env e = r) :
    Falls ext (.unpack [x, y] e) env (r >>= fun v => PyImp.unpack2 v >>= fun p => .ok (setVar (setVar env x p.1) y p.2)) := by
  cases r with
  | error err => exact ⟨env, Runs.unpack_err he⟩
  | ok v =>
    cases hs : seqOf v with
    | none =>
      have hu : PyImp.unpack2 v = .error (.internal "unsupported: unpacking a non-sequence") := by simp [PyImp.unpack2, hs]
      simp only [bind, Except.bind, hu]
      exact ⟨env, runs_intro 0 fun k _ => by simp [exec, he, hs]⟩
    | some l =>
      match l, hs with
      | [a, b], hs =>
        have hu : PyImp.unpack2 v = .ok (a, b) := by simp [PyImp.unpack2, hs]
        simp only [bind, Except.bind, hu]
        exact Runs.unpack he hs (by simp [bindAll])
      | [], hs =>
        have hu : PyImp.unpack2 v = .error .valueError := by simp [PyImp.unpack2, hs]
        simp only [bind, Except.bind, hu]
        exact ⟨env, runs_intro 0 fun k _ => by simp [exec, he, hs, bindAll]⟩
      | [_], hs =>
        have hu : PyImp.unpack2 v = .error .valueError := by simp [PyImp.unpack2, hs]
        simp only [bind, Except.bind, hu]
        exact ⟨env, runs_intro 0 fun k _ => by simp [exec, he, hs, bindAll]⟩
      | _ :: _ :: _ :: _, hs =>
        have hu : PyImp.unpack2 v = .error .valueError := by simp [PyImp.unpack2, hs]
        simp only [bind, Except.bind, hu]
        exact ⟨env, runs_intro 0 fun k _ => by simp [exec, he, hs, bindAll]⟩

theorem Falls.setDefaultIdx {ext : Ext} {env : Env} {x : String} {k k2 e : Expr} (r : M Val)
    (h : (evalExpr ext env e >>= fun v => lookup env x >>= fun m => evalExpr ext env k >>= fun kv => evalExpr ext env k2 >>= fun kv2 =>
            setDefaultAt m kv kv2 v) = r) :
    Falls ext (.setDefaultIdx x k k2 e) env (r.map fun nm => setVar env x nm) := by
  cases r with
  | error err => exact ⟨env, Runs.setDefaultIdx_err h⟩
  | ok nm => exact Runs.setDefaultIdx h

theorem Falls.warn {ext : Ext} {env : Env} {e : Expr} (r : M Val)
    (h : (lookup env "$log" >>= fun l => evalExpr ext env e >>= fun v => appendVal l v) = r) :
    Falls ext (.warn e) env (r.map fun nl => setVar env "$log" nl) := by
  cases r with
  | error err => exact ⟨env, Runs.warn_err h⟩
  | ok nl => exact Runs.warn h

/-! ### one turn of a loop body: it ends normally or with `continue` (either way the loop goes on from this environment), or raises -/

def Turns (ext : Ext) (s : Stmt) (env : Env) (r : M Env) : Prop :=
  match r with
  | .ok env' => Runs ext s env (.norm env') ∨ Runs ext s env (.cont env')
  | .error e => ∃ env'', Runs ext s env (.exc e env'')

theorem Falls.turns {ext : Ext} {s : Stmt} {env : Env} {r : M Env} (h : Falls ext s env r) : Turns ext s env r := by
  cases r with
  | error e => exact h
  | ok env' => exact Or.inl h

theorem Turns.seq {ext : Ext} {a b : Stmt} {env : Env} {r : M Env} {g : Env → M Env} (h1 : Falls ext a env r)
    (h2 : ∀ env', r = .ok env' → Turns ext b env' (g env')) : Turns ext (.seq a b) env (r >>= g) := by
  cases r with
  | error err =>
    obtain ⟨e'', h1⟩ := h1
    exact ⟨e'', Runs.seq_stop h1 (by intro e; simp)⟩
  | ok env' =>
    have := h2 env' rfl
    simp only [bind, Except.bind]
    cases hg : g env' with
    | error err =>
      rw [hg] at this
      obtain ⟨e'', this⟩ := this
      exact ⟨e'', Runs.seq h1 this⟩
    | ok env2 =>
      rw [hg] at this
      rcases this with this | this
      · exact Or.inl (Runs.seq h1 this)
      · exact Or.inr (Runs.seq h1 this)

theorem Turns.ite {ext : Ext} {env : Env} {c : Expr} {a b : Stmt} {ra rb : M Env} (r : M Bool) (hc : evalExpr ext env c >>= truth = r)
    (ha : r = .ok true → Turns ext a env ra) (hb : r = .ok false → Turns ext b env rb) :
    Turns ext (.ite c a b) env (r >>= fun t => if t then ra else rb) := by
  cases r with
  | error err => exact ⟨env, Runs.ite_err hc⟩
  | ok t =>
    cases t with
    | true =>
      have := ha rfl
      simp only [bind, Except.bind, if_true]
      cases ra with
      | error e => obtain ⟨e'', this⟩ := this; exact ⟨e'', Runs.ite_true hc this⟩
      | ok env' =>
        rcases this with this | this
        · exact Or.inl (Runs.ite_true hc this)
        · exact Or.inr (Runs.ite_true hc this)
    | false =>
      have := hb rfl
      simp only [bind, Except.bind, Bool.false_eq_true, if_false]
      cases rb with
      | error e => obtain ⟨e'', this⟩ := this; exact ⟨e'', Runs.ite_false hc this⟩
      | ok env' =>
        rcases this with this | this
        · exact Or.inl (Runs.ite_false hc this)
        · exact Or.inr (Runs.ite_false hc this)

/-- `if c: continue` followed by the rest of the body -/
theorem Turns.continue_if {ext : Ext} {env : Env} {c : Expr} {rest : Stmt} {rr : M Env} (r : M Bool) (hc : evalExpr ext env c >>= truth = r)
    (h2 : r = .ok false → Turns ext rest env rr) :
    Turns ext (.seq (.ite c .cont .skip) rest) env (r >>= fun t => if t then .ok env else rr) := by
  cases r with
  | error err => exact ⟨env, Runs.seq_stop (Runs.ite_err hc) (by intro e; simp)⟩
  | ok t =>
    cases t with
    | true => exact Or.inr (Runs.seq_stop (Runs.ite_true hc (Runs.cont _ _)) (by intro e; simp))
    | false =>
      have := h2 rfl
      simp only [bind, Except.bind, Bool.false_eq_true, if_false]
      have hs : Runs ext (.ite c .cont .skip) env (.norm env) := Runs.ite_false hc (Runs.skip _ _)
      cases rr with
      | error e => obtain ⟨e'', this⟩ := this; exact ⟨e'', Runs.seq hs this⟩
      | ok env' =>
        rcases this with this | this
        · exact Or.inl (Runs.seq hs this)
        · exact Or.inr (Runs.seq hs this)

/-- the environments a `for` loop passes through: the body's turns folded over the items -/
def foldTurns (v : String) (step : Env → Val → M Env) : Env → List Val → M Env
  | env, [] => .ok env
  | env, x :: xs => step env x >>= fun env' => foldTurns v step env' xs

theorem Falls.forVals {ext : Ext} {v : String} {b : Stmt} (step : Env → Val → M Env)
    (hstep : ∀ env x, Turns ext b (setVar env v x) (step env x)) :
    ∀ (xs : List Val) (env : Env), Falls ext (.forVals v (Val.ofList xs) b .skip) env (foldTurns v step env xs) := by
  intro xs
  induction xs with
  | nil => intro env; exact Runs.forVals_nil (Runs.skip _ _)
  | cons x xs ih =>
    intro env
    have h1 := hstep env x
    simp only [foldTurns, Val.ofList]
    cases hs : step env x with
    | error e =>
      rw [hs] at h1
      obtain ⟨e'', h1⟩ := h1
      exact ⟨e'', Runs.forVals_exit h1 (Or.inr ⟨_, _, rfl⟩)⟩
    | ok env' =>
      rw [hs] at h1
      have h2 := ih env'
      simp only [bind, Except.bind]
      cases hf : foldTurns v step env' xs with
      | error e =>
        rw [hf] at h2
        obtain ⟨e'', h2⟩ := h2
        exact ⟨e'', Runs.forVals_step (h1.elim Or.inl Or.inr) h2⟩
      | ok env2 =>
        rw [hf] at h2
        exact Runs.forVals_step (h1.elim Or.inl Or.inr) h2

end Chartparse.PyImp
