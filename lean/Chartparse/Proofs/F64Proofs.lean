import Chartparse.Model.F64
import Mathlib.Tactic.Linarith
import Mathlib.Tactic.Ring
import Mathlib.Tactic.Positivity
import Mathlib.Tactic.FieldSimp
import Mathlib.Tactic.NormNum
import Mathlib.Data.Rat.Floor
import Mathlib.Algebra.Order.Field.Power

namespace Chartparse.F64

theorem pow2_pos (e : Int) : 0 < pow2 e := by
  unfold pow2; positivity

theorem pow2_succ (e : Int) : pow2 (e + 1) = 2 * pow2 e := by
  unfold pow2; rw [zpow_add_one₀ (by norm_num)]; ring

theorem pow2_pred (e : Int) : pow2 (e - 1) = pow2 e / 2 := by
  have := pow2_succ (e - 1); simp at this; rw [this]; ring

theorem pow2_sub (a b : Int) : pow2 (a - b) = pow2 a / pow2 b := by
  unfold pow2; rw [zpow_sub₀ (by norm_num)]

theorem pow2_natCast (n : Nat) : pow2 (n : Int) = ((2 ^ n : Nat) : Rat) := by
  unfold pow2; push_cast; simp

theorem rhe_err (x : Rat) : |(rhe x : Rat) - x| ≤ 1/2 := by
  unfold rhe
  have h1 : ((x.floor : Int) : Rat) ≤ x := Rat.floor_le x
  have h2 : x < (x.floor : Rat) + 1 := by
    have := Rat.lt_floor_add_one x; push_cast at this; exact this
  simp only []
  split_ifs with ha hb hc <;> rw [abs_le] <;> constructor <;> push_cast <;> linarith

theorem ilog2_spec (x : Rat) (hx : 0 < x) : pow2 (ilog2 x) ≤ x ∧ x < pow2 (ilog2 x + 1) := by
  have hnum : 0 < x.num := Rat.num_pos.mpr hx
  have hden : 0 < x.den := x.den_pos
  set a := Nat.log2 x.num.natAbs with ha
  set b := Nat.log2 x.den with hb
  have hn0 : x.num.natAbs ≠ 0 := by omega
  have hd0 : x.den ≠ 0 := by omega
  have a1 : 2 ^ a ≤ x.num.natAbs := Nat.log2_self_le hn0
  have a2 : x.num.natAbs < 2 ^ (a + 1) := Nat.lt_log2_self
  have b1 : 2 ^ b ≤ x.den := Nat.log2_self_le hd0
  have b2 : x.den < 2 ^ (b + 1) := Nat.lt_log2_self
  have hxeq : x = (x.num.natAbs : Rat) / (x.den : Rat) := by
    have : ((x.num.natAbs : Int) : Rat) = (x.num : Rat) := by
      rw [Int.natAbs_of_nonneg hnum.le]
    rw [← Int.cast_natCast x.num.natAbs, this]
    exact (Rat.num_div_den x).symm
  have a1' : (pow2 a : Rat) ≤ (x.num.natAbs : Rat) := by rw [pow2_natCast]; exact_mod_cast a1
  have a2' : (x.num.natAbs : Rat) < pow2 (a + 1 : Nat) := by rw [pow2_natCast]; exact_mod_cast a2
  have b1' : (pow2 b : Rat) ≤ (x.den : Rat) := by rw [pow2_natCast]; exact_mod_cast b1
  have b2' : (x.den : Rat) < pow2 (b + 1 : Nat) := by rw [pow2_natCast]; exact_mod_cast b2
  have hdpos : (0 : Rat) < x.den := by exact_mod_cast hden
  -- lower: x > 2^(a-b-1), upper: x < 2^(a-b+1)
  have lo : pow2 ((a : Int) - b - 1) < x := by
    rw [hxeq, lt_div_iff₀ hdpos]
    calc pow2 ((a : Int) - b - 1) * x.den < pow2 ((a : Int) - b - 1) * pow2 ((b + 1 : Nat) : Int) :=
          mul_lt_mul_of_pos_left b2' (pow2_pos _)
      _ = pow2 a := by
          unfold pow2; rw [← zpow_add₀ (by norm_num)]; congr 1; push_cast; ring
      _ ≤ _ := a1'
  have hi : x < pow2 ((a : Int) - b + 1) := by
    rw [hxeq, div_lt_iff₀ hdpos]
    calc (x.num.natAbs : Rat) < pow2 ((a + 1 : Nat) : Int) := a2'
      _ = pow2 ((a : Int) - b + 1) * pow2 b := by
          unfold pow2; rw [← zpow_add₀ (by norm_num)]; congr 1; push_cast; ring
      _ ≤ _ := mul_le_mul_of_nonneg_left b1' (pow2_pos _).le
  unfold ilog2
  simp only [← ha, ← hb]
  split_ifs with h
  · refine ⟨lo.le, ?_⟩
    have : (a : Int) - b - 1 + 1 = a - b := by ring
    rw [this]; exact h
  · exact ⟨not_lt.mp h, hi⟩

theorem fl_rel_err (x : Rat) (hx : 0 < x) : |fl x - x| ≤ x * pow2 (-53) := by
  obtain ⟨h1, h2⟩ := ilog2_spec x hx
  unfold fl
  rw [if_neg (not_le.mpr hx)]
  simp only []
  set e := ilog2 x
  set q := pow2 (e - 52) with hq
  have hqpos : 0 < q := pow2_pos _
  have hr := rhe_err (x / q)
  have : (rhe (x / q) : Rat) * q - x = ((rhe (x / q) : Rat) - x / q) * q := by
    field_simp
  rw [this, abs_mul, abs_of_pos hqpos]
  calc |(rhe (x / q) : Rat) - x / q| * q ≤ 1/2 * q := by
        exact mul_le_mul_of_nonneg_right hr hqpos.le
    _ = pow2 e * pow2 (-53) := by
        rw [hq]; unfold pow2; rw [← zpow_add₀ (by norm_num)]
        have : e + (-53) = (e - 52) - 1 := by ring
        rw [this, zpow_sub_one₀ (by norm_num)]; ring
    _ ≤ x * pow2 (-53) := mul_le_mul_of_nonneg_right h1 (pow2_pos _).le

end Chartparse.F64
