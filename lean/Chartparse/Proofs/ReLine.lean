import Chartparse.Proofs.ReFieldInv
import Chartparse.Proofs.ReNorm
/-! Generic event-line recogniser `\s*?(\d+?) = <lit><payload>` and payload lemmas: every shipped event
    recogniser is an instance, so each acceptance theorem is a short composition. -/
namespace Chartparse.Rx
open Chartparse

/-- `\s*?(\d+?) = ` ++ lit, then the payload -/
def evRe (lit : Str) (payload : Re) : Re :=
  .cat (.star false .space) <| .cat (.group 1 (plusLazy .digit)) <| .cat (lits (32 :: 61 :: 32 :: lit)) payload

/-- the common head: blanks, the tick digits (captured as group 1), ` = `, the literal; then the payload runs
    on the rest with group 1 already recorded -/
theorem ev_head {α} (lit : Str) (payload : Re) (k : Str → Caps → Option α) (p t rest : Str) (v : α)
    (hp : AllIn .space p) (ht : AllIn .digit t) (ht0 : t ≠ [])
    (hk : payload.exec k rest [(1, t)] = some v) :
    (evRe lit payload).exec k (p ++ (t ++ ((32 :: 61 :: 32 :: lit) ++ rest))) [] = some v := by
  unfold evRe
  rw [exec_cat]
  apply starLazy_run _ _ p _ _ _ hp
  · intro c t' hc
    rw [exec_cat, exec_group]; unfold plusLazy
    rw [exec_cat, exec_chr_cons, if_neg (by simp [space_not_digit hc])]
  rw [exec_cat, exec_group]
  apply plusLazy_run _ _ t _ _ _ ht ht0
  · intro c t' hc
    rw [exec_cat]; exact lits_fail_head 32 _ _ c t' _ (ne32_of_digit hc)
  rw [exec_cat, exec_lits]
  have e : (t ++ ((32 :: 61 :: 32 :: lit) ++ rest)).length - ((32 :: 61 :: 32 :: lit) ++ rest).length = t.length := by
    simp
  rw [e, List.take_left' rfl]
  exact hk

/-- payload `(\d+?)\s*?$` as group `g` -/
def digitsTail (g : Nat) : Re := .cat (.group g (plusLazy .digit)) tailRe

theorem digitsTail_accept (g : Nat) (l q : Str) (cs : Caps) (hl : AllIn .digit l) (hl0 : l ≠ []) (hq : AllIn .space q) :
    (digitsTail g).exec (fun _ cs => some cs) (l ++ q) cs = some ((g, l) :: cs) := by
  unfold digitsTail
  rw [exec_cat, exec_group]
  apply plusLazy_run _ _ l _ _ _ hl hl0
  · intro c t' hc
    exact tail_fail _ _ _ ⟨c, by simp, digit_not_space hc⟩
  rw [tail_ok _ q _ hq (fun _ => rfl) _ rfl]
  simp

/-- payload `(\d+?)$` as group `g` (the anchor line: no trailing blanks allowed) -/
def digitsEol (g : Nat) : Re := .cat (.group g (plusLazy .digit)) .eol

theorem digitsEol_accept (g : Nat) (l : Str) (cs : Caps) (hl : AllIn .digit l) (hl0 : l ≠ []) :
    (digitsEol g).exec (fun _ cs => some cs) l cs = some ((g, l) :: cs) := by
  unfold digitsEol
  rw [exec_cat, exec_group]
  have := plusLazy_run .digit (fun r1 cs1 => Re.eol.exec (fun _ cs => some cs) r1 ((g, List.take (l.length - r1.length) l) :: cs1))
    l [] cs ((g, l) :: cs) hl hl0
    (by intro c t' hc
        rw [exec_eol, if_neg]
        intro h; rcases h with h | h
        · cases h
        · injection h with h1 _; exact ne10_of_digit hc h1)
    (by rw [exec_eol, if_pos (Or.inl rfl)]; simp)
  simpa using this

/-- payload `([^"]*?)"\s*?$` / `(.*?)"\s*?$`: the lazy value followed by the closing quote -/
def quotedTail (s : CSet) : Re := .cat (.group 2 (.star false s)) <| .cat (.chr (.lit 34)) tailRe

/-- the value is the text up to the *last* quote: a lazy value cannot stop at an inner quote, because the
    closing quote still ahead is not a blank -/
theorem quotedTail_accept (s : CSet) (v q : Str) (cs : Caps) (hv : AllIn s v) (hq : AllIn .space q) :
    (quotedTail s).exec (fun _ cs => some cs) (v ++ 34 :: q) cs = some ((2, v) :: cs) := by
  unfold quotedTail
  rw [exec_cat, exec_group, exec_star]
  rw [starExec_lazy_skip _ _ v (34 :: q) hv]
  · apply starExec_lazy_stop
    rw [exec_cat, exec_chr_cons, if_pos (by simp)]
    rw [tail_ok _ q _ hq (fun _ => rfl) _ rfl]
    have e1 : (v ++ 34 :: q).length - (34 :: q).length = v.length := by simp
    rw [e1, List.take_left' rfl]
  · intro i hi
    obtain ⟨c, w, hcw⟩ : ∃ c w, v.drop i = c :: w := by
      cases h : v.drop i with
      | nil => simp at h; omega
      | cons c w => exact ⟨c, w, rfl⟩
    rw [hcw]
    simp only [List.cons_append]
    rw [exec_cat, exec_chr_cons]
    by_cases h34 : c = 34
    · subst h34
      rw [if_pos (by simp)]
      exact tail_fail _ _ _ ⟨34, by simp, quote_not_space⟩
    · rw [if_neg (by simp [h34])]

/-! ### templates of every shipped event recogniser, as instances -/

def spT : Re := evRe [83, 32, 50, 32] (digitsTail 2)                       -- `S 2 `
def bpmT : Re := evRe [66, 32] (digitsTail 2)                              -- `B `
def anchorT : Re := evRe [65, 32] (digitsEol 2)                            -- `A `
def textT : Re := evRe [69, 32, 34] (quotedTail (.notLit 34))              -- `E "`
def sectionT : Re := evRe [69, 32, 34, 115, 101, 99, 116, 105, 111, 110, 32] (quotedTail .any)   -- `E "section `
def lyricT : Re := evRe [69, 32, 34, 108, 121, 114, 105, 99, 32] (quotedTail .any)               -- `E "lyric `

theorem matchGroups_eq {a : Re} (line : Str) : a.matchGroups line = a.exec (fun _ cs => some cs) line [] := rfl

theorem sp_accept (p t l q : Str) (hp : AllIn .space p) (ht : AllIn .digit t) (ht0 : t ≠ [])
    (hl : AllIn .digit l) (hl0 : l ≠ []) (hq : AllIn .space q) :
    spT.matchGroups (p ++ (t ++ ([32, 61, 32, 83, 32, 50, 32] ++ (l ++ q)))) = some [(2, l), (1, t)] := by
  rw [matchGroups_eq]; unfold spT
  exact ev_head _ _ _ p t _ _ hp ht ht0 (digitsTail_accept 2 l q _ hl hl0 hq)

theorem bpm_accept (p t l q : Str) (hp : AllIn .space p) (ht : AllIn .digit t) (ht0 : t ≠ [])
    (hl : AllIn .digit l) (hl0 : l ≠ []) (hq : AllIn .space q) :
    bpmT.matchGroups (p ++ (t ++ ([32, 61, 32, 66, 32] ++ (l ++ q)))) = some [(2, l), (1, t)] := by
  rw [matchGroups_eq]; unfold bpmT
  exact ev_head _ _ _ p t _ _ hp ht ht0 (digitsTail_accept 2 l q _ hl hl0 hq)

theorem anchor_accept (p t l : Str) (hp : AllIn .space p) (ht : AllIn .digit t) (ht0 : t ≠ [])
    (hl : AllIn .digit l) (hl0 : l ≠ []) :
    anchorT.matchGroups (p ++ (t ++ ([32, 61, 32, 65, 32] ++ l))) = some [(2, l), (1, t)] := by
  rw [matchGroups_eq]; unfold anchorT
  exact ev_head _ _ _ p t _ _ hp ht ht0 (digitsEol_accept 2 l _ hl hl0)

/-- C09: a quote-free text is carried whole -/
theorem text_accept (p t v q : Str) (hp : AllIn .space p) (ht : AllIn .digit t) (ht0 : t ≠ [])
    (hv : AllIn (.notLit 34) v) (hq : AllIn .space q) :
    textT.matchGroups (p ++ (t ++ ([32, 61, 32, 69, 32, 34] ++ (v ++ 34 :: q)))) = some [(2, v), (1, t)] := by
  rw [matchGroups_eq]; unfold textT
  exact ev_head _ _ _ p t _ _ hp ht ht0 (quotedTail_accept _ v q _ hv hq)

/-- C09: `section v` carries `v` verbatim — inner quotes, blanks, anything but a line feed -/
theorem section_accept (p t v q : Str) (hp : AllIn .space p) (ht : AllIn .digit t) (ht0 : t ≠ [])
    (hv : AllIn .any v) (hq : AllIn .space q) :
    sectionT.matchGroups (p ++ (t ++ ([32, 61, 32, 69, 32, 34, 115, 101, 99, 116, 105, 111, 110, 32] ++ (v ++ 34 :: q))))
      = some [(2, v), (1, t)] := by
  rw [matchGroups_eq]; unfold sectionT
  exact ev_head _ _ _ p t _ _ hp ht ht0 (quotedTail_accept _ v q _ hv hq)

theorem lyric_accept' (p t v q : Str) (hp : AllIn .space p) (ht : AllIn .digit t) (ht0 : t ≠ [])
    (hv : AllIn .any v) (hq : AllIn .space q) :
    lyricT.matchGroups (p ++ (t ++ ([32, 61, 32, 69, 32, 34, 108, 121, 114, 105, 99, 32] ++ (v ++ 34 :: q))))
      = some [(2, v), (1, t)] := by
  rw [matchGroups_eq]; unfold lyricT
  exact ev_head _ _ _ p t _ _ hp ht ht0 (quotedTail_accept _ v q _ hv hq)

end Chartparse.Rx
