import Chartparse.Model.Regex
/-! Normal form of `Re` terms: concatenations right-nested, `eps` dropped. Two terms with the same normal
    form run identically under `Re.exec`, so the regenerated recognisers (translator's canonical shape,
    with `eps` terminators and non-capturing groups flattened by sre) can be compared with hand-written,
    proof-friendly templates by `decide`. Core Lean only. -/
namespace Chartparse

def Re.mk (a b : Re) : Re := if b = .eps then a else .cat a b

/-- `a` followed by the already normal `b` -/
def Re.seqThen : Re → Re → Re
  | .eps, b => b
  | .cat x y, b => x.seqThen (y.seqThen b)
  | .group i a, b => Re.mk (.group i (a.seqThen .eps)) b
  | .opt g a, b => Re.mk (.opt g (a.seqThen .eps)) b
  | .eol, b => Re.mk .eol b
  | .chr s, b => Re.mk (.chr s) b
  | .star g s, b => Re.mk (.star g s) b

def Re.norm (a : Re) : Re := a.seqThen .eps

theorem exec_mk {α} (a b : Re) (k : Str → Caps → Option α) (r : Str) (cs : Caps) :
    (Re.mk a b).exec k r cs = a.exec (fun r1 cs1 => b.exec k r1 cs1) r cs := by
  unfold Re.mk
  split
  · rename_i h; subst h; rfl
  · rfl

theorem exec_seqThen {α} (a : Re) : ∀ (b : Re) (k : Str → Caps → Option α) (r : Str) (cs : Caps),
    (a.seqThen b).exec k r cs = a.exec (fun r1 cs1 => b.exec k r1 cs1) r cs := by
  induction a with
  | eps => intro b k r cs; rfl
  | eol => intro b k r cs; simp only [Re.seqThen, exec_mk]
  | chr s => intro b k r cs; simp only [Re.seqThen, exec_mk]
  | star g s => intro b k r cs; simp only [Re.seqThen, exec_mk]
  | cat x y ihx ihy =>
    intro b k r cs
    simp only [Re.seqThen, Re.exec]
    rw [ihx]
    congr 1
    funext r1 cs1
    exact ihy b k r1 cs1
  | opt g a ih =>
    intro b k r cs
    simp only [Re.seqThen, exec_mk, Re.exec]
    have e : ∀ (K : Str → Caps → Option α) r cs, (a.seqThen .eps).exec K r cs = a.exec K r cs := by
      intro K r cs; rw [ih]; rfl
    simp only [e]
  | group i a ih =>
    intro b k r cs
    simp only [Re.seqThen, exec_mk, Re.exec]
    rw [ih]; rfl

theorem exec_norm {α} (a : Re) (k : Str → Caps → Option α) (r : Str) (cs : Caps) :
    a.norm.exec k r cs = a.exec k r cs := by
  unfold Re.norm; rw [exec_seqThen]; rfl

theorem matchGroups_norm (a : Re) (line : Str) : a.norm.matchGroups line = a.matchGroups line := by
  unfold Re.matchGroups; exact exec_norm a _ _ _

/-- the transport used by every `Gen = Template` obligation -/
theorem matchGroups_of_norm_eq {a b : Re} (h : a.norm = b.norm) (line : Str) :
    a.matchGroups line = b.matchGroups line := by
  rw [← matchGroups_norm a, ← matchGroups_norm b, h]

end Chartparse
