import Chartparse.Proofs.ChartCompose
import Chartparse.Proofs.EventsProofs
/-! Chart level: the tempo map of a returned chart is one `buildMap` accepted; every timestamped event of the chart carries
    the hint-free query for its own tick; hence tick order implies time order across *all* events of the chart. -/
namespace Chartparse
open Chartparse.Inst Chartparse.Tempo Chartparse.Meta

/-- the tempo map of a returned chart came out of `buildMap` on validated tempo data; time signatures out of `chain` -/
theorem parseSections_map (secs : Sections) (want : Option (List (Nat × Nat))) (c : Chart)
    (h : parseSections secs want = .ok c) :
    (∃ raw, buildMap c.res raw = .ok c.sync.bpms) ∧
    ∀ e ∈ c.sync.tss, tsAt c.res c.sync.bpms (e.tick : Int) 0 = .ok (e.ts, e.idx) := by
  obtain ⟨_, hsorted, _, _⟩ := parseSections_trust secs want c h
  unfold parseSections at h
  obtain ⟨sh, hsh, h⟩ := bind_ok h
  obtain ⟨tr, _, h⟩ := bind_ok h
  injection h with h; subst h
  unfold parseShared at hsh
  split at hsh
  · cases hsh
  · obtain ⟨songLines, _, hsh⟩ := bind_ok hsh
    obtain ⟨metad, _, hsh⟩ := bind_ok hsh
    obtain ⟨syncLines, _, hsh⟩ := bind_ok hsh
    obtain ⟨sy, hsy, hsh⟩ := bind_ok hsh
    obtain ⟨evLines, _, hsh⟩ := bind_ok hsh
    obtain ⟨ev, _, hsh⟩ := bind_ok hsh
    injection hsh with hsh; subst hsh
    unfold parseSync at hsy
    obtain ⟨s, hs, hsy⟩ := bind_ok hsy
    injection hsy with hsy; subst hsy
    simp only [] at hsorted ⊢
    unfold buildSync at hs
    obtain ⟨bpms, hb, hs⟩ := bind_ok hs
    obtain ⟨tsts, hts, hs⟩ := bind_ok hs
    split at hs
    · cases hs
    · split at hs
      · cases hs
      · injection hs with hs; subst hs
        simp only [] at hsorted ⊢
        constructor
        · split at hb
          · exact ⟨_, hb⟩
          · cases hb
        · obtain ⟨hlen, hall⟩ := zip_chain_spec _ _ hsorted _ (fun (x : Nat × Nat × Option Nat) => x.1) tsts hts
          intro e he
          obtain ⟨i, hi, hget⟩ := List.getElem_of_mem he
          simp only [List.length_map, List.length_zip] at hi
          simp only [List.getElem_map, List.getElem_zip] at hget
          rw [← hget]
          exact hall i (by omega) (by omega)

/-- (tick, timestamp) of every timestamped event of a chart: time signatures, text / section / lyric events, and per track
    notes, star-power phrases and track events -/
def timed (c : Chart) : List (Nat × Int) :=
  c.sync.tss.map (fun e => (e.tick, e.ts)) ++ c.events.texts.map (fun e => (e.tick, e.ts)) ++
  c.events.sections.map (fun e => (e.tick, e.ts)) ++ c.events.lyrics.map (fun e => (e.tick, e.ts)) ++
  c.tracks.flatMap (fun rt => rt.track.notes.map (fun e => (e.tick, e.ts)) ++ rt.track.sps.map (fun e => (e.tick, e.ts)) ++
    rt.track.tes.map (fun e => (e.tick, e.ts)))

/-- **C01/C11 at chart level**: every timestamped event of a returned chart carries the hint-free query of its own tick -/
theorem timed_query (secs : Sections) (want : Option (List (Nat × Nat))) (c : Chart)
    (h : parseSections secs want = .ok c) :
    ∀ p ∈ timed c, ∃ g, tsAt c.res c.sync.bpms (p.1 : Int) 0 = .ok (p.2, g) := by
  obtain ⟨_, hsorted, _, _⟩ := parseSections_trust secs want c h
  have hev := chart_events_ts secs want c h
  have hts := (parseSections_map secs want c h).2
  have htr := chart_tracks_from_sections secs want c h
  intro p hp
  unfold timed at hp
  simp only [List.mem_append, List.mem_map, List.mem_flatMap] at hp
  rcases hp with (((⟨e, he, rfl⟩ | ⟨e, he, rfl⟩) | ⟨e, he, rfl⟩) | ⟨e, he, rfl⟩) | ⟨rt, hrt, hp⟩
  · exact ⟨e.idx, hts e he⟩
  · exact ⟨e.idx, hev e (Or.inl he)⟩
  · exact ⟨e.idx, hev e (Or.inr (Or.inl he))⟩
  · exact ⟨e.idx, hev e (Or.inr (Or.inr he))⟩
  · obtain ⟨tag, lines, r, n, _, _, _, _, _, hpt⟩ := htr rt hrt
    have hb := parseTrack_build _ _ _ _ _ hpt
    obtain ⟨h1, h2, h3, _, _⟩ := buildTrack_ts _ _ hsorted _ _ _ _ hb
    rcases hp with (⟨e, he, rfl⟩ | ⟨e, he, rfl⟩) | ⟨e, he, rfl⟩
    · exact ⟨e.idx, h1 e he⟩
    · exact ⟨e.idx, h2 e he⟩
    · exact ⟨e.idx, h3 e he⟩

/-- **C12 at chart level**: across *all* timestamped events of a returned chart — whatever their kind, section or track —
    an event at a later-or-equal tick never has an earlier timestamp, and events at equal ticks have equal timestamps -/
theorem chart_time_order (secs : Sections) (want : Option (List (Nat × Nat))) (c : Chart)
    (h : parseSections secs want = .ok c) :
    ∀ p ∈ timed c, ∀ q ∈ timed c, (p.1 ≤ q.1 → p.2 ≤ q.2) ∧ (p.1 = q.1 → p.2 = q.2) := by
  obtain ⟨hres, _, _, _⟩ := parseSections_trust secs want c h
  obtain ⟨⟨raw, hraw⟩, _⟩ := parseSections_map secs want c h
  have hq := timed_query secs want c h
  have hrn : c.res = ((c.res.toNat : Nat) : Int) := by omega
  intro p hp q hq'
  obtain ⟨gp, h1⟩ := hq p hp
  obtain ⟨gq, h2⟩ := hq q hq'
  have mono : ∀ a b : Nat, a ≤ b → ∀ x y ga gb, tsAt c.res c.sync.bpms (a : Int) 0 = .ok (x, ga) →
      tsAt c.res c.sync.bpms (b : Int) 0 = .ok (y, gb) → x ≤ y := by
    intro a b hab x y ga gb ha hb
    rw [hrn] at ha hb hraw
    exact C12_mono c.res.toNat raw c.sync.bpms hraw a b hab x y ga gb ha hb
  constructor
  · intro hle; exact mono _ _ hle _ _ _ _ h1 h2
  · intro heq
    have a := mono _ _ (Nat.le_of_eq heq) _ _ _ _ h1 h2
    have b := mono _ _ (Nat.le_of_eq heq.symm) _ _ _ _ h2 h1
    omega

/-- the same, from the text: `Chart.from_file` -/
theorem text_time_order (text : Str) (want : Option (List (Nat × Nat))) (c : Chart) (h : parseChart text want = .ok c) :
    ∀ p ∈ timed c, ∀ q ∈ timed c, (p.1 ≤ q.1 → p.2 ≤ q.2) ∧ (p.1 = q.1 → p.2 = q.2) := by
  unfold parseChart at h
  obtain ⟨secs, _, h⟩ := bind_ok h
  exact chart_time_order secs want c h

theorem text_timed_query (text : Str) (want : Option (List (Nat × Nat))) (c : Chart) (h : parseChart text want = .ok c) :
    ∀ p ∈ timed c, ∃ g, tsAt c.res c.sync.bpms (p.1 : Int) 0 = .ok (p.2, g) := by
  unfold parseChart at h
  obtain ⟨secs, _, h⟩ := bind_ok h
  exact timed_query secs want c h

end Chartparse
