import Chartparse.Proofs.RouteProofs
import Chartparse.Proofs.SyncProofs
import Chartparse.Proofs.TrackProofs
import Chartparse.Proofs.SustainProofs
/-! Every track of every chart the model returns is what the track builder makes of one of the text's own sections —
    the bridge that carries the track-level theorems (C02–C05, C11) to `Chart.from_file`. -/
namespace Chartparse
open Chartparse.Inst Chartparse.Tempo Chartparse.Meta

/-- where a routed track comes from -/
def FromSection (res : Int) (evs : List BpmEv) (sel : Nat × Nat → Bool) (secs : Sections) (rt : RoutedTrack) : Prop :=
  ∃ tag lines r n, (tag, lines) ∈ secs ∧ routeOf tag = some r ∧ rt.key = (r.1, r.2.1) ∧ rt.label = (r.2.2.1, r.2.2.2) ∧
    sel rt.key = true ∧ parseTrack res evs lines = .ok (rt.track, n)

theorem route_mem (res : Int) (evs : List BpmEv) (sel : Nat × Nat → Bool) (secs : Sections)
    (out : List RoutedTrack × Nat × List Str) (h : routeTracks res evs sel secs = .ok out) :
    ∀ rt ∈ out.1, FromSection res evs sel secs rt := by
  induction secs generalizing out with
  | nil => simp only [routeTracks] at h; injection h with h; subst h; intro rt hrt; cases hrt
  | cons s rest ih =>
    obtain ⟨tag, lines⟩ := s
    have lift : ∀ rt, FromSection res evs sel rest rt → FromSection res evs sel ((tag, lines) :: rest) rt := by
      intro rt ⟨tag', lines', r, n, hm, h1, h2, h3, h4, h5⟩
      exact ⟨tag', lines', r, n, List.mem_cons_of_mem _ hm, h1, h2, h3, h4, h5⟩
    simp only [routeTracks] at h
    cases hr : routeOf tag with
    | none =>
      rw [hr] at h; simp only [] at h
      obtain ⟨rr, hrr, h⟩ := bind_ok h
      injection h with h; subst h
      intro rt hrt; exact lift rt (ih rr hrr rt hrt)
    | some r =>
      rw [hr] at h; simp only [] at h
      by_cases hs : sel (r.1, r.2.1) = true
      · rw [if_pos hs] at h
        obtain ⟨t, ht, h⟩ := bind_ok h
        obtain ⟨rr, hrr, h⟩ := bind_ok h
        injection h with h; subst h
        intro rt hrt
        rcases List.mem_cons.mp hrt with rfl | hrt
        · exact ⟨tag, lines, r, t.2, by simp, hr, rfl, rfl, hs, by simpa using ht⟩
        · exact lift rt (ih rr hrr rt hrt)
      · rw [if_neg hs] at h
        intro rt hrt; exact lift rt (ih out h rt hrt)

theorem putTrack_mem (ts : List RoutedTrack) (t x : RoutedTrack) (h : x ∈ putTrack ts t) : x ∈ ts ∨ x = t := by
  unfold putTrack at h
  split at h
  · rw [List.mem_map] at h
    obtain ⟨y, hy, hxy⟩ := h
    split at hxy
    · right; exact hxy.symm
    · left; rw [← hxy]; exact hy
  · rcases List.mem_append.mp h with h | h
    · left; exact h
    · right; simpa using h

theorem foldl_putTrack_mem (l acc : List RoutedTrack) (x : RoutedTrack) (h : x ∈ l.foldl putTrack acc) : x ∈ acc ∨ x ∈ l := by
  induction l generalizing acc with
  | nil => left; exact h
  | cons t l ih =>
    rw [List.foldl_cons] at h
    rcases ih _ h with h | h
    · rcases putTrack_mem _ _ _ h with h | h
      · left; exact h
      · right; rw [h]; simp
    · right; exact List.mem_cons_of_mem _ h

/-- **every track of a returned chart is the track builder's result on one of the chart's own sections**, built against
    the chart's own resolution and tempo map, under the header's (instrument, difficulty) key, and only if selected -/
theorem chart_tracks_from_sections (secs : Sections) (want : Option (List (Nat × Nat))) (c : Chart)
    (h : parseSections secs want = .ok c) :
    ∀ rt ∈ c.tracks, FromSection c.res c.sync.bpms (selOf want) secs rt := by
  unfold parseSections at h
  obtain ⟨sh, _, h⟩ := bind_ok h
  obtain ⟨tr, htr, h⟩ := bind_ok h
  injection h with h; subst h
  intro rt hrt
  rcases foldl_putTrack_mem _ _ _ hrt with h | h
  · cases h
  · exact route_mem _ _ _ _ _ htr rt h

/-- what `parseTrack` returns is `buildTrack` of the dispatched data -/
theorem parseTrack_build (res : Int) (evs : List BpmEv) (lines : List Str) (t : Track) (n : Nat)
    (h : parseTrack res evs lines = .ok (t, n)) :
    buildTrack res evs
      (noteData (dataFor Gen.instrumentKindOrder (dispatch Gen.instrumentKindOrder lines) 0))
      (spDataOf (dataFor Gen.instrumentKindOrder (dispatch Gen.instrumentKindOrder lines) 1))
      (teData (dataFor Gen.instrumentKindOrder (dispatch Gen.instrumentKindOrder lines) 2)) = .ok t := by
  unfold parseTrack at h
  obtain ⟨t', ht', h⟩ := bind_ok h
  injection h with h
  injection h with h1 _; subst h1
  exact ht'

/-- the dispatched note / star-power data of an instrument section -/
def sectionNotes (lines : List Str) : List NDatum :=
  noteData (dataFor Gen.instrumentKindOrder (dispatch Gen.instrumentKindOrder lines) 0)
def sectionPhrases (lines : List Str) : List Phrase :=
  spDataOf (dataFor Gen.instrumentKindOrder (dispatch Gen.instrumentKindOrder lines) 1)

/-- **the notes of every track of every returned chart** are `buildNotes` of the tick groups of the N lines of one of the
    text's own instrument sections, against that section's own S lines, the chart's resolution and the chart's tempo map,
    starting with no previous note and both cursors at zero — so `NotesOf` holds and with it every track-level theorem
    (C02 ticks/lanes, C03 sustains, C04 HOPO rule, C05 star power, C11 timestamps) -/
theorem chart_track_notes (secs : Sections) (want : Option (List (Nat × Nat))) (c : Chart)
    (h : parseSections secs want = .ok c) (rt : RoutedTrack) (hrt : rt ∈ c.tracks) :
    ∃ tag lines, (tag, lines) ∈ secs ∧ (routeOf tag).isSome = true ∧
      buildNotes c.res c.sync.bpms (sectionPhrases lines) (groups (sectionNotes lines)) none 0 0 = .ok rt.track.notes ∧
      NotesOf c.res c.sync.bpms (sectionPhrases lines) (groups (sectionNotes lines)) none 0 0 rt.track.notes := by
  obtain ⟨tag, lines, r, n, hm, hr, _, _, _, hp⟩ := chart_tracks_from_sections secs want c h rt hrt
  have hb := parseTrack_build _ _ _ _ _ hp
  unfold buildTrack at hb
  obtain ⟨spts, _, hb⟩ := bind_ok hb
  obtain ⟨tets, _, hb⟩ := bind_ok hb
  obtain ⟨notes, hn, hb⟩ := bind_ok hb
  injection hb with hb
  have e : rt.track.notes = notes := by rw [← hb]
  refine ⟨tag, lines, hm, by rw [hr]; rfl, ?_, ?_⟩
  · rw [e]; exact hn
  · rw [e]; exact buildNotes_spec _ _ _ _ _ _ _ _ hn

end Chartparse
