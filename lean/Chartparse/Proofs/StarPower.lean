import Chartparse.Model.Instrument
/-! Model of `NoteEvent._compute_star_power_data` with the carried cursor, and the C05 theorem (core Lean only). -/
namespace Chartparse.Inst
open Chartparse

/-- the notes of a track in order, threading the cursor -/
def run (sps : List Phrase) : List Nat → Nat → Option (List (Option Nat))
  | [], _ => some []
  | t :: ts, cur =>
    match spData t sps cur with
    | .ok (d, c) => (run sps ts c).map (d :: ·)
    | .error _ => none

def firstIdx {α} (p : α → Bool) : List α → Nat → Option Nat
  | [], _ => none
  | a :: as, i => if p a then some i else firstIdx p as (i + 1)

/-- the promise of C05: index of the first phrase covering `t` (half-open) -/
def firstCovering (t : Nat) (sps : List Phrase) : Option Nat := firstIdx (fun p => p.during t) sps 0

theorem firstIdx_some {α} (p : α → Bool) (l : List α) (i k : Nat) (y : α)
    (hbefore : ∀ j, j < k → ∀ x, l[j]? = some x → p x = false) (hk : l[k]? = some y) (hy : p y = true) :
    firstIdx p l i = some (i + k) := by
  induction l generalizing i k with
  | nil => simp at hk
  | cons a as ih =>
    cases k with
    | zero => simp at hk; subst hk; simp [firstIdx, hy]
    | succ k =>
      have ha : p a = false := hbefore 0 (by omega) a (by simp)
      simp only [firstIdx, ha, Bool.false_eq_true, if_false]
      rw [ih (i + 1) k (fun j hj x hx => hbefore (j + 1) (by omega) x (by simpa using hx)) (by simpa using hk)]
      congr 1; omega

theorem firstIdx_none {α} (p : α → Bool) (l : List α) (i : Nat)
    (h : ∀ (j : Nat) x, l[j]? = some x → p x = false) : firstIdx p l i = none := by
  induction l generalizing i with
  | nil => rfl
  | cons a as ih =>
    have ha : p a = false := h 0 a (by simp)
    simp only [firstIdx, ha, Bool.false_eq_true, if_false]
    exact ih (i + 1) (fun j x hx => h (j + 1) x (by simpa using hx))

/-- facts about `cand`: it stays inside the list, everything it skipped is over, and it stops at the
    first phrase that is not over unless it ran out -/
theorem cand_spec (t : Nat) (l : List Phrase) (i : Nat) (hl : l ≠ []) :
    let c := cand t l i
    i ≤ c ∧ c < i + l.length ∧ (∀ j, j < c - i → ∀ p, l[j]? = some p → p.after t = true) ∧
    (c + 1 < i + l.length → ∀ p, l[c - i]? = some p → p.after t = false) := by
  induction l generalizing i with
  | nil => exact absurd rfl hl
  | cons p rest ih =>
    cases rest with
    | nil =>
      simp only [cand]
      refine ⟨Nat.le_refl _, by simp, ?_, ?_⟩
      · intro j hj; omega
      · intro h; simp at h
    | cons q rest =>
      simp only [cand]
      by_cases ha : p.after t = true
      · simp only [ha, if_true]
        obtain ⟨h1, h2, h3, h4⟩ := ih (i + 1) (by simp)
        refine ⟨by omega, by simp only [List.length_cons] at h2 ⊢; omega, ?_, ?_⟩
        · intro j hj p' hp'
          cases j with
          | zero => simp at hp'; subst hp'; exact ha
          | succ j =>
            simp only [List.getElem?_cons_succ] at hp'
            exact h3 j (by omega) p' hp'
        · intro hlt p' hp'
          have e : cand t (q :: rest) (i + 1) - i = (cand t (q :: rest) (i + 1) - (i + 1)) + 1 := by omega
          rw [e, List.getElem?_cons_succ] at hp'
          exact h4 (by simp only [List.length_cons] at hlt ⊢; omega) p' hp'
      · have ha' : p.after t = false := by simpa using ha
        simp only [ha', Bool.false_eq_true, if_false]
        refine ⟨Nat.le_refl _, by simp, ?_, ?_⟩
        · intro j hj; omega
        · intro _ p' hp'; simp at hp'; subst hp'; exact ha'

/-- cursor invariant: the cursor is inside the list and every phrase before it is over at `t` -/
def Inv (sps : List Phrase) (cur t : Nat) : Prop :=
  cur < sps.length ∧ ∀ j, j < cur → ∀ p, sps[j]? = some p → p.after t = true

theorem after_mono {p : Phrase} {t t' : Nat} (h : t ≤ t') (ha : p.after t = true) : p.after t' = true := by
  unfold Phrase.after at *; simp at *; omega

theorem not_during_of_after {p : Phrase} {t : Nat} (ha : p.after t = true) : p.during t = false := by
  unfold Phrase.during; simp [ha]

/-- one note: the answer is the first covering phrase, and the invariant is re-established -/
theorem compute_spec (sps : List Phrase) (hs : sps.Pairwise (fun a b => a.tick ≤ b.tick)) (t cur : Nat)
    (hinv : Inv sps cur t) :
    ∃ c, spData t sps cur = .ok (firstCovering t sps, c) ∧ Inv sps c t := by
  obtain ⟨hcur, hbefore⟩ := hinv
  have hne : sps.isEmpty = false := by
    cases sps with
    | nil => simp at hcur
    | cons _ _ => rfl
  have hdne : sps.drop cur ≠ [] := by
    intro h; have := congrArg List.length h; simp at this; omega
  obtain ⟨c1, c2, c3, c4⟩ := cand_spec t (sps.drop cur) cur hdne
  simp only [List.length_drop] at c2 c4
  have hcomp : spData t sps cur =
      (match sps[cand t (sps.drop cur) cur]? with
       | none => .error (.internal "UnboundLocalError")
       | some p => if p.during t then .ok (some (cand t (sps.drop cur) cur), cand t (sps.drop cur) cur)
                   else .ok (none, cand t (sps.drop cur) cur)) := by
    unfold spData
    rw [hne]
    simp only [Bool.false_eq_true, if_false]
    rw [if_neg (by omega)]
    rfl
  rw [hcomp]
  generalize cand t (sps.drop cur) cur = c at *
  have hclt : c < sps.length := by omega
  -- every phrase before `c` is over
  have hover : ∀ j, j < c → ∀ p, sps[j]? = some p → p.after t = true := by
    intro j hj p hp
    by_cases hjc : j < cur
    · exact hbefore j hjc p hp
    · apply c3 (j - cur) (by omega) p
      rw [List.getElem?_drop]; rw [show cur + (j - cur) = j by omega]; exact hp
  rw [List.getElem?_eq_getElem hclt]
  simp only []
  refine ⟨c, ?_, hclt, hover⟩
  by_cases hd : (sps[c]).during t = true
  · rw [if_pos hd]
    have := firstIdx_some (fun p => p.during t) sps 0 c sps[c]
      (fun j hj x hx => not_during_of_after (hover j hj x hx)) (List.getElem?_eq_getElem hclt) hd
    unfold firstCovering; rw [this]; simp
  · rw [if_neg hd]
    have hd' : (sps[c]).during t = false := by simpa using hd
    have hnone : firstCovering t sps = none := by
      apply firstIdx_none
      intro j x hx
      by_cases hj : j < c
      · exact not_during_of_after (hover j hj x hx)
      · by_cases hjc : j = c
        · subst hjc; rw [List.getElem?_eq_getElem hclt] at hx; injection hx with hx; subst hx; exact hd'
        · -- j > c: the scan stopped at `c` because that phrase is not over, so it starts after `t`
          have hjlt : j < sps.length := by
            by_cases h : j < sps.length
            · exact h
            · rw [List.getElem?_eq_none (by omega)] at hx; cases hx
          have hnotafter : (sps[c]).after t = false := by
            apply c4 (by omega) sps[c]
            rw [List.getElem?_drop, show cur + (c - cur) = c by omega]; exact List.getElem?_eq_getElem hclt
          have hstart : t < (sps[c]).tick := by
            unfold Phrase.during at hd'; simp [hnotafter] at hd'; exact hd'
          have hle : (sps[c]).tick ≤ (sps[j]).tick := by
            have := List.pairwise_iff_getElem.mp hs c j hclt hjlt (by omega)
            exact this
          rw [List.getElem?_eq_getElem hjlt] at hx; injection hx with hx; subst hx
          unfold Phrase.during; simp; omega
    rw [hnone]

/-- C05 for a whole track: notes in increasing tick order, cursor threaded from note to note -/
theorem run_spec (sps : List Phrase) (hs : sps.Pairwise (fun a b => a.tick ≤ b.tick))
    (ts : List Nat) (hts : ts.Pairwise (· ≤ ·)) (cur : Nat)
    (hinv : ∀ t ∈ ts, Inv sps cur t) :
    run sps ts cur = some (ts.map fun t => firstCovering t sps) := by
  induction ts generalizing cur with
  | nil => rfl
  | cons t ts ih =>
    obtain ⟨c, hcomp, hinv'⟩ := compute_spec sps hs t cur (hinv t (by simp))
    simp only [run, hcomp]
    rw [List.pairwise_cons] at hts
    rw [ih hts.2 c]
    · simp
    · intro t' ht'
      exact ⟨hinv'.1, fun j hj p hp => after_mono (hts.1 t' ht') (hinv'.2 j hj p hp)⟩

theorem run_empty (ts : List Nat) (cur : Nat) : run [] ts cur = some (ts.map fun _ => none) := by
  induction ts generalizing cur with
  | nil => rfl
  | cons t ts ih =>
    have : spData t [] cur = .ok (none, 0) := rfl
    simp only [run, this, ih 0]; simp

/-- C05 as the code starts it: cursor 0, any phrase list ordered by start tick, notes in tick order -/
theorem C05 (sps : List Phrase) (hs : sps.Pairwise (fun a b => a.tick ≤ b.tick))
    (ts : List Nat) (hts : ts.Pairwise (· ≤ ·)) :
    run sps ts 0 = some (ts.map fun t => firstCovering t sps) := by
  cases sps with
  | nil =>
    rw [run_empty]; rfl
  | cons p ps =>
    apply run_spec _ hs ts hts 0
    intro t _
    exact ⟨by simp, fun j hj => by omega⟩

/-- non-vacuity: nested, touching and zero-length phrases; notes on start-1, start, end-1, end -/
example : run [⟨2, 4⟩, ⟨3, 0⟩, ⟨3, 2⟩, ⟨6, 2⟩] [1, 2, 5, 6, 7, 8] 0
    = some [none, some 0, some 0, some 3, some 3, none] := by decide

end Chartparse.Inst
