import Chartparse.Proofs.TrackProofs
import Chartparse.Proofs.ChainProofs
import Chartparse.Proofs.C01Compose
/-! C03: the per-lane list as a closed formula, the longest sustain as a maximum, end time never before start. -/
namespace Chartparse.Inst
open Chartparse Chartparse.Tempo

def fillStep (acc : List (Option Nat)) (d : NDatum) : List (Option Nat) :=
  if d.idx ≤ 4 then acc.set d.idx (some d.sus) else acc

theorem fill_eq (g : List NDatum) : fill g = g.foldl fillStep [none, none, none, none, none] := rfl

theorem fillStep_length (acc : List (Option Nat)) (d : NDatum) : (fillStep acc d).length = acc.length := by
  unfold fillStep; split <;> simp

theorem foldl_fillStep_length (g : List NDatum) (acc : List (Option Nat)) :
    (g.foldl fillStep acc).length = acc.length := by
  induction g generalizing acc with
  | nil => rfl
  | cons d g ih => rw [List.foldl_cons, ih, fillStep_length]

/-- the per-lane list always has the five lane slots -/
theorem fill_length (g : List NDatum) : (fill g).length = 5 := by
  rw [fill_eq, foldl_fillStep_length]; rfl

theorem foldl_fillStep_get (g : List NDatum) (acc : List (Option Nat)) (i : Nat) (hi : i < acc.length) (hi4 : i ≤ 4) :
    (g.foldl fillStep acc)[i]? =
      match (g.filter (fun d => d.idx == i)).getLast? with
      | some d => some (some d.sus)
      | none => acc[i]? := by
  induction g generalizing acc with
  | nil => rfl
  | cons d g ih =>
    rw [List.foldl_cons, ih _ (by rw [fillStep_length]; exact hi)]
    by_cases hd : d.idx = i
    · have hf : (d :: g).filter (fun d => d.idx == i) = d :: g.filter (fun d => d.idx == i) := by
        simp [List.filter_cons, hd]
      rw [hf]
      cases hl : (g.filter (fun d => d.idx == i)).getLast? with
      | some x =>
        have : (d :: g.filter (fun d => d.idx == i)).getLast? = some x := by
          rw [List.getLast?_cons]; simp [hl]
        rw [this]
      | none =>
        have hnil : g.filter (fun d => d.idx == i) = [] := by simpa using hl
        rw [hnil]
        simp only [List.getLast?_singleton]
        unfold fillStep
        rw [if_pos (by omega), hd]
        simp [hi]
    · have hf : (d :: g).filter (fun d => d.idx == i) = g.filter (fun d => d.idx == i) := by
        simp [List.filter_cons, hd]
      rw [hf]
      cases hl : (g.filter (fun d => d.idx == i)).getLast? with
      | some x => rfl
      | none =>
        simp only []
        unfold fillStep
        split
        · rw [List.getElem?_set_ne hd]
        · rfl

/-- **C03, the per-lane list**: slot `i` (0..4) holds the length written on the *last* line of the group for lane `i`,
    and nothing when the group has no line for that lane; lines with index 5, 6, 7 never appear in it -/
theorem fill_spec (g : List NDatum) (i : Nat) (hi : i ≤ 4) :
    (fill g)[i]? = some (((g.filter (fun d => d.idx == i)).getLast?).map (·.sus)) := by
  rw [fill_eq, foldl_fillStep_get g _ i (by simp; omega) hi]
  cases (g.filter (fun d => d.idx == i)).getLast? with
  | some d => rfl
  | none =>
    simp only [Option.map_none]
    have : i = 0 ∨ i = 1 ∨ i = 2 ∨ i = 3 ∨ i = 4 := by omega
    rcases this with h | h | h | h | h <;> subst h <;> rfl

/-- a slot is occupied exactly when the lane is active -/
theorem fill_active (g : List NDatum) (i : Nat) (hi : i ≤ 4) :
    ((fill g)[i]?.bind id).isSome = (g.any fun d => d.idx == i) := by
  rw [fill_spec g i hi]
  simp only [Option.bind_some, id]
  cases hl : (g.filter (fun d => d.idx == i)).getLast? with
  | some d =>
    have hm := List.mem_of_getLast? hl
    have := List.mem_filter.mp hm
    simp only [Option.map_some, Option.isSome_some]
    symm; rw [List.any_eq_true]; exact ⟨d, this.1, this.2⟩
  | none =>
    have hnil : g.filter (fun d => d.idx == i) = [] := by simpa using hl
    simp only [Option.map_none, Option.isSome_none]
    symm; rw [Bool.eq_false_iff]; intro h
    rw [List.any_eq_true] at h
    obtain ⟨d, hd, hdi⟩ := h
    have : d ∈ g.filter (fun d => d.idx == i) := List.mem_filter.mpr ⟨hd, hdi⟩
    rw [hnil] at this; cases this

theorem foldl_natmax_spec (xs : List Nat) (x : Nat) :
    (∀ y ∈ x :: xs, y ≤ xs.foldl max x) ∧ xs.foldl max x ∈ x :: xs := by
  induction xs generalizing x with
  | nil => simp
  | cons a xs ih =>
    rw [List.foldl_cons]
    obtain ⟨h1, h2⟩ := ih (max x a)
    constructor
    · intro y hy
      have hm : max x a ≤ xs.foldl max (max x a) := h1 _ (by simp)
      rcases List.mem_cons.mp hy with rfl | hy
      · omega
      · rcases List.mem_cons.mp hy with rfl | hy
        · omega
        · exact h1 y (by simp [hy])
    · rcases List.mem_cons.mp h2 with h | h
      · rw [h]
        by_cases hxa : x ≤ a
        · rw [Nat.max_eq_right hxa]; simp
        · rw [Nat.max_eq_left (by omega)]; simp
      · simp [h]

/-- **C03, longest sustain of a tuple** is the maximum over the occupied slots (attained) -/
theorem longest_tuple (l : List (Option Nat)) (m : Nat) (h : longest (.tuple l) = .ok m) :
    (∀ x, some x ∈ l → x ≤ m) ∧ some m ∈ l := by
  unfold longest at h
  simp only [] at h
  cases hf : l.filterMap id with
  | nil => rw [hf] at h; cases h
  | cons x xs =>
    rw [hf] at h
    injection h with h
    obtain ⟨h1, h2⟩ := foldl_natmax_spec xs x
    rw [h] at h1 h2
    have hmem : ∀ y, some y ∈ l ↔ y ∈ x :: xs := by
      intro y; rw [← hf, List.mem_filterMap]; simp
    exact ⟨fun y hy => h1 y ((hmem y).mp hy), (hmem m).mpr h2⟩

/-- **C03, longest sustain of whatever `refine` reports**: always defined; the maximum lane length, attained by an active
    lane — or zero when no lane is active -/
theorem longest_refine (l : List (Option Nat)) :
    ∃ m, longest (refine l) = .ok m ∧ (∀ x, some x ∈ l → x ≤ m) ∧ (some m ∈ l ∨ (m = 0 ∧ ∀ d ∈ l, d = none)) := by
  unfold refine
  cases hf : l.find? Option.isSome with
  | none =>
    have hnone : ∀ d ∈ l, d = none := by
      intro d hd
      have := List.find?_eq_none.mp hf d hd
      cases d <;> simp_all
    refine ⟨0, rfl, ?_, Or.inr ⟨rfl, hnone⟩⟩
    intro x hx; have := hnone _ hx; cases this
  | some o =>
    have hmem := List.mem_of_find?_eq_some hf
    have hsome := List.find?_some hf
    cases o with
    | none => cases hsome
    | some f =>
      simp only []
      by_cases hall : l.all (fun d => d.isNone || d == some f) = true
      · rw [if_pos hall]
        refine ⟨f, rfl, ?_, Or.inl hmem⟩
        intro x hx
        have := List.all_eq_true.mp hall _ hx
        simp at this; omega
      · rw [if_neg hall]
        have hne : l.filterMap id ≠ [] := by
          intro h
          have : f ∈ l.filterMap id := by rw [List.mem_filterMap]; exact ⟨some f, hmem, rfl⟩
          rw [h] at this; cases this
        cases hfm : l.filterMap id with
        | nil => exact absurd hfm hne
        | cons x xs =>
          have hl : longest (.tuple l) = .ok (xs.foldl max x) := by
            unfold longest; simp only []; rw [hfm]
          obtain ⟨h1, h2⟩ := longest_tuple l _ hl
          exact ⟨_, hl, h1, Or.inl h2⟩

/-- **C03, end of a note**: for every note the track builder returns on a map the code accepts, the end tick is
    `tick + longest sustain`, the end timestamp is the (hint-free) tempo-map time of that end tick, and it is never
    before the start timestamp -/
theorem note_end_spec (res : Nat) (raw : List (Nat × Rat)) (evs : List BpmEv) (hb : buildMap (res : Int) raw = .ok evs)
    (sps : List Phrase) (g : List NDatum) (prev : Option NoteEv) (bidx sidx : Nat) (r : NoteEv × Nat × Nat)
    (h : buildNote (res : Int) evs sps g prev bidx sidx = .ok r) :
    ∃ lg ge, longest r.1.sustain = .ok lg ∧
      tsAt (res : Int) evs ((r.1.tick + lg : Nat) : Int) 0 = .ok (r.1.endTs, ge) ∧
      tsAt (res : Int) evs (r.1.tick : Int) 0 = .ok (r.1.ts, r.1.idx) ∧
      r.1.ts ≤ r.1.endTs := by
  have sp := buildNote_spec _ _ _ _ _ _ _ _ h
  obtain ⟨hr, _, hlink, _⟩ := buildMap_shape _ _ _ hb
  have hs := sorted_of_linked _ _ hlink
  obtain ⟨lg, ge, hlg, hend⟩ := sp.endTs
  have h0 := tsAt_hint_indep _ _ hs _ _ _ sp.ts
  have h1 := tsAt_hint_indep _ _ hs _ _ _ hend
  rw [← sp.tick] at h0 h1
  refine ⟨lg, ge, hlg, h1, h0, ?_⟩
  exact C12_mono res raw evs hb r.1.tick (r.1.tick + lg) (by omega) _ _ _ _ h0 h1

end Chartparse.Inst
