import Chartparse.Model.Render
import Chartparse.Proofs.C18Proofs
/-! C18, rendering half (partial): the modelled `__str__` family never reaches its `KeyError` point. -/
namespace Chartparse.Render
open Chartparse Chartparse.Inst

/-- the state-letter table covers every `HOPOState` member (obligation on the regenerated enum) -/
theorem hopoLetter_ok : hopoLetter .strum = .ok (cp "S") ∧ hopoLetter .hopo = .ok (cp "H") ∧ hopoLetter .tap = .ok (cp "T") := by
  decide

theorem hopoLetter_ni (h : Hopo) : NI (hopoLetter h) := by
  obtain ⟨h1, h2, h3⟩ := hopoLetter_ok
  cases h
  · rw [h1]; exact NI_ok _
  · rw [h2]; exact NI_ok _
  · rw [h3]; exact NI_ok _

theorem noteStr_ni (l : List Bool) : NI (noteStr l) := by
  unfold noteStr; split
  · exact NI_ok _
  · exact NI_ve

theorem noteEvStr_ni (n : NoteEv) : NI (noteEvStr n) := by
  unfold noteEvStr
  apply NI_bind _ _ (noteStr_ni _); intro _ _
  apply NI_bind _ _ (hopoLetter_ni _); intro _ _
  exact NI_ok _

theorem mapM'_ni {α} (f : α → M Str) (hf : ∀ a, NI (f a)) (l : List α) : NI (mapM' f l) := by
  induction l with
  | nil => exact NI_ok _
  | cons a as ih =>
    unfold mapM'
    apply NI_bind _ _ (hf a); intro _ _
    exact NI_bind _ _ ih (fun _ _ => NI_ok _)

/-- every modelled rendering of every chart succeeds or fails with a documented class — never an internal error -/
theorem renderAll_ni (c : Chart) (tracks : List RoutedTrack) : NI (renderAll c tracks) := by
  unfold renderAll
  apply NI_bind
  · apply mapM'_ni
    intro t
    exact NI_bind _ _ (mapM'_ni _ noteEvStr_ni _) (fun _ _ => NI_ok _)
  · intro _ _; exact NI_ok _

/-- with a total `Note` table the note rendering succeeds outright for every 5-lane list the model can produce -/
theorem noteStr_total : (Gen.noteTable.map (·.1)).all (fun l => (noteStr l).toOption.isSome) = true := by decide

end Chartparse.Render
