import Chartparse.Model.Instrument
/-! Model of the grouping loop of `_build_note_events_from_data` and the C02 theorems (core Lean only). -/
namespace Chartparse.Inst
open Chartparse

theorem groups_flatten (ds : List NDatum) : (groups ds).flatten = ds := by
  induction ds with
  | nil => rfl
  | cons d ds ih =>
    unfold groups
    split
    · rename_i e g gs heq
      rw [heq] at ih
      split <;> simp [List.flatten_cons] at ih ⊢ <;> exact ih
    · rename_i hne
      cases hg : groups ds with
      | nil => rw [hg] at ih; simp at ih; simp [ih]
      | cons g gs =>
        cases g with
        | nil =>
          -- a head group is never empty; derive it from the definition
          exfalso
          cases ds with
          | nil => simp [groups] at hg
          | cons d' ds' =>
            unfold groups at hg
            split at hg
            · split at hg <;> cases hg
            · cases hg
        | cons e g => exact absurd hg (hne e g gs)

/-- every group is non-empty and carries one tick -/
theorem groups_uniform (ds : List NDatum) :
    ∀ g ∈ groups ds, ∃ d, ∃ r, g = d :: r ∧ ∀ x ∈ r, x.tick = d.tick := by
  induction ds with
  | nil => intro g hg; cases hg
  | cons d ds ih =>
    intro g hg
    unfold groups at hg
    split at hg
    · rename_i e g' gs heq
      have he := ih (e :: g') (by rw [heq]; simp)
      obtain ⟨e0, r0, h0, hr0⟩ := he
      cases h0
      split at hg
      · rename_i htick
        rcases List.mem_cons.mp hg with rfl | hg
        · refine ⟨d, e :: g', rfl, ?_⟩
          intro x hx
          rcases List.mem_cons.mp hx with rfl | hx
          · exact htick
          · rw [hr0 x hx]; exact htick
        · exact ih g (by rw [heq]; simp [hg])
      · rcases List.mem_cons.mp hg with rfl | hg
        · exact ⟨d, [], rfl, by intro x hx; cases hx⟩
        · exact ih g (by rw [heq]; exact hg)
    · simp at hg; subst hg
      exact ⟨d, [], rfl, by intro x hx; cases hx⟩

/-- the tick of each group, in order -/
def groupTicks (ds : List NDatum) : List Nat := (groups ds).filterMap fun g => g.head?.map (·.tick)

theorem groups_cons (d : NDatum) (ds : List NDatum) :
    groups (d :: ds) = match groups ds with
      | (e :: g) :: gs => if e.tick = d.tick then (d :: e :: g) :: gs else [d] :: (e :: g) :: gs
      | _ => [[d]] := by
  rw [groups]; rfl

/-- with note lines in non-decreasing tick order, one event per distinct tick, strictly increasing -/
theorem groupTicks_strict (ds : List NDatum) (hs : ds.Pairwise (fun a b => a.tick ≤ b.tick)) :
    (groupTicks ds).Pairwise (· < ·) ∧ ∀ t ∈ groupTicks ds, ∃ d ∈ ds, d.tick = t := by
  induction ds with
  | nil => exact ⟨List.Pairwise.nil, by intro t ht; cases ht⟩
  | cons d ds ih =>
    rw [List.pairwise_cons] at hs
    obtain ⟨ih1, ih2⟩ := ih hs.2
    have hflat := groups_flatten ds
    unfold groupTicks at ih1 ih2 ⊢
    rw [groups_cons]
    cases hg : groups ds with
    | nil =>
      simp only [List.filterMap_cons, List.head?_cons, Option.map_some, List.filterMap_nil]
      exact ⟨List.pairwise_singleton _ _, by intro t ht; simp at ht; subst ht; exact ⟨d, by simp, rfl⟩⟩
    | cons g0 gs =>
      cases g0 with
      | nil =>
        simp only [List.filterMap_cons, List.head?_cons, Option.map_some, List.filterMap_nil]
        exact ⟨List.pairwise_singleton _ _, by intro t ht; simp at ht; subst ht; exact ⟨d, by simp, rfl⟩⟩
      | cons e g =>
        rw [hg] at ih1 ih2 hflat
        simp only [List.filterMap_cons, List.head?_cons, Option.map_some] at ih1 ih2
        have hemem : e ∈ ds := by rw [← hflat]; simp
        have hde := hs.1 e hemem
        simp only []
        split
        · rename_i htick
          simp only [List.filterMap_cons, List.head?_cons, Option.map_some]
          rw [htick] at ih1 ih2
          refine ⟨ih1, ?_⟩
          intro t ht
          rcases List.mem_cons.mp ht with rfl | _
          · exact ⟨d, by simp, rfl⟩
          · obtain ⟨x, hx, hxt⟩ := ih2 t ht
            exact ⟨x, by simp [hx], hxt⟩
        · rename_i htick
          simp only [List.filterMap_cons, List.head?_cons, Option.map_some]
          refine ⟨?_, ?_⟩
          · rw [List.pairwise_cons]
            refine ⟨?_, ih1⟩
            intro t ht
            rw [List.pairwise_cons] at ih1
            rcases List.mem_cons.mp ht with rfl | ht'
            · omega
            · have := ih1.1 t ht'; omega
          · intro t ht
            rcases List.mem_cons.mp ht with rfl | ht'
            · exact ⟨d, by simp, rfl⟩
            · obtain ⟨x, hx, hxt⟩ := ih2 t ht'
              exact ⟨x, by simp [hx], hxt⟩

/-- lanes are exactly the lanes written on that tick's lines -/
theorem lanes_spec (g : List NDatum) (l : Nat) (hl : l < 5) :
    (lanes g)[l]? = some (g.any fun d => d.idx == l) := by
  unfold lanes
  simp [List.getElem?_map, List.getElem?_range hl]

example : groups [⟨0, 0, 0⟩, ⟨0, 2, 0⟩, ⟨5, 7, 9⟩, ⟨6, 1, 0⟩, ⟨6, 5, 0⟩, ⟨6, 4, 3⟩]
    = [[⟨0, 0, 0⟩, ⟨0, 2, 0⟩], [⟨5, 7, 9⟩], [⟨6, 1, 0⟩, ⟨6, 5, 0⟩, ⟨6, 4, 3⟩]] := by decide

end Chartparse.Inst
