import Chartparse.Model.Tempo
/-! The hint theorems of C11 about `Tempo.indexOfProximal` (core Lean only). -/
namespace Chartparse.Tempo
open Chartparse

/-- the governing index promised by the property: (number of leading events at or before `tick`) - 1 -/
def before (tick : Int) (ticks : List Nat) : List Nat := ticks.takeWhile fun e => decide ((e : Int) ≤ tick)

theorem scan_eq (tick : Int) (es : List Nat) (i : Nat) :
    scan tick es i = i + (before tick es).length := by
  induction es generalizing i with
  | nil => simp [scan, before]
  | cons e es ih =>
    unfold scan before
    by_cases h : (e : Int) > tick
    · have : ¬ ((e : Int) ≤ tick) := by omega
      simp [h, this]
    · have h' : (e : Int) ≤ tick := by omega
      simp only [h, if_false, List.takeWhile_cons, h', decide_true, if_true, List.length_cons]
      rw [ih]; unfold before; omega

/-- in a strictly increasing list, everything before a member at or before `tick` is at or before `tick` -/
theorem sorted_prefix {ticks : List Nat} (hs : ticks.Pairwise (· < ·)) {s : Nat} {x : Nat} {tick : Int}
    (hx : ticks[s]? = some x) (hle : (x : Int) ≤ tick) : s < (before tick ticks).length := by
  induction ticks generalizing s with
  | nil => simp at hx
  | cons e es ih =>
    rw [List.pairwise_cons] at hs
    cases s with
    | zero =>
      simp at hx; subst hx
      simp [before, hle]
    | succ s =>
      simp at hx
      have hmem : x ∈ es := List.mem_of_getElem? hx
      have hex : e < x := hs.1 x hmem
      have hele : (e : Int) ≤ tick := by omega
      have := ih hs.2 hx
      simp only [before, List.takeWhile_cons, hele, decide_true, if_true, List.length_cons]
      unfold before at this; omega

theorem before_drop {ticks : List Nat} {tick : Int} {s : Nat} (h : s ≤ (before tick ticks).length) :
    before tick (ticks.drop s) = (before tick ticks).drop s := by
  induction ticks generalizing s with
  | nil => simp [before]
  | cons e es ih =>
    cases s with
    | zero => simp
    | succ s =>
      by_cases hle : (e : Int) ≤ tick
      · simp only [before, List.takeWhile_cons, hle, decide_true, if_true, List.length_cons] at h ⊢
        simp only [List.drop_succ_cons]
        exact ih (by unfold before; omega)
      · simp [before, hle] at h

theorem length_takeWhile_le' {α} (p : α → Bool) (l : List α) : (l.takeWhile p).length ≤ l.length := by
  induction l with
  | nil => simp
  | cons a as ih => simp only [List.takeWhile_cons]; split <;> simp <;> omega

theorem mem_takeWhile_imp' {α} {p : α → Bool} {l : List α} {x : α} (h : x ∈ l.takeWhile p) : p x = true := by
  induction l with
  | nil => simp at h
  | cons a as ih =>
    simp only [List.takeWhile_cons] at h
    split at h
    · rcases List.mem_cons.mp h with rfl | h'
      · assumption
      · exact ih h'
    · simp at h

theorem takeWhile_getElem? {α} (p : α → Bool) (l : List α) (i : Nat) (h : i < (l.takeWhile p).length) :
    (l.takeWhile p)[i]? = l[i]? := by
  induction l generalizing i with
  | nil => simp at h
  | cons a as ih =>
    by_cases hp : p a = true
    · simp only [List.takeWhile_cons, hp, if_true, List.length_cons] at h ⊢
      cases i with
      | zero => simp
      | succ i => simp only [List.getElem?_cons_succ]; exact ih i (by omega)
    · simp [List.takeWhile_cons, hp] at h

/-- C11, hint invariance: any hint not beyond the governing event gives the governing index -/
theorem hint_invariant {ticks : List Nat} (hs : ticks.Pairwise (· < ·)) {tick : Int} {start : Nat}
    (h : start < (before tick ticks).length) :
    indexOfProximal ticks tick start = .ok ((before tick ticks).length - 1) := by
  have hlen : (before tick ticks).length ≤ ticks.length := by
    unfold before; exact length_takeWhile_le' _ _
  have hst : start < ticks.length := by omega
  unfold indexOfProximal
  rw [if_neg (by omega)]
  have hget : ticks[start]? = some ticks[start] := List.getElem?_eq_getElem hst
  rw [hget]
  -- the event at `start` lies in the prefix, so it is at or before `tick`
  have hmem : ticks[start] ∈ before tick ticks := by
    have : (before tick ticks)[start]? = some ticks[start] := by
      unfold before at h ⊢
      rw [takeWhile_getElem? _ _ _ h, hget]
    exact List.mem_of_getElem? this
  have hle : ((ticks[start] : Nat) : Int) ≤ tick := by
    have := mem_takeWhile_imp' hmem
    simpa using this
  simp only []
  rw [if_neg (by omega)]
  rw [scan_eq, before_drop (by omega)]
  simp; omega

/-- C11, hint rejection: a hint beyond the governing event (or beyond the list) is a `ValueError` -/
theorem hint_reject {ticks : List Nat} (hs : ticks.Pairwise (· < ·)) {tick : Int} {start : Nat}
    (h : (before tick ticks).length ≤ start) :
    indexOfProximal ticks tick start = .error .valueError := by
  unfold indexOfProximal
  by_cases hlen : ticks.length ≤ start
  · rw [if_pos hlen]
  · rw [if_neg hlen]
    have hst : start < ticks.length := by omega
    rw [List.getElem?_eq_getElem hst]
    simp only []
    by_cases hgt : ((ticks[start] : Nat) : Int) > tick
    · rw [if_pos hgt]
    · exfalso
      have := sorted_prefix hs (List.getElem?_eq_getElem hst) (by omega : ((ticks[start] : Nat) : Int) ≤ tick)
      omega

/-- C18 for this function: the `IndexError` branch is unreachable -/
theorem no_internal (ticks : List Nat) (tick : Int) (start : Nat) (w : String) :
    indexOfProximal ticks tick start ≠ .error (.internal w) := by
  unfold indexOfProximal
  by_cases hlen : ticks.length ≤ start
  · rw [if_pos hlen]; intro h; cases h
  · rw [if_neg hlen]
    have hst : start < ticks.length := by omega
    rw [List.getElem?_eq_getElem hst]
    simp only []
    split <;> intro h <;> cases h

/-- the index returned is the last event at or before the tick -/
theorem governing_spec {ticks : List Nat} (hs : ticks.Pairwise (· < ·)) {tick : Int} {g : Nat}
    (h : indexOfProximal ticks tick 0 = .ok g) :
    (∃ x, ticks[g]? = some x ∧ (x : Int) ≤ tick) ∧ ∀ y, ticks[g + 1]? = some y → tick < (y : Int) := by
  by_cases hb : 0 < (before tick ticks).length
  · rw [hint_invariant hs hb] at h
    injection h with h; subst h
    have hlen := length_takeWhile_le' (fun (e : Nat) => decide ((e : Int) ≤ tick)) ticks
    have hg : (before tick ticks).length - 1 < (before tick ticks).length := by omega
    constructor
    · have e := takeWhile_getElem? (fun (e : Nat) => decide ((e : Int) ≤ tick)) ticks _ hg
      have hlt : (before tick ticks).length - 1 < ticks.length := by unfold before at hg ⊢; omega
      refine ⟨ticks[(before tick ticks).length - 1], List.getElem?_eq_getElem hlt, ?_⟩
      have hm : ticks[(before tick ticks).length - 1] ∈ before tick ticks := by
        apply List.mem_of_getElem? (i := (before tick ticks).length - 1)
        unfold before at e ⊢; rw [e]; exact List.getElem?_eq_getElem hlt
      simpa using mem_takeWhile_imp' hm
    · intro y hy
      by_cases hcon : tick < (y : Int)
      · exact hcon
      · exfalso
        have := sorted_prefix hs hy (by omega : (y : Int) ≤ tick)
        omega
  · rw [hint_reject hs (by omega)] at h; cases h

/-- whatever hint was supplied, a successful scan returned what the un-hinted scan returns -/
theorem ok_hint_indep {ticks : List Nat} (hs : ticks.Pairwise (· < ·)) {tick : Int} {h g : Nat}
    (hok : indexOfProximal ticks tick h = .ok g) : indexOfProximal ticks tick 0 = .ok g := by
  by_cases hb : h < (before tick ticks).length
  · rw [hint_invariant hs hb] at hok
    rw [hint_invariant hs (by omega)]; exact hok
  · rw [hint_reject hs (by omega)] at hok; cases hok

/-- the per-kind event builder: each event's scan starts at the previous event's index
    (`prev_event._proximal_bpm_event_index if prev_event else 0`) -/
def buildChain (ticks : List Nat) : List Nat → Nat → Except PyErr (List (Nat × Nat))
  | [], _ => .ok []
  | t :: ts, h =>
    match indexOfProximal ticks (t : Int) h with
    | .error e => .error e
    | .ok g =>
      match buildChain ticks ts g with
      | .error e => .error e
      | .ok rest => .ok ((t, g) :: rest)

/-- C11 for body lines in any order whatsoever: loud failure, or every stored index is the un-hinted one -/
theorem chain_any_order {ticks : List Nat} (hs : ticks.Pairwise (· < ·)) (evs : List Nat) (h : Nat) :
    buildChain ticks evs h = .error .valueError ∨
    ∃ out, buildChain ticks evs h = .ok out ∧ out.map (·.1) = evs ∧
      ∀ p ∈ out, indexOfProximal ticks (p.1 : Int) 0 = .ok p.2 := by
  induction evs generalizing h with
  | nil => right; exact ⟨[], rfl, rfl, by intro p hp; cases hp⟩
  | cons t ts ih =>
    unfold buildChain
    cases hidx : indexOfProximal ticks (t : Int) h with
    | error e =>
      left
      cases e with
      | valueError => rfl
      | regexNotMatch => exfalso; unfold indexOfProximal at hidx; repeat (first | split at hidx | cases hidx)
      | missingRequiredField => exfalso; unfold indexOfProximal at hidx; repeat (first | split at hidx | cases hidx)
      | internal w => exact absurd hidx (no_internal ticks t h w)
    | ok g =>
      simp only []
      rcases ih g with herr | ⟨out, hout, hmap, hall⟩
      · left; rw [herr]
      · right
        refine ⟨(t, g) :: out, by rw [hout], by simp [hmap], ?_⟩
        intro p hp
        rcases List.mem_cons.mp hp with rfl | hp
        · exact ok_hint_indep hs hidx
        · exact hall p hp

end Chartparse.Tempo
