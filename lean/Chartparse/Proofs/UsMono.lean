import Chartparse.Proofs.Mono
namespace Chartparse.F64

theorem fl_million : fl 1000000 = 1000000 := by decide +kernel

theorem floor_mono {x y : Rat} (h : x ≤ y) : x.floor ≤ y.floor :=
  Rat.le_floor_iff.mpr (le_trans (Rat.floor_le x) h)

/-- the value that `timedelta` rounds: exact integer part, rounded scaled fraction -/
def usPre (s : Rat) : Rat :=
  let i := s.floor
  let f := s - (i : Rat)
  if f = 0 then (i : Rat) * 1000000 else (i : Rat) * 1000000 + fl (1000000 * f)

theorem usOfSeconds_eq (s : Rat) : usOfSeconds s = rhe (usPre s) := by
  unfold usOfSeconds usPre
  simp only []
  split_ifs with h
  · -- an integer is its own rounding
    have : rhe ((s.floor : Rat) * 1000000) = s.floor * 1000000 := by
      have e : ((s.floor : Rat) * 1000000) = ((s.floor * 1000000 : Int) : Rat) := by push_cast; ring
      rw [e]
      apply le_antisymm
      · exact rhe_le_of_le_int _ _ (le_refl _)
      · exact le_rhe_of_int_le _ _ (le_refl _)
    rw [this]
  · rfl

theorem usPre_bounds (s : Rat) :
    (s.floor : Rat) * 1000000 ≤ usPre s ∧ usPre s ≤ ((s.floor : Rat) + 1) * 1000000 := by
  unfold usPre
  have h1 : ((s.floor : Int) : Rat) ≤ s := Rat.floor_le s
  have h2 : s < (s.floor : Rat) + 1 := by
    have := Rat.lt_floor_add_one s; push_cast at this; exact this
  simp only []
  split_ifs with h
  · constructor <;> nlinarith
  · have hf : 1000000 * (s - (s.floor : Rat)) ≤ 1000000 := by nlinarith
    have := fl_mono hf
    rw [fl_million] at this
    have hn := fl_nonneg (1000000 * (s - (s.floor : Rat)))
    constructor <;> nlinarith

theorem usPre_mono {s s' : Rat} (h : s ≤ s') : usPre s ≤ usPre s' := by
  have hfl := floor_mono h
  rcases lt_or_eq_of_le hfl with hlt | heq
  · -- different integer parts: separated by a multiple of 10^6
    have h1 := (usPre_bounds s).2
    have h2 := (usPre_bounds s').1
    have : ((s.floor : Rat) + 1) ≤ (s'.floor : Rat) := by
      have : s.floor + 1 ≤ s'.floor := by omega
      exact_mod_cast this
    nlinarith
  · -- same integer part: compare the fractions
    unfold usPre
    simp only []
    rw [heq]
    have hff : s - (s'.floor : Rat) ≤ s' - (s'.floor : Rat) := by linarith
    have hs0 : 0 ≤ s - (s'.floor : Rat) := by
      have := Rat.floor_le s; rw [heq] at this; linarith
    split_ifs with ha hb hb
    · exact le_refl _
    · have := fl_nonneg (1000000 * (s' - (s'.floor : Rat))); linarith
    · exfalso
      have : s - (s'.floor : Rat) = 0 := le_antisymm (by linarith) hs0
      exact ha this
    · have := fl_mono (show 1000000 * (s - (s'.floor : Rat)) ≤ 1000000 * (s' - (s'.floor : Rat)) by linarith)
      linarith

theorem usOfSeconds_mono {s s' : Rat} (h : s ≤ s') : usOfSeconds s ≤ usOfSeconds s' := by
  rw [usOfSeconds_eq, usOfSeconds_eq]; exact rhe_mono (usPre_mono h)

theorem usOfSeconds_nonneg {s : Rat} (h : 0 ≤ s) : 0 ≤ usOfSeconds s := by
  have := usOfSeconds_mono h
  have h0 : usOfSeconds 0 = 0 := by decide +kernel
  omega

/-- the duration of `Δ` ticks is monotone in `Δ` (same tempo, same resolution) -/
theorem secsFromTicks_mono {a b : Nat} (h : a ≤ b) (bpm : Rat) (res : Nat) :
    secsFromTicks a bpm res ≤ secsFromTicks b bpm res := by
  unfold secsFromTicks
  apply fl_mono
  apply mul_le_mul_of_nonneg_right _ (fl_nonneg _)
  apply fl_mono
  exact_mod_cast h

theorem secsFromTicks_nonneg (a : Nat) (bpm : Rat) (res : Nat) : 0 ≤ secsFromTicks a bpm res := fl_nonneg _

end Chartparse.F64
