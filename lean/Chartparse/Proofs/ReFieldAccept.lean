import Chartparse.Proofs.ReField
/-! Acceptance for every value class of the field recogniser factory: quoted values verbatim, unquoted values
    (numbers, single words, the Player2 spelling) captured whole. -/
namespace Chartparse.Rx
open Chartparse

/-- quoted: the value between the first quote and the *last* quote is captured verbatim, for every value class -/
theorem field_quoted_verbatim (vs : CSet) (a : Nat) (name' p v q : Str) (ha : CSet.space.test a = false)
    (hp : AllIn .space p) (hv : AllIn vs v) (hv0 : v ≠ []) (hq : AllIn .space q) :
    (fieldRe vs (a :: name')).matchGroups (p ++ ((a :: name') ++ [32, 61, 32] ++ (34 :: (v ++ (34 :: q)))))
      = some [(1, v)] := by
  unfold Re.matchGroups fieldRe
  rw [exec_cat]
  apply starLazy_run _ _ p _ _ _ hp
  · intro c t' hc
    rw [exec_cat]
    apply lits_fail_head a
    intro h; subst h; rw [hc] at ha; cases ha
  rw [exec_cat, exec_lits, exec_cat, exec_opt_greedy]
  have hbranch : (Re.chr (.lit 34)).exec
      (fun r1 cs1 => (Re.cat (.group 1 (plusLazy vs)) (.cat (.opt true (.chr (.lit 34))) tailRe)).exec
        (fun _ cs => some cs) r1 cs1) (34 :: (v ++ 34 :: q)) [] = some [(1, v)] := by
    rw [exec_chr_cons, if_pos (by simp), exec_cat, exec_group]
    obtain ⟨d, v', rfl⟩ := List.exists_cons_of_ne_nil hv0
    have hd : vs.test d = true := hv d (by simp)
    have hv' : AllIn vs v' := fun c hc => hv c (by simp [hc])
    unfold plusLazy
    rw [exec_cat, List.cons_append, exec_chr_cons, if_pos hd, exec_star]
    rw [starExec_lazy_skip _ _ v' (34 :: q) hv']
    · apply starExec_lazy_stop
      rw [exec_cat, exec_opt_greedy, exec_chr_cons, if_pos (by simp)]
      rw [tail_ok _ q _ hq (fun _ => rfl) _ rfl]
      simp
      have e : v'.length + (q.length + 1) - q.length = (d :: v').length := by simp; omega
      rw [e, ← List.cons_append]; exact List.take_left' rfl
    · intro i hi
      obtain ⟨c, w, hcw⟩ : ∃ c w, v'.drop i = c :: w := by
        cases h : v'.drop i with
        | nil => simp at h; omega
        | cons c w => exact ⟨c, w, rfl⟩
      rw [hcw]
      apply close_fail
      left; simp
  rw [hbranch]; rfl

/-- after the value: fails in front of a remainder that does not start with a quote and still holds a non-blank -/
theorem close_fail_plain {α} (k : Str → Caps → Option α) (r : Str) (cs : Caps) (hh : r.head? ≠ some 34)
    (hx : ∃ x ∈ r, CSet.space.test x = false) :
    (Re.cat (.opt true (.chr (.lit 34))) tailRe).exec k r cs = none := by
  rw [exec_cat, exec_opt_greedy]
  cases r with
  | nil => obtain ⟨x, hx, _⟩ := hx; cases hx
  | cons c t =>
    rw [exec_chr_cons]
    have hc : ¬ ((CSet.lit 34).test c = true) := by
      intro h; apply hh; have : c = 34 := by simpa using h
      simp [this]
    rw [if_neg hc]; simp only [Option.orElse]
    exact tail_fail _ _ _ hx

/-- after the value: succeeds on trailing blanks without a quote -/
theorem close_ok_plain {α} (k : Str → Caps → Option α) (q : Str) (cs : Caps) (hq : AllIn .space q)
    (hk : ∀ r, k r cs = k [] cs) (v : α) (hv : k [] cs = some v) :
    (Re.cat (.opt true (.chr (.lit 34))) tailRe).exec k q cs = some v := by
  rw [exec_cat, exec_opt_greedy]
  cases q with
  | nil => rw [exec_chr_nil]; simp only [Option.orElse]; exact tail_ok _ _ _ hq hk v hv
  | cons c t =>
    rw [exec_chr_cons]
    have hc : ¬ ((CSet.lit 34).test c = true) := by
      intro h; have : c = 34 := by simpa using h
      have := hq c (by simp); subst_vars; rw [quote_not_space] at this; cases this
    rw [if_neg hc]; simp only [Option.orElse]; exact tail_ok _ _ _ hq hk v hv

/-- unquoted: a value without quotes whose last character is not blank is captured whole (numbers, the Player2 spelling,
    a bare word or several words) -/
theorem field_unquoted (vs : CSet) (a : Nat) (name' p v q : Str) (ha : CSet.space.test a = false)
    (hp : AllIn .space p) (hv : AllIn vs v) (hv0 : v ≠ []) (hnq : ∀ x ∈ v, x ≠ 34)
    (hlast : ∀ x, v.getLast? = some x → CSet.space.test x = false) (hq : AllIn .space q) :
    (fieldRe vs (a :: name')).matchGroups (p ++ ((a :: name') ++ [32, 61, 32] ++ (v ++ q))) = some [(1, v)] := by
  unfold Re.matchGroups fieldRe
  rw [exec_cat]
  apply starLazy_run _ _ p _ _ _ hp
  · intro c t' hc
    rw [exec_cat]
    apply lits_fail_head a
    intro h; subst h; rw [hc] at ha; cases ha
  rw [exec_cat, exec_lits, exec_cat, exec_opt_greedy]
  obtain ⟨d, v', rfl⟩ := List.exists_cons_of_ne_nil hv0
  have hd : vs.test d = true := hv d (by simp)
  have hd34 : ¬ ((CSet.lit 34).test d = true) := by
    intro h; have : d = 34 := by simpa using h
    exact hnq d (by simp) this
  have hv' : AllIn vs v' := fun c hc => hv c (by simp [hc])
  rw [List.cons_append, exec_chr_cons, if_neg hd34]
  simp only [Option.orElse]
  rw [exec_cat, exec_group]
  unfold plusLazy
  rw [exec_cat, exec_chr_cons, if_pos hd, exec_star]
  rw [starExec_lazy_skip _ _ v' q hv']
  · apply starExec_lazy_stop
    rw [close_ok_plain _ q _ hq (fun _ => rfl) _ rfl]
    simp
    have e : v'.length + q.length + 1 - q.length = (d :: v').length := by simp; omega
    rw [e, ← List.cons_append]; exact List.take_left' rfl
  · intro i hi
    obtain ⟨c, w, hcw⟩ : ∃ c w, v'.drop i = c :: w := by
      cases h : v'.drop i with
      | nil => simp at h; omega
      | cons c w => exact ⟨c, w, rfl⟩
    have hcin : c ∈ v' := by
      have : c ∈ v'.drop i := by rw [hcw]; simp
      exact List.mem_of_mem_drop this
    apply close_fail_plain
    · rw [hcw]; simp; intro h; exact hnq c (by simp [hcin]) h
    · -- the last character of the value is still ahead
      have hne : v' ≠ [] := by intro h; subst h; simp at hi
      obtain ⟨l, hl⟩ : ∃ l, v'.getLast? = some l := by
        cases h : v'.getLast? with
        | none => simp at h; exact absurd h hne
        | some l => exact ⟨l, rfl⟩
      have hl' : (d :: v').getLast? = some l := by
        rw [List.getLast?_cons]; simp [hl]
      refine ⟨l, ?_, hlast l hl'⟩
      have : l ∈ v'.drop i := by
        have h1 : (v'.drop i).getLast? = some l := by
          rw [List.getLast?_drop]; simp [hl]; omega
        exact List.mem_of_getLast? h1
      simp [this]

end Chartparse.Rx
