import Chartparse.Proofs.F64Proofs
import Mathlib.Tactic.NormNum
import Mathlib.Tactic.Linarith
import Mathlib.Tactic.Positivity
import Mathlib.Tactic.FieldSimp
import Mathlib.Tactic.GCongr

namespace Chartparse.F64

/-- unit roundoff -/
def u : Rat := 1 / 9007199254740992

theorem pow2_neg53 : pow2 (-53) = u := by
  unfold pow2 u; norm_num [zpow_neg]

/-- `a` approximates `A` with relative error at most `ε` -/
def R (ε a A : Rat) : Prop := A * (1 - ε) ≤ a ∧ a ≤ A * (1 + ε)

theorem R_mono {ε ε' a A : Rat} (hA : 0 ≤ A) (h : ε ≤ ε') (hr : R ε a A) : R ε' a A := by
  obtain ⟨h1, h2⟩ := hr
  constructor <;> nlinarith

theorem R_refl (A : Rat) : R 0 A A := by constructor <;> simp

theorem fl_R (x : Rat) (hx : 0 < x) : R u (fl x) x := by
  have h := fl_rel_err x hx
  rw [pow2_neg53, abs_le] at h
  constructor <;> nlinarith [h.1, h.2]

theorem R_pos {ε a A : Rat} (hA : 0 < A) (hε : ε < 1) (hr : R ε a A) : 0 < a := by
  have : 0 < A * (1 - ε) := by apply mul_pos hA; linarith
  linarith [hr.1]

theorem R_fl {ε a A : Rat} (hA : 0 < A) (hε0 : 0 ≤ ε) (hε : ε < 1) (hr : R ε a A) :
    R (ε + u + ε * u) (fl a) A := by
  have ha := R_pos hA hε hr
  obtain ⟨f1, f2⟩ := fl_R a ha
  obtain ⟨h1, h2⟩ := hr
  have hu : 0 ≤ u := by unfold u; norm_num
  have hu1 : u ≤ 1 := by unfold u; norm_num
  constructor
  · calc A * (1 - (ε + u + ε * u)) ≤ A * (1 - ε) * (1 - u) := by nlinarith [mul_nonneg hε0 hu]
      _ ≤ a * (1 - u) := by apply mul_le_mul_of_nonneg_right h1; linarith
      _ ≤ fl a := f1
  · calc fl a ≤ a * (1 + u) := f2
      _ ≤ A * (1 + ε) * (1 + u) := by apply mul_le_mul_of_nonneg_right h2; linarith
      _ = A * (1 + (ε + u + ε * u)) := by ring

theorem R_mul {ε η a A b B : Rat} (hA : 0 < A) (hB : 0 < B) (hε0 : 0 ≤ ε) (hε : ε < 1)
    (hη0 : 0 ≤ η) (hη : η < 1) (ha : R ε a A) (hb : R η b B) : R (ε + η + ε * η) (a * b) (A * B) := by
  have pa := R_pos hA hε ha
  have pb := R_pos hB hη hb
  obtain ⟨a1, a2⟩ := ha
  obtain ⟨b1, b2⟩ := hb
  constructor
  · calc A * B * (1 - (ε + η + ε * η)) ≤ (A * (1 - ε)) * (B * (1 - η)) := by
          have : 0 ≤ A * B * (ε * η) := by positivity
          nlinarith
      _ ≤ a * b := by
          apply mul_le_mul a1 b1
          · apply mul_nonneg hB.le; linarith
          · exact pa.le
  · calc a * b ≤ (A * (1 + ε)) * (B * (1 + η)) := by
          apply mul_le_mul a2 b2 pb.le
          apply mul_nonneg hA.le; linarith
      _ = A * B * (1 + (ε + η + ε * η)) := by ring

theorem R_div_const {ε a A c : Rat} (hc : 0 < c) (ha : R ε a A) : R ε (a / c) (A / c) := by
  obtain ⟨a1, a2⟩ := ha
  constructor
  · rw [div_mul_eq_mul_div]; exact div_le_div_of_nonneg_right a1 hc.le
  · rw [div_mul_eq_mul_div]; exact div_le_div_of_nonneg_right a2 hc.le

theorem R_inv {ε a A : Rat} (hA : 0 < A) (hε0 : 0 ≤ ε) (hε : ε < 1) (ha : R ε a A) :
    R (ε / (1 - ε)) (1 / a) (1 / A) := by
  have pa := R_pos hA hε ha
  obtain ⟨a1, a2⟩ := ha
  have h1e : 0 < 1 - ε := by linarith
  constructor
  · -- 1/A * (1 - ε/(1-ε)) ≤ 1/a
    rw [div_mul_eq_mul_div, one_mul, div_le_div_iff₀ hA pa]
    have : (1 - ε / (1 - ε)) * (1 + ε) ≤ 1 := by
      have : ε / (1 - ε) ≥ ε := by
        rw [ge_iff_le, le_div_iff₀ h1e]; nlinarith
      nlinarith
    nlinarith
  · rw [div_mul_eq_mul_div, one_mul, div_le_div_iff₀ pa hA]
    have : (1 + ε / (1 - ε)) * (1 - ε) = 1 := by field_simp; ring
    nlinarith

end Chartparse.F64
