import Chartparse.Model.Chart
/-! Models of `str.splitlines` and of `Chart._partition_lines_by_data_section`, with the C06 framing theorems
    (core Lean only). -/
namespace Chartparse


/-- obligations on the regenerated break table -/
theorem isBreak_lf : isBreak 10 = true := by decide
theorem isBreak_cr : isBreak 13 = true := by decide

def BreakFree (l : Str) : Prop := ∀ c ∈ l, isBreak c = false

theorem splitGo_free (l : Str) (hl : BreakFree l) (rest acc : Str) (skip : Bool) (hne : l ≠ []) :
    splitGo (l ++ rest) acc skip = splitGo rest (l.reverse ++ acc) false := by
  induction l generalizing acc skip with
  | nil => exact absurd rfl hne
  | cons c t ih =>
    have hc : isBreak c = false := hl c (by simp)
    have h10 : (c == 10) = false := by
      cases h : c == 10 with
      | false => rfl
      | true => simp at h; subst h; rw [isBreak_lf] at hc; cases hc
    have ht : BreakFree t := fun x hx => hl x (by simp [hx])
    simp only [List.cons_append, splitGo, h10, Bool.and_false, Bool.false_eq_true, if_false, hc]
    cases t with
    | nil => simp
    | cons d u => rw [ih ht (c :: acc) false (by simp)]; simp

theorem splitGo_line_lf (l : Str) (hl : BreakFree l) (rest acc : Str) :
    splitGo (l ++ 10 :: rest) acc false = (acc.reverse ++ l) :: splitGo rest [] false := by
  cases l with
  | nil => simp [splitGo, isBreak_lf, isBreak_cr]
  | cons c t =>
    rw [splitGo_free (c :: t) hl _ _ _ (by simp)]
    simp [splitGo, isBreak_lf, isBreak_cr]

theorem splitGo_line_crlf (l : Str) (hl : BreakFree l) (rest acc : Str) :
    splitGo (l ++ 13 :: 10 :: rest) acc false = (acc.reverse ++ l) :: splitGo rest [] false := by
  cases l with
  | nil => simp [splitGo, isBreak_lf, isBreak_cr]
  | cons c t =>
    rw [splitGo_free (c :: t) hl _ _ _ (by simp)]
    simp [splitGo, isBreak_lf, isBreak_cr]

/-- C06, newline independence: LF- and CRLF-terminated renderings split into the same lines -/
theorem splitlines_lf (ls : List Str) (h : ∀ l ∈ ls, BreakFree l) :
    splitlines (ls.flatMap fun l => l ++ [10]) = ls := by
  unfold splitlines
  induction ls with
  | nil => simp [splitGo]
  | cons l ls ih =>
    simp only [List.flatMap_cons, List.append_assoc, List.singleton_append]
    rw [splitGo_line_lf l (h l (by simp))]
    simp [ih (fun x hx => h x (by simp [hx]))]

theorem splitlines_crlf (ls : List Str) (h : ∀ l ∈ ls, BreakFree l) :
    splitlines (ls.flatMap fun l => l ++ [13, 10]) = ls := by
  unfold splitlines
  induction ls with
  | nil => simp [splitGo]
  | cons l ls ih =>
    simp only [List.flatMap_cons, List.append_assoc, List.cons_append, List.nil_append]
    rw [splitGo_line_crlf l (h l (by simp))]
    simp [ih (fun x hx => h x (by simp [hx]))]

example : splitlines [97, 13, 10, 98, 10, 10, 99] = [[97], [98], [], [99]] := by decide
example : splitlines [10] = [[]] := by decide
example : splitlines [97, 13] = [[97]] := by decide

/-! ### the section scanner -/

/-- a well-formed section as a list of lines -/
def renderSec (hdr : Str → Str) (sec : Str × List Str) : List Str := [hdr sec.1, [123]] ++ sec.2 ++ [[125]]

def BodyOK (body : List Str) : Prop := ∀ l ∈ body, l ≠ [123] ∧ l ≠ [125]

theorem scan_body (ht : Str → Option Str) (tag : Str) (body rest : List Str) (hb : BodyOK body)
    (acc seen : List Str) (d : Sections) :
    scanGo ht (body ++ [125] :: rest) (some tag) (some acc) seen d =
      scanGo ht rest none none ([125] :: (body.reverse ++ seen)) (assign d tag (acc.reverse ++ body)) := by
  induction body generalizing acc seen with
  | nil => simp [scanGo]
  | cons l ls ih =>
    obtain ⟨h1, h2⟩ := hb l (by simp)
    simp only [List.cons_append, scanGo, h1, h2, if_false, Option.map_some]
    rw [ih (fun x hx => hb x (by simp [hx]))]
    simp

/-- C06, framing: every well-formed section hands its parser exactly its body lines; a repeated tag
    replaces the earlier body in place -/
theorem scan_sections (ht : Str → Option Str) (hdr : Str → Str)
    (hh : ∀ tag, ht (hdr tag) = some tag)
    (secs : Sections) (hb : ∀ s ∈ secs, BodyOK s.2)
    (seen : List Str) (d : Sections) :
    ∃ seen', scanGo ht (secs.flatMap (renderSec hdr)) none none seen d =
      scanGo ht [] none none seen' (secs.foldl (fun d s => assign d s.1 s.2) d) := by
  induction secs generalizing seen d with
  | nil => exact ⟨seen, rfl⟩
  | cons s ss ih =>
    simp only [List.flatMap_cons, renderSec, List.append_assoc, List.cons_append, List.nil_append,
      List.foldl_cons]
    simp only [scanGo, hh]
    have : ([123] : Str) = [123] := rfl
    simp only [if_true]
    rw [show (s.2 ++ ([125] :: List.flatMap (renderSec hdr) ss)) = s.2 ++ [125] :: List.flatMap (renderSec hdr) ss from rfl]
    rw [scan_body ht s.1 s.2 _ (hb s (by simp))]
    simp only [List.reverse_nil, List.nil_append]
    exact ih (fun x hx => hb x (by simp [hx])) _ _

theorem scan_wellformed (ht : Str → Option Str) (hdr : Str → Str)
    (hh : ∀ tag, ht (hdr tag) = some tag)
    (secs : Sections) (hb : ∀ s ∈ secs, BodyOK s.2) :
    scanGo ht (secs.flatMap (renderSec hdr)) none none [] [] = .ok (secs.foldl (fun d s => assign d s.1 s.2) []) := by
  obtain ⟨seen', h⟩ := scan_sections ht hdr hh secs hb [] []
  rw [h]; rfl

end Chartparse
