/-! Memoisation transparency used by C17: programs over sound memo tables, any eviction, any schedule. -/
namespace Chartparse.Memo

variable {K V α : Type} [DecidableEq K]

/-- a computation that may call the memoised function -/
inductive Prog (K V α : Type) where
  | ret (a : α)
  | call (k : K) (cont : V → Prog K V α)

def Prog.pure (f : K → V) : Prog K V α → α
  | .ret a => a
  | .call k cont => (cont (f k)).pure f

abbrev Table (K V : Type) := List (K × V)
def Sound (f : K → V) (m : Table K V) : Prop := ∀ kv ∈ m, kv.2 = f kv.1

/-- one atomic cached call: hit returns the stored value, miss computes and inserts;
    afterwards an arbitrary set of entries may be evicted (`keep`) -/
def lookupOrInsert (f : K → V) (m : Table K V) (k : K) (keep : K × V → Bool) : Table K V × V :=
  match m.find? (·.1 == k) with
  | some kv => (m.filter keep, kv.2)
  | none => (((k, f k) :: m).filter keep, f k)

theorem lookup_sound (f : K → V) (m : Table K V) (k : K) (keep : K × V → Bool) (hm : Sound f m) :
    (lookupOrInsert f m k keep).2 = f k ∧ Sound f (lookupOrInsert f m k keep).1 := by
  unfold lookupOrInsert
  cases h : m.find? (·.1 == k) with
  | some kv =>
    have hmem := List.mem_of_find?_eq_some h
    have hk : kv.1 = k := by have := List.find?_some h; simpa using this
    refine ⟨by rw [hm kv hmem, hk], ?_⟩
    intro x hx; exact hm x (List.mem_filter.mp hx).1
  | none =>
    refine ⟨rfl, ?_⟩
    intro x hx
    rcases List.mem_cons.mp (List.mem_filter.mp hx).1 with rfl | hx'
    · rfl
    · exact hm x hx'

/-- threads are programs; a schedule says which thread performs its next cached call and what is evicted -/
def stepThread (f : K → V) (m : Table K V) (keep : K × V → Bool) : Prog K V α → Table K V × Prog K V α
  | .ret a => (m, .ret a)
  | .call k cont => let r := lookupOrInsert f m k keep; (r.1, cont r.2)

def runSched (f : K → V) : Table K V → List (Prog K V α) → List (Nat × (K × V → Bool)) → Table K V × List (Prog K V α)
  | m, ts, [] => (m, ts)
  | m, ts, (i, keep) :: sched =>
    match ts[i]? with
    | none => runSched f m ts sched
    | some p => let r := stepThread f m keep p; runSched f r.1 (ts.set i r.2) sched

theorem step_pure (f : K → V) (m : Table K V) (keep : K × V → Bool) (p : Prog K V α) (hm : Sound f m) :
    (stepThread f m keep p).2.pure f = p.pure f ∧ Sound f (stepThread f m keep p).1 := by
  cases p with
  | ret a => exact ⟨rfl, hm⟩
  | call k cont =>
    obtain ⟨h1, h2⟩ := lookup_sound f m k keep hm
    simp only [stepThread, Prog.pure, h1]
    exact ⟨trivial, h2⟩

/-- whatever the interleaving and whatever is evicted, every thread still denotes its pure result -/
theorem sched_pure (f : K → V) (m : Table K V) (ts : List (Prog K V α)) (sched : List (Nat × (K × V → Bool)))
    (hm : Sound f m) :
    ((runSched f m ts sched).2.map (·.pure f)) = ts.map (·.pure f) ∧ Sound f (runSched f m ts sched).1 := by
  induction sched generalizing m ts with
  | nil => exact ⟨rfl, hm⟩
  | cons ik sched ih =>
    obtain ⟨i, keep⟩ := ik
    unfold runSched
    cases hp : ts[i]? with
    | none => exact ih m ts hm
    | some p =>
      obtain ⟨h1, h2⟩ := step_pure f m keep p hm
      simp only []
      obtain ⟨g1, g2⟩ := ih (stepThread f m keep p).1 (ts.set i (stepThread f m keep p).2) h2
      refine ⟨?_, g2⟩
      rw [g1, List.map_set, h1]
      have : (ts.map (·.pure f))[i]? = some (p.pure f) := by simp [List.getElem?_map, hp]
      apply List.ext_getElem?
      intro j
      by_cases hj : i = j
      · subst hj
        by_cases hlt : i < (ts.map (·.pure f)).length
        · rw [List.getElem?_set_self hlt, this]
        · rw [List.getElem?_eq_none (by simpa using hlt)] at this; cases this
      · rw [List.getElem?_set_ne hj]

end Chartparse.Memo
