import Chartparse.Proofs.ReInv
namespace Chartparse.Rx
open Chartparse

/-- `^\s*?(\d+?) = E "lyric (.*?)"\s*?$` with the leading `^` dropped -/
def lyricRe : Re :=
  .cat (.star false .space) <| .cat (.group 1 (plusLazy .digit)) <|
  .cat (lits [32, 61, 32, 69, 32, 34, 108, 121, 114, 105, 99, 32]) <|
  .cat (.group 2 (.star false .any)) <| .cat (.chr (.lit 34)) <| .cat (.star false .space) .eol

/-- trailing `\s*?$` fails as soon as a non-blank remains -/
theorem trailing_space_eol_fail {β} (v : β) (r : Str) (h : ∃ x ∈ r, CSet.space.test x = false) :
    starExec false CSet.space (fun r => if r = [] ∨ r = [10] then some v else none) r = none := by
  induction r with
  | nil => obtain ⟨x, hx, _⟩ := h; cases hx
  | cons c t ih =>
    have hne : ¬ ((c :: t) = [] ∨ (c :: t) = [10]) := by
      intro h'; rcases h' with h' | h'
      · cases h'
      · injection h' with h1 h2; subst h1; subst h2
        obtain ⟨x, hx, hx'⟩ := h
        simp at hx; subst hx
        simp [CSet.test, inRanges, Gen.spaceRanges] at hx'
    simp only [starExec]
    by_cases hc : CSet.space.test c = true
    · simp only [hc, if_true, Bool.false_eq_true, if_false, if_neg hne, Option.orElse]
      apply ih
      obtain ⟨x, hx, hx'⟩ := h
      rcases List.mem_cons.mp hx with rfl | hx
      · rw [hc] at hx'; cases hx'
      · exact ⟨x, hx, hx'⟩
    · simp only [hc, Bool.false_eq_true, if_false, if_neg hne]

theorem quote_not_space : CSet.space.test 34 = false := by decide

theorem lyric_accept (p t v q : Str)
    (hp : AllIn .space p) (ht : AllIn .digit t) (ht0 : t ≠ []) (hv : AllIn .any v) (hq : AllIn .space q) :
    lyricRe.matchGroups (p ++ (t ++ ([32, 61, 32, 69, 32, 34, 108, 121, 114, 105, 99, 32] ++ (v ++ (34 :: q)))))
      = some [(2, v), (1, t)] := by
  unfold Re.matchGroups lyricRe
  simp only [Re.exec, plusLazy]
  apply starExec_lazy_run _ _ _ _ _ hp
  · intro c t' hc
    simp [space_not_digit hc]
  · obtain ⟨d, t', rfl⟩ := List.exists_cons_of_ne_nil ht0
    have hd : CSet.digit.test d = true := ht d (by simp)
    have ht' : AllIn .digit t' := fun c hc => ht c (by simp [hc])
    simp only [List.cons_append, hd, if_true]
    apply starExec_lazy_run _ _ _ _ _ ht'
    · intro c t'' hc
      simp [lits, Re.exec, ne32_of_digit hc]
    · simp only [lits, List.foldr, Re.exec, List.nil_append, List.cons_append, test_lit,
        beq_self_eq_true, if_true]
      -- the lazy `.*?`: it must not stop before the end of `v`
      rw [starExec_lazy_skip _ _ v (34 :: q) hv]
      · apply starExec_lazy_stop
        simp only [beq_self_eq_true, if_true]
        rw [trailing_space_eol _ q hq]
        have e1 : (v ++ 34 :: q).length - (34 :: q).length = v.length := by simp
        have e3 : (d :: (t' ++ 32 :: 61 :: 32 :: 69 :: 32 :: 34 :: 108 :: 121 :: 114 :: 105 :: 99 :: 32 :: (v ++ 34 :: q))).length -
            (32 :: 61 :: 32 :: 69 :: 32 :: 34 :: 108 :: 121 :: 114 :: 105 :: 99 :: 32 :: (v ++ 34 :: q)).length = (d :: t').length := by
          simp; omega
        have t3 : List.take (d :: t').length (d :: (t' ++ 32 :: 61 :: 32 :: 69 :: 32 :: 34 :: 108 :: 121 :: 114 :: 105 :: 99 :: 32 :: (v ++ 34 :: q)))
            = d :: t' := by
          rw [← List.cons_append]; exact List.take_left' rfl
        rw [e1, e3, t3, List.take_left' rfl]
      · -- stopping early: the next character is either not a quote, or a quote followed by another quote later
        intro i hi
        obtain ⟨c, w, hcw⟩ : ∃ c w, v.drop i = c :: w := by
          cases h : v.drop i with
          | nil => simp at h; omega
          | cons c w => exact ⟨c, w, rfl⟩
        rw [hcw]
        simp only [List.cons_append]
        by_cases h34 : c = 34
        · subst h34
          simp only [beq_self_eq_true, if_true]
          apply trailing_space_eol_fail
          exact ⟨34, by simp, quote_not_space⟩
        · simp [h34]
end Chartparse.Rx
