import Chartparse.Proofs.ReLine
/-! Soundness of the common head of every event recogniser, and pairwise disjointness of recognisers whose
    literals differ (C14). -/
namespace Chartparse.Rx
open Chartparse

/-- whatever the payload, an accepted line starts with blanks, a non-empty digit string, ` = `, the literal -/
theorem ev_prefix (lit : Str) (payload : Re) (s : Str) (caps : Caps)
    (h : (evRe lit payload).matchGroups s = some caps) :
    ∃ p t rest, s = p ++ (t ++ ((32 :: 61 :: 32 :: lit) ++ rest)) ∧ AllIn .space p ∧ AllIn .digit t ∧ t ≠ [] := by
  unfold Re.matchGroups evRe at h
  rw [exec_cat, exec_star] at h
  obtain ⟨p, r1, hs, hp, h⟩ := starExec_inv _ _ _ _ _ h
  rw [exec_cat, exec_group] at h
  obtain ⟨t, r2, hr1, ht0, ht, h⟩ := plusLazy_inv _ _ _ _ _ h
  rw [exec_cat] at h
  obtain ⟨r3, hr2, _⟩ := lits_inv _ _ _ _ _ h
  exact ⟨p, t, r3, by rw [hs, hr1, hr2], hp, ht, ht0⟩

/-- a run of class `s` followed by a character outside `s` splits uniquely -/
theorem run_unique (s : CSet) (a a' : Str) (c c' : Nat) (r r' : Str) (ha : AllIn s a) (ha' : AllIn s a')
    (hc : s.test c = false) (hc' : s.test c' = false) (h : a ++ c :: r = a' ++ c' :: r') :
    a = a' ∧ c :: r = c' :: r' := by
  induction a generalizing a' with
  | nil =>
    cases a' with
    | nil => exact ⟨rfl, by simpa using h⟩
    | cons x xs =>
      simp at h
      have := ha' x (by simp)
      rw [← h.1] at this; rw [hc] at this; cases this
  | cons x xs ih =>
    cases a' with
    | nil =>
      simp at h
      have := ha x (by simp)
      rw [h.1] at this; rw [hc'] at this; cases this
    | cons y ys =>
      simp at h
      obtain ⟨e1, e2⟩ := ih ys (fun z hz => ha z (by simp [hz])) (fun z hz => ha' z (by simp [hz])) h.2
      exact ⟨by rw [h.1, e1], e2⟩

theorem space32 : CSet.space.test 32 = true := by decide
theorem digit_ne_space32 : CSet.digit.test 32 = false := by decide

/-- C14: two event recognisers whose literals differ in their first character never accept the same string,
    whatever their payloads -/
theorem ev_disjoint (a a' : Nat) (lit lit' : Str) (pl pl' : Re) (s : Str) (c c' : Caps) (hne : a ≠ a')
    (h : (evRe (a :: lit) pl).matchGroups s = some c) (h' : (evRe (a' :: lit') pl').matchGroups s = some c') : False := by
  obtain ⟨p, t, r, hs, hp, ht, ht0⟩ := ev_prefix _ _ _ _ h
  obtain ⟨p', t', r', hs', hp', ht', ht0'⟩ := ev_prefix _ _ _ _ h'
  obtain ⟨d, t1, rfl⟩ := List.exists_cons_of_ne_nil ht0
  obtain ⟨d', t1', rfl⟩ := List.exists_cons_of_ne_nil ht0'
  have hd : CSet.space.test d = false := digit_not_space (ht d (by simp))
  have hd' : CSet.space.test d' = false := digit_not_space (ht' d' (by simp))
  have e := hs.symm.trans hs'
  simp only [List.cons_append] at e
  obtain ⟨_, e2⟩ := run_unique .space p p' d d' _ _ hp hp' hd hd' e
  -- now the digit runs: both are followed by a blank
  have e3 : (d :: t1) ++ 32 :: (61 :: 32 :: a :: lit ++ r) = (d' :: t1') ++ 32 :: (61 :: 32 :: a' :: lit' ++ r') := by
    simpa using e2
  obtain ⟨_, e4⟩ := run_unique .digit (d :: t1) (d' :: t1') 32 32 _ _ ht ht' digit_ne_space32 digit_ne_space32 e3
  simp at e4
  exact hne e4.1

/-! the N and TS recognisers in `evRe` form (same normal form as the hand-written templates) -/
def notePayload : Re :=
  .cat (.group 2 (.chr (.range 48 55))) <| .cat (lits [32]) <| .cat (.group 3 (plusLazy .digit)) tailRe
def noteEv : Re := evRe [78, 32] notePayload
def tsPayload : Re :=
  .cat (.group 2 (plusLazy .digit)) <| .cat (.opt true (.cat (.chr (.lit 32)) (.group 3 (plusLazy .digit)))) tailRe
def tsEv : Re := evRe [84, 83, 32] tsPayload
def tePayload : Re := .cat (.group 2 (.star false (.notLit 32))) tailRe
def teEv : Re := evRe [69, 32] tePayload

theorem noteEv_norm : noteEv.norm = noteRe.norm := by decide
theorem tsEv_norm : tsEv.norm = tsRe.norm := by decide
theorem teEv_norm : teEv.norm = teRe.norm := by decide

end Chartparse.Rx
