import Chartparse.Proofs.ReNoteInv
namespace Chartparse.Rx
open Chartparse

/-! ### segment combinators: proofs about flat recognisers become linear scripts -/

theorem exec_opt_greedy {α} (a : Re) (k : Str → Caps → Option α) (r : Str) (cs : Caps) :
    (Re.opt true a).exec k r cs = (a.exec k r cs).orElse fun _ => k r cs := rfl

theorem exec_chr_cons {α} (s : CSet) (k : Str → Caps → Option α) (c : Nat) (t : Str) (cs : Caps) :
    (Re.chr s).exec k (c :: t) cs = if s.test c then k t cs else none := rfl

theorem exec_chr_nil {α} (s : CSet) (k : Str → Caps → Option α) (cs : Caps) :
    (Re.chr s).exec k [] cs = none := rfl

theorem exec_eol {α} (k : Str → Caps → Option α) (r : Str) (cs : Caps) :
    Re.eol.exec k r cs = if r = [] ∨ r = [10] then k r cs else none := rfl

/-- lazy `s+?` followed by a continuation that fails in front of every `s` character -/
theorem plusLazy_run {α} (s : CSet) (k : Str → Caps → Option α) (pre rest : Str) (cs : Caps) (v : α)
    (hpre : AllIn s pre) (h0 : pre ≠ []) (hfail : ∀ c t, s.test c = true → k (c :: t) cs = none)
    (hk : k rest cs = some v) : (plusLazy s).exec k (pre ++ rest) cs = some v := by
  obtain ⟨d, pre', rfl⟩ := List.exists_cons_of_ne_nil h0
  have hd : s.test d = true := hpre d (by simp)
  have hpre' : AllIn s pre' := fun c hc => hpre c (by simp [hc])
  unfold plusLazy
  rw [exec_cat, List.cons_append, exec_chr_cons, if_pos hd, exec_star]
  exact starExec_lazy_run s _ pre' rest v hpre' hfail hk

/-- lazy `s*?` likewise -/
theorem starLazy_run {α} (s : CSet) (k : Str → Caps → Option α) (pre rest : Str) (cs : Caps) (v : α)
    (hpre : AllIn s pre) (hfail : ∀ c t, s.test c = true → k (c :: t) cs = none)
    (hk : k rest cs = some v) : (Re.star false s).exec k (pre ++ rest) cs = some v := by
  rw [exec_star]; exact starExec_lazy_run s _ pre rest v hpre hfail hk

/-- a literal string fails in front of any other first character -/
theorem lits_fail_head {α} (a : Nat) (l : Str) (k : Str → Caps → Option α) (c : Nat) (t : Str) (cs : Caps)
    (h : c ≠ a) : (lits (a :: l)).exec k (c :: t) cs = none := by
  simp only [lits, List.foldr]
  rw [exec_cat, exec_chr_cons]
  simp [h]

/-- `\s*?$` as a regex -/
def tailRe : Re := .cat (.star false .space) .eol

theorem tail_ok {α} (k : Str → Caps → Option α) (q : Str) (cs : Caps) (hq : AllIn .space q)
    (hk : ∀ r, k r cs = k [] cs) (v : α) (hv : k [] cs = some v) : tailRe.exec k q cs = some v := by
  unfold tailRe
  rw [exec_cat, exec_star]
  have : (fun r1 => Re.eol.exec k r1 cs) = fun r => if r = [] ∨ r = [10] then some v else none := by
    funext r; rw [exec_eol, hk r, hv]
  rw [this]; exact trailing_space_eol v q hq

theorem tail_fail {α} (k : Str → Caps → Option α) (r : Str) (cs : Caps)
    (h : ∃ x ∈ r, CSet.space.test x = false) : tailRe.exec k r cs = none := by
  unfold tailRe
  rw [exec_cat, exec_star]
  -- whatever `k` answers, `$` only lets it answer at the end, which blanks alone cannot reach
  induction r with
  | nil => obtain ⟨x, hx, _⟩ := h; cases hx
  | cons c t ih =>
    have hne : ¬ ((c :: t) = [] ∨ (c :: t) = [10]) := by
      intro h'; rcases h' with h' | h'
      · cases h'
      · injection h' with h1 h2; subst h1; subst h2
        obtain ⟨x, hx, hx'⟩ := h
        simp at hx; subst hx
        simp [CSet.test, inRanges, Gen.spaceRanges] at hx'
    simp only [starExec, exec_eol, if_neg hne]
    by_cases hc : CSet.space.test c = true
    · simp only [hc, if_true, Bool.false_eq_true, if_false, Option.orElse]
      apply ih
      obtain ⟨x, hx, hx'⟩ := h
      rcases List.mem_cons.mp hx with rfl | hx
      · rw [hc] at hx'; cases hx'
      · exact ⟨x, hx, hx'⟩
    · simp only [hc, Bool.false_eq_true, if_false]

/-- `^\s*?(\d+?) = TS (\d+?)(?: (\d+?))?\s*?$` with the leading `^` dropped -/
def tsRe : Re :=
  .cat (.star false .space) <| .cat (.group 1 (plusLazy .digit)) <| .cat (lits [32, 61, 32, 84, 83, 32]) <|
  .cat (.group 2 (plusLazy .digit)) <|
  .cat (.opt true (.cat (.chr (.lit 32)) (.group 3 (plusLazy .digit)))) tailRe

/-- the optional ` <digits>` branch fails on a run of blanks -/
theorem opt_branch_fail_spaces {α} (k : Str → Caps → Option α) (q : Str) (hq : AllIn .space q) (cs : Caps) :
    (Re.cat (.chr (.lit 32)) (.group 3 (plusLazy .digit))).exec k q cs = none := by
  rw [exec_cat]
  cases q with
  | nil => rfl
  | cons c q' =>
    rw [exec_chr_cons]
    by_cases h : (CSet.lit 32).test c = true
    · rw [if_pos h, exec_group]
      unfold plusLazy
      rw [exec_cat]
      cases q' with
      | nil => rfl
      | cons d q'' =>
        have hd : CSet.space.test d = true := hq d (by simp)
        rw [exec_chr_cons, if_neg (by simp [space_not_digit hd])]
    · rw [if_neg h]

/-- … and in front of a digit (its first character is a blank) -/
theorem opt_branch_fail_digit {α} (k : Str → Caps → Option α) (c : Nat) (t : Str) (cs : Caps)
    (hc : CSet.digit.test c = true) :
    (Re.cat (.chr (.lit 32)) (.group 3 (plusLazy .digit))).exec k (c :: t) cs = none := by
  rw [exec_cat, exec_chr_cons, if_neg (by simpa using ne32_of_digit hc)]

/-- C08: `<tick> = TS <u>` (no third number): two captures, the optional group stays unset -/
theorem ts_accept2 (p t u q : Str) (hp : AllIn .space p) (ht : AllIn .digit t) (ht0 : t ≠ [])
    (hu : AllIn .digit u) (hu0 : u ≠ []) (hq : AllIn .space q) :
    tsRe.matchGroups (p ++ (t ++ ([32, 61, 32, 84, 83, 32] ++ (u ++ q)))) = some [(2, u), (1, t)] := by
  unfold Re.matchGroups tsRe
  rw [exec_cat]
  apply starLazy_run _ _ p _ _ _ hp
  · intro c t' hc
    rw [exec_cat, exec_group]; unfold plusLazy
    rw [exec_cat, exec_chr_cons, if_neg (by simp [space_not_digit hc])]
  rw [exec_cat, exec_group]
  apply plusLazy_run _ _ t _ _ _ ht ht0
  · intro c t' hc
    rw [exec_cat]; exact lits_fail_head 32 _ _ c t' _ (ne32_of_digit hc)
  rw [exec_cat, exec_lits, exec_cat, exec_group]
  apply plusLazy_run _ _ u _ _ _ hu hu0
  · intro c t' hc
    rw [exec_cat, exec_opt_greedy, opt_branch_fail_digit _ c t' _ hc]
    simp only [Option.orElse]
    exact tail_fail _ _ _ ⟨c, by simp, digit_not_space hc⟩
  rw [exec_cat, exec_opt_greedy, opt_branch_fail_spaces _ q hq]
  simp only [Option.orElse]
  rw [tail_ok _ q _ hq (fun _ => rfl) _ rfl]
  simp

/-- C08: `<tick> = TS <u> <l>`: three captures -/
theorem ts_accept3 (p t u l q : Str) (hp : AllIn .space p) (ht : AllIn .digit t) (ht0 : t ≠ [])
    (hu : AllIn .digit u) (hu0 : u ≠ []) (hl : AllIn .digit l) (hl0 : l ≠ []) (hq : AllIn .space q) :
    tsRe.matchGroups (p ++ (t ++ ([32, 61, 32, 84, 83, 32] ++ (u ++ (32 :: (l ++ q))))))
      = some [(3, l), (2, u), (1, t)] := by
  unfold Re.matchGroups tsRe
  rw [exec_cat]
  apply starLazy_run _ _ p _ _ _ hp
  · intro c t' hc
    rw [exec_cat, exec_group]; unfold plusLazy
    rw [exec_cat, exec_chr_cons, if_neg (by simp [space_not_digit hc])]
  rw [exec_cat, exec_group]
  apply plusLazy_run _ _ t _ _ _ ht ht0
  · intro c t' hc
    rw [exec_cat]; exact lits_fail_head 32 _ _ c t' _ (ne32_of_digit hc)
  rw [exec_cat, exec_lits, exec_cat, exec_group]
  apply plusLazy_run _ _ u _ _ _ hu hu0
  · intro c t' hc
    rw [exec_cat, exec_opt_greedy, opt_branch_fail_digit _ c t' _ hc]
    simp only [Option.orElse]
    exact tail_fail _ _ _ ⟨c, by simp, digit_not_space hc⟩
  -- greedy: the optional branch is tried first and succeeds
  rw [exec_cat, exec_opt_greedy]
  have hbranch : (Re.cat (.chr (.lit 32)) (.group 3 (plusLazy .digit))).exec
      (fun r1 cs1 => tailRe.exec (fun _ cs => some cs) r1 cs1) (32 :: (l ++ q))
      [(2, List.take ((u ++ 32 :: (l ++ q)).length - (32 :: (l ++ q)).length) (u ++ 32 :: (l ++ q))),
       (1, List.take ((t ++ ([32, 61, 32, 84, 83, 32] ++ (u ++ 32 :: (l ++ q)))).length -
            ([32, 61, 32, 84, 83, 32] ++ (u ++ 32 :: (l ++ q))).length)
            (t ++ ([32, 61, 32, 84, 83, 32] ++ (u ++ 32 :: (l ++ q)))))]
      = some [(3, l), (2, u), (1, t)] := by
    rw [exec_cat, exec_chr_cons, if_pos (by simp), exec_group]
    apply plusLazy_run _ _ l _ _ _ hl hl0
    · intro c t' hc
      exact tail_fail _ _ _ ⟨c, by simp, digit_not_space hc⟩
    rw [tail_ok _ q _ hq (fun _ => rfl) _ rfl]
    simp
  rw [hbranch]; rfl

end Chartparse.Rx
