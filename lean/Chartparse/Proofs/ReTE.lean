import Chartparse.Proofs.ReTS
namespace Chartparse.Rx
open Chartparse

/-- `^\s*?(\d+?) = E ([^ ]*?)\s*?$` with the leading `^` dropped -/
def teRe : Re :=
  .cat (.star false .space) <| .cat (.group 1 (plusLazy .digit)) <| .cat (lits [32, 61, 32, 69, 32]) <|
  .cat (.group 2 (.star false (.notLit 32))) tailRe

/-- C07: `<tick> = E <word>` carries the word verbatim. The value class `[^ ]` overlaps `\s` (tab …), so
    this is a priority argument: the lazy value cannot stop while a non-blank character of the word remains. -/
theorem te_accept (p t w q : Str) (hp : AllIn .space p) (ht : AllIn .digit t) (ht0 : t ≠ [])
    (hw : ∀ c ∈ w, CSet.space.test c = false) (hq : AllIn .space q) :
    teRe.matchGroups (p ++ (t ++ ([32, 61, 32, 69, 32] ++ (w ++ q)))) = some [(2, w), (1, t)] := by
  have hw32 : AllIn (.notLit 32) w := by
    intro c hc
    have := hw c hc
    simp only [CSet.test, bne_iff_ne, ne_eq]
    intro h; subst h; simp [CSet.test, inRanges, Gen.spaceRanges] at this
  unfold Re.matchGroups teRe
  rw [exec_cat]
  apply starLazy_run _ _ p _ _ _ hp
  · intro c t' hc
    rw [exec_cat, exec_group]; unfold plusLazy
    rw [exec_cat, exec_chr_cons, if_neg (by simp [space_not_digit hc])]
  rw [exec_cat, exec_group]
  apply plusLazy_run _ _ t _ _ _ ht ht0
  · intro c t' hc
    rw [exec_cat]; exact lits_fail_head 32 _ _ c t' _ (ne32_of_digit hc)
  rw [exec_cat, exec_lits, exec_cat, exec_group, exec_star]
  rw [starExec_lazy_skip _ _ w q hw32]
  · apply starExec_lazy_stop
    rw [tail_ok _ q _ hq (fun _ => rfl) _ rfl]
    simp
  · intro i hi
    obtain ⟨c, w', hcw⟩ : ∃ c w', w.drop i = c :: w' := by
      cases h : w.drop i with
      | nil => simp at h; omega
      | cons c w' => exact ⟨c, w', rfl⟩
    rw [hcw]
    apply tail_fail
    refine ⟨c, by simp, hw c ?_⟩
    have : c ∈ w.drop i := by rw [hcw]; simp
    exact List.mem_of_mem_drop this

end Chartparse.Rx
