import Chartparse.Model.Rate
import Chartparse.Proofs.Group
/-! C18 on the whole-chart model: no internal failure point is reachable, for any text and any
    selection. `NI_bind` plus one lemma per function of the model. Core Lean only. -/
namespace Chartparse
open Tempo Inst Meta F64

/-- "not an internal error" -/
def NI {α} (x : M α) : Prop := ∀ w, x ≠ .error (.internal w)

theorem NI_ok {α} (v : α) : NI (.ok v : M α) := fun _ h => by cases h
theorem NI_ve {α} : NI (.error .valueError : M α) := fun _ h => by cases h
theorem NI_rnm {α} : NI (.error .regexNotMatch : M α) := fun _ h => by cases h
theorem NI_mrf {α} : NI (.error .missingRequiredField : M α) := fun _ h => by cases h

/-- the shape every sequential step of the model has -/
theorem NI_bind {α β} (x : M α) (f : α → M β) (hx : NI x) (hf : ∀ v, x = .ok v → NI (f v)) :
    NI (x >>= f) := by
  intro w h
  cases hx' : x with
  | error e =>
    rw [hx'] at h
    have : (Except.error e >>= f : M β) = Except.error e := rfl
    rw [this] at h; injection h with h; subst h; exact hx w hx'
  | ok v =>
    rw [hx'] at h
    have : (Except.ok v >>= f : M β) = f v := rfl
    rw [this] at h; exact hf v hx' w h

theorem secs_ni (t : Nat) (b : Rat) (r : Int) : NI (secs t b r) := by
  unfold secs; split
  · exact NI_ve
  · split
    · exact NI_ve
    · exact NI_ok _

theorem scan_le (tick : Int) (es : List Nat) (i : Nat) : scan tick es i ≤ i + es.length := by
  induction es generalizing i with
  | nil => simp [scan]
  | cons e es ih =>
    simp only [scan]; split
    · simp
    · have := ih (i + 1); simp only [List.length_cons]; omega

theorem indexOfProximal_ni (ticks : List Nat) (tick : Int) (start : Nat) : NI (indexOfProximal ticks tick start) := by
  unfold indexOfProximal
  by_cases hlen : ticks.length ≤ start
  · rw [if_pos hlen]; exact NI_ve
  · rw [if_neg hlen]
    have hst : start < ticks.length := by omega
    rw [List.getElem?_eq_getElem hst]
    simp only []
    split
    · exact NI_ve
    · exact NI_ok _

theorem indexOfProximal_lt (ticks : List Nat) (tick : Int) (start g : Nat)
    (h : indexOfProximal ticks tick start = .ok g) : g < ticks.length := by
  unfold indexOfProximal at h
  by_cases hlen : ticks.length ≤ start
  · rw [if_pos hlen] at h; cases h
  · rw [if_neg hlen] at h
    have hst : start < ticks.length := by omega
    rw [List.getElem?_eq_getElem hst] at h
    simp only [] at h
    split at h
    · cases h
    · injection h with h
      have hb := scan_le tick (ticks.drop (start + 1)) start
      simp only [List.length_drop] at hb
      omega

theorem tsAt_ni (res : Int) (evs : List BpmEv) (tick : Int) (hint : Nat) : NI (tsAt res evs tick hint) := by
  unfold tsAt
  cases hi : indexOfProximal (evs.map (·.tick)) tick hint with
  | error e =>
    simp only []
    intro w h; injection h with h; subst h
    exact indexOfProximal_ni _ _ _ w hi
  | ok g =>
    simp only []
    have hg := indexOfProximal_lt _ _ _ _ hi
    simp only [List.length_map] at hg
    rw [List.getElem?_eq_getElem hg]
    simp only []
    cases hs : secs (tick - (evs[g].tick : Int)).natAbs evs[g].bpm res with
    | error e =>
      simp only []
      intro w h; injection h with h; subst h
      exact secs_ni _ _ _ w hs
    | ok s => exact NI_ok _

theorem chain_ni (res : Int) (evs : List BpmEv) (ts : List Nat) (h : Nat) : NI (chain res evs ts h) := by
  induction ts generalizing h with
  | nil => exact NI_ok _
  | cons t ts ih =>
    unfold chain
    exact NI_bind _ _ (tsAt_ni _ _ _ _) (fun r _ => NI_bind _ _ (ih r.2) (fun _ _ => NI_ok _))

theorem cand_lt (t : Nat) (l : List Phrase) (i : Nat) (hl : l ≠ []) : cand t l i < i + l.length := by
  induction l generalizing i with
  | nil => exact absurd rfl hl
  | cons p rest ih =>
    cases rest with
    | nil => simp [cand]
    | cons q rest =>
      simp only [cand]; split
      · have := ih (i + 1) (by simp); simp only [List.length_cons] at this ⊢; omega
      · simp

theorem spData_ni (t : Nat) (sps : List Phrase) (start : Nat) : NI (spData t sps start) := by
  unfold spData
  split
  · exact NI_ok _
  · split
    · exact NI_ve
    · rename_i h1 h2
      have hlt : start < sps.length := by omega
      have hne : sps.drop start ≠ [] := by
        intro h; have := congrArg List.length h; simp at this; omega
      have hc := cand_lt t (sps.drop start) start hne
      simp only [List.length_drop] at hc
      have : cand t (sps.drop start) start < sps.length := by omega
      rw [List.getElem?_eq_getElem this]
      simp only []
      split <;> exact NI_ok _

theorem longest_ni (s : Sustain) : NI (longest s) := by
  cases s with
  | ticks n => exact NI_ok _
  | tuple l => simp only [longest]; split <;> first | exact NI_ve | exact NI_ok _

theorem complexSustain_ni (g : List NDatum) (hg : g ≠ []) : NI (complexSustain g) := by
  cases g with
  | nil => exact absurd rfl hg
  | cons d rest => simp only [complexSustain]; split <;> exact NI_ok _

theorem hopoState_ni (thr : Int) (tick : Nat) (lanes : List Bool) (tap forced : Bool)
    (prev : Option (Nat × List Bool)) : NI (hopoState thr tick lanes tap forced prev) := by
  unfold hopoState
  split
  · exact NI_ve
  · split
    · exact NI_ok _
    · split
      · exact NI_ok _
      · simp only []; split <;> exact NI_ok _

theorem buildNote_ni (res : Int) (evs : List BpmEv) (sps : List Phrase) (g : List NDatum)
    (prev : Option NoteEv) (bidx sidx : Nat) (hg : g ≠ []) : NI (buildNote res evs sps g prev bidx sidx) := by
  cases g with
  | nil => exact absurd rfl hg
  | cons first rest =>
    simp only [buildNote]
    apply NI_bind _ _ (complexSustain_ni _ (by simp)); intro sustain _
    apply NI_bind _ _ (tsAt_ni _ _ _ _); intro r _
    apply NI_bind _ _ (hopoState_ni _ _ _ _ _ _); intro h _
    apply NI_bind _ _ (spData_ni _ _ _); intro r2 _
    apply NI_bind _ _ (longest_ni _); intro lg _
    apply NI_bind _ _ (tsAt_ni _ _ _ _); intro r3 _
    exact NI_ok _

theorem buildNotes_ni (res : Int) (evs : List BpmEv) (sps : List Phrase) (gs : List (List NDatum))
    (hgs : ∀ g ∈ gs, g ≠ []) (prev : Option NoteEv) (bidx sidx : Nat) :
    NI (buildNotes res evs sps gs prev bidx sidx) := by
  induction gs generalizing prev bidx sidx with
  | nil => exact NI_ok _
  | cons g gs ih =>
    unfold buildNotes
    apply NI_bind _ _ (buildNote_ni _ _ _ _ _ _ _ (hgs g (by simp)))
    intro r _
    exact NI_bind _ _ (ih (fun x hx => hgs x (by simp [hx])) _ _ _) (fun _ _ => NI_ok _)

theorem groups_ne (ds : List NDatum) : ∀ g ∈ groups ds, g ≠ [] := by
  intro g hg
  obtain ⟨d, r, h, _⟩ := groups_uniform ds g hg
  rw [h]; simp

theorem buildTrack_ni (res : Int) (evs : List BpmEv) (nd : List NDatum) (sd : List Phrase) (td : List (Nat × Str)) :
    NI (buildTrack res evs nd sd td) := by
  unfold buildTrack
  apply NI_bind _ _ (chain_ni _ _ _ _); intro _ _
  apply NI_bind _ _ (chain_ni _ _ _ _); intro _ _
  apply NI_bind _ _ (buildNotes_ni _ _ _ _ (groups_ne _) _ _ _); intro _ _
  exact NI_ok _

theorem parseTrack_ni (res : Int) (evs : List BpmEv) (lines : List Str) : NI (parseTrack res evs lines) := by
  unfold parseTrack
  exact NI_bind _ _ (buildTrack_ni _ _ _ _ _) (fun _ _ => NI_ok _)

theorem routeTracks_ni (res : Int) (evs : List BpmEv) (sel : Nat × Nat → Bool) (secs : Sections) :
    NI (routeTracks res evs sel secs) := by
  induction secs with
  | nil => exact NI_ok _
  | cons s rest ih =>
    obtain ⟨tag, lines⟩ := s
    unfold routeTracks
    split
    · split
      · apply NI_bind _ _ (parseTrack_ni _ _ _); intro r _
        exact NI_bind _ _ ih (fun _ _ => NI_ok _)
      · exact ih
    · exact NI_bind _ _ ih (fun _ _ => NI_ok _)

theorem ofDefault_ni (d : Gen.Default) : NI (ofDefault d) := by
  cases d <;> first | exact NI_mrf | exact NI_ok _

theorem process_ni (p : Nat) (v : Str) : NI (process p v) := by
  unfold process
  split
  · exact NI_ok _
  · split
    · exact NI_ok _
    · split
      · exact NI_ok _
      · exact NI_ve

theorem parseField_ni (lines : List Str) (f : String × Str × Nat × Gen.Default) : NI (parseField lines f) := by
  unfold parseField
  split
  · exact ofDefault_ni _
  · exact process_ni _ _

theorem parseFields_ni (lines : List Str) (fs : List (String × Str × Nat × Gen.Default)) :
    NI (parseFields lines fs) := by
  induction fs with
  | nil => exact NI_ok _
  | cons f rest ih =>
    unfold parseFields
    apply NI_bind _ _ (parseField_ni _ _); intro v _
    exact NI_bind _ _ ih (fun _ _ => NI_ok _)

theorem buildFrom_ni (res : Int) (p : BpmEv) (raw : List (Nat × Rat)) : NI (buildFrom res p raw) := by
  induction raw generalizing p with
  | nil => exact NI_ok _
  | cons tb rest ih =>
    obtain ⟨t, b⟩ := tb
    simp only [buildFrom]
    split
    · exact NI_ve
    · cases hs : secs (t - p.tick) p.bpm res with
      | error e =>
        simp only []
        intro w h; injection h with h; subst h
        exact secs_ni _ _ _ w hs
      | ok s =>
        simp only []
        cases hb : buildFrom res ⟨t, b, p.ts + usOfSeconds s⟩ rest with
        | error e =>
          simp only []
          intro w h; injection h with h; subst h
          exact ih _ w hb
        | ok es => exact NI_ok _

theorem buildMap_ni (res : Int) (raw : List (Nat × Rat)) : NI (buildMap res raw) := by
  unfold buildMap
  cases raw with
  | nil => simp only []; split <;> exact NI_ve
  | cons tb rest =>
    obtain ⟨t, b⟩ := tb
    simp only []
    cases hb : buildFrom res ⟨t, b, 0⟩ rest with
    | error e =>
      simp only []
      intro w h; injection h with h; subst h
      exact buildFrom_ni _ _ _ w hb
    | ok es =>
      simp only []
      split
      · exact NI_ve
      · split
        · exact NI_ve
        · exact NI_ok _

theorem buildSync_ni (res : Int) (bd : List (Nat × Rat)) (td : List (Nat × Nat × Option Nat)) (ad : List (Nat × Nat)) :
    NI (buildSync res bd td ad) := by
  unfold buildSync
  apply NI_bind
  · split
    · exact buildMap_ni _ _
    · exact NI_ve
  · intro bpms _
    apply NI_bind _ _ (chain_ni _ _ _ _); intro tsts _
    split
    · exact NI_ve
    · split
      · exact NI_ve
      · exact NI_ok _

theorem parseSync_ni (res : Int) (lines : List Str) : NI (parseSync res lines) := by
  unfold parseSync
  exact NI_bind _ _ (buildSync_ni _ _ _ _) (fun _ _ => NI_ok _)

theorem buildValEvs_ni (res : Int) (evs : List BpmEv) (l : List (Nat × Str)) : NI (buildValEvs res evs l) := by
  unfold buildValEvs
  exact NI_bind _ _ (chain_ni _ _ _ _) (fun _ _ => NI_ok _)

theorem parseEvents_ni (res : Int) (evs : List BpmEv) (lines : List Str) : NI (parseEvents res evs lines) := by
  unfold parseEvents
  apply NI_bind _ _ (buildValEvs_ni _ _ _); intro _ _
  apply NI_bind _ _ (buildValEvs_ni _ _ _); intro _ _
  apply NI_bind _ _ (buildValEvs_ni _ _ _); intro _ _
  exact NI_ok _

/-- the required-section check makes the three subscripts safe -/
theorem lookup_ni (secs : Sections) (tag : Str) (h : secs.any (·.1 == tag) = true) :
    NI (lookup secs tag) := by
  unfold lookup
  cases hf : secs.find? (·.1 == tag) with
  | some kv => exact NI_ok _
  | none =>
    rw [List.find?_eq_none] at hf
    rw [List.any_eq_true] at h
    obtain ⟨x, hx, hxt⟩ := h
    exact absurd hxt (hf x hx)

/-- obligation on the regenerated table: the three tags the code subscripts with are the required ones -/
theorem tagAt_mem (i : Nat) (hi : i < 3) : tagAt i ∈ Gen.requiredTags := by
  have h3 : Gen.requiredTags.length = 3 := by decide
  unfold tagAt
  rw [List.getD_eq_getElem?_getD, List.getElem?_eq_getElem (by omega)]
  simp

theorem parseShared_ni (secs : Sections) : NI (parseShared secs) := by
  unfold parseShared
  split
  · exact NI_ve
  · rename_i hreq
    have hall : Gen.requiredTags.all (fun t => secs.any (·.1 == t)) = true := by
      simpa using hreq
    rw [List.all_eq_true] at hall
    have h0 := hall (tagAt 0) (tagAt_mem 0 (by omega))
    have h1 := hall (tagAt 1) (tagAt_mem 1 (by omega))
    have h2 := hall (tagAt 2) (tagAt_mem 2 (by omega))
    apply NI_bind _ _ (lookup_ni _ _ h0); intro songLines _
    apply NI_bind _ _ (parseFields_ni _ _); intro metad _
    apply NI_bind _ _ (lookup_ni _ _ h1); intro syncLines _
    apply NI_bind _ _ (parseSync_ni _ _); intro sy _
    apply NI_bind _ _ (lookup_ni _ _ h2); intro evLines _
    apply NI_bind _ _ (parseEvents_ni _ _ _); intro ev _
    exact NI_ok _

theorem parseSections_ni (secs : Sections) (want : Option (List (Nat × Nat))) : NI (parseSections secs want) := by
  unfold parseSections
  apply NI_bind _ _ (parseShared_ni _); intro sh _
  apply NI_bind _ _ (routeTracks_ni _ _ _ _); intro tr _
  exact NI_ok _

theorem scanGo_ni (hdr : Str → Option Str) (lines : List Str) (cur : Option Str) (body : Option (List Str))
    (seen : List Str) (d : Sections) : NI (scanGo hdr lines cur body seen d) := by
  induction lines generalizing cur body seen d with
  | nil => cases cur <;> exact NI_ok _
  | cons line rest ih =>
    cases cur with
    | none =>
      simp only [scanGo]
      split
      · exact NI_rnm
      · exact ih _ _ _ _
    | some tag =>
      simp only [scanGo]
      split
      · exact ih _ _ _ _
      · split
        · exact ih _ _ _ _
        · exact ih _ _ _ _

/-- C18: for every text and every selection, parsing returns a chart or a documented error -/
theorem parseChart_ni (text : Str) (want : Option (List (Nat × Nat))) : NI (parseChart text want) := by
  unfold parseChart scanSections
  exact NI_bind _ _ (scanGo_ni _ _ _ _ _ _) (fun secs _ => parseSections_ni secs want)

theorem parsePath_ni (decoded : Str) (want : Option (List (Nat × Nat))) : NI (parsePath decoded want) := by
  unfold parsePath; exact parseChart_ni _ _

end Chartparse
