import Chartparse.Model.Instrument
/-! Models of `complex_sustain_from_parsed_datas`, `_refined_sustain_tuple`, `_longest_sustain` and
    `_compute_hopo_state`, with the C03 / C04 theorems (core Lean only). -/
namespace Chartparse.Inst
open Chartparse

theorem refine_none (l : List (Option Nat)) (h : ∀ d ∈ l, d = none) : refine l = .ticks 0 := by
  unfold refine
  have : l.find? Option.isSome = none := by
    rw [List.find?_eq_none]; intro x hx; rw [h x hx]; simp
  rw [this]

/-- one number when all present lanes agree -/
theorem refine_uniform (l : List (Option Nat)) (s : Nat) (hall : ∀ d ∈ l, d = none ∨ d = some s)
    (hsome : some s ∈ l) : refine l = .ticks s := by
  unfold refine
  cases hf : l.find? Option.isSome with
  | none =>
    rw [List.find?_eq_none] at hf
    exact absurd (by simp) (hf (some s) hsome)
  | some x =>
    have hx := List.mem_of_find?_eq_some hf
    have hxs := List.find?_some hf
    rcases hall x hx with rfl | rfl
    · simp at hxs
    · simp only []
      rw [if_pos]
      rw [List.all_eq_true]
      intro d hd
      rcases hall d hd with rfl | rfl <;> simp

/-- the tuple itself when two present lanes differ -/
theorem refine_mixed (l : List (Option Nat)) (a b : Nat) (ha : some a ∈ l) (hb : some b ∈ l) (hab : a ≠ b) :
    refine l = .tuple l := by
  unfold refine
  cases hf : l.find? Option.isSome with
  | none =>
    rw [List.find?_eq_none] at hf
    exact absurd (by simp) (hf (some a) ha)
  | some x =>
    have hxs := List.find?_some hf
    cases x with
    | none => simp at hxs
    | some f =>
      simp only []
      rw [if_neg]
      intro hall
      rw [List.all_eq_true] at hall
      have h1 := hall (some a) ha
      have h2 := hall (some b) hb
      simp at h1 h2
      omega

/-- an open note reports its own length, whatever flag lines follow it -/
theorem sustain_open (d : NDatum) (rest : List NDatum) (h : d.idx = 7) :
    complexSustain (d :: rest) = .ok (.ticks d.sus) := by
  simp [complexSustain, h]

/-- flag lines (indices 5 and 6, and 7) never enter the per-lane list -/
theorem fill_flag (g : List NDatum) (d : NDatum) (h : 4 < d.idx) : fill (g ++ [d]) = fill g := by
  unfold fill
  rw [List.foldl_append]
  simp only [List.foldl_cons, List.foldl_nil]
  rw [if_neg (by omega)]

/-! ### HOPO -/

/-- the rule as the property states it -/
def rule (thr : Int) (tick : Nat) (lanes : List Bool) (tap forced : Bool) (prev : Option (Nat × List Bool)) : Hopo :=
  if tap then .tap
  else match prev with
    | none => .strum
    | some (pt, pl) =>
      let natural := !isChord lanes && lanes != pl && decide (((tick : Int) - (pt : Int)) ≤ thr)
      if natural then (if forced then .strum else .hopo) else (if forced then .hopo else .strum)

theorem hopo_rule (thr : Int) (tick : Nat) (lanes : List Bool) (tap forced : Bool)
    (prev : Option (Nat × List Bool)) (h : ¬ (forced = true ∧ prev = none)) :
    hopoState thr tick lanes tap forced prev = .ok (rule thr tick lanes tap forced prev) := by
  unfold hopoState rule
  cases prev with
  | none =>
    have hf : forced = false := by
      cases forced with
      | false => rfl
      | true => exact absurd ⟨rfl, rfl⟩ h
    subst hf
    cases tap <;> simp
  | some p =>
    obtain ⟨pt, pl⟩ := p
    simp only []
    generalize decide (((tick : Int) - (pt : Int)) ≤ thr) = w
    generalize (lanes != pl) = dff
    generalize isChord lanes = ch
    cases tap <;> cases forced <;> cases w <;> cases dff <;> cases ch <;> rfl

theorem hopo_forced_first (thr : Int) (tick : Nat) (lanes : List Bool) (tap : Bool) :
    hopoState thr tick lanes tap true none = .error .valueError := by
  simp [hopoState]

end Chartparse.Inst
