import Chartparse.Proofs.Seg
import Chartparse.Model.Rate
/-! C16: `Chart._notes_per_second` — closed-interval count over interval length, through binary64. -/
namespace Chartparse.Rate
open Chartparse
open Chartparse.F64

/-- closedness at both ends, stated on the count -/
theorem count_closed (notes : List Int) (s e t : Int) (ht : t ∈ notes) (h1 : s ≤ t) (h2 : t ≤ e) :
    0 < count notes s e := by
  unfold count
  apply List.length_pos_of_mem (a := t)
  simp [List.mem_filter, ht, h1, h2]

theorem nps_nonpositive (notes : List Int) (s e : Int) (h : e ≤ s) : npsCore notes s e = .error .valueError := by
  unfold npsCore
  have : (((e - s : Int) : Rat) / 1000000) ≤ 0 := by
    have : ((e - s : Int) : Rat) ≤ 0 := by exact_mod_cast (by omega : e - s ≤ 0)
    apply div_nonpos_of_nonpos_of_nonneg this (by norm_num)
  simp only [fl, this, if_true, le_refl]

/-- the value is count / seconds up to two roundings and one inversion: relative error ≤ 3·2⁻⁵³ -/
theorem nps_value (notes : List Int) (s e : Int) (h : s < e) (hc : 0 < count notes s e) :
    ∃ v, npsCore notes s e = .ok v ∧
      R (3 * u) v ((count notes s e : Rat) / (((e - s : Int) : Rat) / 1000000)) := by
  have hD : (0 : Rat) < ((e - s : Int) : Rat) / 1000000 := by
    have : (0 : Rat) < ((e - s : Int) : Rat) := by exact_mod_cast (by omega : 0 < e - s)
    positivity
  have hu := u_pos
  have hu1 : u < 1 := by unfold u; norm_num
  have r1 : R u (fl (((e - s : Int) : Rat) / 1000000)) (((e - s : Int) : Rat) / 1000000) := fl_R _ hD
  have hsecs : 0 < fl (((e - s : Int) : Rat) / 1000000) := R_pos hD hu1 r1
  have hC : (0 : Rat) < (count notes s e : Rat) := by exact_mod_cast hc
  unfold npsCore
  rw [if_neg (not_le.mpr hsecs)]
  refine ⟨_, rfl, ?_⟩
  -- count / secs = count * (1 / secs)
  have hinv := R_inv hD hu.le hu1 r1
  have hI : (0 : Rat) < 1 / (((e - s : Int) : Rat) / 1000000) := by positivity
  have e1 : u / (1 - u) < 1 := by unfold u; norm_num
  have hmul := R_mul hC hI (le_refl 0) (by norm_num) (by unfold u; norm_num) e1 (R_refl _) hinv
  have hP : (0 : Rat) < (count notes s e : Rat) * (1 / (((e - s : Int) : Rat) / 1000000)) := by positivity
  have e2 : 0 + u / (1 - u) + 0 * (u / (1 - u)) < 1 := by unfold u; norm_num
  have hfl := R_fl hP (by unfold u; norm_num) e2 hmul
  have heq1 : (count notes s e : Rat) / fl (((e - s : Int) : Rat) / 1000000)
      = (count notes s e : Rat) * (1 / fl (((e - s : Int) : Rat) / 1000000)) := by ring
  have heq2 : (count notes s e : Rat) / (((e - s : Int) : Rat) / 1000000)
      = (count notes s e : Rat) * (1 / (((e - s : Int) : Rat) / 1000000)) := by ring
  rw [heq1, heq2]
  exact R_mono hP.le (by unfold u; norm_num) hfl

end Chartparse.Rate
