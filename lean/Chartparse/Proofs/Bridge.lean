import Chartparse.Proofs.C01Proofs
namespace Chartparse.Tempo
open Chartparse
open Chartparse.F64

theorem scan_succ (tick : Int) (es : List Nat) (i : Nat) : scan tick es (i + 1) = scan tick es i + 1 := by
  rw [scan_eq, scan_eq]; omega

/-- un-hinted query on a list with at least two events, tick at or after the second one: skip the head -/
theorem tsAt_skip (res : Int) (p e : BpmEv) (es : List BpmEv) (t : Nat)
    (hp : p.tick ≤ t) (he : e.tick ≤ t) :
    tsAt res (p :: e :: es) (t : Int) 0 =
      match tsAt res (e :: es) (t : Int) 0 with
      | .ok (x, g) => .ok (x, g + 1)
      | .error err => .error err := by
  unfold tsAt indexOfProximal
  simp only [List.map_cons, List.length_cons, List.getElem?_cons_zero, List.drop_succ_cons, List.drop_zero]
  rw [if_neg (by omega), if_neg (by omega)]
  rw [if_neg (by omega), if_neg (by omega)]
  simp only [scan]
  rw [if_neg (by omega)]
  rw [show (0 : Nat) + 1 = 0 + 1 from rfl, scan_succ]
  simp only [List.getElem?_cons_succ]
  cases (e :: es)[scan (↑t) (List.map (fun x => x.tick) es) 0]? with
  | none => rfl
  | some ev =>
    simp only []
    cases secs (↑t - ↑ev.tick : Int).natAbs ev.bpm res <;> rfl

/-- the code's un-hinted query agrees with the list walk used in the proofs -/
theorem tsAt_eq_tsRec (res : Int) (hres : 0 < res) (evs : List BpmEv) :
    ∀ (t : Nat), (∀ e rest, evs = e :: rest → e.tick ≤ t) →
      (∀ x g, tsAt res evs (t : Int) 0 = .ok (x, g) → tsRec res.toNat evs t = some x) ∧
      (∀ x, tsRec res.toNat evs t = some x → ∃ g, tsAt res evs (t : Int) 0 = .ok (x, g)) := by
  induction evs with
  | nil =>
    intro t _
    constructor
    · intro x g h; simp [tsAt, indexOfProximal] at h
    · intro x h; simp [tsRec] at h
  | cons p rest ih =>
    intro t hhead
    have hp : p.tick ≤ t := hhead p rest rfl
    cases rest with
    | nil =>
      have key : tsAt res [p] (t : Int) 0 =
          match secs (t - p.tick) p.bpm res with
          | .ok s => .ok (p.ts + usOfSeconds s, 0)
          | .error e => .error e := by
        unfold tsAt indexOfProximal
        simp only [List.map_cons, List.map_nil, List.length_cons, List.length_nil, List.getElem?_cons_zero,
          List.drop_succ_cons, List.drop_nil, scan]
        rw [if_neg (by omega), if_neg (by omega)]
        simp only [List.getElem?_cons_zero]
        have : ((t : Int) - (p.tick : Int)).natAbs = t - p.tick := by omega
        rw [this]
        cases secs (t - p.tick) p.bpm res <;> rfl
      rw [key]
      simp only [tsRec, secs]
      have hr : ¬ res ≤ 0 := by omega
      constructor
      · intro x g h
        by_cases hb : p.bpm ≤ 0
        · simp [hb] at h
        · simp only [hb, hr, if_false] at h
          injection h with h; injection h with h1 h2
          rw [if_pos (not_le.mp hb), ← h1]
      · intro x h
        by_cases hb : 0 < p.bpm
        · rw [if_pos hb] at h
          injection h with h
          refine ⟨0, ?_⟩
          simp only [not_le.mpr hb, hr, if_false, h]
        · rw [if_neg hb] at h; cases h
    | cons e es =>
      by_cases hte : t < e.tick
      · -- governed by the head event
        have key : tsAt res (p :: e :: es) (t : Int) 0 =
            match secs (t - p.tick) p.bpm res with
            | .ok s => .ok (p.ts + usOfSeconds s, 0)
            | .error err => .error err := by
          unfold tsAt indexOfProximal
          simp only [List.map_cons, List.length_cons, List.getElem?_cons_zero, List.drop_succ_cons,
            List.drop_zero, scan]
          rw [if_neg (by omega), if_neg (by omega), if_pos (by omega)]
          simp only [List.getElem?_cons_zero]
          have : ((t : Int) - (p.tick : Int)).natAbs = t - p.tick := by omega
          rw [this]
          cases secs (t - p.tick) p.bpm res <;> rfl
        rw [key]
        simp only [tsRec, if_pos hte, secs]
        have hr : ¬ res ≤ 0 := by omega
        constructor
        · intro x g h
          by_cases hb : p.bpm ≤ 0
          · simp [hb] at h
          · simp only [hb, hr, if_false] at h
            injection h with h; injection h with h1 h2
            rw [if_pos (not_le.mp hb), ← h1]
        · intro x h
          by_cases hb : 0 < p.bpm
          · rw [if_pos hb] at h
            injection h with h
            refine ⟨0, ?_⟩
            simp only [not_le.mpr hb, hr, if_false, h]
          · rw [if_neg hb] at h; cases h
      · have he : e.tick ≤ t := by omega
        obtain ⟨ih1, ih2⟩ := ih t (by intro e' r' h; injection h with h1 _; subst h1; exact he)
        rw [tsAt_skip res p e es t hp he]
        simp only [tsRec, if_neg hte]
        constructor
        · intro x g h
          cases hq : tsAt res (e :: es) (t : Int) 0 with
          | error err => rw [hq] at h; cases h
          | ok xg =>
            obtain ⟨x', g'⟩ := xg
            rw [hq] at h
            injection h with h; injection h with h1 h2; subst h1
            exact ih1 x' g' hq
        · intro x h
          obtain ⟨g, hg⟩ := ih2 x h
          exact ⟨g + 1, by rw [hg]⟩

end Chartparse.Tempo
