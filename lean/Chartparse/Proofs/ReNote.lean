import Chartparse.Proofs.ReProofs
namespace Chartparse.Rx
open Chartparse

@[simp] theorem test_lit (a c : Nat) : (CSet.lit a).test c = (c == a) := rfl

theorem ne32_of_digit {c : Nat} (hc : CSet.digit.test c = true) : c ≠ 32 := by
  intro h; subst h; have := digit_not_space hc; simp [CSet.test, inRanges, Gen.spaceRanges] at this

theorem ne10_of_digit {c : Nat} (hc : CSet.digit.test c = true) : c ≠ 10 := by
  intro h; subst h; have := digit_not_space hc; simp [CSet.test, inRanges, Gen.spaceRanges] at this

/-- trailing `\s*?$`: any run of whitespace up to the end of the line is accepted -/
theorem trailing_space_eol {β} (v : β) (q : Str) (hq : AllIn .space q) :
    starExec false CSet.space (fun r => if r = [] ∨ r = [10] then some v else none) q = some v := by
  induction q with
  | nil => simp [starExec]
  | cons c t ih =>
    have hc : CSet.space.test c = true := hq c (by simp)
    have ht : AllIn .space t := fun x hx => hq x (by simp [hx])
    simp only [starExec, hc, if_true, Bool.false_eq_true, if_false]
    split
    · simp [Option.orElse]
    · simp [Option.orElse, ih ht]

theorem note_accept (p t l q : Str) (i : Nat)
    (hp : AllIn .space p) (ht : AllIn .digit t) (ht0 : t ≠ []) (hi : 48 ≤ i ∧ i ≤ 55)
    (hl : AllIn .digit l) (hl0 : l ≠ []) (hq : AllIn .space q) :
    noteRe.matchGroups (p ++ (t ++ ([32,61,32,78,32] ++ (i :: 32 :: (l ++ q))))) = some [(3,l),(2,[i]),(1,t)] := by
  unfold Re.matchGroups noteRe
  simp only [Re.exec, plusLazy]
  apply starExec_lazy_run _ _ _ _ _ hp
  · intro c t' hc
    simp [space_not_digit hc]
  · obtain ⟨d, t', rfl⟩ := List.exists_cons_of_ne_nil ht0
    have hd : CSet.digit.test d = true := ht d (by simp)
    have ht' : AllIn .digit t' := fun c hc => ht c (by simp [hc])
    simp only [List.cons_append, hd, if_true]
    apply starExec_lazy_run _ _ _ _ _ ht'
    · intro c t'' hc
      simp [lits, Re.exec, ne32_of_digit hc]
    · have hi' : CSet.test (.range 48 55) i = true := by simp [CSet.test, hi.1, hi.2]
      obtain ⟨e, l', rfl⟩ := List.exists_cons_of_ne_nil hl0
      have he : CSet.digit.test e = true := hl e (by simp)
      have hl' : AllIn .digit l' := fun c hc => hl c (by simp [hc])
      simp only [lits, List.foldr, Re.exec, List.nil_append, List.cons_append, test_lit,
        beq_self_eq_true, if_true, hi', he]
      apply starExec_lazy_run _ _ _ _ _ hl'
      · -- after a proper prefix of the digits the continuation (blanks then `$`) fails on a digit
        intro c t'' hc
        have h1 := digit_not_space hc
        have h10 := ne10_of_digit hc
        simp only [starExec, h1, Bool.false_eq_true, if_false]
        rw [if_neg]
        intro h'; rcases h' with h' | h'
        · cases h'
        · injection h' with h1' _; exact h10 h1'
      · -- all digits consumed: the trailing blanks, then `$`; finally the three captures
        rw [trailing_space_eol _ q hq]
        have e1 : (e :: (l' ++ q)).length - q.length = (e :: l').length := by simp; omega
        have e3 : (d :: (t' ++ 32 :: 61 :: 32 :: 78 :: 32 :: i :: 32 :: e :: (l' ++ q))).length -
            (32 :: 61 :: 32 :: 78 :: 32 :: i :: 32 :: e :: (l' ++ q)).length = (d :: t').length := by
          simp; omega
        have t1 : List.take (e :: l').length (e :: (l' ++ q)) = e :: l' := by
          rw [← List.cons_append]; exact List.take_left' rfl
        have t3 : List.take (d :: t').length (d :: (t' ++ 32 :: 61 :: 32 :: 78 :: 32 :: i :: 32 :: e :: (l' ++ q)))
            = d :: t' := by
          rw [← List.cons_append]; exact List.take_left' rfl
        rw [e1, e3, t1, t3]
        simp
end Chartparse.Rx
