import Chartparse.Proofs.Bridge
namespace Chartparse.Tempo
open Chartparse
open Chartparse.F64

theorem segUs_mono (res n : Nat) {a b : Nat} (h : a ≤ b) : segUs res a n ≤ segUs res b n := by
  unfold segUs
  have : (a : Rat) ≤ b := by exact_mod_cast h
  rcases Nat.eq_zero_or_pos n with hn | hn
  · subst hn; simp
  rcases Nat.eq_zero_or_pos res with hr | hr
  · subst hr; simp
  have hn' : (0 : Rat) < n := by exact_mod_cast hn
  have hr' : (0 : Rat) < res := by exact_mod_cast hr
  gcongr

/-- when a tick lasts at least two microseconds, later ticks of one segment get strictly later times -/
theorem seg_strict (res n : Nat) (hn : 1 ≤ n) (hres : 1 ≤ res) (hslow : n * res ≤ 30000000000)
    {a b : Nat} (hab : a < b) (hE : segUs res b n < 1000000000000) :
    usOfSeconds (secsFromTicks a (fl ((n : Rat) / 1000)) res)
      < usOfSeconds (secsFromTicks b (fl ((n : Rat) / 1000)) res) := by
  have hEa : segUs res a n < 1000000000000 := lt_of_le_of_lt (segUs_mono res n hab.le) hE
  have ha := seg_bound' res a n hn hres hEa
  have hb := seg_bound' res b n hn hres hE
  rw [abs_le] at ha hb
  -- exact durations differ by at least 2 µs
  have hgap : segUs res a n + 2 ≤ segUs res b n := by
    unfold segUs
    have hn' : (0 : Rat) < n := by exact_mod_cast hn
    have hr' : (0 : Rat) < res := by exact_mod_cast hres
    have hnr : (n : Rat) * res ≤ 30000000000 := by exact_mod_cast hslow
    have hab' : (a : Rat) + 1 ≤ b := by exact_mod_cast hab
    have hpos : (0 : Rat) < (n : Rat) * res := by positivity
    have key : (2 : Rat) ≤ 1000000 * (60000 / ((n : Rat) * res)) := by
      rw [show (1000000 : Rat) * (60000 / ((n : Rat) * res)) = 60000000000 / ((n : Rat) * res) by ring]
      rw [le_div_iff₀ hpos]; linarith
    have e1 : 1000000 * ((b : Rat) * 60000 / ((n : Rat) * res)) - 1000000 * ((a : Rat) * 60000 / ((n : Rat) * res))
        = ((b : Rat) - a) * (1000000 * (60000 / ((n : Rat) * res))) := by ring
    have : (1 : Rat) * 2 ≤ ((b : Rat) - a) * (1000000 * (60000 / ((n : Rat) * res))) := by
      apply mul_le_mul (by linarith) key (by norm_num) (by linarith)
    linarith
  have : ((usOfSeconds (secsFromTicks a (fl ((n : Rat) / 1000)) res) : Int) : Rat)
      < (usOfSeconds (secsFromTicks b (fl ((n : Rat) / 1000)) res) : Rat) := by
    linarith [ha.2, hb.1]
  exact_mod_cast this

/-- C12, strict part: inside the C01 envelope and with every tick lasting ≥ 2 µs -/
theorem tsRec_strict (res : Nat) (hres : 1 ≤ res) (evs : List EvN) (hn : ∀ e ∈ evs, 1 ≤ e.n)
    (hslow : ∀ e ∈ evs, e.n * res ≤ 30000000000) (hl : Linked res (evs.map EvN.toEv)) :
    ∀ a b x y, a < b → (∀ e rest, evs = e :: rest → e.tick ≤ a) →
      tsRec res (evs.map EvN.toEv) a = some x → tsRec res (evs.map EvN.toEv) b = some y →
      exactRec res evs b < 1000000000000 → x < y := by
  induction evs with
  | nil => intro a b x y _ _ hx; simp [tsRec] at hx
  | cons p rest ih =>
    intro a b x y hab hhead hx hy hE
    have hpa : p.tick ≤ a := hhead p rest rfl
    cases rest with
    | nil =>
      simp only [List.map, tsRec, EvN.toEv] at hx hy
      split_ifs at hx hy
      injection hx with hx; injection hy with hy; subst hx; subst hy
      simp only [exactRec] at hE
      have := seg_strict res p.n (hn p (by simp)) hres (hslow p (by simp))
        (show a - p.tick < b - p.tick by omega) hE
      omega
    | cons e es =>
      simp only [List.map, tsRec, EvN.toEv] at hx hy
      simp only [exactRec] at hE
      have hl' : Linked res (e.toEv :: es.map EvN.toEv) := by
        cases hl with
        | cons _ _ _ _ _ _ h => exact h
      have hts : e.ts = p.ts + usOfSeconds (secsFromTicks (e.tick - p.tick) (fl ((p.n : Rat) / 1000)) res) := by
        cases hl with
        | cons _ _ _ _ _ h _ => exact h
      have hpe : p.tick < e.tick := by
        cases hl with
        | cons _ _ _ h _ _ _ => exact h
      by_cases hbe : b < e.tick
      · have hae : a < e.tick := by omega
        rw [if_pos hae] at hx; rw [if_pos hbe] at hy hE
        split_ifs at hx hy
        injection hx with hx; injection hy with hy; subst hx; subst hy
        have := seg_strict res p.n (hn p (by simp)) hres (hslow p (by simp))
          (show a - p.tick < b - p.tick by omega) hE
        omega
      · rw [if_neg hbe] at hy hE
        have hnn := exactRec_nonneg res (e :: es) b
        by_cases hae : a < e.tick
        · rw [if_pos hae] at hx
          split_ifs at hx
          injection hx with hx; subst hx
          have h1 := seg_strict res p.n (hn p (by simp)) hres (hslow p (by simp))
            (show a - p.tick < e.tick - p.tick by omega) (by linarith)
          have h2 := tsRec_ge_head res (e.toEv :: es.map EvN.toEv) hl' e.toEv (es.map EvN.toEv) rfl b y
            (by simpa [EvN.toEv] using hy)
          simp only [EvN.toEv] at h2
          omega
        · rw [if_neg hae] at hx
          have hs0 := segUs_nonneg res (e.tick - p.tick) p.n
          exact ih (fun q hq => hn q (by simp [hq])) (fun q hq => hslow q (by simp [hq])) (by simpa using hl')
            a b x y hab (by intro e' r' h; injection h with h1 _; subst h1; omega)
            (by simpa [EvN.toEv] using hx) (by simpa [EvN.toEv] using hy) (by linarith)

end Chartparse.Tempo
