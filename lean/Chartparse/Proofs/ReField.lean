import Chartparse.Proofs.ReTE
namespace Chartparse.Rx
open Chartparse

/-- the field recogniser factory `^\s*?Name = "?(value)"?\s*?$` for a value class `vs` (`\d`, `.`, `[^"]`) -/
def fieldRe (vs : CSet) (name : Str) : Re :=
  .cat (.star false .space) <| .cat (lits (name ++ [32, 61, 32])) <|
  .cat (.opt true (.chr (.lit 34))) <| .cat (.group 1 (plusLazy vs)) <|
  .cat (.opt true (.chr (.lit 34))) tailRe

/-- multiword string fields: value class `.` -/
def fieldStrRe (name : Str) : Re := fieldRe .any name

/-- after the value: an optional quote, blanks, end — fails while a later quote is still ahead -/
theorem close_fail {α} (k : Str → Caps → Option α) (r : Str) (cs : Caps) (h34 : 34 ∈ r.tail ∨ (34 ∈ r ∧ r.head? ≠ some 34)) :
    (Re.cat (.opt true (.chr (.lit 34))) tailRe).exec k r cs = none := by
  rw [exec_cat, exec_opt_greedy]
  have hq : CSet.space.test 34 = false := quote_not_space
  cases r with
  | nil => rcases h34 with h | ⟨h, _⟩ <;> simp at h
  | cons c t =>
    have hin : 34 ∈ c :: t := by
      rcases h34 with h | ⟨h, _⟩
      · simp at h; simp [h]
      · exact h
    have hfall : tailRe.exec k (c :: t) cs = none := tail_fail _ _ _ ⟨34, hin, hq⟩
    rw [exec_chr_cons]
    by_cases hc : (CSet.lit 34).test c = true
    · rw [if_pos hc]
      have hc' : c = 34 := by simpa using hc
      have ht : 34 ∈ t := by
        rcases h34 with h | ⟨_, h⟩
        · simpa using h
        · subst hc'; simp at h
      rw [tail_fail _ t _ ⟨34, ht, hq⟩]
      simp only [Option.orElse]; exact hfall
    · rw [if_neg hc]; simp only [Option.orElse]; exact hfall

/-- C10: a quoted string value is captured verbatim — inner quotes, blanks, `=`, other field names included -/
theorem field_str_verbatim (a : Nat) (name' p v q : Str) (ha : CSet.space.test a = false)
    (hp : AllIn .space p) (hv : AllIn .any v) (hv0 : v ≠ []) (hq : AllIn .space q) :
    (fieldStrRe (a :: name')).matchGroups (p ++ ((a :: name') ++ [32, 61, 32] ++ (34 :: (v ++ (34 :: q)))))
      = some [(1, v)] := by
  unfold Re.matchGroups fieldStrRe fieldRe
  rw [exec_cat]
  apply starLazy_run _ _ p _ _ _ hp
  · intro c t' hc
    rw [exec_cat]
    apply lits_fail_head a
    intro h; subst h; rw [hc] at ha; cases ha
  rw [exec_cat, exec_lits, exec_cat, exec_opt_greedy]
  -- greedy: the opening quote is consumed
  have hbranch : (Re.chr (.lit 34)).exec
      (fun r1 cs1 => (Re.cat (.group 1 (plusLazy .any)) (.cat (.opt true (.chr (.lit 34))) tailRe)).exec
        (fun _ cs => some cs) r1 cs1) (34 :: (v ++ 34 :: q)) [] = some [(1, v)] := by
    rw [exec_chr_cons, if_pos (by simp), exec_cat, exec_group]
    obtain ⟨d, v', rfl⟩ := List.exists_cons_of_ne_nil hv0
    have hd : CSet.any.test d = true := hv d (by simp)
    have hv' : AllIn .any v' := fun c hc => hv c (by simp [hc])
    unfold plusLazy
    rw [exec_cat, List.cons_append, exec_chr_cons, if_pos hd, exec_star]
    rw [starExec_lazy_skip _ _ v' (34 :: q) hv']
    · apply starExec_lazy_stop
      rw [exec_cat, exec_opt_greedy, exec_chr_cons, if_pos (by simp)]
      rw [tail_ok _ q _ hq (fun _ => rfl) _ rfl]
      simp
      have e : v'.length + (q.length + 1) - q.length = (d :: v').length := by simp; omega
      rw [e, ← List.cons_append]; exact List.take_left' rfl
    · intro i hi
      obtain ⟨c, w, hcw⟩ : ∃ c w, v'.drop i = c :: w := by
        cases h : v'.drop i with
        | nil => simp at h; omega
        | cons c w => exact ⟨c, w, rfl⟩
      rw [hcw]
      apply close_fail
      left; simp
  rw [hbranch]; rfl

end Chartparse.Rx
