import Chartparse.Tie.Common
import Chartparse.Model.Tempo
/-! The BPM decode in `BPMEvent.from_parsed_data` is one correctly rounded division `int(raw) / 1000` — `decodeBpm`. -/
namespace Chartparse.Tie
open Chartparse Chartparse.Py Chartparse.F64 Chartparse.Tempo

theorem bpmDecode_tie (n : Int) (hn : 0 ≤ n) :
    valueOf [("data.raw_bpm", .int n)] Gen.Leaf.bpmDecode "bpm" = .ok (.flt (decodeBpm n.toNat)) := by
  have hnn := natCast_toNat n hn
  have hq : (0 : Rat) ≤ (n : Rat) / 1000 := by
    have : (0 : Rat) ≤ (n : Rat) := by exact_mod_cast hn
    positivity
  have e := fls_of_nonneg _ hq
  simp [Gen.Leaf.bpmDecode, valueOf, execBody, evalExpr, lookup, evalBin, bind, Except.bind, e, decodeBpm, hnn]

end Chartparse.Tie
