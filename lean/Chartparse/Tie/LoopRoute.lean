import Chartparse.Gen.Imp
import Chartparse.Proofs.ImpRules
import Chartparse.Tie.LoopScan
import Chartparse.Tie.LoopGlue
/-! `Chart.from_file` as written in /repo today — read and split the text, partition it into sections, demand the three required ones,
    parse metadata, sync track and global events in that order (each from its own section, the sync track with the metadata's resolution,
    the events with the sync track's tempo events), then the routing loop over the sections in dict order: a title the instrument table
    knows is looked up, **skipped before anything of it is read if a selection is given and does not contain its pair**, otherwise parsed
    by `InstrumentTrack.from_chart_lines` and filed with `setdefault`; any other title that is not a required one is reported; finally
    the constructor — proved, for every file object, selection and whatever the callees do, to be `fileV`. `routeFold_select` then
    states C13's non-interference on this very loop: parsing with a selection is parsing the sections without the unselected instrument
    sections, whatever those contain. -/
namespace Chartparse.Tie
open Chartparse Chartparse.PyImp

/-- `x in c` (keys of a dict, elements of a list / tuple) -/
def containsV (x c : Val) : M Val :=
  match c with
  | .dict sp => match dictEntries sp with
    | some l => .ok (.bool (l.any (·.1 == x)))
    | none => unsupported "dict"
  | _ => match seqOf c with
    | some l => .ok (.bool (l.any (· == x)))
    | none => unsupported "in"

theorem evalExpr_contains (ext : Ext) (env : Env) (a b : Expr) :
    evalExpr ext env (.contains a b) = evalExpr ext env a >>= fun x => evalExpr ext env b >>= fun c => containsV x c := by
  rw [evalExpr]
  rfl

theorem containsV_bool (x c : Val) (v : Val) (h : containsV x c = .ok v) : ∃ b, v = .bool b := by
  unfold containsV at h
  split at h
  · split at h
    · injection h with h; exact ⟨_, h.symm⟩
    · cases h
  · split at h
    · injection h with h; exact ⟨_, h.symm⟩
    · cases h

/-- `want_tracks is not None and pair not in want_tracks` -/
def skipV (want pair : Val) : M Bool :=
  if want == .none then .ok false else containsV pair want >>= fun r => truth r >>= fun t => .ok (!t)

def REQ : Val := Gen.Imp.fromFileK_required_header_tags
def ITR : String := "InstrumentTrack.from_chart_lines"

/-- one section of the routing loop: the new value of `instrument_tracks` -/
def routeStep (ext : Ext) (T want sync : Val) (acc tag lines : Val) : M Val :=
  containsV tag T >>= fun r => truth r >>= fun isTrack =>
  if isTrack then
    indexVal T tag >>= fun pair =>
    skipV want pair >>= fun skip =>
    if skip then .ok acc else
    unpack2 pair >>= fun p =>
    (attrVal sync "bpm_events" >>= fun bpm => ext ITR [p.1, p.2, lines, bpm]) >>= fun track =>
    setDefaultAt acc p.1 p.2 track
  else containsV tag REQ >>= fun r => truth r >>= fun _ => .ok acc

def routeFold (ext : Ext) (T want sync : Val) : Val → List (Val × Val) → M Val
  | acc, [] => .ok acc
  | acc, (tag, lines) :: rest => routeStep ext T want sync acc tag lines >>= fun acc' => routeFold ext T want sync acc' rest

def rEnv (c fp want secs ge T acc lines md sync : Val) (dsl diff tag inst pair track it : Option Val) (ws : List Val) : Env :=
  [("cls", some c), ("fp", some fp), ("want_tracks", some want), ("data_section_lines", dsl), ("data_sections", some secs), ("difficulty", diff),
   ("global_events_track", some ge), ("header_tag", tag), ("instrument", inst), ("instrument_difficulty_pair", pair),
   ("instrument_track_name_to_instrument_difficulty_pair", some T), ("instrument_tracks", some acc), ("lines", some lines), ("metadata", some md),
   ("sync_track", some sync), ("track", track), ("$it", it), ("$log", some (.list (Val.ofList ws)))]

def routeBody : Stmt :=
 (.seq (.unpack ["header_tag", "data_section_lines"] (.var "$it"))
 (.ite (.contains (.var "header_tag") (.var "instrument_track_name_to_instrument_difficulty_pair"))
 (.seq (.assign "instrument_difficulty_pair" (.index (.var "instrument_track_name_to_instrument_difficulty_pair") (.var "header_tag")))
 (.seq (.ite (.and (.not (.isNone (.var "want_tracks"))) (.not (.contains (.var "instrument_difficulty_pair") (.var "want_tracks"))))
 .cont
 .skip)
 (.seq (.unpack ["instrument", "difficulty"] (.var "instrument_difficulty_pair"))
 (.seq (.assign "track" (.call "InstrumentTrack.from_chart_lines" (.econs (.var "instrument") (.econs (.var "difficulty") (.econs (.var "data_section_lines") (.econs (.attr (.var "sync_track") "bpm_events") .enil))))))
 (.setDefaultIdx "instrument_tracks" (.var "instrument") (.var "difficulty") (.var "track"))))))
 (.ite (.not (.contains (.var "header_tag") (.lit Gen.Imp.fromFileK_required_header_tags)))
 (.warn (.lit .none))
 .skip)))

def pairV (kv : Val × Val) : Val := .tup (.cons kv.1 (.cons kv.2 .nil))

theorem encEntries_cons (kv : Val × Val) (rest : List (Val × Val)) : encEntries (kv :: rest) = .cons (pairV kv) (encEntries rest) := by
  simp [encEntries, Val.ofList, pairV]

/-- the condition of the `continue` -/
theorem skip_cond (ext : Ext) (env : Env) (want pair : Val) (hw : lookup env "want_tracks" = .ok want)
    (hp : lookup env "instrument_difficulty_pair" = .ok pair) :
    (evalExpr ext env (.and (.not (.isNone (.var "want_tracks"))) (.not (.contains (.var "instrument_difficulty_pair") (.var "want_tracks")))) >>= truth)
      = skipV want pair := by
  have hc : evalExpr ext env (.contains (.var "instrument_difficulty_pair") (.var "want_tracks")) = containsV pair want := by
    rw [evalExpr_contains]
    simp only [evalExpr, hw, hp, bind, Except.bind]
  generalize (Expr.contains (.var "instrument_difficulty_pair") (.var "want_tracks")) = E at hc ⊢
  simp only [evalExpr, hw, bind, Except.bind, skipV, truth_bool, hc]
  by_cases h : want = .none
  · subst h; simp
  · have h' : (want == Val.none) = false := by simpa using h
    simp only [h', Bool.not_false, if_true, Bool.false_eq_true, if_false]
    cases hc : containsV pair want with
    | error e => rfl
    | ok v =>
      obtain ⟨b, hb⟩ := containsV_bool _ _ _ hc
      subst hb
      simp

def TN : String := "instrument_track_name_to_instrument_difficulty_pair"
def condSkip : Expr := (.and (.not (.isNone (.var "want_tracks"))) (.not (.contains (.var "instrument_difficulty_pair") (.var "want_tracks"))))
def callTrack : Expr := (.call "InstrumentTrack.from_chart_lines" (.econs (.var "instrument") (.econs (.var "difficulty") (.econs (.var "data_section_lines") (.econs (.attr (.var "sync_track") "bpm_events") .enil)))))

/-- the environment after the `if` branch of one turn (exactly what the statements do, slot by slot) -/
def thenEnv (ext : Ext) (env1 : Env) : M Env :=
  ((evalExpr ext env1 (.index (.var TN) (.var "header_tag"))).map fun v => setVar env1 "instrument_difficulty_pair" v) >>= fun env2 =>
  (evalExpr ext env2 condSkip >>= truth) >>= fun t => if t then .ok env2 else
    (evalExpr ext env2 (.var "instrument_difficulty_pair") >>= fun v => unpack2 v >>= fun p =>
      .ok (setVar (setVar env2 "instrument" p.1) "difficulty" p.2)) >>= fun env3 =>
    ((evalExpr ext env3 callTrack).map fun v => setVar env3 "track" v) >>= fun env4 =>
    (evalExpr ext env4 (.var "track") >>= fun v => lookup env4 "instrument_tracks" >>= fun m => evalExpr ext env4 (.var "instrument") >>= fun kv =>
      evalExpr ext env4 (.var "difficulty") >>= fun kv2 => setDefaultAt m kv kv2 v).map fun nm => setVar env4 "instrument_tracks" nm

def elseEnv (ext : Ext) (env1 : Env) : M Env :=
  (evalExpr ext env1 (.not (.contains (.var "header_tag") (.lit Gen.Imp.fromFileK_required_header_tags))) >>= truth) >>= fun t =>
  if t then (lookup env1 "$log" >>= fun l => evalExpr ext env1 (.lit .none) >>= fun v => appendVal l v).map fun nl => setVar env1 "$log" nl
  else .ok env1

def stepEnv (ext : Ext) (env : Env) : M Env :=
  (evalExpr ext env (.var "$it") >>= fun v => unpack2 v >>= fun p => .ok (setVar (setVar env "header_tag" p.1) "data_section_lines" p.2)) >>= fun env1 =>
  (evalExpr ext env1 (.contains (.var "header_tag") (.var TN)) >>= truth) >>= fun t =>
  if t then thenEnv ext env1 else elseEnv ext env1

/-- one turn of the loop body does to the environment what `stepEnv` says -/
theorem routeBody_turns (ext : Ext) (env : Env) : Turns ext routeBody env (stepEnv ext env) := by
  unfold routeBody stepEnv
  refine Turns.seq (Falls.unpack2 _ rfl) ?_
  intro env1 _
  refine Turns.ite _ rfl ?_ ?_
  · intro _
    unfold thenEnv
    refine Turns.seq (Falls.assign _ rfl) ?_
    intro env2 _
    refine Turns.continue_if _ rfl ?_
    intro _
    refine Falls.turns ?_
    refine Falls.seq (Falls.unpack2 _ rfl) ?_
    intro env3 _
    refine Falls.seq (Falls.assign _ rfl) ?_
    intro env4 _
    exact Falls.setDefaultIdx _ rfl
  · intro _
    unfold elseEnv
    refine Falls.turns ?_
    refine Falls.ite _ rfl ?_ ?_
    · intro _; exact Falls.warn _ rfl
    · intro _; exact Falls.skip _ _

theorem appendVal_list (ws : List Val) (v : Val) : appendVal (.list (Val.ofList ws)) v = .ok (.list (Val.ofList (ws ++ [v]))) := by
  simp [appendVal]

/-- … and on the loop's environment `stepEnv` is `routeStep` on the value of `instrument_tracks` (the other slots keep their roles) -/
theorem stepEnv_rEnv (ext : Ext) (c fp want secs ge T acc lines md sync tag dl : Val) (dsl diff tg inst pair track : Option Val) (ws : List Val) :
    match routeStep ext T want sync acc tag dl with
    | .ok acc' => ∃ dsl' diff' tg' inst' pair' track' ws',
        stepEnv ext (rEnv c fp want secs ge T acc lines md sync dsl diff tg inst pair track (some (pairV (tag, dl))) ws)
          = .ok (rEnv c fp want secs ge T acc' lines md sync dsl' diff' tg' inst' pair' track' (some (pairV (tag, dl))) ws')
    | .error e =>
        stepEnv ext (rEnv c fp want secs ge T acc lines md sync dsl diff tg inst pair track (some (pairV (tag, dl))) ws) = .error e := by
  have h1 : (evalExpr ext (rEnv c fp want secs ge T acc lines md sync dsl diff tg inst pair track (some (pairV (tag, dl))) ws) (.var "$it") >>= fun v =>
      unpack2 v >>= fun p => Except.ok (setVar (setVar (rEnv c fp want secs ge T acc lines md sync dsl diff tg inst pair track (some (pairV (tag, dl))) ws)
        "header_tag" p.1) "data_section_lines" p.2))
      = .ok (rEnv c fp want secs ge T acc lines md sync (some dl) diff (some tag) inst pair track (some (pairV (tag, dl))) ws) := by
    simp [rEnv, evalExpr, lookup, pairV, unpack2, seqOf, Val.toList?, setVar, bind, Except.bind]
  have h2 : evalExpr ext (rEnv c fp want secs ge T acc lines md sync (some dl) diff (some tag) inst pair track (some (pairV (tag, dl))) ws)
      (.contains (.var "header_tag") (.var TN)) = containsV tag T := by
    rw [evalExpr_contains]
    simp [rEnv, evalExpr, lookup, TN, bind, Except.bind]
  unfold stepEnv routeStep
  rw [h1, ok_bind, h2]
  cases hc : containsV tag T with
  | error e => rfl
  | ok v =>
    obtain ⟨b, hb⟩ := containsV_bool _ _ _ hc
    subst hb
    simp only [ok_bind, truth_bool]
    cases b with
    | false =>
      simp only [Bool.false_eq_true, if_false]
      have h3 : evalExpr ext (rEnv c fp want secs ge T acc lines md sync (some dl) diff (some tag) inst pair track (some (pairV (tag, dl))) ws)
          (.contains (.var "header_tag") (.lit Gen.Imp.fromFileK_required_header_tags)) = containsV tag REQ := by
        rw [evalExpr_contains]
        simp [rEnv, evalExpr, lookup, bind, Except.bind, REQ]
      unfold elseEnv
      generalize (Expr.contains (.var "header_tag") (.lit Gen.Imp.fromFileK_required_header_tags)) = E at h3 ⊢
      simp only [evalExpr, h3, bind, Except.bind]
      cases hr : containsV tag REQ with
      | error e => rfl
      | ok v =>
        obtain ⟨b2, hb2⟩ := containsV_bool _ _ _ hr
        subst hb2
        cases b2 with
        | true => exact ⟨some dl, diff, some tag, inst, pair, track, ws, by simp⟩
        | false =>
          exact ⟨some dl, diff, some tag, inst, pair, track, ws ++ [.none], by simp [rEnv, lookup, appendVal_list, setVar, Except.map]⟩
    | true =>
      simp only [if_true]
      have h4 : evalExpr ext (rEnv c fp want secs ge T acc lines md sync (some dl) diff (some tag) inst pair track (some (pairV (tag, dl))) ws)
          (.index (.var TN) (.var "header_tag")) = indexVal T tag := by
        simp [rEnv, evalExpr, lookup, TN, bind, Except.bind]
      unfold thenEnv
      rw [h4]
      cases hi : indexVal T tag with
      | error e => rfl
      | ok pr =>
        have henv2 : setVar (rEnv c fp want secs ge T acc lines md sync (some dl) diff (some tag) inst pair track (some (pairV (tag, dl))) ws)
            "instrument_difficulty_pair" pr
            = rEnv c fp want secs ge T acc lines md sync (some dl) diff (some tag) inst (some pr) track (some (pairV (tag, dl))) ws := by
          simp [rEnv, setVar]
        simp only [Except.map, ok_bind, henv2]
        have h5 := skip_cond ext (rEnv c fp want secs ge T acc lines md sync (some dl) diff (some tag) inst (some pr) track (some (pairV (tag, dl))) ws)
          want pr (by simp [rEnv, lookup]) (by simp [rEnv, lookup])
        unfold condSkip
        rw [h5]
        cases hs : skipV want pr with
        | error e => rfl
        | ok sk =>
          cases sk with
          | true => exact ⟨some dl, diff, some tag, inst, some pr, track, ws, rfl⟩
          | false =>
            simp only [ok_bind, Bool.false_eq_true, if_false]
            have h6 : evalExpr ext (rEnv c fp want secs ge T acc lines md sync (some dl) diff (some tag) inst (some pr) track (some (pairV (tag, dl))) ws)
                (.var "instrument_difficulty_pair") = .ok pr := by simp [rEnv, evalExpr, lookup]
            rw [h6, ok_bind]
            cases hu : unpack2 pr with
            | error e => rfl
            | ok ab =>
              obtain ⟨a, b⟩ := ab
              have henv3 : setVar (setVar (rEnv c fp want secs ge T acc lines md sync (some dl) diff (some tag) inst (some pr) track (some (pairV (tag, dl))) ws)
                  "instrument" a) "difficulty" b
                  = rEnv c fp want secs ge T acc lines md sync (some dl) (some b) (some tag) (some a) (some pr) track (some (pairV (tag, dl))) ws := by
                simp [rEnv, setVar]
              simp only [ok_bind, henv3]
              have h7 : evalExpr ext (rEnv c fp want secs ge T acc lines md sync (some dl) (some b) (some tag) (some a) (some pr) track (some (pairV (tag, dl))) ws)
                  callTrack = (attrVal sync "bpm_events" >>= fun bpm => ext ITR [a, b, dl, bpm]) := by
                cases ha : attrVal sync "bpm_events" <;>
                  simp [callTrack, evalExpr, rEnv, lookup, bind, Except.bind, ITR, Val.toList?, ha]
              rw [h7]
              cases ht : (attrVal sync "bpm_events" >>= fun bpm => ext ITR [a, b, dl, bpm]) with
              | error e => rfl
              | ok tr =>
                have henv4 : setVar (rEnv c fp want secs ge T acc lines md sync (some dl) (some b) (some tag) (some a) (some pr) track (some (pairV (tag, dl))) ws)
                    "track" tr
                    = rEnv c fp want secs ge T acc lines md sync (some dl) (some b) (some tag) (some a) (some pr) (some tr) (some (pairV (tag, dl))) ws := by
                  simp [rEnv, setVar]
                simp only [Except.map, ok_bind, henv4]
                have h8 : (evalExpr ext (rEnv c fp want secs ge T acc lines md sync (some dl) (some b) (some tag) (some a) (some pr) (some tr) (some (pairV (tag, dl))) ws) (.var "track") >>= fun v =>
                    lookup (rEnv c fp want secs ge T acc lines md sync (some dl) (some b) (some tag) (some a) (some pr) (some tr) (some (pairV (tag, dl))) ws) "instrument_tracks" >>= fun m =>
                    evalExpr ext (rEnv c fp want secs ge T acc lines md sync (some dl) (some b) (some tag) (some a) (some pr) (some tr) (some (pairV (tag, dl))) ws) (.var "instrument") >>= fun kv =>
                    evalExpr ext (rEnv c fp want secs ge T acc lines md sync (some dl) (some b) (some tag) (some a) (some pr) (some tr) (some (pairV (tag, dl))) ws) (.var "difficulty") >>= fun kv2 =>
                    setDefaultAt m kv kv2 v) = setDefaultAt acc a b tr := by
                  simp [rEnv, evalExpr, lookup, bind, Except.bind]
                rw [h8]
                cases hd : setDefaultAt acc a b tr with
                | error e => rfl
                | ok acc' =>
                  exact ⟨some dl, some b, some tag, some a, some pr, some tr, ws, by simp [rEnv, setVar]⟩

/-- the whole loop: the environments the turns pass through end with `instrument_tracks = routeFold …` -/
theorem routeLoop (ext : Ext) (c fp want secs ge T lines md sync : Val) :
    ∀ (S : List (Val × Val)) (acc : Val) (dsl diff tg inst pair track it : Option Val) (ws : List Val),
      match routeFold ext T want sync acc S with
      | .ok out => ∃ dsl' diff' tg' inst' pair' track' it' ws',
          foldTurns "$it" (fun env x => stepEnv ext (setVar env "$it" x))
            (rEnv c fp want secs ge T acc lines md sync dsl diff tg inst pair track it ws) (S.map pairV)
            = .ok (rEnv c fp want secs ge T out lines md sync dsl' diff' tg' inst' pair' track' it' ws')
      | .error e =>
          foldTurns "$it" (fun env x => stepEnv ext (setVar env "$it" x))
            (rEnv c fp want secs ge T acc lines md sync dsl diff tg inst pair track it ws) (S.map pairV) = .error e := by
  intro S
  induction S with
  | nil =>
    intro acc dsl diff tg inst pair track it ws
    exact ⟨dsl, diff, tg, inst, pair, track, it, ws, rfl⟩
  | cons kv rest ih =>
    intro acc dsl diff tg inst pair track it ws
    obtain ⟨tag, dl⟩ := kv
    have hset : setVar (rEnv c fp want secs ge T acc lines md sync dsl diff tg inst pair track it ws) "$it" (pairV (tag, dl))
        = rEnv c fp want secs ge T acc lines md sync dsl diff tg inst pair track (some (pairV (tag, dl))) ws := by
      simp [rEnv, setVar]
    have hstep := stepEnv_rEnv ext c fp want secs ge T acc lines md sync tag dl dsl diff tg inst pair track ws
    simp only [routeFold, List.map_cons, foldTurns, hset]
    cases hr : routeStep ext T want sync acc tag dl with
    | error e =>
      rw [hr] at hstep
      simp only [hstep, err_bind]
    | ok acc' =>
      rw [hr] at hstep
      obtain ⟨dsl', diff', tg', inst', pair', track', ws', hstep⟩ := hstep
      simp only [hstep, ok_bind]
      exact ih acc' dsl' diff' tg' inst' pair' track' (some (pairV (tag, dl))) ws'

theorem Falls.forIn_list {ext : Ext} {v : String} {e : Expr} {b orelse : Stmt} {env : Env} {sp : Val} {r : M Env}
    (he : evalExpr ext env e = .ok (.list sp)) (h : Falls ext (.forVals v sp b orelse) env r) : Falls ext (.forIn v e b orelse) env r := by
  cases r with
  | error err => obtain ⟨e'', h⟩ := h; exact ⟨e'', Runs.forIn_list he h⟩
  | ok env' => exact Runs.forIn_list he h

def SONG : Val := .str [83, 111, 110, 103]
def SYNC : Val := .str [83, 121, 110, 99, 84, 114, 97, 99, 107]
def EVENTS : Val := .str [69, 118, 101, 110, 116, 115]
def TABLE : Val := Gen.Imp.fromFileK_table

/-- `all(tag in data_sections for tag in cls._required_header_tags)` -/
def allReqV (secs : Val) : M Bool :=
  match seqOf REQ with
  | some xs => allM (fun x => containsV x secs >>= truth) xs
  | none => unsupported "iteration"

def entriesV (v : Val) : M (List (Val × Val)) :=
  match v with
  | .dict sp => match dictEntries sp with
    | some l => .ok l
    | none => unsupported "dict"
  | _ => unsupported "items of a non-dict"

/-- what `Chart.from_file` does, as a chain of calls -/
def fileV (ext : Ext) (c fp want : Val) : M Val :=
  (ext ".read" [fp] >>= fun t => ext ".splitlines" [t]) >>= fun lines =>
  ext "._partition_lines_by_data_section" [c, lines] >>= fun secs =>
  (allReqV secs >>= fun ok => if ok then .ok () else .error .valueError) >>= fun _ =>
  (indexVal secs SONG >>= fun l => ext "Metadata.from_chart_lines" [l]) >>= fun md =>
  (attrVal md "resolution" >>= fun r => indexVal secs SYNC >>= fun l => ext "SyncTrack.from_chart_lines" [r, l]) >>= fun sync =>
  (indexVal secs EVENTS >>= fun l => attrVal sync "bpm_events" >>= fun b => ext "GlobalEventsTrack.from_chart_lines" [l, b]) >>= fun ge =>
  entriesV secs >>= fun S =>
  routeFold ext TABLE want sync (.dict .nil) S >>= fun tracks =>
  ext "()" [c, md, ge, sync, tracks]

theorem allReq_expr (ext : Ext) (env : Env) (secs : Val) (hd : lookup env "data_sections" = .ok secs) :
    (evalExpr ext env (.not (.allGen "tag" (.lit Gen.Imp.fromFileK_required_header_tags) (.lit (.bool true)) (.contains (.var "tag") (.var "data_sections")))) >>= truth)
      = allReqV secs >>= fun b => .ok (!b) := by
  have hf : (fun x => evalExpr ext (setVar env "tag" x) (.lit (.bool true)) >>= truth >>= fun b =>
      if b then evalExpr ext (setVar env "tag" x) (.contains (.var "tag") (.var "data_sections")) >>= truth else .ok true)
      = fun x => containsV x secs >>= truth := by
    funext x
    rw [evalExpr_contains]
    simp only [evalExpr, lookup_setVar_self, bind, Except.bind, truth_bool, if_true]
    rw [lookup_setVar_ne _ _ _ _ (by decide), hd]
  have hg : evalExpr ext env (.allGen "tag" (.lit Gen.Imp.fromFileK_required_header_tags) (.lit (.bool true)) (.contains (.var "tag") (.var "data_sections")))
      = (match seqOf REQ with
         | some xs => allM (fun x => evalExpr ext (setVar env "tag" x) (.lit (.bool true)) >>= truth >>= fun b =>
              if b then evalExpr ext (setVar env "tag" x) (.contains (.var "tag") (.var "data_sections")) >>= truth else .ok true) xs >>= fun b => .ok (.bool b)
         | none => unsupported "iteration") := by
    rw [evalExpr]
    rfl
  rw [hf] at hg
  generalize (Expr.allGen "tag" (.lit Gen.Imp.fromFileK_required_header_tags) (.lit (.bool true)) (.contains (.var "tag") (.var "data_sections"))) = E at hg ⊢
  rw [evalExpr, hg]
  unfold allReqV
  cases seqOf REQ with
  | none => rfl
  | some xs =>
    dsimp only
    generalize allM (fun x => containsV x secs >>= truth) xs = r
    cases r with
    | error e => rfl
    | ok b => rfl

/-- `if not ok: raise E` followed by the rest of the body -/
theorem Returns.require_bind {ext : Ext} {env : Env} {c : Expr} {E : PyErr} {rest : Stmt} {f : Unit → M Val} (r : M Bool)
    (hc : evalExpr ext env c >>= truth = r >>= fun b => .ok (!b)) (h : r = .ok true → Returns ext rest env (f ())) :
    Returns ext (.seq (.ite c (.raise E) .skip) rest) env ((r >>= fun ok => if ok then .ok () else .error E) >>= f) := by
  cases r with
  | error e => exact ⟨env, Runs.seq_stop (Runs.ite_err hc) (by intro e; simp)⟩
  | ok b =>
    cases b with
    | true => exact Returns.seq_norm (Runs.ite_false hc (Runs.skip _ _)) (h rfl)
    | false => exact ⟨env, Runs.seq_stop (Runs.ite_true hc (Runs.raise _ _ _)) (by intro e; simp)⟩

/-- **`Chart.from_file` is this chain of calls around the routing fold** — for every class value, file object and selection, whatever
    the callees do, given only that a successful scan returns a dict (which `partitionLines_tie` proves of the scanner as written) -/
theorem fromFile_tie (ext : Ext) (c fp want : Val)
    (hshape : ∀ lines v, ext "._partition_lines_by_data_section" [c, lines] = .ok v → ∃ S, v = .dict (encEntries S)) :
    Returns ext Gen.Imp.fromFile (initEnv [("cls", c), ("fp", fp), ("want_tracks", want)] Gen.Imp.fromFileLocals) (fileV ext c fp want) := by
  have h0 : initEnv [("cls", c), ("fp", fp), ("want_tracks", want)] Gen.Imp.fromFileLocals =
      [("cls", some c), ("fp", some fp), ("want_tracks", some want), ("data_section_lines", none), ("data_sections", none), ("difficulty", none),
       ("global_events_track", none), ("header_tag", none), ("instrument", none), ("instrument_difficulty_pair", none),
       ("instrument_track_name_to_instrument_difficulty_pair", none), ("instrument_tracks", none), ("lines", none), ("metadata", none),
       ("sync_track", none), ("track", none), ("$it", none), ("$log", none)] := by
    simp [initEnv, Gen.Imp.fromFileLocals]
  rw [h0]
  unfold Gen.Imp.fromFile fileV
  -- $log = []
  refine Returns.seq_norm (Runs.assign (v := .list .nil) (by simp [evalExpr, bind, Except.bind])) ?_
  -- lines = fp.read().splitlines()
  refine Returns.assign_bind _ ?_ ?_
  · ev_simp
    cases ext ".read" [fp] <;> simp [Val.toList?]
  intro lines _
  -- data_sections = cls._partition_lines_by_data_section(lines)
  refine Returns.assign_bind _ ?_ ?_
  · ev_simp
  intro secs hsecs
  obtain ⟨S, hS⟩ := hshape lines secs hsecs
  -- the required sections
  refine Returns.require_bind (allReqV secs) (allReq_expr ext _ secs ?hd) ?_
  case hd => ev_simp
  intro _
  -- metadata, sync_track, global_events_track
  unfold SONG SYNC EVENTS
  refine Returns.assign_bind _ ?_ ?_
  · ev_simp
    generalize indexVal secs (Val.str [83, 111, 110, 103]) = r
    cases r <;> simp [Val.toList?]
  intro md _
  refine Returns.assign_bind _ ?_ ?_
  · ev_simp
    generalize attrVal md "resolution" = r1
    generalize indexVal secs (Val.str [83, 121, 110, 99, 84, 114, 97, 99, 107]) = r2
    cases r1 <;> cases r2 <;> simp [Val.toList?]
  intro sync _
  refine Returns.assign_bind _ ?_ ?_
  · ev_simp
    generalize indexVal secs (Val.str [69, 118, 101, 110, 116, 115]) = r1
    generalize attrVal sync "bpm_events" = r2
    cases r1 <;> cases r2 <;> simp [Val.toList?]
  intro ge _
  -- the table, the empty map, the loop, the constructor
  refine Returns.seq_norm (Runs.assign (v := Gen.Imp.fromFileK_table) (by simp [evalExpr])) ?_
  refine Returns.seq_norm (Runs.assign (v := .dict .nil) (by simp [evalExpr])) ?_
  subst hS
  have main : Returns ext
      (.seq (.forIn "$it" (.items (.var "data_sections")) routeBody .skip)
        (.ret (.call "()" (.econs (.var "cls") (.econs (.var "metadata") (.econs (.var "global_events_track") (.econs (.var "sync_track") (.econs (.var "instrument_tracks") .enil))))))))
      (rEnv c fp want (.dict (encEntries S)) ge TABLE (.dict .nil) lines md sync none none none none none none none [])
      (entriesV (.dict (encEntries S)) >>= fun S' => routeFold ext TABLE want sync (.dict .nil) S' >>= fun tracks => ext "()" [c, md, ge, sync, tracks]) := by
    have hent : entriesV (.dict (encEntries S)) = .ok S := by simp [entriesV, dictEntries_enc]
    have he : evalExpr ext (rEnv c fp want (.dict (encEntries S)) ge TABLE (.dict .nil) lines md sync none none none none none none none [])
        (.items (.var "data_sections")) = .ok (.list (Val.ofList (S.map pairV))) := by
      have hsp : encEntries S = Val.ofList (S.map pairV) := rfl
      rw [← hsp]
      simp [evalExpr, rEnv, lookup, dictEntries_enc, bind, Except.bind]
    have hfalls := Falls.forIn_list (orelse := .skip) he
      (Falls.forVals (fun env x => stepEnv ext (setVar env "$it" x)) (fun env x => routeBody_turns ext _) (S.map pairV)
        (rEnv c fp want (.dict (encEntries S)) ge TABLE (.dict .nil) lines md sync none none none none none none none []))
    have hl := routeLoop ext c fp want (.dict (encEntries S)) ge TABLE lines md sync S (.dict .nil) none none none none none none none []
    rw [hent, ok_bind]
    cases hr : routeFold ext TABLE want sync (.dict .nil) S with
    | error e =>
      rw [hr] at hl
      rw [hl] at hfalls
      obtain ⟨e'', hfalls⟩ := hfalls
      exact ⟨e'', Runs.seq_stop hfalls (by intro e; simp)⟩
    | ok out =>
      rw [hr] at hl
      obtain ⟨dsl', diff', tg', inst', pair', track', it', ws', hl⟩ := hl
      rw [hl] at hfalls
      refine Returns.seq_norm hfalls (Returns.ret_of _ ?_)
      simp [evalExpr, rEnv, lookup, Val.toList?, bind, Except.bind]
  simpa [rEnv, setVar, routeBody, TABLE, Val.ofList] using main

/-! ## C13 on the loop as written: a selection deletes the unselected instrument sections before anything of them is read -/

/-- the title is an instrument title whose pair the selection does not contain -/
def skippedB (T want tag : Val) : Bool :=
  match containsV tag T with
  | .ok (.bool true) =>
    match indexVal T tag with
    | .ok pair =>
      match skipV want pair with
      | .ok true => true
      | _ => false
    | _ => false
  | _ => false

/-- a skipped section leaves the map as it is — whatever its lines are, and without a single call -/
theorem routeStep_skipped (ext : Ext) (T want sync acc tag lines : Val) (h : skippedB T want tag = true) :
    routeStep ext T want sync acc tag lines = .ok acc := by
  unfold skippedB at h
  unfold routeStep
  cases hc : containsV tag T with
  | error e => rw [hc] at h; cases h
  | ok v =>
    rw [hc] at h
    obtain ⟨b, hb⟩ := containsV_bool _ _ _ hc
    subst hb
    cases b with
    | false => cases h
    | true =>
      simp only [ok_bind, truth_bool, if_true]
      cases hi : indexVal T tag with
      | error e => rw [hi] at h; cases h
      | ok pair =>
        rw [hi] at h
        dsimp only at h
        simp only [ok_bind]
        cases hs : skipV want pair with
        | error e => rw [hs] at h; cases h
        | ok sk =>
          rw [hs] at h
          cases sk with
          | false => cases h
          | true => rfl

/-- **non-interference**: the routing fold with a selection is the routing fold over the sections that are not skipped; in particular
    the lines of a skipped section are never read (they do not occur on the right-hand side) -/
theorem routeFold_select (ext : Ext) (T want sync : Val) :
    ∀ (S : List (Val × Val)) (acc : Val),
      routeFold ext T want sync acc S = routeFold ext T want sync acc (S.filter fun kv => !skippedB T want kv.1) := by
  intro S
  induction S with
  | nil => intro acc; rfl
  | cons kv rest ih =>
    intro acc
    obtain ⟨tag, lines⟩ := kv
    by_cases h : skippedB T want tag = true
    · simp only [routeFold, List.filter_cons, h, Bool.not_true, Bool.false_eq_true, if_false, routeStep_skipped ext T want sync acc tag lines h, ok_bind]
      exact ih acc
    · have h' : skippedB T want tag = false := by simpa using h
      simp only [routeFold, List.filter_cons, h', Bool.not_false, if_true]
      cases routeStep ext T want sync acc tag lines with
      | error e => rfl
      | ok acc' => simp only [ok_bind]; exact ih acc'

/-- on a section that is not skipped, a well-formed selection (a list or tuple, or none) decides nothing else: the turn is the
    unrestricted parse's turn -/
theorem routeStep_unrestricted (ext : Ext) (T want sync acc tag lines : Val) (h : skippedB T want tag = false)
    (hw : ∀ pair, ∃ b, skipV want pair = .ok b) :
    routeStep ext T want sync acc tag lines = routeStep ext T .none sync acc tag lines := by
  unfold skippedB at h
  unfold routeStep
  cases hc : containsV tag T with
  | error e => rfl
  | ok v =>
    rw [hc] at h
    obtain ⟨b, hb⟩ := containsV_bool _ _ _ hc
    subst hb
    cases b with
    | false => rfl
    | true =>
      simp only [ok_bind, truth_bool, if_true]
      cases hi : indexVal T tag with
      | error e => rfl
      | ok pair =>
        rw [hi] at h
        dsimp only at h
        simp only [ok_bind]
        obtain ⟨sk, hs⟩ := hw pair
        rw [hs] at h
        have hn : skipV .none pair = .ok false := by simp [skipV]
        cases sk with
        | true => cases h
        | false => rw [hs, hn]

/-- **C13 on `Chart.from_file`'s loop**: with a well-formed selection, the tracks are those of the unrestricted parse of the same
    sections with the unselected instrument sections deleted — none of their lines is read, none of their failures can surface -/
theorem routeFold_unrestricted (ext : Ext) (T want sync : Val) (hw : ∀ pair, ∃ b, skipV want pair = .ok b) :
    ∀ (S : List (Val × Val)) (acc : Val),
      routeFold ext T want sync acc S = routeFold ext T .none sync acc (S.filter fun kv => !skippedB T want kv.1) := by
  intro S
  induction S with
  | nil => intro acc; rfl
  | cons kv rest ih =>
    intro acc
    obtain ⟨tag, lines⟩ := kv
    by_cases h : skippedB T want tag = true
    · simp only [routeFold, List.filter_cons, h, Bool.not_true, Bool.false_eq_true, if_false, routeStep_skipped ext T want sync acc tag lines h, ok_bind]
      exact ih acc
    · have h' : skippedB T want tag = false := by simpa using h
      simp only [routeFold, List.filter_cons, h', Bool.not_false, if_true, routeStep_unrestricted ext T want sync acc tag lines h' hw]
      cases routeStep ext T .none sync acc tag lines with
      | error e => rfl
      | ok acc' => simp only [ok_bind]; exact ih acc'

/-- a list or tuple selection is well-formed -/
theorem skipV_seq (want : Val) (ws : List Val) (h : seqOf want = some ws) (hd : ∀ sp, want ≠ .dict sp) (pair : Val) : ∃ b, skipV want pair = .ok b := by
  unfold skipV
  by_cases hn : (want == Val.none) = true
  · exact ⟨false, by simp [hn]⟩
  · have hn' : (want == Val.none) = false := by simpa using hn
    simp only [hn', Bool.false_eq_true, if_false]
    have hc : containsV pair want = .ok (.bool (ws.any (· == pair))) := by
      unfold containsV
      cases want with
      | dict sp => exact absurd rfl (hd sp)
      | _ => simp_all
    rw [hc]
    exact ⟨_, rfl⟩

/-- non-vacuity: a two-entry table, a selection naming one pair: the other section is skipped whatever it holds -/
example :
    let T : Val := .dict (encEntries [(.str [65], .tup (.cons (.int 0) (.cons (.int 3) .nil))), (.str [66], .tup (.cons (.int 1) (.cons (.int 3) .nil)))])
    let want : Val := .list (.cons (.tup (.cons (.int 0) (.cons (.int 3) .nil))) .nil)
    skippedB T want (.str [66]) = true ∧ skippedB T want (.str [65]) = false ∧ skippedB T want (.str [67]) = false := by
  decide

/-! ## C06 on `Chart.from_file` as written: the three required sections, demanded before any section is parsed -/

/-- obligation on the regenerated constant: the required titles are `Song`, `SyncTrack`, `Events` -/
theorem req_tags : seqOf REQ = some [SONG, SYNC, EVENTS] := by decide

theorem allReqV_dict (S : List (Val × Val)) :
    allReqV (.dict (encEntries S)) = .ok ([SONG, SYNC, EVENTS].all fun t => S.any (·.1 == t)) := by
  have hf : (fun x => containsV x (.dict (encEntries S)) >>= truth) = fun x => .ok (S.any (·.1 == x)) := by
    funext x
    simp [containsV, dictEntries_enc, bind, Except.bind]
  unfold allReqV
  rw [req_tags, hf]
  exact allM_pure _ _

/-- **a chart lacking a required section is rejected with `ValueError` before anything is parsed** (no section parser occurs in the
    conclusion: the result does not depend on what `Metadata`, `SyncTrack`, … would do) -/
theorem fileV_missing_required (ext : Ext) (c fp want text lines : Val) (S : List (Val × Val))
    (hread : ext ".read" [fp] = .ok text) (hsplit : ext ".splitlines" [text] = .ok lines)
    (hscan : ext "._partition_lines_by_data_section" [c, lines] = .ok (.dict (encEntries S)))
    (hmiss : ([SONG, SYNC, EVENTS].all fun t => S.any (·.1 == t)) = false) :
    fileV ext c fp want = .error .valueError := by
  unfold fileV
  simp [hread, hsplit, hscan, allReqV_dict, hmiss, bind, Except.bind]

/-- non-vacuity: sections `Song` and `Events` only -/
example : ([SONG, SYNC, EVENTS].all fun t => [(SONG, Val.list .nil), (EVENTS, Val.list .nil)].any (·.1 == t)) = false := by decide

/-! ## the empty selection -/

theorem req_not_dict : ∀ sp, REQ ≠ .dict sp := by
  intro sp h
  unfold REQ Gen.Imp.fromFileK_required_header_tags at h
  cases h

theorem containsV_req (tag : Val) : ∃ b, containsV tag REQ = .ok (.bool b) := by
  have h := req_tags
  unfold containsV
  cases hr : REQ with
  | dict sp => exact absurd hr (req_not_dict sp)
  | _ => simp_all

/-- **an empty selection parses nothing and cannot fail**: whatever the sections hold and whatever the track parser would do, the
    routing fold with `want_tracks = []` leaves the map as it was (no call of `InstrumentTrack.from_chart_lines` occurs in the result) -/
theorem routeFold_empty (ext : Ext) (Tl : List (Val × Val)) (sync : Val) :
    ∀ (S : List (Val × Val)) (acc : Val), routeFold ext (.dict (encEntries Tl)) (.list .nil) sync acc S = .ok acc := by
  intro S
  induction S with
  | nil => intro acc; rfl
  | cons kv rest ih =>
    intro acc
    obtain ⟨tag, lines⟩ := kv
    have hstep : routeStep ext (.dict (encEntries Tl)) (.list .nil) sync acc tag lines = .ok acc := by
      unfold routeStep
      have hc : containsV tag (.dict (encEntries Tl)) = .ok (.bool (Tl.any (·.1 == tag))) := by
        simp [containsV, dictEntries_enc]
      rw [hc]
      simp only [ok_bind, truth_bool]
      by_cases hb : Tl.any (·.1 == tag) = true
      · simp only [hb, if_true]
        have hi : ∃ pair, indexVal (.dict (encEntries Tl)) tag = .ok pair := by
          have : ∃ kv, Tl.find? (·.1 == tag) = some kv := by
            cases hf : Tl.find? (·.1 == tag) with
            | some kv => exact ⟨kv, rfl⟩
            | none =>
              rw [List.find?_eq_none] at hf
              rw [List.any_eq_true] at hb
              obtain ⟨x, hx, hx2⟩ := hb
              exact absurd hx2 (hf x hx)
          obtain ⟨kv, hkv⟩ := this
          exact ⟨kv.2, by simp [indexVal, dictEntries_enc, hkv]⟩
        obtain ⟨pair, hi⟩ := hi
        have hs : skipV (.list .nil) pair = .ok true := by
          simp [skipV, containsV, seqOf, Val.toList?, bind, Except.bind]
        rw [hi, ok_bind, hs]
        rfl
      · have hb' : Tl.any (·.1 == tag) = false := by
          cases h : Tl.any (·.1 == tag) with
          | true => exact absurd h hb
          | false => rfl
        simp only [hb', Bool.false_eq_true, if_false]
        obtain ⟨b, hr⟩ := containsV_req tag
        rw [hr]
        rfl
    simp only [routeFold, hstep, ok_bind]
    exact ih acc

/-- obligation on the regenerated constant: the title table is a dict, given by its entries -/
theorem table_entries : TABLE = .dict (encEntries Gen.Imp.fromFileK_table_entries) := rfl

/-- the empty selection on the table of /repo's working tree -/
theorem routeFold_empty_table (ext : Ext) (sync : Val) (S : List (Val × Val)) (acc : Val) :
    routeFold ext TABLE (.list .nil) sync acc S = .ok acc := by
  rw [table_entries]
  exact routeFold_empty ext _ sync S acc

/-! ## C13 at the level of the whole function -/

/-- `fileV` with the sections passed through `f` before routing (`f = id` is `fileV` itself) -/
def fileVon (ext : Ext) (c fp want : Val) (f : List (Val × Val) → List (Val × Val)) : M Val :=
  (ext ".read" [fp] >>= fun t => ext ".splitlines" [t]) >>= fun lines =>
  ext "._partition_lines_by_data_section" [c, lines] >>= fun secs =>
  (allReqV secs >>= fun ok => if ok then .ok () else .error .valueError) >>= fun _ =>
  (indexVal secs SONG >>= fun l => ext "Metadata.from_chart_lines" [l]) >>= fun md =>
  (attrVal md "resolution" >>= fun r => indexVal secs SYNC >>= fun l => ext "SyncTrack.from_chart_lines" [r, l]) >>= fun sync =>
  (indexVal secs EVENTS >>= fun l => attrVal sync "bpm_events" >>= fun b => ext "GlobalEventsTrack.from_chart_lines" [l, b]) >>= fun ge =>
  entriesV secs >>= fun S =>
  routeFold ext TABLE want sync (.dict .nil) (f S) >>= fun tracks =>
  ext "()" [c, md, ge, sync, tracks]

theorem fileV_eq_on (ext : Ext) (c fp want : Val) : fileV ext c fp want = fileVon ext c fp want id := rfl

/-- **`Chart.from_file` with a (list or tuple) selection is `Chart.from_file` without one on the same file minus its unselected
    instrument sections** — metadata, sync track and global events are read from the same sections either way, and nothing of an
    unselected instrument section is ever looked at -/
theorem fileV_select (ext : Ext) (c fp want : Val) (hw : ∀ pair, ∃ b, skipV want pair = .ok b) :
    fileV ext c fp want = fileVon ext c fp .none (fun S => S.filter fun kv => !skippedB TABLE want kv.1) := by
  unfold fileV fileVon
  congr 1; funext lines
  congr 1; funext secs
  congr 1; funext _
  congr 1; funext md
  congr 1; funext sync
  congr 1; funext ge
  congr 1; funext S
  rw [routeFold_unrestricted ext TABLE want sync hw S (.dict .nil)]

end Chartparse.Tie
