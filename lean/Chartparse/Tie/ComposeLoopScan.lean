import Chartparse.Tie.LoopScan
import Chartparse.Model.Chart
/-! The index-based scanner the dumped `_partition_lines_by_data_section` was proved equal to (`scanV`: registers hold *indices*, bodies
    are slices `lines[first : i]`) is the hand model's accumulator scanner (`Chartparse.scanGo`: registers hold the *lines collected so
    far*) — the equivalence DESIGN §8/C06 had left to the correspondence check. With it, `C06_frame` and the scanner laws are statements
    about the loop as written in /repo today. -/
namespace Chartparse.Tie
open Chartparse Chartparse.PyImp

def encLine (s : Str) : Val := .str s
def encSec (d : Sections) : List (Val × Val) := d.map fun kv => (encLine kv.1, .list (Val.ofList (kv.2.map encLine)))
def hdrV (hdr : Str → Option Str) (v : Val) : Option Val :=
  match v with
  | .str s => (hdr s).map encLine
  | _ => none

theorem encLine_beq (a b : Str) : (encLine a == encLine b) = (a == b) := by
  by_cases h : a = b
  · subst h; rw [beq_self_eq_true, beq_self_eq_true]
  · have hn : ¬ (encLine a = encLine b) := by intro e; injection e with e; exact h e
    have h1 : (encLine a == encLine b) = false := by rw [beq_eq_false_iff_ne]; exact hn
    have h2 : (a == b) = false := by rw [beq_eq_false_iff_ne]; exact h
    rw [h1, h2]

theorem dictSet_assign (d : Sections) (t : Str) (b : List Str) :
    dictSet (encSec d) (encLine t) (.list (Val.ofList (b.map encLine))) = encSec (assign d t b) := by
  unfold dictSet assign encSec
  have hany : (d.map fun kv => (encLine kv.1, Val.list (Val.ofList (kv.2.map encLine)))).any (·.1 == encLine t) = d.any (·.1 == t) := by
    simp [List.any_map, Function.comp_def, encLine_beq]
  rw [hany]
  by_cases h : d.any (·.1 == t) = true
  · simp only [h, if_true, List.map_map]
    apply List.map_congr_left
    intro kv _
    simp only [Function.comp, encLine_beq]
    by_cases hk : (kv.1 == t) = true <;> simp [hk]
  · simp [h]

/-- the registers of the two scanners describe the same body -/
def BodyRel (lines : List Str) (i : Nat) (first : Option Nat) (body : Option (List Str)) : Prop :=
  match first, body with
  | none, none => True
  | some f, some b => f ≤ i ∧ b.reverse = (lines.take i).drop f
  | _, _ => False

theorem scanV_scanGo (hdr : Str → Option Str) (lines : List Str) :
    ∀ (rest : List Str) (i : Nat) (tag : Option Str) (first : Option Nat) (body : Option (List Str)) (seen : List Str) (d : Sections),
      lines = seen.reverse ++ rest → seen.length = i → BodyRel lines i first body → (tag = none → first = none) →
      scanV (hdrV hdr) (lines.map encLine) i (rest.map encLine) (tag.map encLine) first (encSec d) =
        (scanGo hdr rest tag body seen d).map encSec := by
  intro rest
  induction rest with
  | nil => intro i tag first body seen d _ _ _ _; cases tag <;> simp [scanV, scanGo, Except.map]
  | cons l rest ih =>
    intro i tag first body seen d hl hi hb htf
    have hl' : lines = (l :: seen).reverse ++ rest := by simp [hl]
    have hi' : (l :: seen).length = i + 1 := by simp [hi]
    have htake : lines.take i = seen.reverse := by
      rw [hl, List.take_left' (by simp [hi])]
    have htake1 : lines.take (i + 1) = seen.reverse ++ [l] := by
      rw [hl]
      have : i + 1 = (seen.reverse ++ [l]).length := by simp [hi]
      rw [this, show seen.reverse ++ l :: rest = (seen.reverse ++ [l]) ++ rest by simp, List.take_left']
      rfl
    cases tag with
    | none =>
      have hf := htf rfl
      subst hf
      simp only [List.map_cons, Option.map_none, scanV, scanGo, hdrV, encLine]
      cases hh : hdr l with
      | none => simp [Except.map]
      | some g =>
        simp only [Option.map_some]
        have := ih (i + 1) (some g) none none (l :: seen) d hl' hi' (by simp [BodyRel]) (by intro h; cases h)
        simpa [encLine] using this
    | some t =>
      simp only [List.map_cons, Option.map_some, scanV, scanGo]
      have ho : (encLine l == openB) = (l == [123]) := encLine_beq l [123]
      have hc : (encLine l == closeB) = (l == [125]) := encLine_beq l [125]
      rw [ho, hc]
      by_cases h1 : l = [123]
      · subst h1
        simp only [beq_self_eq_true, if_true]
        have hrel : BodyRel lines (i + 1) (some (i + 1)) (some []) := by
          simp only [BodyRel, List.reverse_nil]
          rw [htake1]
          simp [hi]
        have := ih (i + 1) (some t) (some (i + 1)) (some []) ([123] :: seen) d hl' hi' hrel (by intro h; cases h)
        simpa using this
      · have h1b : (l == [123]) = false := by simpa using h1
        simp only [h1b, Bool.false_eq_true, if_false, h1]
        by_cases h2 : l = [125]
        · subst h2
          simp only [beq_self_eq_true, if_true]
          have hslice : (Val.list (Val.ofList (((lines.map encLine).take i).drop (first.getD 0)))) =
              .list (Val.ofList ((match body with | some b => b.reverse | none => seen.reverse).map encLine)) := by
            congr 2
            rw [← List.map_take, ← List.map_drop]
            congr 1
            cases first with
            | none => cases body with
              | none => simp [htake]
              | some b => simp [BodyRel] at hb
            | some f => cases body with
              | none => simp [BodyRel] at hb
              | some b => simp only [BodyRel] at hb; simp [hb.2]
          rw [hslice, dictSet_assign]
          clear hslice hb
          cases body with
          | none =>
            have := ih (i + 1) none none none ([125] :: seen) (assign d t seen.reverse) hl' hi' (by simp [BodyRel]) (by intro _; rfl)
            simpa using this
          | some b =>
            have := ih (i + 1) none none none ([125] :: seen) (assign d t b.reverse) hl' hi' (by simp [BodyRel]) (by intro _; rfl)
            simpa using this
        · have h2b : (l == [125]) = false := by simpa using h2
          simp only [h2b, Bool.false_eq_true, if_false, h2]
          have hrel : BodyRel lines (i + 1) first (body.map (l :: ·)) := by
            cases first with
            | none => cases body with
              | none => simp [BodyRel]
              | some b => simp [BodyRel] at hb
            | some f => cases body with
              | none => simp [BodyRel] at hb
              | some b =>
                simp only [BodyRel, Option.map_some, List.reverse_cons] at hb ⊢
                obtain ⟨hfi, hb⟩ := hb
                refine ⟨by omega, ?_⟩
                rw [htake1, hb, htake]
                have hfl : f ≤ seen.reverse.length := by simp [hi]; omega
                exact (List.drop_append_of_le_length hfl).symm
          have := ih (i + 1) (some t) first (body.map (l :: ·)) (l :: seen) d hl' hi' hrel (by intro h; cases h)
          simpa using this

/-- **the dumped scanner is the model's `scanSections`** -/
theorem scanV_scanSections (lines : List Str) :
    scanV (hdrV headerTag) (lines.map encLine) 0 (lines.map encLine) none none [] = (scanSections lines).map encSec := by
  have := scanV_scanGo headerTag lines lines 0 none none none [] [] (by simp) rfl (by simp [BodyRel]) (by intro _; rfl)
  simpa [scanSections, encSec] using this

end Chartparse.Tie
