import Chartparse.Gen.Imp
import Chartparse.Proofs.ImpRules
/-! `NoteEvent._compute_star_power_data` as written in /repo today — the empty-list return, the cursor check, the
    `for … in range(cursor, len): if not after: break` scan whose variable leaks out of the loop, and the final
    `during` test — is the cursor function of the hand model, for every list of phrases, every tick and every cursor ≥ 0,
    whatever `tick_is_after_event` / `tick_is_during_event` answer. -/
namespace Chartparse.Tie
open Chartparse Chartparse.PyImp

/-- the scan over the phrases from position `i` on (the hand model's `Inst.cand`, over any `after` predicate) -/
def candG (after : Val → Bool) : List Val → Nat → Nat
  | [], i => i
  | [_], i => i
  | p :: q :: rest, i => if after p then candG after (q :: rest) (i + 1) else i

/-- the whole function over any two predicates (the hand model's `Inst.spData`) -/
def spDataG (after during : Val → Bool) (sps : List Val) (start : Nat) : M Val :=
  if sps.isEmpty then .ok (.tup (.cons .none (.cons (.int 0) .nil)))
  else if sps.length ≤ start then .error .valueError
  else
    match sps[candG after (sps.drop start) start]? with
    | none => .error (.internal "UnboundLocalError")
    | some p =>
      if during p then
        .ok (.tup (.cons (.obj "StarPowerData" (.field "star_power_event_index" (.int (candG after (sps.drop start) start)) .fnil))
          (.cons (.int (candG after (sps.drop start) start)) .nil)))
      else .ok (.tup (.cons .none (.cons (.int (candG after (sps.drop start) start)) .nil)))

def spEnv (t S : Val) (start : Int) (cand ci : Option Val) : Env :=
  [("tick", some t), ("star_power_events", some S), ("proximal_star_power_event_index", some (.int start)),
   ("candidate", cand), ("candidate_index", ci)]

def spBody : Stmt :=
  (.ite (.not (.call ".tick_is_after_event" (.econs (.index (.var "star_power_events") (.var "candidate_index")) (.econs (.var "tick") .enil))))
    .brk .skip)

def items (i : Nat) (n : Nat) : List Val := (List.range n).map fun (k : Nat) => Val.int ((i : Int) + (k : Int))

theorem items_succ (i n : Nat) : items i (n + 1) = Val.int i :: items (i + 1) n := by
  unfold items
  rw [List.range_succ_eq_map]
  simp only [List.map_cons, List.map_map]
  congr 1
  simp
  intro a _; omega

theorem candG_lt (after : Val → Bool) : ∀ (rest : List Val) (i : Nat), rest ≠ [] → candG after rest i < i + rest.length := by
  intro rest
  induction rest with
  | nil => intro i h; exact absurd rfl h
  | cons p tl ih =>
    intro i _
    cases tl with
    | nil => simp [candG]
    | cons q r =>
      simp only [candG]
      split
      · have := ih (i + 1) (by simp)
        simp only [List.length_cons] at this ⊢
        omega
      · simp

theorem spLoop (ext : Ext) (t : Val) (sps : List Val) (start : Int) (after : Val → Bool)
    (hA : ∀ p, ext ".tick_is_after_event" [p, t] = .ok (.bool (after p))) :
    ∀ (rest : List Val) (i : Nat) (cand ci : Option Val), sps.drop i = rest → rest ≠ [] →
      Runs ext (.forVals "candidate_index" (Val.ofList (items i rest.length)) spBody .skip)
        (spEnv t (.list (Val.ofList sps)) start cand ci)
        (.norm (spEnv t (.list (Val.ofList sps)) start cand (some (.int (candG after rest i))))) := by
  intro rest
  induction rest with
  | nil => intro i _ _ _ h; exact absurd rfl h
  | cons p tl ih =>
    intro i cand ci hdrop _
    have hi : i < sps.length := by
      have := congrArg List.length hdrop
      simp at this; omega
    have hp : sps[i] = p := by
      have := List.getElem_cons_drop (as := sps) (i := i) hi
      rw [hdrop] at this
      exact (List.cons.inj this).1
    have hset : setVar (spEnv t (.list (Val.ofList sps)) start cand ci) "candidate_index" (.int i)
        = spEnv t (.list (Val.ofList sps)) start cand (some (.int i)) := by simp [spEnv, setVar]
    have hidx := indexVal_list_nat sps i hi
    have hcond : evalExpr ext (spEnv t (.list (Val.ofList sps)) start cand (some (.int i)))
        (.not (.call ".tick_is_after_event" (.econs (.index (.var "star_power_events") (.var "candidate_index")) (.econs (.var "tick") .enil))))
        >>= truth = .ok (!after p) := by
      simp [evalExpr, spEnv, lookup, bind, Except.bind, hidx, hp, Val.toList?, hA, truth]
    simp only [List.length_cons, items_succ, Val.ofList]
    by_cases ha : after p = true
    · -- the phrase is over at this tick: go on (or run out)
      have hbody : Runs ext spBody (spEnv t (.list (Val.ofList sps)) start cand (some (.int i)))
          (.norm (spEnv t (.list (Val.ofList sps)) start cand (some (.int i)))) :=
        Runs.ite_false (by rw [hcond, ha]; rfl) (Runs.skip _ _)
      cases tl with
      | nil =>
        simp only [candG, List.length_nil, items, List.range_zero, List.map_nil, Val.ofList]
        exact Runs.forVals_step (Or.inl (by rw [hset]; exact hbody)) (Runs.forVals_nil (Runs.skip _ _))
      | cons q r =>
        have hd2 : sps.drop (i + 1) = q :: r := by
          have := List.drop_drop (i := 1) (j := i) (l := sps)
          rw [hdrop] at this
          simpa [Nat.add_comm] using this.symm
        have h2 := ih (i + 1) cand (some (.int i)) hd2 (by simp)
        simp only [candG, ha, if_true]
        refine Runs.forVals_step (Or.inl (by rw [hset]; exact hbody)) ?_
        have hc : ((i : Int) + 1) = ((i + 1 : Nat) : Int) := by omega
        simpa [hc] using h2
    · -- still running (or not begun): stop here
      have ha' : after p = false := by simpa using ha
      have hbody : Runs ext spBody (spEnv t (.list (Val.ofList sps)) start cand (some (.int i)))
          (.brk (spEnv t (.list (Val.ofList sps)) start cand (some (.int i)))) :=
        Runs.ite_true (by rw [hcond, ha']; rfl) (Runs.brk _ _)
      have hc : candG after (p :: tl) i = i := by
        cases tl <;> simp [candG, ha']
      rw [hc]
      exact Runs.forVals_break (by rw [hset]; exact hbody)

/-- **`_compute_star_power_data` is the cursor function** -/
theorem spData_tie (ext : Ext) (t : Val) (sps : List Val) (start : Nat) (after during : Val → Bool)
    (hA : ∀ p, ext ".tick_is_after_event" [p, t] = .ok (.bool (after p)))
    (hD : ∀ p, ext ".tick_is_during_event" [p, t] = .ok (.bool (during p))) :
    Returns ext Gen.Imp.computeStarPowerData
      (initEnv [("tick", t), ("star_power_events", .list (Val.ofList sps)), ("proximal_star_power_event_index", .int start)]
        Gen.Imp.computeStarPowerDataLocals)
      (spDataG after during sps start) := by
  have h0 : initEnv [("tick", t), ("star_power_events", .list (Val.ofList sps)), ("proximal_star_power_event_index", .int start)]
      Gen.Imp.computeStarPowerDataLocals = spEnv t (.list (Val.ofList sps)) start none none := by
    simp [initEnv, Gen.Imp.computeStarPowerDataLocals, spEnv]
  rw [h0]
  unfold Gen.Imp.computeStarPowerData spDataG
  by_cases he : sps = []
  · -- no phrases at all
    subst he
    simp only [List.isEmpty_nil, if_true]
    exact Or.inl (Runs.seq_stop (Runs.ite_true (by simp [evalExpr, spEnv, lookup, bind, Except.bind])
      (Runs.ret (by simp [evalExpr, bind, Except.bind]))) (by intro e; simp))
  · have hne : sps.isEmpty = false := by cases sps <;> simp_all
    simp only [hne]
    have h1 : Runs ext (.ite (.not (.var "star_power_events"))
        (.ret (.mkTup (.econs (.lit .none) (.econs (.lit (.int 0)) .enil)))) .skip)
        (spEnv t (.list (Val.ofList sps)) start none none) (.norm (spEnv t (.list (Val.ofList sps)) start none none)) :=
      Runs.ite_false (by simp [evalExpr, spEnv, lookup, bind, Except.bind, hne]) (Runs.skip _ _)
    by_cases hs : sps.length ≤ start
    · simp only [hs, if_true, Returns]
      exact ⟨_, Runs.seq h1 (Runs.seq_stop (Runs.ite_true (by simp [evalExpr, spEnv, lookup, bind, Except.bind]; omega)
        (Runs.raise _ _ _)) (by intro e; simp))⟩
    · simp only [hs, if_false]
      have h2 : Runs ext (.ite (.cmp .ge (.var "proximal_star_power_event_index") (.len (.var "star_power_events")))
          (.raise .valueError) .skip)
          (spEnv t (.list (Val.ofList sps)) start none none) (.norm (spEnv t (.list (Val.ofList sps)) start none none)) :=
        Runs.ite_false (by simp [evalExpr, spEnv, lookup, bind, Except.bind]; omega) (Runs.skip _ _)
      have hlt : start < sps.length := by omega
      have hdl : (sps.drop start).length = sps.length - start := by simp
      have hdne : sps.drop start ≠ [] := by
        intro h; rw [h] at hdl; simp at hdl; omega
      have hloop := spLoop ext t sps start after hA (sps.drop start) start none none rfl hdne
      have hrange : evalExpr ext (spEnv t (.list (Val.ofList sps)) start none none)
          (.range (.var "proximal_star_power_event_index") (.len (.var "star_power_events")))
          = .ok (.list (Val.ofList (items start (sps.drop start).length))) := by
        have : ((sps.length : Int) - (start : Int)).toNat = sps.length - start := by omega
        simp [evalExpr, spEnv, lookup, bind, Except.bind, items, this]
      have h3 := Runs.forIn_list hrange hloop
      have hc := candG_lt after (sps.drop start) start hdne
      rw [hdl] at hc
      have hcl : candG after (sps.drop start) start < sps.length := by omega
      generalize candG after (sps.drop start) start = c at h3 hcl ⊢
      have hidx := indexVal_list_nat sps c hcl
      have h4 : Runs ext (.assign "candidate" (.index (.var "star_power_events") (.var "candidate_index")))
          (spEnv t (.list (Val.ofList sps)) start none (some (.int c)))
          (.norm (spEnv t (.list (Val.ofList sps)) start (some sps[c]) (some (.int c)))) := by
        have := Runs.assign (ext := ext) (x := "candidate") (e := .index (.var "star_power_events") (.var "candidate_index"))
          (env := spEnv t (.list (Val.ofList sps)) start none (some (.int c))) (v := sps[c])
          (by simp [evalExpr, spEnv, lookup, bind, Except.bind, hidx])
        simpa [spEnv, setVar] using this
      rw [List.getElem?_eq_getElem hcl]
      simp only []
      have hcond : evalExpr ext (spEnv t (.list (Val.ofList sps)) start (some sps[c]) (some (.int c)))
          (.not (.call ".tick_is_during_event" (.econs (.var "candidate") (.econs (.var "tick") .enil)))) >>= truth
          = .ok (!during sps[c]) := by
        simp [evalExpr, spEnv, lookup, bind, Except.bind, Val.toList?, hD, truth]
      by_cases hd : during sps[c] = true
      · simp only [hd, if_true, Returns]
        exact Or.inl (Runs.seq h1 (Runs.seq h2 (Runs.seq h3 (Runs.seq h4 (Runs.seq (Runs.ite_false (by rw [hcond, hd]; rfl) (Runs.skip _ _))
          (Runs.ret (by simp [evalExpr, spEnv, lookup, bind, Except.bind])))))))
      · have hd' : during sps[c] = false := by simpa using hd
        simp only [hd', Returns, Bool.false_eq_true, if_false]
        exact Or.inl (Runs.seq h1 (Runs.seq h2 (Runs.seq h3 (Runs.seq h4 (Runs.seq_stop (Runs.ite_true (by rw [hcond, hd']; rfl)
          (Runs.ret (by simp [evalExpr, spEnv, lookup, bind, Except.bind]))) (by intro e; simp))))))

end Chartparse.Tie
