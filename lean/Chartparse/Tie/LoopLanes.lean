import Chartparse.Gen.Imp
import Chartparse.Proofs.ImpRules
import Chartparse.Model.Instrument
/-! `Note.from_parsed_datas` as written in /repo today: a five-slot list of zeros, one `n[index] = 1` per datum with the `IndexError`
    of the flag / open indices swallowed, and the enum look-up of the resulting tuple. Proved, for every list of data: the tuple handed
    to the look-up has a 1 exactly in the slots some datum's index names (Python's index rule: 0…4, or −5…−1 from the end), and for
    the indices a chart can hold (0…7) it is the hand model's `Inst.lanes`. -/
namespace Chartparse.Tie
open Chartparse Chartparse.PyImp

def lanesFold (idx : Val → Int) (ds : List Val) (acc : List Val) : List Val :=
  ds.foldl (fun a d => match normIdx (idx d) a.length with | some j => a.set j (.int 1) | none => a) acc

def lnEnv (c D : Val) (d : Option Val) (n : List Val) : Env :=
  [("cls", some c), ("datas", some D), ("d", d), ("n", some (.list (Val.ofList n)))]

def lnBody : Stmt :=
  (.tryExcept (.setIdx "n" (.attr (.attr (.var "d") "note_track_index") "value") (.lit (.int 1))) (.internal "IndexError") .skip)

theorem lnLoop (ext : Ext) (idx : Val → Int) (c D : Val) :
    ∀ (ds : List Val), (∀ d ∈ ds, (attrVal d "note_track_index" >>= fun v => attrVal v "value") = .ok (.int (idx d))) →
    ∀ (d0 : Option Val) (n : List Val),
      ∃ d', Runs ext (.forVals "d" (Val.ofList ds) lnBody .skip) (lnEnv c D d0 n) (.norm (lnEnv c D d' (lanesFold idx ds n))) := by
  intro ds
  induction ds with
  | nil => intro _ d0 n; exact ⟨d0, by simpa [lanesFold, Val.ofList] using Runs.forVals_nil (Runs.skip ext _)⟩
  | cons d ds ih =>
    intro h d0 n
    have hd := h d (by simp)
    have hset : setVar (lnEnv c D d0 n) "d" d = lnEnv c D (some d) n := by simp [lnEnv, setVar]
    have hi : evalExpr ext (lnEnv c D (some d) n) (.attr (.attr (.var "d") "note_track_index") "value") = .ok (.int (idx d)) := by
      simp only [evalExpr, lnEnv, lookup, List.find?]
      simpa [bind, Except.bind] using hd
    simp only [lanesFold, List.foldl_cons, Val.ofList]
    cases hj : normIdx (idx d) n.length with
    | some j =>
      have hb : Runs ext lnBody (lnEnv c D (some d) n) (.norm (lnEnv c D (some d) (n.set j (.int 1)))) := by
        refine Runs.try_pass ?_ (by intro e env' h; simp at h)
        have := Runs.setIdx (ext := ext) (x := "n") (i := .attr (.attr (.var "d") "note_track_index") "value") (e := .lit (.int 1))
          (env := lnEnv c D (some d) n) (nl := .list (Val.ofList (n.set j (.int 1))))
          (by rw [hi]; simp [evalExpr, lnEnv, lookup, bind, Except.bind, setAt, hj])
        simpa [lnEnv, setVar] using this
      obtain ⟨d', h2⟩ := ih (fun x hx => h x (by simp [hx])) (some d) (n.set j (.int 1))
      exact ⟨d', Runs.forVals_step (Or.inl (by rw [hset]; exact hb)) (by simpa [lanesFold] using h2)⟩
    | none =>
      have hb : Runs ext lnBody (lnEnv c D (some d) n) (.norm (lnEnv c D (some d) n)) := by
        refine Runs.try_catch (env' := lnEnv c D (some d) n) ?_ (Runs.skip _ _)
        exact Runs.setIdx_err (by rw [hi]; simp [evalExpr, lnEnv, lookup, bind, Except.bind, setAt, hj])
      obtain ⟨d', h2⟩ := ih (fun x hx => h x (by simp [hx])) (some d) n
      exact ⟨d', Runs.forVals_step (Or.inl (by rw [hset]; exact hb)) (by simpa [lanesFold] using h2)⟩

/-- **`Note.from_parsed_datas`**: the tuple looked up in the enum is the fold of `n[index] = 1` over the data -/
theorem noteFromParsedDatas_tie (ext : Ext) (idx : Val → Int) (c : Val) (ds : List Val)
    (h : ∀ d ∈ ds, (attrVal d "note_track_index" >>= fun v => attrVal v "value") = .ok (.int (idx d))) :
    Returns ext Gen.Imp.noteFromParsedDatas (initEnv [("cls", c), ("datas", .list (Val.ofList ds))] Gen.Imp.noteFromParsedDatasLocals)
      (ext "()" [c, .tup (Val.ofList (lanesFold idx ds [.int 0, .int 0, .int 0, .int 0, .int 0]))]) := by
  have h0 : initEnv [("cls", c), ("datas", .list (Val.ofList ds))] Gen.Imp.noteFromParsedDatasLocals
      = [("cls", some c), ("datas", some (.list (Val.ofList ds))), ("d", none), ("n", none)] := by
    simp [initEnv, Gen.Imp.noteFromParsedDatasLocals]
  rw [h0]
  have hinit : Runs ext (.assign "n" (.bin .mul (.mkList (.econs (.lit (.int 0)) .enil)) (.lit (.int 5))))
      [("cls", some c), ("datas", some (.list (Val.ofList ds))), ("d", none), ("n", none)]
      (.norm (lnEnv c (.list (Val.ofList ds)) none [.int 0, .int 0, .int 0, .int 0, .int 0])) := by
    have := Runs.assign (ext := ext) (x := "n") (e := .bin .mul (.mkList (.econs (.lit (.int 0)) .enil)) (.lit (.int 5)))
      (v := .list (Val.ofList [.int 0, .int 0, .int 0, .int 0, .int 0]))
      (env := [("cls", some c), ("datas", some (.list (Val.ofList ds))), ("d", none), ("n", none)])
      (by simp [evalExpr, bind, Except.bind, evalBin, Val.toList?, List.replicate, Val.ofList])
    simpa [setVar, lnEnv] using this
  obtain ⟨d', hl⟩ := lnLoop ext idx c (.list (Val.ofList ds)) ds h none [.int 0, .int 0, .int 0, .int 0, .int 0]
  have hfor := Runs.forIn_list (ext := ext) (v := "d") (e := .var "datas") (b := lnBody) (orelse := .skip)
    (env := lnEnv c (.list (Val.ofList ds)) none [.int 0, .int 0, .int 0, .int 0, .int 0]) (sp := Val.ofList ds)
    (by simp [evalExpr, lnEnv, lookup]) hl
  have hcall : evalExpr ext (lnEnv c (.list (Val.ofList ds)) d' (lanesFold idx ds [.int 0, .int 0, .int 0, .int 0, .int 0]))
      (.call "()" (.econs (.var "cls") (.econs (.toTup (.var "n")) .enil)))
      = ext "()" [c, .tup (Val.ofList (lanesFold idx ds [.int 0, .int 0, .int 0, .int 0, .int 0]))] := by
    simp [evalExpr, lnEnv, lookup, bind, Except.bind, Val.toList?]
  unfold Gen.Imp.noteFromParsedDatas
  cases hc : ext "()" [c, .tup (Val.ofList (lanesFold idx ds [.int 0, .int 0, .int 0, .int 0, .int 0]))] with
  | error err =>
    rw [hc] at hcall
    exact ⟨_, Runs.seq hinit (Runs.seq hfor (Runs.ret_err hcall))⟩
  | ok v =>
    rw [hc] at hcall
    exact Or.inl (Runs.seq hinit (Runs.seq hfor (Runs.ret hcall)))

/-! ### … and it is `Inst.lanes` -/

def enc01 (b : Bool) : Val := .int (if b then 1 else 0)

theorem lanesFold_step (idx : Val → Int) (enc : Inst.NDatum → Val) (h : ∀ d, idx (enc d) = d.idx) :
    ∀ (g : List Inst.NDatum) (b0 b1 b2 b3 b4 : Bool),
      lanesFold idx (g.map enc) [enc01 b0, enc01 b1, enc01 b2, enc01 b3, enc01 b4] =
        [enc01 (b0 || g.any fun d => d.idx == 0), enc01 (b1 || g.any fun d => d.idx == 1), enc01 (b2 || g.any fun d => d.idx == 2),
         enc01 (b3 || g.any fun d => d.idx == 3), enc01 (b4 || g.any fun d => d.idx == 4)] := by
  intro g
  induction g with
  | nil => intro b0 b1 b2 b3 b4; simp [lanesFold]
  | cons d g ih =>
    intro b0 b1 b2 b3 b4
    have hcases : d.idx = 0 ∨ d.idx = 1 ∨ d.idx = 2 ∨ d.idx = 3 ∨ d.idx = 4 ∨ 5 ≤ d.idx := by omega
    simp only [List.map_cons, lanesFold, List.foldl_cons, h, List.length_cons, List.length_nil]
    rcases hcases with h0 | h0 | h0 | h0 | h0 | h0
    · have : normIdx ((d.idx : Nat) : Int) 5 = some 0 := by rw [h0]; decide
      simp only [this, List.set_cons_zero]
      have := ih true b1 b2 b3 b4
      simp only [lanesFold] at this
      exact this.trans (by simp [h0])
    · have : normIdx ((d.idx : Nat) : Int) 5 = some 1 := by rw [h0]; decide
      simp only [this, List.set_cons_succ, List.set_cons_zero]
      have := ih b0 true b2 b3 b4
      simp only [lanesFold] at this
      exact this.trans (by simp [h0])
    · have : normIdx ((d.idx : Nat) : Int) 5 = some 2 := by rw [h0]; decide
      simp only [this, List.set_cons_succ, List.set_cons_zero]
      have := ih b0 b1 true b3 b4
      simp only [lanesFold] at this
      exact this.trans (by simp [h0])
    · have : normIdx ((d.idx : Nat) : Int) 5 = some 3 := by rw [h0]; decide
      simp only [this, List.set_cons_succ, List.set_cons_zero]
      have := ih b0 b1 b2 true b4
      simp only [lanesFold] at this
      exact this.trans (by simp [h0])
    · have : normIdx ((d.idx : Nat) : Int) 5 = some 4 := by rw [h0]; decide
      simp only [this, List.set_cons_succ, List.set_cons_zero]
      have := ih b0 b1 b2 b3 true
      simp only [lanesFold] at this
      exact this.trans (by simp [h0])
    · have : normIdx ((d.idx : Nat) : Int) 5 = none := by
        unfold normIdx
        have h1 : ¬ (((d.idx : Nat) : Int) < 0) := by omega
        have h2 : ¬ (d.idx < 5) := by omega
        simp [h1, h2]
      simp only [this]
      have := ih b0 b1 b2 b3 b4
      simp only [lanesFold] at this
      rw [this]
      have e : ∀ l : Nat, l < 5 → (d.idx == l) = false := by intro l hl; simp; omega
      simp [e]

/-- the tuple `Note.from_parsed_datas` looks up is the hand model's `Inst.lanes` of the block (the object C02's lane theorems are about) -/
theorem lanesFold_lanes (idx : Val → Int) (enc : Inst.NDatum → Val) (h : ∀ d, idx (enc d) = d.idx) (g : List Inst.NDatum) :
    lanesFold idx (g.map enc) [.int 0, .int 0, .int 0, .int 0, .int 0] = (Inst.lanes g).map enc01 := by
  have := lanesFold_step idx enc h g false false false false false
  simp only [enc01, Bool.false_eq_true, if_false, Bool.false_or] at this
  rw [this]
  simp [Inst.lanes, enc01, List.range, List.range.loop]

end Chartparse.Tie
