import Chartparse.Tie.LoopDispatch
import Chartparse.Model.Dispatch
/-! What the dispatcher tie says about the hand model (`Model/Dispatch.lean`): the map the dumped loop returns holds, under the k-th
    type, exactly `dataOf (parseData kinds lines) k`, and the number of warnings is `(warnings (parseData kinds lines)).length` — the
    objects C14's conservation, locality and order-freedom theorems are about. -/
namespace Chartparse.Tie
open Chartparse Chartparse.PyImp Chartparse.Dsp

def lookupA (m : AMap) (k : Val) : List Val := ((m.find? (·.1 == k)).map (·.2)).getD []

theorem lookupA_insertAt (m : AMap) (k v k' : Val) :
    lookupA (insertAt m k v) k' = if k' = k then lookupA m k ++ [v] else lookupA m k' := by
  induction m with
  | nil =>
    by_cases h : k' = k
    · subst h; simp [insertAt, lookupA]
    · have : ¬ k = k' := fun e => h e.symm
      simp [insertAt, lookupA, h, this]
  | cons kv rest ih =>
    obtain ⟨k0, l⟩ := kv
    simp only [insertAt]
    by_cases h0 : k0 = k
    · subst h0
      by_cases h : k' = k0
      · subst h; simp [lookupA]
      · have : ¬ k0 = k' := fun e => h e.symm
        simp [lookupA, h, this]
    · have hb : (k0 == k) = false := by simpa using h0
      simp only [hb, Bool.false_eq_true, if_false]
      by_cases h1 : k0 = k'
      · subst h1
        have : ¬ k0 = k := h0
        simp [lookupA, this]
      · have hb1 : (k0 == k') = false := by simpa using h1
        have e1 : lookupA ((k0, l) :: insertAt rest k v) k' = lookupA (insertAt rest k v) k' := by
          simp [lookupA, List.find?, hb1]
        have e2 : lookupA ((k0, l) :: rest) k' = lookupA rest k' := by simp [lookupA, List.find?, hb1]
        have e3 : lookupA ((k0, l) :: rest) k = lookupA rest k := by simp [lookupA, List.find?, hb]
        rw [e1, e2, e3, ih]

variable {σ δ : Type}

theorem classifyV_eq (dec : Val → Val → Option Val) (encT : Nat → Val) (encL : σ → Val) (encD : δ → Val) (l : σ) :
    ∀ (ks : List (Kind σ δ)) (i0 : Nat),
      (∀ j (h : j < ks.length), dec (encT (i0 + j)) (encL l) = (ks[j] l).map encD) →
      classifyV dec ((List.range' i0 ks.length).map encT) (encL l) = (classify ks l i0).map fun r => (encT r.1, encD r.2) := by
  intro ks
  induction ks with
  | nil => intro i0 _; rfl
  | cons k ks ih =>
    intro i0 h
    have h0 := h 0 (by simp)
    simp only [Nat.add_zero, List.getElem_cons_zero] at h0
    simp only [List.length_cons, List.range'_succ, List.map_cons, classifyV, classify, h0]
    cases hk : k l with
    | some d => simp
    | none =>
      simp only [Option.map_none]
      apply ih (i0 + 1)
      intro j hj
      have := h (j + 1) (by simp; omega)
      simp only [List.getElem_cons_succ] at this
      rw [← this]; congr 2; omega

/-- **the map and the warning count of the dumped dispatcher are the model's `dataOf` and `warnings`** -/
theorem dispatchV_eq (dec : Val → Val → Option Val) (encT : Nat → Val) (hinj : ∀ i j, encT i = encT j → i = j)
    (encL : σ → Val) (encD : δ → Val) (kinds : List (Kind σ δ))
    (hdec : ∀ j (h : j < kinds.length) l, dec (encT j) (encL l) = (kinds[j] l).map encD) (k : Nat) :
    ∀ (ls : List σ) (m : AMap) (w : Nat),
      lookupA (dispatchV dec ((List.range kinds.length).map encT) (ls.map encL) m w).1 (encT k)
          = lookupA m (encT k) ++ (dataOf (parseData kinds ls) k).map encD ∧
      (dispatchV dec ((List.range kinds.length).map encT) (ls.map encL) m w).2 = w + (warnings (parseData kinds ls)).length := by
  intro ls
  induction ls with
  | nil => intro m w; simp [dispatchV, parseData, dataOf, warnings]
  | cons l ls ih =>
    intro m w
    have hc := classifyV_eq dec encT encL encD l kinds 0 (by intro j h; simpa using hdec j h l)
    rw [← List.range_eq_range'] at hc
    simp only [List.map_cons, dispatchV, hc]
    cases hcl : classify kinds l 0 with
    | none =>
      obtain ⟨h1, h2⟩ := ih m (w + 1)
      simp only [Option.map_none]
      refine ⟨?_, ?_⟩
      · rw [h1]; simp [parseData, dataOf, hcl]
      · rw [h2]; simp [parseData, warnings, hcl]; omega
    | some r =>
      obtain ⟨i, d⟩ := r
      obtain ⟨h1, h2⟩ := ih (insertAt m (encT i) (encD d)) w
      simp only [Option.map_some]
      refine ⟨?_, ?_⟩
      · rw [h1, lookupA_insertAt]
        by_cases hik : i = k
        · subst hik; simp [parseData, dataOf, hcl]
        · have : ¬ encT k = encT i := fun e => hik (hinj _ _ e).symm
          simp [parseData, dataOf, hcl, this, hik]
      · rw [h2]; simp [parseData, warnings, hcl]

end Chartparse.Tie
