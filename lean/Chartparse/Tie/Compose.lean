import Chartparse.Tie.BpmStep
import Chartparse.Props.C01
import Chartparse.Props.C11
import Chartparse.Props.C12
import Chartparse.Props.C15
/-! What the leaf ties buy at the level of the property theorems: statements about **the dumped code** (the ASTs of /repo's working
    tree under the embedded semantics), not about the hand model.
    * the tempo accumulation of the hand model (`buildFrom`) is the iteration of the dumped step of `BPMEvent.from_parsed_data`;
    * whatever the dumped `timestamp_at_tick` (with its dumped callees) returns for a tick is within the C01 bound of the exact
      tempo-map time, and is `0` at tick `0`.
    The loop around the step (`data_to_bpm_events`) and the glue between sections stay tied by the correspondence check. -/
namespace Chartparse.Tie
open Chartparse Chartparse.Py Chartparse.Tempo Chartparse.F64

/-- the dumped step as a function: the timestamp it assigns -/
def stepCode (res : Int) (p : BpmEv) (t : Nat) : M Int :=
  match valueOfC Gen.Leaf.bpmStepCalls (stepEnv res p t 0) Gen.Leaf.bpmStep "timestamp" with
  | .ok (.td ts) => .ok ts
  | .ok _ => .error (.internal "not a timedelta")
  | .error e => .error e

theorem stepCode_eq (res : Int) (p : BpmEv) (t : Nat) :
    stepCode res p t = if t ≤ p.tick then .error .valueError
      else (secs (t - p.tick) p.bpm res).map (fun s => p.ts + usOfSeconds s) := by
  unfold stepCode
  rw [bpmStep_tie]
  by_cases h : t ≤ p.tick
  · simp [h]
  · simp only [h, if_false]
    cases secs (t - p.tick) p.bpm res <;> simp [Except.map]

/-- the accumulation loop with the dumped step in place of the hand-written one -/
def buildFromCode (res : Int) : BpmEv → List (Nat × Rat) → M (List BpmEv)
  | _, [] => .ok []
  | p, (t, b) :: rest =>
    match stepCode res p t with
    | .error e => .error e
    | .ok ts =>
      match buildFromCode res ⟨t, b, ts⟩ rest with
      | .error err => .error err
      | .ok es => .ok (⟨t, b, ts⟩ :: es)

theorem buildFrom_eq_code (res : Int) : ∀ (raw : List (Nat × Rat)) (p : BpmEv), buildFrom res p raw = buildFromCode res p raw
  | [], _ => rfl
  | (t, b) :: rest, p => by
    unfold buildFrom buildFromCode
    rw [stepCode_eq]
    by_cases h : t ≤ p.tick
    · simp [h]
    · simp only [h, if_false]
      cases hs : secs (t - p.tick) p.bpm res with
      | error e => simp [Except.map]
      | ok s =>
        simp only [Except.map]
        rw [buildFrom_eq_code res rest]
        cases buildFromCode res ⟨t, b, p.ts + usOfSeconds s⟩ rest <;> rfl

/-- what the dumped `timestamp_at_tick` returns, read back -/
theorem tsAt_of_code (res : Int) (evs : List BpmEv) (tick : Int) (hint : Nat) (x g : Int)
    (h : evalBodyC Gen.Leaf.timestampAtTickCalls (tsEnv res evs tick hint) Gen.Leaf.timestampAtTick = .ok (.pair (.td x) (.int g))) :
    tsAt res evs tick hint = .ok (x, g.toNat) := by
  rw [tsAt_tie] at h
  cases hq : tsAt res evs tick hint with
  | error e => rw [hq] at h; simp [Except.map] at h
  | ok r =>
    rw [hq] at h
    simp only [Except.map, Except.ok.injEq, Val.pair.injEq, Val.td.injEq, Val.int.injEq] at h
    obtain ⟨h1, h2⟩ := h
    have : r = (x, g.toNat) := by
      rcases r with ⟨a, b⟩
      simp only at h1 h2
      subst h1; subst h2
      simp
    rw [this]

/-- **C01 for the dumped query**: on a map built from positive tempo values, the time the dumped code returns for a tick differs
    from the exact tempo-map time by at most half a microsecond (and a thousandth) per tempo segment crossed -/
theorem C01_query_code (res : Nat) (hres : 1 ≤ res) (pairs : List (Nat × Nat)) (hn : ∀ p ∈ pairs, 1 ≤ p.2)
    (evs : List BpmEv) (hb : mapOf res pairs = .ok evs) (t : Nat) (x g : Int)
    (hq : evalBodyC Gen.Leaf.timestampAtTickCalls (tsEnv (res : Int) evs (t : Int) 0) Gen.Leaf.timestampAtTick = .ok (.pair (.td x) (.int g)))
    (hE : exactUs res pairs t < 1000000000000) :
    |(x : Rat) - exactUs res pairs t| ≤ (segments pairs t : Rat) * (1/2 + 1/1000) :=
  Props.C01.C01_query res hres pairs hn evs hb t x g.toNat (tsAt_of_code _ _ _ _ _ _ hq) hE

theorem C01_zero_code (res : Nat) (pairs : List (Nat × Nat)) (evs : List BpmEv) (hb : mapOf res pairs = .ok evs) (x g : Int)
    (hq : evalBodyC Gen.Leaf.timestampAtTickCalls (tsEnv (res : Int) evs 0 0) Gen.Leaf.timestampAtTick = .ok (.pair (.td x) (.int g))) :
    x = 0 :=
  Props.C01.C01_zero res pairs evs hb x g.toNat (tsAt_of_code _ _ _ _ _ _ hq)

/-- the dumped query as a function of its inputs -/
abbrev queryCode (res : Int) (evs : List BpmEv) (tick : Int) (hint : Nat) : M Val :=
  evalBodyC Gen.Leaf.timestampAtTickCalls (tsEnv res evs tick hint) Gen.Leaf.timestampAtTick

/-- **C11 for the dumped query**: a hint not beyond the governing event is invisible — the dumped code returns exactly what it
    returns without a hint (timestamp and index) -/
theorem C11_hint_invariant_code (res : Int) (evs : List BpmEv) (hs : (evs.map (·.tick)).Pairwise (· < ·))
    (tick : Int) (h : Nat) (hh : h < (before tick (evs.map (·.tick))).length) :
    queryCode res evs tick h = queryCode res evs tick 0 := by
  unfold queryCode
  rw [tsAt_tie, tsAt_tie, Props.C11.C11_hint_invariant res evs hs tick h hh]

/-- … and a hint beyond the governing event makes the dumped code raise `ValueError` -/
theorem C11_hint_reject_code (res : Int) (evs : List BpmEv) (hs : (evs.map (·.tick)).Pairwise (· < ·))
    (tick : Int) (h : Nat) (hh : (before tick (evs.map (·.tick))).length ≤ h) :
    queryCode res evs tick h = .error .valueError := by
  unfold queryCode
  rw [tsAt_tie, Props.C11.C11_hint_reject res evs hs tick h hh]
  rfl

/-- **C15 / C18 for the dumped query**: whatever the map, the tick and the hint, the dumped code either returns or raises `ValueError`
    — no other exception (no `IndexError`, no `ZeroDivisionError`, nothing outside the embedded subset) -/
theorem query_errors_are_ValueError_code (res : Int) (evs : List BpmEv) (tick : Int) (h : Nat) (e : PyErr)
    (herr : queryCode res evs tick h = .error e) : e = .valueError := by
  unfold queryCode at herr
  rw [tsAt_tie] at herr
  cases hq : tsAt res evs tick h with
  | ok r => rw [hq] at herr; simp [Except.map] at herr
  | error e' =>
    rw [hq] at herr
    simp only [Except.map, Except.error.injEq] at herr
    rw [← herr]
    exact Props.C11.C11_errors_are_ValueError res evs tick h e' hq

end Chartparse.Tie

namespace Chartparse.Tie
open Chartparse Chartparse.Py Chartparse.Tempo Chartparse.F64

/-- **C12 for the dumped query (monotone)**: on a map the model's accumulation built, what the dumped code returns for a later-or-equal
    tick is never earlier -/
theorem C12_mono_code (res : Nat) (raw : List (Nat × Rat)) (evs : List BpmEv) (hb : buildMap (res : Int) raw = .ok evs)
    (a b : Nat) (hab : a ≤ b) (x y ga gb : Int)
    (ha : queryCode (res : Int) evs (a : Int) 0 = .ok (.pair (.td x) (.int ga)))
    (hbq : queryCode (res : Int) evs (b : Int) 0 = .ok (.pair (.td y) (.int gb))) : x ≤ y :=
  Props.C12.C12_mono res raw evs hb a b hab x y ga.toNat gb.toNat (tsAt_of_code _ _ _ _ _ _ ha) (tsAt_of_code _ _ _ _ _ _ hbq)

/-- **C12 for the dumped query (a function of the tick)**: two successful answers for one tick, under whatever hints, are the same -/
theorem C12_equal_code (res : Int) (evs : List BpmEv) (hs : (evs.map (·.tick)).Pairwise (· < ·)) (tick : Int) (h h' : Nat)
    (x y g g' : Int) (hq : queryCode res evs tick h = .ok (.pair (.td x) (.int g)))
    (hq' : queryCode res evs tick h' = .ok (.pair (.td y) (.int g'))) : x = y := by
  have := Props.C12.C12_equal res evs hs tick h h' _ _ (tsAt_of_code _ _ _ _ _ _ hq) (tsAt_of_code _ _ _ _ _ _ hq')
  exact (Prod.mk.inj this).1

/-- **C12 for the dumped query (strict)**: every tick lasting at least two microseconds and the exact time below 10⁶ s -/
theorem C12_strict_code (res : Nat) (hres : 1 ≤ res) (pairs : List (Nat × Nat)) (hn : ∀ p ∈ pairs, 1 ≤ p.2)
    (hslow : ∀ p ∈ pairs, p.2 * res ≤ 30000000000) (evs : List BpmEv) (hb : mapOf res pairs = .ok evs)
    (a b : Nat) (hab : a < b) (x y ga gb : Int)
    (ha : queryCode (res : Int) evs (a : Int) 0 = .ok (.pair (.td x) (.int ga)))
    (hbq : queryCode (res : Int) evs (b : Int) 0 = .ok (.pair (.td y) (.int gb)))
    (hE : exactUs res pairs b < 1000000000000) : x < y :=
  Props.C12.C12_strict res hres pairs hn hslow evs hb a b hab x y ga.toNat gb.toNat (tsAt_of_code _ _ _ _ _ _ ha)
    (tsAt_of_code _ _ _ _ _ _ hbq) hE

end Chartparse.Tie

namespace Chartparse.Tie
open Chartparse Chartparse.Py Chartparse.Tempo Chartparse.F64

/-- **C15 for the dumped query**: no time for a tick before the map — for every map, resolution and hint -/
theorem C15_negative_code (res : Int) (evs : List BpmEv) (tick : Int) (hint : Nat) (h : tick < 0) :
    queryCode res evs tick hint = .error .valueError := by
  unfold queryCode
  rw [tsAt_tie, Props.C15.C15_negative res evs tick hint h]
  rfl

/-- … and whenever the dumped query does return a time, the tempo event it names has a positive tempo and the resolution is positive:
    a zero or negative tempo, or resolution, never yields a time for a tick it governs -/
theorem C15_zero_bpm_code (res : Int) (evs : List BpmEv) (tick : Int) (hint : Nat) (x g : Int)
    (h : queryCode res evs tick hint = .ok (.pair (.td x) (.int g))) :
    ∃ ev, evs[g.toNat]? = some ev ∧ 0 < ev.bpm ∧ 0 < res :=
  Props.C15.C15_zero_bpm res evs tick hint x g.toNat (tsAt_of_code _ _ _ _ _ _ h)

end Chartparse.Tie

/-! non-vacuity, checked by the kernel: the dumped code, evaluated on a two-tempo map (120 BPM, then 60 BPM from tick 96 at 0.25 s,
    resolution 192), answers tick 192 with 0.75 s and governing index 1 — with or without the hint 1 — and refuses hint 1 for tick 50 -/
namespace Chartparse.Tie
open Chartparse Chartparse.Py Chartparse.Tempo
example : queryCode 192 [⟨0, 120, 0⟩, ⟨96, 60, 250000⟩] 192 0 = .ok (.pair (.td 750000) (.int 1)) := by decide +kernel
example : queryCode 192 [⟨0, 120, 0⟩, ⟨96, 60, 250000⟩] 192 1 = .ok (.pair (.td 750000) (.int 1)) := by decide +kernel
example : queryCode 192 [⟨0, 120, 0⟩, ⟨96, 60, 250000⟩] 50 1 = .error .valueError := by decide +kernel
example : stepCode 192 ⟨0, 120, 0⟩ 96 = .ok 250000 := by decide +kernel
end Chartparse.Tie
