import Chartparse.Tie.LoopGroups
import Chartparse.Model.Instrument
/-! What the loop ties say about the hand model (`Model/Instrument.lean`, `Model/Tempo.lean`): the fold the dumped code was
    proved equal to *is* the model's function once values are read through their encodings — so the property theorems about that
    model function are statements about the loop as written in /repo today. -/
namespace Chartparse.Tie
open Chartparse Chartparse.PyImp Chartparse.Inst Chartparse.Tempo

/-! ### tick groups: `groupsV` is `Inst.groups`, `foldGroups` is `Inst.buildNotes` -/

theorem groupsV_eq (enc : NDatum → Val) (key : Val → Val) (hk : ∀ d, key (enc d) = .int d.tick) :
    ∀ ds : List NDatum, groupsV key (ds.map enc) = (groups ds).map (List.map enc) := by
  intro ds
  induction ds with
  | nil => rfl
  | cons d ds ih =>
    simp only [List.map_cons, groupsV, groups, ih]
    cases hg : groups ds with
    | nil => rfl
    | cons g gs =>
      cases g with
      | nil => rfl
      | cons e g' =>
        simp only [List.map_cons, hk]
        by_cases ht : e.tick = d.tick
        · simp [ht]
        · have : ¬ ((Val.int (e.tick : Int)) = Val.int (d.tick : Int)) := by
            intro h; injection h with h; exact ht (by exact_mod_cast h)
          simp [ht, this]

theorem foldGroups_buildNotes (res : Int) (evs : List BpmEv) (sps : List Phrase) (encD : NDatum → Val) (encE : NoteEv → Val)
    (prevOfV : Val → Option NoteEv) (hp0 : prevOfV .none = none) (hp : ∀ e, prevOfV (encE e) = some e)
    (F : List Val → Val → Val → Val → M (Val × Val × Val))
    (hF : ∀ g pv (b s : Nat), F (g.map encD) pv (.int b) (.int s) =
      (buildNote res evs sps g (prevOfV pv) b s).map fun r => (encE r.1, .int r.2.1, .int r.2.2)) :
    ∀ (gs : List (List NDatum)) (acc : List Val) (b s : Nat),
      foldGroups F (gs.map (List.map encD)) acc (.int b) (.int s) =
        (buildNotes res evs sps gs (prevOfV (lastOr acc)) b s).map fun out => acc ++ out.map encE := by
  intro gs
  induction gs with
  | nil => intro acc b s; simp [foldGroups, buildNotes, Except.map]
  | cons g gs ih =>
    intro acc b s
    simp only [List.map_cons, foldGroups, buildNotes, hF, bind, Except.bind]
    cases hr : buildNote res evs sps g (prevOfV (lastOr acc)) b s with
    | error e => simp [Except.map]
    | ok r =>
      simp only [Except.map]
      rw [ih (acc ++ [encE r.1]) r.2.1 r.2.2, lastOr_append, hp]
      cases hb : buildNotes res evs sps gs (some r.1) r.2.1 r.2.2 with
      | error e => simp [Except.map]
      | ok rest => simp [Except.map]

/-- **the dumped `_build_note_events_from_data` computes `buildNotes` of `groups`** — the function the track theorems of C02–C05 are
    about — when `NoteEvent.from_parsed_data` means the model's `buildNote` on a block, the previous event and the two cursors -/
theorem buildNoteEvents_code (ext : Ext) (res : Int) (evs : List BpmEv) (sps : List Phrase) (c S B : Val)
    (encD : NDatum → Val) (encE : NoteEv → Val) (key : Val → Val)
    (hk : ∀ d, key (encD d) = .int d.tick) (hattr : ∀ d, attrVal (encD d) "tick" = .ok (.int d.tick))
    (prevOfV : Val → Option NoteEv) (hp0 : prevOfV .none = none) (hp : ∀ e, prevOfV (encE e) = some e)
    (F : List Val → Val → Val → Val → M (Val × Val × Val))
    (hext : ∀ g p pb sp, ext FN [.list (Val.ofList g), p, S, B, pb, sp] =
      (F g p pb sp).map fun r => .tup (.cons r.1 (.cons r.2.1 (.cons r.2.2 .nil))))
    (hF : ∀ g pv (b s : Nat), F (g.map encD) pv (.int b) (.int s) =
      (buildNote res evs sps g (prevOfV pv) b s).map fun r => (encE r.1, .int r.2.1, .int r.2.2))
    (ds : List NDatum) :
    Returns ext Gen.Imp.buildNoteEvents
      (initEnv [("cls", c), ("datas", .list (Val.ofList (ds.map encD))), ("star_power_events", S), ("bpm_events", B)] Gen.Imp.buildNoteEventsLocals)
      ((buildNotes res evs sps (groups ds) none 0 0).map fun out => .list (Val.ofList (out.map encE))) := by
  have hkk : ∀ x ∈ ds.map encD, attrVal x "tick" = .ok (key x) := by
    intro x hx
    obtain ⟨d, _, rfl⟩ := List.mem_map.mp hx
    rw [hattr, hk]
  have := buildNoteEvents_tie ext key (ds.map encD) hkk F c S B hext
  rw [groupsV_eq encD key hk] at this
  have h2 := foldGroups_buildNotes res evs sps encD encE prevOfV hp0 hp F hF (groups ds) [] 0 0
  have h3 : foldGroups F ((groups ds).map (List.map encD)) [] (.int 0) (.int 0) =
      (buildNotes res evs sps (groups ds) none 0 0).map fun out => out.map encE := by
    have := h2
    simp only [lastOr, List.getLast?_nil, Option.getD_none, hp0, List.nil_append] at this
    exact_mod_cast this
  rw [h3] at this
  cases hb : buildNotes res evs sps (groups ds) none 0 0 with
  | error e => rw [hb] at this; exact this
  | ok out => rw [hb] at this; exact this

end Chartparse.Tie
