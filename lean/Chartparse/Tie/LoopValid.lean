import Chartparse.Gen.Imp
import Chartparse.Proofs.ImpRules
/-! The two sync validators as written in /repo today: `BPMEvents.__post_init__` (positive resolution, at least one tempo event, the
    first at tick 0) and `SyncTrack.__post_init__` (at least one time signature, the first at tick 0). Each is proved to raise
    `ValueError` exactly in the listed situations, in that order, and to return `None` otherwise. -/
namespace Chartparse.Tie
open Chartparse Chartparse.PyImp

/-- what the validator looks at: the first element's tick, if any -/
def firstTickOk (evs : List Val) : M Unit :=
  match evs with
  | [] => .error .valueError
  | e :: _ => match attrVal e "tick" with
    | .ok t => if t != .int 0 then .error .valueError else .ok ()
    | .error err => .error err

theorem bpmEventsPostInit_tie (ext : Ext) (cls : String) (fs : Val) (r : Int) (evs : List Val)
    (hr : fs.getField "resolution" = some (.int r)) (he : fs.getField "events" = some (.list (Val.ofList evs))) :
    Returns ext Gen.Imp.bpmEventsPostInit (initEnv [("self", .obj cls fs)] Gen.Imp.bpmEventsPostInitLocals)
      (if r ≤ 0 then .error .valueError else (firstTickOk evs).map fun _ => .none) := by
  have h0 : initEnv [("self", .obj cls fs)] Gen.Imp.bpmEventsPostInitLocals = [("self", some (.obj cls fs))] := by
    simp [initEnv, Gen.Imp.bpmEventsPostInitLocals]
  rw [h0]
  have hsr : attrVal (.obj cls fs) "resolution" = .ok (.int r) := by simp [attrVal, hr]
  have hse : attrVal (.obj cls fs) "events" = .ok (.list (Val.ofList evs)) := by simp [attrVal, he]
  unfold Gen.Imp.bpmEventsPostInit
  by_cases h1 : r ≤ 0
  · simp only [h1, if_true, Returns]
    exact ⟨[("self", some (.obj cls fs))], runs_of_exec 6 fun k => by simp [exec, evalExpr, lookup, hsr, bind, Except.bind, h1]⟩
  · simp only [h1, if_false]
    cases evs with
    | nil =>
      simp only [firstTickOk, Except.map, Returns]
      exact ⟨[("self", some (.obj cls fs))], runs_of_exec 6 fun k => by simp [exec, evalExpr, lookup, hsr, hse, bind, Except.bind, h1, Val.ofList, truth]⟩
    | cons e es =>
      have hidx : indexVal (.list (Val.ofList (e :: es))) (.int 0) = .ok e := by
        exact indexVal_list_nat (e :: es) 0 (by simp)
      simp only [firstTickOk]
      cases ht : attrVal e "tick" with
      | error err =>
        simp only [Except.map, Returns]
        exact ⟨[("self", some (.obj cls fs))], runs_of_exec 6 fun k => by
          simp [exec, evalExpr, lookup, hsr, hse, bind, Except.bind, h1, hidx, ht]⟩
      | ok t =>
        by_cases h3 : t = .int 0
        · subst h3
          simp only [bne_self_eq_false, Bool.false_eq_true, if_false, Except.map, Returns]
          refine Or.inr ⟨trivial, [("self", some (.obj cls fs))], runs_of_exec 6 fun k => ?_⟩
          simp [exec, evalExpr, lookup, hsr, hse, bind, Except.bind, h1, hidx, ht]
        · have : (t != .int 0) = true := by simpa using h3
          simp only [this, if_true, Except.map, Returns]
          exact ⟨[("self", some (.obj cls fs))], runs_of_exec 6 fun k => by
            simp [exec, evalExpr, lookup, hsr, hse, bind, Except.bind, h1, hidx, ht, this]⟩

theorem syncPostInit_tie (ext : Ext) (cls : String) (fs : Val) (tss : List Val)
    (he : fs.getField "time_signature_events" = some (.list (Val.ofList tss))) :
    Returns ext Gen.Imp.syncPostInit (initEnv [("self", .obj cls fs)] Gen.Imp.syncPostInitLocals)
      ((firstTickOk tss).map fun _ => .none) := by
  have h0 : initEnv [("self", .obj cls fs)] Gen.Imp.syncPostInitLocals = [("self", some (.obj cls fs))] := by
    simp [initEnv, Gen.Imp.syncPostInitLocals]
  rw [h0]
  have hse : attrVal (.obj cls fs) "time_signature_events" = .ok (.list (Val.ofList tss)) := by simp [attrVal, he]
  unfold Gen.Imp.syncPostInit
  cases tss with
  | nil =>
    simp only [firstTickOk, Except.map, Returns]
    exact ⟨[("self", some (.obj cls fs))], runs_of_exec 6 fun k => by simp [exec, evalExpr, lookup, hse, bind, Except.bind, Val.ofList, truth]⟩
  | cons e es =>
    have hidx : indexVal (.list (Val.ofList (e :: es))) (.int 0) = .ok e := by
      exact indexVal_list_nat (e :: es) 0 (by simp)
    simp only [firstTickOk]
    cases ht : attrVal e "tick" with
    | error err =>
      simp only [Except.map, Returns]
      exact ⟨[("self", some (.obj cls fs))], runs_of_exec 6 fun k => by
        simp [exec, evalExpr, lookup, hse, bind, Except.bind, hidx, ht]⟩
    | ok t =>
      by_cases h3 : t = .int 0
      · subst h3
        simp only [bne_self_eq_false, Bool.false_eq_true, if_false, Except.map, Returns]
        refine Or.inr ⟨trivial, [("self", some (.obj cls fs))], runs_of_exec 6 fun k => ?_⟩
        simp [exec, evalExpr, lookup, hse, bind, Except.bind, hidx, ht]
      · have : (t != .int 0) = true := by simpa using h3
        simp only [this, if_true, Except.map, Returns]
        exact ⟨[("self", some (.obj cls fs))], runs_of_exec 6 fun k => by
          simp [exec, evalExpr, lookup, hse, bind, Except.bind, hidx, ht, this]⟩

end Chartparse.Tie
