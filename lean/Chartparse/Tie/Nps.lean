import Chartparse.Tie.Common
import Chartparse.Model.Rate
/-! `Chart._notes_per_second` after the count: `total_seconds()` of the difference, the non-positive guard, one division —
    the hand model's `npsCore` (for a note count the double holds exactly, i.e. below 2⁵³). -/
namespace Chartparse.Tie
open Chartparse Chartparse.Py Chartparse.F64 Chartparse.Rate

theorem nps_tie (notes : List Int) (s e : Int) (hc : fl (count notes s e : Rat) = (count notes s e : Rat)) :
    evalBody [("start_time", .td s), ("end_time", .td e), ("num_events_to_consider", .int (count notes s e))] Gen.Leaf.notesPerSecond =
      (npsCore notes s e).map Val.flt := by
  unfold npsCore
  have hcn : (0 : Rat) ≤ (count notes s e : Rat) := by exact_mod_cast Nat.zero_le _
  by_cases hse : e - s ≤ 0
  · -- non-positive interval: both raise
    have hq : (((e - s : Int) : Rat) / 1000000) ≤ 0 := by
      have : ((e - s : Int) : Rat) ≤ 0 := by exact_mod_cast hse
      have h6 : (0 : Rat) < 1000000 := by norm_num
      exact div_nonpos_of_nonpos_of_nonneg this (le_of_lt h6)
    have hfl : fl (((e - s : Int) : Rat) / 1000000) ≤ 0 := by unfold fl; rw [if_pos hq]
    have hfls : fls (((e - s : Int) : Rat) / 1000000) ≤ 0 := by
      rcases eq_or_lt_of_le hq with h | h
      · rw [h]; unfold fls; simp [fl_zero]
      · exact le_of_lt (fls_neg _ h)
    rw [if_pos hfl]
    simp only [Int.cast_sub] at hfls
    simp [Gen.Leaf.notesPerSecond, evalBody, evalExpr, Py.lookup, evalBin, evalCmp, sameKind, numVal, bind, Except.bind, hfls, Except.map]
  · have hpos : (0 : Rat) < ((e - s : Int) : Rat) / 1000000 := by
      have : (0 : Rat) < ((e - s : Int) : Rat) := by exact_mod_cast (by omega : 0 < e - s)
      positivity
    have hflpos := fl_pos _ hpos
    have e1 : fls (((e - s : Int) : Rat) / 1000000) = fl (((e - s : Int) : Rat) / 1000000) := fls_of_nonneg _ (le_of_lt hpos)
    have e2 : fls (count notes s e : Rat) = (count notes s e : Rat) := by rw [fls_of_nonneg _ hcn, hc]
    have e3 : fls ((count notes s e : Rat) / fl (((e - s : Int) : Rat) / 1000000)) =
        fl ((count notes s e : Rat) / fl (((e - s : Int) : Rat) / 1000000)) := fls_of_nonneg _ (by positivity)
    rw [if_neg (not_le.mpr hflpos)]
    simp only [Int.cast_sub] at e1 e3 hflpos
    have hne : fl (((e : Rat) - (s : Rat)) / 1000000) ≠ 0 := ne_of_gt hflpos
    simp [Gen.Leaf.notesPerSecond, evalBody, evalExpr, Py.lookup, evalBin, evalCmp, isFloatOp, toFlt, sameKind, numVal, bind, Except.bind,
      e1, e2, e3, hne, not_le.mpr hflpos, Except.map]

end Chartparse.Tie
