import Chartparse.Tie.Common
/-! `AnchorEvent.from_parsed_data` builds the timestamp from the integer microseconds directly — no float on the way. -/
namespace Chartparse.Tie
open Chartparse Chartparse.Py

theorem anchor_tie (us : Int) :
    valueOf [("data.microseconds", .int us)] Gen.Leaf.anchorTimestamp "timestamp" = .ok (.td us) := by
  simp [Gen.Leaf.anchorTimestamp, valueOf, execBody, evalExpr, lookup, bind, Except.bind]

end Chartparse.Tie
