import Chartparse.Tie.Scan
import Chartparse.Tie.Secs
import Chartparse.Proofs.UsMono
import Chartparse.Proofs.C18Proofs
/-! `BPMEvents.timestamp_at_tick`, as written in /repo today, together with the four functions it calls — `_index_of_proximal_event`,
    `tick.between`, `tick.seconds_from_ticks_at_bpm`, `time.add` — *is* the hand model's `tsAt`: same governing event, same tick
    distance, the arguments in the same places, same float chain, same rounding to microseconds, the same errors in the same order.
    The calls are not opaque: `Gen.Leaf.timestampAtTickCalls` evaluates each callee's own translated body on the arguments the
    caller's body passes. -/
namespace Chartparse.Tie
open Chartparse Chartparse.Py Chartparse.Tempo Chartparse.F64

theorem between_tie (a b : Int) :
    evalBody [("a", .int a), ("b", .int b)] Gen.Leaf.tickBetween = .ok (.int ((a - b).natAbs : Int)) := by
  simp [Gen.Leaf.tickBetween, evalBody, evalExpr, Py.lookup, evalBin, bind, Except.bind]

theorem timeAdd_float_tie (ts : Int) (x : Rat) (hx : 0 ≤ x) :
    evalBody [("ts", .td ts), ("other", .flt x)] Gen.Leaf.timeAdd = .ok (.td (ts + usOfSeconds x)) := by
  simp [Gen.Leaf.timeAdd, evalBody, evalExpr, evalLets, Py.lookup, evalBin, bind, Except.bind, hx]

theorem timeAdd_td_tie (ts o : Int) :
    evalBody [("ts", .td ts), ("other", .td o)] Gen.Leaf.timeAdd = .ok (.td (ts + o)) := by
  simp [Gen.Leaf.timeAdd, evalBody, evalExpr, evalLets, Py.lookup, evalBin, bind, Except.bind]

/-- the receiver as the body sees it: the three attributes of its events, its resolution, and the two arguments -/
def tsEnv (res : Int) (evs : List BpmEv) (tick : Int) (hint : Nat) : Env :=
  [("tick", .int tick), ("start_iteration_index", .int (hint : Int)), ("self.resolution", .int res),
   ("self.events[].tick", .ints (L (evs.map (·.tick)))), ("self.events[].bpm", .flts (evs.map (·.bpm))),
   ("self.events[].timestamp", .tds (evs.map (·.ts)))]

abbrev tsEnv1 (res : Int) (evs : List BpmEv) (tick : Int) (hint g : Nat) : Env :=
  ("proximal_bpm_event_index", Val.int (g : Int)) :: tsEnv res evs tick hint
abbrev tsEnv2 (res : Int) (evs : List BpmEv) (tick : Int) (hint g : Nat) (d : Int) : Env :=
  ("ticks_since_proximal_bpm_event", Val.int d) :: tsEnv1 res evs tick hint g
abbrev tsEnv3 (res : Int) (evs : List BpmEv) (tick : Int) (hint g : Nat) (d : Int) (s : Rat) : Env :=
  ("seconds_since_proximal_bpm_event", Val.flt s) :: tsEnv2 res evs tick hint g d
abbrev tsEnv4 (res : Int) (evs : List BpmEv) (tick : Int) (hint g : Nat) (d : Int) (s : Rat) (t : Int) : Env :=
  ("timestamp", Val.td t) :: tsEnv3 res evs tick hint g d s

theorem indexOfProximal_lt (ticks : List Nat) (tick : Int) (start g : Nat) (h : indexOfProximal ticks tick start = .ok g) :
    g < ticks.length := by
  unfold indexOfProximal at h
  by_cases hlen : ticks.length ≤ start
  · simp [hlen] at h
  · have hs : start < ticks.length := by omega
    simp only [if_neg hlen, List.getElem?_eq_getElem hs] at h
    split at h
    · cases h
    · injection h with h
      have := scan_le tick (ticks.drop (start + 1)) start
      rw [List.length_drop] at this
      omega

/-! ### evaluation rules -/

theorem eval_idx_flts (env : Env) (a i : Expr) (l : List Rat) (k : Nat) (x : Rat) (ha : evalExpr env a = .ok (.flts l))
    (hi : evalExpr env i = .ok (.int (k : Int))) (hx : l[k]? = some x) : evalExpr env (.idx a i) = .ok (.flt x) := by
  have hnn : ¬ ((k : Int) < 0) := by omega
  simp [evalExpr, ha, hi, bind, Except.bind, hnn, hx]

theorem eval_idx_tds (env : Env) (a i : Expr) (l : List Int) (k : Nat) (x : Int) (ha : evalExpr env a = .ok (.tds l))
    (hi : evalExpr env i = .ok (.int (k : Int))) (hx : l[k]? = some x) : evalExpr env (.idx a i) = .ok (.td x) := by
  have hnn : ¬ ((k : Int) < 0) := by omega
  simp [evalExpr, ha, hi, bind, Except.bind, hnn, hx]

theorem evalArgs2 (env : Env) (a b : Expr) (va vb : Val) (ha : evalExpr env a = .ok va) (hb : evalExpr env b = .ok vb) :
    evalArgs env [a, b] = .ok [va, vb] := by
  simp [evalArgs, ha, hb, bind, Except.bind]

theorem evalArgs3 (env : Env) (a b c : Expr) (va vb vc : Val) (ha : evalExpr env a = .ok va) (hb : evalExpr env b = .ok vb)
    (hc : evalExpr env c = .ok vc) : evalArgs env [a, b, c] = .ok [va, vb, vc] := by
  simp [evalArgs, ha, hb, hc, bind, Except.bind]

theorem evalBodyC_call (call : String → List Val → M Val) (env : Env) (x f : String) (args : List Expr) (rest : List Stmt)
    (vs : List Val) (ha : evalArgs env args = .ok vs) :
    evalBodyC call env (.assignCall x f args :: rest) =
      match call f vs with
      | .ok v => evalBodyC call ((x, v) :: env) rest
      | .error e => .error e := by
  simp only [evalBodyC, ha, bind, Except.bind]
  cases call f vs <;> rfl

theorem natAbs_sub_swap (a b : Int) : (a - b).natAbs = (b - a).natAbs := by
  rw [← Int.natAbs_neg, neg_sub]

theorem tsAt_tie (res : Int) (evs : List BpmEv) (tick : Int) (hint : Nat) :
    evalBodyC Gen.Leaf.timestampAtTickCalls (tsEnv res evs tick hint) Gen.Leaf.timestampAtTick =
      (tsAt res evs tick hint).map (fun r => Val.pair (.td r.1) (.int (r.2 : Int))) := by
  have hscan := scan_tie (evs.map (·.tick)) tick hint
  unfold tsAt
  -- the receiver and the arguments, as the body's expressions find them
  have e0_tick : evalExpr (tsEnv res evs tick hint) (.var "tick") = .ok (.int tick) := by
    simp [evalExpr, tsEnv, Py.lookup, List.find?]
  have e0_hint : evalExpr (tsEnv res evs tick hint) (.var "start_iteration_index") = .ok (.int (hint : Int)) := by
    simp [evalExpr, tsEnv, Py.lookup, List.find?]
  have e0_seq : evalExpr (tsEnv res evs tick hint) (.var "self.events[].tick") = .ok (.ints (L (evs.map (·.tick)))) := by
    simp [evalExpr, tsEnv, Py.lookup, List.find?]
  -- statement 1: the governing index
  rw [show Gen.Leaf.timestampAtTick = _ from rfl]
  unfold Gen.Leaf.timestampAtTick
  rw [evalBodyC_call _ _ _ _ _ _ _ (evalArgs3 _ _ _ _ _ _ _ e0_tick e0_hint e0_seq)]
  have hcall1 : Gen.Leaf.timestampAtTickCalls "self._index_of_proximal_event" [.int tick, .int (hint : Int), .ints (L (evs.map (·.tick)))] =
      evalBody [("tick", .int tick), ("start_iteration_index", .int (hint : Int)), ("self[].tick", .ints (L (evs.map (·.tick))))]
        Gen.Leaf.indexOfProximalEvent := by
    simp [Gen.Leaf.timestampAtTickCalls]
  rw [hcall1, hscan]
  cases hg : indexOfProximal (evs.map (·.tick)) tick hint with
  | error e => simp [Except.map]
  | ok g =>
    have hlt : g < evs.length := by
      have := indexOfProximal_lt _ _ _ _ hg
      simpa using this
    obtain ⟨ev, hev⟩ : ∃ ev, evs[g]? = some ev := ⟨evs[g], List.getElem?_eq_getElem hlt⟩
    have hget : evs[g] = ev := by
      have := List.getElem?_eq_getElem hlt
      rw [this] at hev; exact Option.some.inj hev
    have hT : (L (evs.map (·.tick)))[g]? = some ((ev.tick : Nat) : Int) := by
      have := L_get (evs.map (·.tick)) g (by simpa using hlt)
      rw [this]; simp [hget]
    have hB : (evs.map (·.bpm))[g]? = some ev.bpm := by simp [hev]
    have hS : (evs.map (·.ts))[g]? = some ev.ts := by simp [hev]
    simp only [Except.map, hev, bind, Except.bind, pure, Except.pure]
    -- statement 2: the distance
    have e1_idx : evalExpr (tsEnv1 res evs tick hint g) (.var "proximal_bpm_event_index") = .ok (.int (g : Int)) := by
      simp [evalExpr, tsEnv, Py.lookup]
    have e1_seqT : evalExpr (tsEnv1 res evs tick hint g) (.var "self.events[].tick") = .ok (.ints (L (evs.map (·.tick)))) := by
      simp [evalExpr, tsEnv, Py.lookup, List.find?]
    have e1_tick : evalExpr (tsEnv1 res evs tick hint g) (.var "tick") = .ok (.int tick) := by
      simp [evalExpr, tsEnv, Py.lookup, List.find?]
    have a2 := evalArgs2 (tsEnv1 res evs tick hint g) _ _ _ _ (eval_idx _ _ _ _ g _ e1_seqT e1_idx hT) e1_tick
    rw [evalBodyC_call _ (tsEnv1 res evs tick hint g) _ _ _ _ _ a2]
    have hcall2 : Gen.Leaf.timestampAtTickCalls "chartparse.tick.between" [.int ((ev.tick : Nat) : Int), .int tick] =
        evalBody [("a", .int ((ev.tick : Nat) : Int)), ("b", .int tick)] Gen.Leaf.tickBetween := by
      simp [Gen.Leaf.timestampAtTickCalls]
    rw [hcall2, between_tie]
    simp only []
    -- statement 3: the float chain
    generalize hd : (((ev.tick : Nat) : Int) - tick).natAbs = d
    have hdm : (tick - ((ev.tick : Nat) : Int)).natAbs = d := by rw [natAbs_sub_swap]; exact hd
    rw [hdm]
    have e2_d : evalExpr (tsEnv2 res evs tick hint g (d : Int)) (.var "ticks_since_proximal_bpm_event") = .ok (.int (d : Int)) := by
      simp [evalExpr, Py.lookup]
    have e2_idx : evalExpr (tsEnv2 res evs tick hint g (d : Int)) (.var "proximal_bpm_event_index") = .ok (.int (g : Int)) := by
      simp [evalExpr, Py.lookup, List.find?]
    have e2_seqB : evalExpr (tsEnv2 res evs tick hint g (d : Int)) (.var "self.events[].bpm") = .ok (.flts (evs.map (·.bpm))) := by
      simp [evalExpr, tsEnv, Py.lookup, List.find?]
    have e2_res : evalExpr (tsEnv2 res evs tick hint g (d : Int)) (.var "self.resolution") = .ok (.int res) := by
      simp [evalExpr, tsEnv, Py.lookup, List.find?]
    have a3 := evalArgs3 (tsEnv2 res evs tick hint g (d : Int)) _ _ _ _ _ _ e2_d (eval_idx_flts _ _ _ _ g _ e2_seqB e2_idx hB) e2_res
    rw [evalBodyC_call _ (tsEnv2 res evs tick hint g (d : Int)) _ _ _ _ _ a3]
    have hcall3 : Gen.Leaf.timestampAtTickCalls "chartparse.tick.seconds_from_ticks_at_bpm" [.int (d : Int), .flt ev.bpm, .int res] =
        evalBody [("ticks", .int (d : Int)), ("bpm", .flt ev.bpm), ("resolution", .int res)] Gen.Leaf.secondsFromTicksAtBpm := by
      simp [Gen.Leaf.timestampAtTickCalls]
    rw [hcall3, secs_tie]
    have hd0 : ¬ ((d : Int) < 0) := by omega
    simp only [hd0, if_false, secs, Int.toNat_natCast]
    by_cases hb : ev.bpm ≤ 0
    · simp [hb]
    by_cases hr : res ≤ 0
    · simp [hb, hr]
    simp only [hb, hr, if_false]
    -- statement 4: the sum, rounded to microseconds
    generalize hs : secsFromTicks d ev.bpm res.toNat = sec
    have hsec : 0 ≤ sec := by rw [← hs]; exact secsFromTicks_nonneg _ _ _
    have e3_idx : evalExpr (tsEnv3 res evs tick hint g (d : Int) sec) (.var "proximal_bpm_event_index") = .ok (.int (g : Int)) := by
      simp [evalExpr, Py.lookup, List.find?]
    have e3_seqS : evalExpr (tsEnv3 res evs tick hint g (d : Int) sec) (.var "self.events[].timestamp") = .ok (.tds (evs.map (·.ts))) := by
      simp [evalExpr, tsEnv, Py.lookup, List.find?]
    have e3_sec : evalExpr (tsEnv3 res evs tick hint g (d : Int) sec) (.var "seconds_since_proximal_bpm_event") = .ok (.flt sec) := by
      simp [evalExpr, Py.lookup]
    have a4 := evalArgs2 (tsEnv3 res evs tick hint g (d : Int) sec) _ _ _ _ (eval_idx_tds _ _ _ _ g _ e3_seqS e3_idx hS) e3_sec
    rw [evalBodyC_call _ (tsEnv3 res evs tick hint g (d : Int) sec) _ _ _ _ _ a4]
    have hcall4 : Gen.Leaf.timestampAtTickCalls "chartparse.time.add" [.td ev.ts, .flt sec] =
        evalBody [("ts", .td ev.ts), ("other", .flt sec)] Gen.Leaf.timeAdd := by
      simp [Gen.Leaf.timestampAtTickCalls]
    rw [hcall4, timeAdd_float_tie _ _ hsec]
    -- statement 5: the pair
    simp [evalBodyC, evalExpr, Py.lookup, List.find?, bind, Except.bind]

end Chartparse.Tie
